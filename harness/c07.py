"""C07 — classification depends only on the current rules and the transaction, not on history.

Proof: C07/Props.v (cache transparency by invariant; history independence for all histories, tied to the source's
reset of _cached_engine; frame; the pre-e98b1f7 refutation kept as history)
over C07/Model.v, whose cache-key and state-writer facts are re-read from the source on every run
(tools/c07_cache_keys.py -> Gen/C07CacheKeys.v, compared in Props.v).
Direct oracle: every operation of a generated history, run in ONE interpreter, against the same operation
in a FRESH interpreter that replayed only the last load; deep snapshots before/after (frame).
Correspondence: the model, with its oracle tables filled from fresh-process results, predicts every
in-process output, every cache-key delta and which load created the cached engine (cases.v, vm_compute)."""
import json
import os
import random
import shutil
from concurrent.futures import ThreadPoolExecutor

from common import *
import c07_cache_keys

COQ_FILES = ['C07/Model.v', 'Gen/C07CacheKeys.v', 'C07/Proofs.v', 'C07/Args.v', 'C07/Props.v']
IMPL = os.path.join(os.path.dirname(os.path.abspath(__file__)), 'impl_c07.py')
WORKDIR = os.path.join(WORK, 'c07')     # common.WORK is private to this invocation and removed at exit
KNOWN_SIG = 'C07/stale-cached-engine-after-non-rules-load'
PROOF_TRUSTED = ['tools/c07_cache_keys.py (extractor, fail closed)',
                 'harness/c07.py + harness/impl_c07.py (fresh-interpreter oracle, frame snapshots, correspondence)']
PAR = 4


# ---- extractor --------------------------------------------------------------------------------------
def regen_gen():
    text, facts, err = c07_cache_keys.generate(SRC)
    if err:
        return [err]
    regen('Gen/C07CacheKeys.v', text)
    return []


# ---- generators -------------------------------------------------------------------------------------
TOKENS = ['UBER', 'AMZN', 'COSTCO', 'NETFLIX', 'SHOP']
CATS = ['Transport', 'Shopping', 'Groceries', 'Fun', 'Bills', 'Travel', 'Misc']


def match_templates(k, k2):
    """(expression, case/whitespace twin or None).  Twins differ only by letter case or outer blanks but mean
    something else — what a cache keyed on a normalised source string would confuse."""
    return [
        (f'contains("{k}")', None),
        (f'regex("{k}\\d")', f'regex("{k}\\D")'),
        (f'regex("{k}\\s")', f'regex("{k}\\S")'),
        (f'contains("{k}") and amount > 100', None),
        (f'source == "AMEX" and contains("{k}")', f'source == "amex" and contains("{k}")'),
        (f'startswith("{k}")', None),
        (f'anyof("{k}", "{k2}")', None),
        (f'big and contains("{k}")', None),
        (f'field.kind == "ACH" and contains("{k}")', f'field.kind == "ach" and contains("{k}")'),
        (f'normalized("{k}")', None),
        (f'extract(description, "({k})") == "{k}"', f'extract(description, "({k})") == "{k.lower()}"'),
    ]


def gen_rules_file(rnd, label, twin_of=None, bad=False):
    """Text of a .rules file.  label distinguishes categories between files (overlapping patterns, different
    categories).  twin_of: list of match expressions of another file to produce case twins of."""
    lines = []
    if rnd.random() < 0.5:
        lines.append(f'big = amount > {rnd.choice([10, 100])}')
    if rnd.random() < 0.3:
        lines.append('small = amount < 20')
    if rnd.random() < 0.4:
        lines.append('field.description = regex_replace(field.description, "^APLPAY\\s+", "")')
    if rnd.random() < 0.15:
        lines.append('field.kind = lowercase(field.kind)')
    exprs = []
    n = rnd.randint(2, 5)
    for i in range(n):
        k = rnd.choice(TOKENS)
        k2 = rnd.choice(TOKENS)
        e, tw = rnd.choice(match_templates(k, k2))
        if twin_of and rnd.random() < 0.5:
            cand = [t for (_, t) in twin_of if t]
            if cand:
                e, tw = rnd.choice(cand), None
        exprs.append((e, tw))
        lines.append('')
        lines.append(f'[{label}{i} {k.title()}]')
        if rnd.random() < 0.25:
            lines.append('let: n = amount * 2')
            e = e + ' and n > 8'
        if rnd.random() < 0.15:
            lines.append('let: hits = [r.item for r in orders if r.amount == amount]')
        lines.append('match: ' + e)
        tag_only = rnd.random() < 0.2
        if not tag_only:
            lines.append(f'category: {rnd.choice(CATS)}-{label}')
            if rnd.random() < 0.6:
                lines.append(f'subcategory: sub{label}{i}')
            if rnd.random() < 0.3:
                lines.append(f'merchant: {k.title()} {label}')
        if tag_only or rnd.random() < 0.4:
            tags = rnd.sample([f't{label.lower()}', 'shared', '{field.kind}', '{source}', 'x' + str(i)], rnd.randint(1, 3))
            if 'hits' in ' '.join(lines[-6:]) and rnd.random() < 0.7:
                tags.append('{hits}')
            lines.append('tags: ' + ', '.join(tags))
        if rnd.random() < 0.2:
            lines.append('field: up = uppercase(description)')
        if rnd.random() < 0.1:
            lines.append(f'priority: {rnd.randint(1, 99)}')
    if bad:
        pos = rnd.choice(['end', 'end', 'middle'])
        broken = rnd.choice([
            ['', '[Broken]', 'category: X'],                          # no match expression
            ['', '[Broken]', 'match: contains("UBER"', 'category: X'],  # syntax error in the expression
            ['', '[Broken]', 'match: contains("UBER")', 'bogus: 1', 'category: X'],
            ['', '[ ]', 'match: contains("UBER")', 'category: X'],
            ['', '[Broken]', 'match: contains("UBER")'],              # neither category nor tags
            ['', '[Broken]', 'match: contains("UBER")', 'category: X', 'priority: high'],
        ])
        if pos == 'end':
            lines += broken
        else:
            cut = next((j for j, l in enumerate(lines) if l.startswith('[')), len(lines))
            lines = lines[:cut] + broken[1:] + [''] + lines[cut:]
    return '\n'.join(lines) + '\n', exprs


def gen_csv_file(rnd, label):
    rows = ['Pattern,Merchant,Category,Subcategory,Tags']
    for i in range(rnd.randint(1, 5)):
        k = rnd.choice(TOKENS)
        pat = rnd.choice([k, k, k + '\\d', k + '\\D', k + '\\s', k + '[amount>100]', k.lower(),
                          f'contains("{k}") and amount > 20', k + '.*' + rnd.choice(TOKENS)])
        tags = rnd.choice(['', '', f't{label.lower()}', 'shared|csv'])
        cat = '' if (tags and rnd.random() < 0.3) else f'{rnd.choice(CATS)}-{label}'
        rows.append(f'"{pat.replace(chr(34), chr(34) * 2)}",{k.title()} {label},{cat},sub{label}{i},{tags}')
    if rnd.random() < 0.2:
        rows.insert(2, '# a comment line')
    return '\n'.join(rows) + '\n'


def insert_rule(text, var_line, rule_text):
    """put a top-level assignment at the very top and a rule in front of the first [header] (top-level lines are
    only legal before the first rule)"""
    lines = text.split('\n')
    cut = next((j for j, l in enumerate(lines) if l.startswith('[')), len(lines))
    head = ([var_line] if var_line else []) + lines[:cut]
    return '\n'.join(head + rule_text.rstrip('\n').split('\n') + [''] + lines[cut:])


DESCS = ['UBER TRIP 123', 'UBER EATS', 'AMZN5 MKTP', 'AMZNX MKTP', 'AMZN MKTP US', 'APLPAY COSTCO WHSE', 'COSTCO GAS',
         'NETFLIX.COM', 'SHOP 42', 'SHOPX', 'uber trip', 'Coffee Bar', 'AMZN', 'COSTCO7 UBER']


def gen_universe(rnd, uid):
    a_text, a_exprs = gen_rules_file(rnd, 'A')
    b_text, _ = gen_rules_file(rnd, 'B', twin_of=a_exprs)
    d_text, _ = gen_rules_file(rnd, 'D', bad=True)
    files = {'A': {'suffix': '.rules', 'text': a_text}, 'C': {'suffix': '.csv', 'text': gen_csv_file(rnd, 'C')},
             'D': {'suffix': '.rules', 'text': d_text}}
    r = rnd.random()
    if r < 0.7:
        files['B'] = {'suffix': '.rules', 'text': b_text}
    elif r < 0.85:
        files['E'] = {'suffix': '.csv', 'text': gen_csv_file(rnd, 'E')}
    txns = []
    for i in range(rnd.randint(2, 4)):
        f = rnd.choice([None, {'kind': 'ACH', 'memo': 'REF 1'}, {'kind': 'wire'}, {'kind': 'ach'}])
        t = {'description': rnd.choice(DESCS), 'amount': rnd.choice([5.0, 15.0, 50.0, 250.0, -20.0]),
             'date': rnd.choice(['2025-01-15', '2025-12-03']), 'field': f,
             'source': rnd.choice(['AMEX', 'amex', 'Chase', None]), 'location': rnd.choice([None, 'WA'])}
        if rnd.random() < 0.15:
            t['via'] = 'csv'            # classified through parsers.parse_generic_csv
            t['field'] = {'kind': (f or {}).get('kind', 'ACH')}
        txns.append(t)
    k = rnd.choice(TOKENS)
    # two transactions on which every case twin below means something different
    txns.append({'description': f'{k}5 MKTP', 'amount': 50.0, 'date': '2025-01-15', 'field': {'kind': 'ACH'},
                 'source': 'AMEX', 'location': None})
    txns.append({'description': f'{k} x{k.lower()}', 'amount': 250.0, 'date': '2025-12-03', 'field': {'kind': 'ach'},
                 'source': 'amex', 'location': None})
    twins = [(a, b) for a, b in match_templates(k, rnd.choice(TOKENS)) if b]
    leak = None
    # a top-level variable defined by A only and used by another .rules file: what a re-parse that forgets to
    # reset engine state would leak
    if rnd.random() < 0.7:
        other = 'B' if 'B' in files else 'D'
        if not files['A']['text'].startswith('big ='):
            files['A']['text'] = 'big = amount > 10\n' + files['A']['text']
        body = '\n'.join(l for l in files[other]['text'].split('\n') if not l.startswith('big ='))
        files[other]['text'] = insert_rule(body, '', f'[{other}v {k.title()}]\nmatch: big and contains("{k}")\ncategory: Var-{other}\n')
        leak = other
    # top-level variables that read data only SOME transactions have (a captured field; a supplemental row with
    # the same amount) and rules that use them: evaluating the variable raises for the other transactions, which
    # must not influence any later transaction (engine-internal memo / state)
    partial = []
    txns.append({'description': f'{k} NOFIELD', 'amount': 250.0, 'date': '2025-01-15', 'field': None,
                 'source': 'Chase', 'location': None})          # both variables below raise on this one
    for name in sorted(n_ for n_, f in files.items() if f['suffix'] == '.rules'):
        if rnd.random() < (0.85 if name == 'A' else 0.4):
            var, rule = rnd.choice([
                ('is_ach = field.kind == "ACH"', f'is_ach and contains("{k}")'),
                ('top_item = [r.item for r in orders if r.amount == amount][0]', f'top_item == "Book" and contains("{k}")'),
                ('is_low = field.kind == "ach"', f'is_low and contains("{k}")'),
            ])
            files[name]['text'] = insert_rule(files[name]['text'], var, f'[{name}p {k.title()}]\nmatch: {rule}\n'
                                              f'category: Partial-{name}\n' + rnd.choice(['', 'tags: partial\n']))
            partial.append(name)
    # a rule whose dynamic tag takes different values on different transactions of the same load
    files['A']['text'] = insert_rule(files['A']['text'], '', f'[Adyn {k.title()}]\nmatch: contains("{k}")\ntags: dyn, {{field.kind}}\n')
    txns.append({'description': f'APLPAY {k} WIRE MKTP', 'amount': 15.0, 'date': '2025-01-15', 'field': {'kind': 'wire'},
                 'source': 'Chase', 'location': None})
    # supplemental rows whose `date` cell is a parsed date for some rows and the raw string for others (what
    # load_supplemental_sources leaves for an unparseable cell); a rule comparing it with a string literal; two
    # transactions selecting one row each — the operand's TYPE varies between evaluations of the same expression text
    order_expr = f'contains("{k}") and any(r.date <= "2025-06-30" for r in orders if r.ref == field.ref)'
    files['A']['text'] = insert_rule(files['A']['text'], '', f'[Aord {k.title()}]\nmatch: {order_expr}\ncategory: Orders-A\n')
    txns.append({'description': f'{k} ORDER A1', 'amount': 31.0, 'date': '2025-01-15', 'field': {'ref': 'A1', 'kind': 'card'},
                 'source': 'Chase', 'location': None})
    txns.append({'description': f'{k} ORDER B2', 'amount': 32.0, 'date': '2025-01-15', 'field': {'ref': 'B2', 'kind': 'card'},
                 'source': 'Chase', 'location': None})
    # most_specific mode: two files sharing a character-identical match text (and let / field names) with different
    # priorities, values and tags — what a memo keyed by expression text or by name would confuse across files
    shared = f'contains("{k}") and n > 0'
    if uid < 3:
      files['P1'] = {'suffix': '.rules', 'mode': 'most_specific', 'text':
                     f'[P1 {k.title()}]\nlet: n = amount * 2\nmatch: {shared}\ncategory: Prio-P1\nsubcategory: one\n'
                     f'merchant: P1 {k}\ntags: p1, {{field.kind}}\nfield: up = uppercase(description)\npriority: 90\n'}
      files['P2'] = {'suffix': '.rules', 'mode': 'most_specific', 'text':
                     f'[P2 any {k.title()}]\nlet: n = amount * 3\nmatch: {shared}\ncategory: Low-P2\nsubcategory: two\n'
                     f'merchant: P2 {k}\ntags: p2, {{source}}\nfield: up = lowercase(description)\npriority: 10\n\n'
                     f'[P2 spec {k.title()}]\nmatch: contains("{k}5")\ncategory: Spec-P2\n'}
    # the same (text, pattern) scored under different trailing arguments: fuzzy() with a lenient, then a strict
    # threshold on texts holding a near-miss before the exact occurrence; F1/F2 are rule files, F3 expression-style CSV
    full = uid < 3          # the text-independent probe families run in the first universes only (they always run)
    if full:
      txns.append({'description': 'AMAZN MKTP AMAZON.COM', 'amount': 20.0, 'date': '2025-01-15', 'field': {'vendor': 'STARBUCK STARBUCKS'},
                   'source': 'Chase', 'location': None})
      txns.append({'description': 'STARBUCK STARBUCKS 0123', 'amount': 6.0, 'date': '2025-01-15', 'field': {'vendor': 'AMAZN AMAZON'},
                   'source': 'Chase', 'location': None})
      files['F1'] = {'suffix': '.rules', 'text': '[F1 Amazon]\nmatch: fuzzy("AMAZON")\ncategory: Lenient-F1\n\n'
                     '[F1 Sbux]\nmatch: fuzzy("STARBUCKS", 0.85)\ncategory: Lenient-F1\nsubcategory: coffee\n\n'
                     '[F1 Vendor]\nmatch: fuzzy(field.vendor, "STARBUCKS")\ntags: vendorish\n'}
      files['F2'] = {'suffix': '.rules', 'text': '[F2 Amazon]\nmatch: fuzzy("AMAZON", 0.95)\ncategory: Strict-F2\n\n'
                     '[F2 Sbux]\nmatch: fuzzy("STARBUCKS", 0.97)\ncategory: Strict-F2\nsubcategory: coffee\n\n'
                     '[F2 Vendor]\nmatch: fuzzy(field.vendor, "STARBUCKS", 0.95)\ntags: vendor\n'}
      files['F3'] = {'suffix': '.csv', 'text': 'Pattern,Merchant,Category,Subcategory,Tags\n'
                     '"fuzzy(""AMAZON"", 0.95)",Amazon F3,Strict-F3,s,\n"fuzzy(""STARBUCKS"", 0.97)",Sbux F3,Strict-F3,c,\n'}
    # text cells of a supplemental row that look like numbers, read by attribute for SOME transactions only (behind the
    # amount filter) and by subscript elsewhere: rows must never be rewritten by an evaluation
    files['A']['text'] = insert_rule(files['A']['text'], '',
                                     f'[Aqty {k.title()}]\nmatch: contains("{k}") and any(r.qty == "2" for r in orders if r.amount == amount)\n'
                                     f'tags: qty-attr\n\n[Asub {k.title()}]\nmatch: contains("{k}") and any(r[\'qty\'] == "2" for r in orders)\n'
                                     f'tags: qty-sub, {{orders[0][\'fee\']}}\n')
    if full:
        # a *.rules file whose content is legacy CSV (merchant_categories.csv renamed by hand): the .rules parser rejects
        # it, the CSV fallback of get_all_rules reads it
        files['R'] = {'suffix': '.rules', 'text': f'Pattern,Merchant,Category,Subcategory\n{k},{k.title()} R,Renamed-R,csv\nNETFLIX,Netflix R,Subs-R,tv\n'}
    if full:
        # the same transaction handed over WITHOUT supplemental rows (legacy amex/boa parsers) and with OTHER rows
        for base in (f'{k} ORDER A1', f'{k}5 MKTP'):
            t0 = next(t for t in txns if t['description'] == base)
            txns.append(dict(t0, description=base, ds='none', tag='nods:' + base))
            txns.append(dict(t0, description=base, ds='alt', tag='altds:' + base))
        # a name bound with := behind a short-circuit by one rule, read through let: by another (evaluator scope)
        txns.append({'description': 'WIRE ID77 INCOMING', 'amount': 70.0, 'date': '2025-01-15', 'field': None, 'source': 'Chase',
                     'location': None})
        txns.append({'description': 'DIRECT DEP REF:ACME', 'amount': 900.0, 'date': '2025-01-15', 'field': None, 'source': 'Chase',
                     'location': None})
        files['W1'] = {'suffix': '.rules', 'text':
                       '[W wire]\nmatch: contains("WIRE") and (ref := extract(description, "ID(\\d+)")) != ""\ncategory: Wire-W\n'
                       'tags: {ref}\n\n'
                       '[W pay]\nlet: ref = extract(description, "REF:(\\w+)")\nmatch: ref == "ACME"\ncategory: Income-W\n'
                       'subcategory: Salary\n\n'
                       '[W amt]\nmatch: contains("DEP") and amount > 500\ntags: big-dep\n'}
        files['W2'] = {'suffix': '.rules', 'text': 'ref = "none"\n[W2 any]\nmatch: (amount := 1) > 0 and contains("WIRE")\ncategory: Any-W2\n\n'
                       '[W2 ref]\nmatch: ref == "none" and contains("DEP")\ncategory: Ref-W2\n'}
    # the SAME path rewritten with another rule set: A2 = A with different transforms and one more tag-only rule;
    # Am = A's text loaded in most_specific mode; M = the file deleted
    t1 = 'field.description = regex_replace(field.description, "^APLPAY\\s+", "")'
    t2 = 'field.description = regex_replace(field.description, "MKTP", "MARKET")'
    base = '\n'.join(l for l in files['A']['text'].split('\n') if not l.startswith('field.description ='))
    files['A']['text'] = t1 + '\n' + base
    files['A2'] = {'suffix': '.rules', 'text': insert_rule(t2 + '\n' + base, '', f'[A2t {k.title()}]\nmatch: contains("MARKET")\ntags: rewritten\n')}
    if uid % 2 == 0:
        files['Am'] = {'suffix': '.rules', 'text': files['A']['text'], 'mode': 'most_specific'}
    if uid % 3 == 0:
        files['M'] = {'suffix': '.rules', 'text': None}
    pool = [e for tpl in match_templates(k, rnd.choice(TOKENS)) for e in tpl if e]
    exprs = rnd.sample(pool, 4) + rnd.sample(
        ['amount > 100', ' amount > 100 ', 'Amount > 100', 'amount >', '__import__("os")', 'description.lower()',
         '[r.item for r in orders if r.amount == amount]', 'month == 12', 'len([1])', 'regex("(")'], 3)
    for e, tw in a_exprs:
        if rnd.random() < 0.3:
            exprs.append(e)
    fexprs = ['sum(payments) > 10 and "x" in tags', 'count(payments) > 1', 'amount > 100']
    def ix(prefix):
        return max([j for j, t in enumerate(txns) if t['description'].startswith(prefix) and 'tag' not in t], default=None)
    def itag(tag):
        return next((j for j, t in enumerate(txns) if t.get('tag') == tag), None)
    tx = {'a1_nods': itag(f'nods:{k} ORDER A1'), 'a1_alt': itag(f'altds:{k} ORDER A1'), 'tw1_nods': itag(f'nods:{k}5 MKTP'),
          'tw1_alt': itag(f'altds:{k}5 MKTP'), 'w_t1': ix('WIRE ID77'), 'w_t2': ix('DIRECT DEP REF'),
          'tw1': ix(f'{k}5 MKTP'), 'tw2': ix(f'{k} x{k.lower()}'), 'nofield': ix(f'{k} NOFIELD'), 'wire': ix(f'APLPAY {k} WIRE'),
          'ord_a1': ix(f'{k} ORDER A1'), 'ord_b2': ix(f'{k} ORDER B2'), 'fz1': ix('AMAZN MKTP'), 'fz2': ix('STARBUCK STARBUCKS')}
    return {'id': uid, 'full': uid < 3, 'tx': tx, 'files': files, 'txns': txns, 'exprs': exprs, 'filter_exprs': fexprs, 'twins': twins, 'leak': leak, 'partial': partial,
            'order_expr': order_expr,
            'data_sources_alt': {'orders': [{'item': 'Lamp', 'amount': 50.0, 'ref': 'A1', 'date': '2025-09-01'},
                                            {'item': 'Desk', 'amount': 31.0, 'ref': 'Z9', 'date': {'__date__': '2025-01-02'}}],
                                 'refunds': [{'ref': 'A1', 'amount': 31.0}]},
            'data_sources': {'orders': [{'item': 'Book', 'amount': 50.0, 'ref': 'A1', 'date': {'__date__': '2025-05-12'},
                                         'qty': '2', 'fee': '$1,299.00', 'code': '007'},
                                        {'item': 'Pen', 'amount': 5.0, 'ref': 'B2', 'date': '06/15/2025',
                                         'qty': '1', 'fee': '-12.50', 'code': 'X1'}]}}


def gen_op(rnd, uni, weights=(30, 35, 12, 8, 12, 3)):
    names = sorted(uni['files'])
    k = rnd.choices(['load', 'classify', 'eval', 'engparse', 'engmatch', 'evalf'], weights)[0]
    if k == 'load':
        o = {'op': 'load', 'file': rnd.choice(names + [None])}
        if o['file'] is not None and rnd.random() < 0.5:
            o['order'] = 'cli'
        return o
    if k == 'classify':
        return {'op': 'classify', 'txn': rnd.randrange(len(uni['txns']))}
    if k == 'eval':
        return {'op': 'eval', 'src': rnd.choice(uni['exprs']), 'txn': rnd.randrange(len(uni['txns']))}
    if k == 'evalf':
        return {'op': 'eval', 'src': rnd.choice(uni['filter_exprs'] + uni['exprs'][:2]), 'txn': 'filter'}
    if k == 'engparse':
        return {'op': 'engparse', 'file': rnd.choice([n for n in names if uni['files'][n]['text'] is not None])}
    return {'op': 'engmatch', 'txn': rnd.randrange(len(uni['txns']))}


def gen_history(rnd, uni):
    n = rnd.randint(2, 12)
    h = [gen_op(rnd, uni) for _ in range(n)]
    if not any(o['op'] == 'classify' for o in h):
        h[-1] = {'op': 'classify', 'txn': rnd.randrange(len(uni['txns']))}
    if sum(o['op'] == 'load' for o in h) < 2 and n >= 3 and rnd.random() < 0.8:
        h[0] = {'op': 'load', 'file': rnd.choice(sorted(uni['files']))}
        h[n // 2] = {'op': 'load', 'file': rnd.choice(sorted(uni['files']) + [None])}
    return h


def twin_histories(rnd, uni, n):
    """evaluate an expression, then its case twin (same text up to letter case, different meaning) on the same
    transaction — and, for rule files, classify under A then under a file holding the twin rule"""
    out = []
    nt = len(uni['txns'])
    for _ in range(n):
        a, b = rnd.choice(uni['twins'])
        if rnd.random() < 0.5:
            a, b = b, a
        t = rnd.choice([uni['tx']['tw1'], uni['tx']['tw2']])
        h = [{'op': 'eval', 'src': a, 'txn': t}, {'op': 'eval', 'src': rnd.choice([b, b, ' ' + b, b + ' ']), 'txn': t}]
        if rnd.random() < 0.3:
            h.insert(0, {'op': 'load', 'file': rnd.choice(sorted(uni['files']))})
            h.append({'op': 'classify', 'txn': t})
        out.append(h)
    return out


def reparse_histories(rnd, uni, n):
    """one engine object parsed twice, then matched: engine.parse must forget everything of the first file"""
    out = []
    nt = len(uni['txns'])
    rules = sorted(n_ for n_, f in uni['files'].items() if f['suffix'] == '.rules' and f['text'] is not None)
    for j in range(n):
        a, b = rnd.choice(rules), rnd.choice(rules)
        if j == 0 and uni.get('leak'):
            a, b = 'A', uni['leak']
        out.append([{'op': 'engparse', 'file': a}, {'op': 'engparse', 'file': b},
                    {'op': 'engmatch', 'txn': rnd.choice([uni['tx']['tw1'], uni['tx']['tw2']])}, {'op': 'engmatch', 'txn': rnd.randrange(nt)}])
    return out


def partial_variable_histories(rnd, uni, n):
    """a transaction on which a top-level variable raises FIRST, then one on which it is defined and decides the
    rule — through get_all_rules + normalize_merchant and through one long-lived MerchantEngine.match"""
    out = []
    nt = len(uni['txns'])
    bad, good = uni['tx']['nofield'], [uni['tx']['tw1'], uni['tx']['tw2']]   # the two twin transactions have field + amount
    for j in range(n):
        if not uni.get('partial'):
            break
        f = uni['partial'][j % len(uni['partial'])]
        first = [bad] if rnd.random() < 0.7 else [rnd.randrange(nt), bad]
        seq = first + good + ([rnd.randrange(nt)] if rnd.random() < 0.5 else [])
        if j % 2 == 0:
            out.append([{'op': 'load', 'file': f}] + [{'op': 'classify', 'txn': t} for t in seq])
        else:
            out.append([{'op': 'engparse', 'file': f}] + [{'op': 'engmatch', 'txn': t} for t in seq])
    return out


ARG_VARIANTS = [
    ('fuzzy("AMAZON", 0.5)', 'fuzzy("AMAZON", 0.95)', 'fz1'),
    ('fuzzy("STARBUCKS")', 'fuzzy("STARBUCKS", 0.97)', 'fz2'),
    ('fuzzy(field.vendor, "AMAZON", 0.8)', 'fuzzy(field.vendor, "AMAZON", 0.99)', 'fz2'),
    ('substring(0, 3)', 'substring(0, 5)', 'fz1'),
    ('split(" ", 0)', 'split(" ", 1)', 'fz1'),
    ('regex_replace(description, "AMA", "x")', 'regex_replace(description, "AMA", "y")', 'fz1'),
    ('extract(description, "(AMA\\w+)")', 'extract(description, "AMA\\w+ (\\w+)")', 'fz1'),
    ('round(amount / 3, 0)', 'round(amount / 3, 2)', 'fz1'),
    ('strip_prefix(description, "AMAZN ")', 'strip_prefix(description, "AMAZ")', 'fz1'),
]


SCOPE_PROBES = [
    ('(k := 5) > 0', 'k > 0'),
    ('(amount := 1) > 0', 'amount > 10'),
    ('(description := "X") == "X"', 'contains("MKTP")'),
    ('any(r.amount > 1 for r in orders)', 'r'),
    ('[x.item for x in orders]', 'x'),
    ('any(row.ref == "A1" for row in orders) and (hit := "yes") == "yes"', 'hit'),
    ('(orders := 3) > 0', '[r.item for r in orders]'),
    ('(big := True) and contains("MKTP")', 'big'),
]


def rewrite_histories(uni):
    """ALWAYS run: the same path is rewritten with another rule set (other transforms, other tag-only rules, other
    match mode, or deleted) and reloaded in the CLI's order get_transforms -> get_tag_only_rules -> get_all_rules,
    then classified; and a rule with a dynamic tag classified on transactions giving different tag values"""
    nt = len(uni['txns'])
    T = uni['tx']
    wire, nofield, tw1, tw2, ord_a1, ord_b2 = T['wire'], T['nofield'], T['tw1'], T['tw2'], T['ord_a1'], T['ord_b2']
    cls = [{'op': 'classify', 'txn': t} for t in (wire, tw1)]
    out = []
    pairs = [('A', 'A2'), ('A2', 'A')] + ([('A', 'Am'), ('Am', 'A')] if 'Am' in uni['files'] else []) + \
            ([('A', 'M'), ('M', 'A2')] if 'M' in uni['files'] else [])
    for a, b in pairs:
        out.append([{'op': 'load', 'file': a, 'order': 'cli'}] + cls[:1] + [{'op': 'load', 'file': b, 'order': 'cli'}] + cls)
    out.append([{'op': 'load', 'file': 'A'}, {'op': 'load', 'file': 'A2', 'order': 'cli'}] + cls)
    out.append([{'op': 'load', 'file': 'A', 'order': 'cli'}, {'op': 'load', 'file': 'C'}, {'op': 'load', 'file': 'A2', 'order': 'cli'}] + cls)
    # dynamic tag: ach, then wire, then a transaction without the field, then ach again
    seq = [tw1, wire, nofield, tw2, wire]
    out.append([{'op': 'load', 'file': 'A', 'order': 'cli'}] + [{'op': 'classify', 'txn': t} for t in seq])
    out.append([{'op': 'engparse', 'file': 'A'}] + [{'op': 'engmatch', 'txn': t} for t in seq])
    # the date-typed evaluation first, then the string-typed one of the SAME expression text — through the rule file,
    # through one engine, through evaluate_transaction, and across a reload / another rule file
    e = uni['order_expr']
    out.append([{'op': 'load', 'file': 'A', 'order': 'cli'}, {'op': 'classify', 'txn': ord_a1}, {'op': 'classify', 'txn': ord_b2}])
    out.append([{'op': 'engparse', 'file': 'A'}, {'op': 'engmatch', 'txn': ord_a1}, {'op': 'engmatch', 'txn': ord_b2}])
    out.append([{'op': 'eval', 'src': e, 'txn': ord_a1}, {'op': 'eval', 'src': e, 'txn': ord_b2}, {'op': 'eval', 'src': e, 'txn': ord_a1}])
    out.append([{'op': 'eval', 'src': e, 'txn': ord_a1}, {'op': 'load', 'file': 'A2', 'order': 'cli'}, {'op': 'classify', 'txn': ord_b2}])
    # numeric-looking text cells: attribute read reached only for the amount-50 transaction, subscript read for all
    qa, qs = '[r.qty for r in orders if r.amount == amount]', "[r['qty'] for r in orders]"
    out.append([{'op': 'eval', 'src': qs, 'txn': wire}, {'op': 'eval', 'src': qa, 'txn': tw1}, {'op': 'eval', 'src': qs, 'txn': wire},
                {'op': 'eval', 'src': "[r.fee for r in orders] == [r['fee'] for r in orders]", 'txn': wire}])
    out.append([{'op': 'load', 'file': 'A', 'order': 'cli'}, {'op': 'classify', 'txn': wire}, {'op': 'classify', 'txn': tw1},
                {'op': 'classify', 'txn': wire}])
    out.append([{'op': 'engparse', 'file': 'A'}, {'op': 'engmatch', 'txn': tw1}, {'op': 'engmatch', 'txn': wire}])
    if not uni.get('full'):
        return out
    # a .rules path that fails to parse and is read as CSV instead: alone in the CLI's order, reloaded, after another failure
    out.append([{'op': 'load', 'file': 'R', 'order': 'cli'}, {'op': 'classify', 'txn': tw1}])
    out.append([{'op': 'load', 'file': 'R'}, {'op': 'classify', 'txn': tw1}, {'op': 'load', 'file': 'R'}, {'op': 'classify', 'txn': tw1}])
    out.append([{'op': 'load', 'file': 'D', 'order': 'cli'}, {'op': 'load', 'file': 'R'}, {'op': 'classify', 'txn': tw1},
                {'op': 'load', 'file': 'D'}, {'op': 'load', 'file': 'R', 'order': 'cli'}, {'op': 'classify', 'txn': tw1}])
    # most_specific: a rule text scored under P1 (priority 90), then P2 (same text, priority 10) decides between its rules
    for a, b in (('P1', 'P2'), ('P2', 'P1')):
        out.append([{'op': 'load', 'file': a, 'order': 'cli'}, {'op': 'classify', 'txn': tw1}, {'op': 'classify', 'txn': wire},
                    {'op': 'load', 'file': b, 'order': 'cli'}, {'op': 'classify', 'txn': tw1}, {'op': 'classify', 'txn': wire}])
        out.append([{'op': 'engparse', 'file': a}, {'op': 'engmatch', 'txn': tw1}, {'op': 'engparse', 'file': b},
                    {'op': 'engmatch', 'txn': tw1}, {'op': 'engmatch', 'txn': wire}])
    out.append([{'op': 'engparse', 'file': 'P1'}, {'op': 'engmatch', 'txn': tw1}, {'op': 'load', 'file': 'P2'}, {'op': 'classify', 'txn': tw1}])
    # lenient first, then strict (and the harmless other order), on both near-miss texts
    fz = [T['fz1'], T['fz2']]
    for a, b in (('F1', 'F2'), ('F2', 'F1'), ('F1', 'F3')):
        out.append([{'op': 'load', 'file': a, 'order': 'cli'}] + [{'op': 'classify', 'txn': t} for t in fz] +
                   [{'op': 'load', 'file': b, 'order': 'cli'}] + [{'op': 'classify', 'txn': t} for t in fz])
    out.append([{'op': 'engparse', 'file': 'F1'}] + [{'op': 'engmatch', 'txn': t} for t in fz] +
               [{'op': 'engparse', 'file': 'F2'}] + [{'op': 'engmatch', 'txn': t} for t in fz])
    # supplemental rows are an ARGUMENT of each classification: with rows, then without / with other rows (and back)
    for with_, other in ((ord_a1, T['a1_nods']), (ord_a1, T['a1_alt']), (tw1, T['tw1_nods']), (tw1, T['tw1_alt'])):
        seq = [with_, other, with_]
        out.append([{'op': 'load', 'file': 'A', 'order': 'cli'}] + [{'op': 'classify', 'txn': t} for t in seq])
        out.append([{'op': 'engparse', 'file': 'A'}] + [{'op': 'engmatch', 'txn': t} for t in seq])
    out.append([{'op': 'eval', 'src': e, 'txn': ord_a1}, {'op': 'eval', 'src': e, 'txn': T['a1_nods']},
                {'op': 'eval', 'src': '[r.item for r in orders if r.amount == amount]', 'txn': T['tw1_alt']},
                {'op': 'eval', 'src': '[r.item for r in orders if r.amount == amount]', 'txn': T['tw1_nods']}])
    # evaluator scope: a := binding, a comprehension / generator variable, a shadowed primitive must not outlive the
    # evaluation that made them — across rules, transactions, expressions and reloads
    for f in ('W1', 'W2'):
        out.append([{'op': 'load', 'file': f, 'order': 'cli'}, {'op': 'classify', 'txn': T['w_t1']}, {'op': 'classify', 'txn': T['w_t2']}])
        out.append([{'op': 'engparse', 'file': f}, {'op': 'engmatch', 'txn': T['w_t1']}, {'op': 'engmatch', 'txn': T['w_t2']}])
    out.append([{'op': 'load', 'file': 'W2', 'order': 'cli'}, {'op': 'classify', 'txn': T['w_t1']}, {'op': 'load', 'file': 'W1', 'order': 'cli'},
                {'op': 'classify', 'txn': T['w_t2']}, {'op': 'load', 'file': 'A', 'order': 'cli'}, {'op': 'classify', 'txn': tw1}])
    if uni['id'] == 0:
        for e1, e2 in SCOPE_PROBES:
            out.append([{'op': 'eval', 'src': e1, 'txn': tw1}, {'op': 'eval', 'src': e2, 'txn': tw1}])
    # the same call with other trailing arguments, both orders (a memo whose key leaves an argument out)
    for e1, e2, t in (ARG_VARIANTS if uni['id'] == 0 else ARG_VARIANTS[:2]):
        tt = T[t]
        out.append([{'op': 'eval', 'src': e1, 'txn': tt}, {'op': 'eval', 'src': e2, 'txn': tt}, {'op': 'eval', 'src': e1, 'txn': tt}])
        out.append([{'op': 'eval', 'src': e2, 'txn': tt}, {'op': 'eval', 'src': e1, 'txn': tt}])
    return out


def systematic_histories(uni):
    """every ordered pair of loads (incl. no path), followed by two classifications"""
    names = [n for n in ('A', 'A2', 'B', 'C', 'D') if n in uni['files']] + [None]
    out = []
    for a in names:
        for b in names:
            out.append([{'op': 'load', 'file': a, 'order': 'cli'}, {'op': 'load', 'file': b, 'order': 'cli'}, {'op': 'classify', 'txn': 0},
                        {'op': 'classify', 'txn': len(uni['txns']) - 1}])
    return out


# ---- running -----------------------------------------------------------------------------------------
def impl_env():
    os.makedirs(WORKDIR, exist_ok=True)
    os.environ['C07_WORK'] = WORKDIR


def run_history(uni, hist, last_only=False):
    return run_impl(IMPL, {'universe': uni, 'history': hist, 'last_only': last_only}, timeout=120)['results']


def replay_prefix(hist, op=None):
    """What the fresh process replays before `op` (Model.relevant_prefix): nothing for a load, an engine.parse or an
    expression evaluation; only the last load for a classification; only the last engine.parse for engine.match."""
    kind = op['op'] if op else None
    if kind == 'classify':
        ll = next((o for o in reversed(hist) if o['op'] == 'load'), None)
        return [ll] if ll else []
    if kind == 'engmatch':
        lp = next((o for o in reversed(hist) if o['op'] == 'engparse'), None)
        return [lp] if lp else []
    return []


class Fresh:
    """Results of operations in fresh interpreters, one subprocess per distinct (replayed prefix, operation)."""

    def __init__(self, uni):
        self.uni, self.memo, self.spawned = uni, {}, 0

    @staticmethod
    def canon(o):
        """the reference for a load is ALWAYS get_all_rules first: which of get_transforms / get_tag_only_rules /
        get_all_rules a caller asks first must not matter (the model's Load f is one operation)"""
        return {k: v for k, v in o.items() if k != 'order'} if o.get('op') == 'load' else o

    @classmethod
    def key(cls, prefix, op):
        return json.dumps([[cls.canon(x) for x in prefix], cls.canon(op)], sort_keys=True)

    def need(self, reqs, pool):
        todo = {}
        for prefix, op in reqs:
            k = self.key(prefix, op)
            if k not in self.memo and k not in todo:
                todo[k] = ([self.canon(x) for x in prefix], self.canon(op))
        futs = {k: pool.submit(run_history, self.uni, p + [o], True) for k, (p, o) in todo.items()}
        for k, f in futs.items():
            self.memo[k] = f.result()[0]
            self.spawned += 1

    def get(self, prefix, op):
        return self.memo[self.key(prefix, op)]


def builds_engine(fresh, name):
    if name is None:
        return False
    return bool(fresh.get([], {'op': 'load', 'file': name})['engine_built'])


def mirror_states(hist, fresh, fx):
    """Model state before each operation, for table filling only (the Coq model is the judge): (file whose
    engine is cached, file of the last load, file of the last engine.parse); '-' = none yet."""
    cached, cur, eng = None, '-', None
    out = []
    for o in hist:
        out.append((cached, cur, eng))
        if o['op'] == 'load':
            b = builds_engine(fresh, o['file'])
            cached = o['file'] if b else (None if fx else cached)
            cur = o['file'] if o['file'] is not None else '-'
        elif o['op'] == 'engparse':
            eng = o['file']
    return out


def minimal_history(state, op):
    """Shortest history that puts a fresh process into the model state `state` (for Classify: cached engine
    from file c, caller's rules from file u)."""
    c, u, e = state
    if op['op'] == 'classify':
        pre = []
        if c is not None and c != u:
            pre.append({'op': 'load', 'file': c})
        if u != '-' or c is not None:
            pre.append({'op': 'load', 'file': None if u == '-' else u})
        return pre
    if op['op'] == 'engmatch':
        return [{'op': 'engparse', 'file': e}] if e is not None else []
    return []


def differs(a, b):
    return a['out'] != b['out']


def signature(uni, hist, i, res, fresh):
    """A predicate over the failing comparison: the known defect is exactly 'a classification after a
    non-.rules load (CSV, unparsable, none) is answered by the engine of the last successful .rules load'."""
    o = hist[i]
    if not differs(res[i], fresh.get(replay_prefix(hist[:i], o), o)):      # same result, but state was damaged
        if res[i]['frame']:
            return 'C07/frame-' + o['op'] + ':' + '+'.join(sorted(res[i]['frame']))
        if res[i].get('lost'):
            return 'C07/cache-entry-removed'
        return 'C07/cached-value-mutated'
    if o['op'] != 'classify':
        return 'C07/history-dependent-' + o['op']
    loads = [j for j in range(i) if hist[j]['op'] == 'load']
    if not loads:
        return 'C07/history-dependent-classify'
    last = loads[-1]
    eng = [j for j in loads if builds_engine(fresh, hist[j]['file'])]
    if builds_engine(fresh, hist[last]['file']) or not eng:
        return 'C07/history-dependent-classify'
    s = eng[-1]
    if res[i]['origin'] != s:
        return 'C07/history-dependent-classify'
    mini = [hist[s], hist[last]]
    fresh.need([(mini, o)], ThreadPoolExecutor(1))
    if differs(fresh.get(mini, o), res[i]):
        return 'C07/history-dependent-classify'
    return KNOWN_SIG


def check_history(uni, hist, res, fresh):
    """Direct oracle: list of (position, signature) at which the in-process result differs from the fresh
    process or a frame snapshot changed."""
    bad = []
    for i, o in enumerate(hist):
        fr = fresh.get(replay_prefix(hist[:i], o), o)
        if differs(res[i], fr) or res[i]['frame'] or res[i].get('lost') or res[i].get('mutated'):
            bad.append((i, signature(uni, hist, i, res, fresh)))
    return bad


def prune(uni, hist):
    """keep only the files / transactions a history mentions (replay readability)"""
    used_f = {o['file'] for o in hist if o.get('file') is not None}
    used_t = sorted({o['txn'] for o in hist if isinstance(o.get('txn'), int)})
    remap = {t: j for j, t in enumerate(used_t)}
    u2 = dict(uni)
    u2['files'] = {k: v for k, v in uni['files'].items() if k in used_f}
    u2['txns'] = [uni['txns'][t] for t in used_t]
    h2 = []
    for o in hist:
        o = dict(o)
        if isinstance(o.get('txn'), int):
            o['txn'] = remap[o['txn']]
        h2.append(o)
    return u2, h2


def fails_with(uni, hist, sig, pool):
    """does the LAST operation of hist fail with this signature?"""
    fresh = Fresh(uni)
    fresh.need([([], {'op': 'load', 'file': n}) for n in uni['files']], pool)
    res = run_history(uni, hist)
    i = len(hist) - 1
    fresh.need([(replay_prefix(hist[:i], hist[i]), hist[i])], pool)
    fr = fresh.get(replay_prefix(hist[:i], hist[i]), hist[i])
    if not (differs(res[i], fr) or res[i]['frame'] or res[i].get('lost') or res[i].get('mutated')):
        return False
    return signature(uni, hist, i, res, fresh) == sig


def shrink(uni, hist, pos, sig, pool, budget=40):
    h = hist[:pos + 1]
    changed = True
    while changed and budget > 0:
        changed = False
        for j in range(len(h) - 1):
            cand = h[:j] + h[j + 1:]
            budget -= 1
            if budget <= 0:
                break
            if fails_with(uni, cand, sig, pool):
                h, changed = cand, True
                break
    return h


# ---- model side ---------------------------------------------------------------------------------------
HEADER = r'''From Coq Require Import String List Bool Arith NArith.
From Tally Require Import C07.Model C07.Args.
Import ListNotations.
Open Scope string_scope.
Definition sbytes (l : list N) : string := fold_right (fun n s => String (Ascii.ascii_of_N n) s) EmptyString l.
Definition K := (list string * list string)%type.
Record tabs := {
  t_load : list (nat * (bool * K));            (* file -> builds an engine?, cache keys it requests *)
  t_parse : list (nat * (bool * K));           (* file -> engine.parse raised?, keys *)
  t_cw : list ((nat * nat * nat) * (nat * K)); (* (engine's file, caller's file, txn) -> result, keys *)
  t_cl : list ((nat * nat) * (nat * K));       (* (caller's file, txn) *)
  t_em : list ((nat * nat) * (nat * K));       (* (parsed file, txn) *)
  t_ev : list ((string * nat) * (nat * K));    (* (source, txn) *)
  t_bad : list string }.                       (* sources parse_expression rejects *)
Fixpoint find {A V} (eqb : A -> A -> bool) (k : A) (m : list (A * V)) : option V :=
  match m with [] => None | (k', v) :: r => if eqb k k' then Some v else find eqb k r end.
Definition eq2 (a b : nat * nat) := Nat.eqb (fst a) (fst b) && Nat.eqb (snd a) (snd b).
Definition eq3 (a b : nat * nat * nat) := eq2 (fst a) (fst b) && Nat.eqb (snd a) (snd b).
Definition eqsn (a b : string * nat) := String.eqb (fst a) (fst b) && Nat.eqb (snd a) (snd b).
Definition memb (s : string) (l : list string) := existsb (String.eqb s) l.
Definition asks {A} (k : K) (a : A) : prog string string A :=
  fold_right (fun s p => AskExpr s (fun _ => p)) (fold_right (fun s p => AskRe s (fun _ => p)) (Ret a) (snd k)) (fst k).
Definition tw (T : tabs) : world := {|
  parsed := string; compiled := string; file := nat; txn := nat; ruleset := nat; tups := nat;
  result := nat; mresult := nat; value := nat;
  parse_expr := fun s => if memb s (t_bad T) then None else Some s;
  compile_re := fun s => Some s;
  load := fun f => match find Nat.eqb f (t_load T) with
                   | Some (b, k) => asks k (Loaded (if b then Some f else None) f)
                   | None => Ret (Loaded None 999) end;
  no_rules := 0; empty_engine := 0;
  eng_parse := fun f => match find Nat.eqb f (t_parse T) with Some (b, k) => asks k (f, b) | None => Ret (999, false) end;
  classify_with := fun rs u t => match find eq3 (rs, u, t) (t_cw T) with Some (r, k) => asks k r | None => Ret 0 end;
  classify_legacy := fun u t => match find eq2 (u, t) (t_cl T) with Some (r, k) => asks k r | None => Ret 0 end;
  eng_match := fun e t => match find eq2 (e, t) (t_em T) with Some (r, k) => asks k r | None => Ret 0 end;
  eval_parsed := fun a t => match find eqsn (a, t) (t_ev T) with Some (r, k) => asks k r | None => Ret 0 end |}.
(* operations as data: (tag, argument, source) *)
Definition decode (T : tabs) (c : nat * nat * string) : op (tw T) :=
  let '(tag, a, s) := c in
  match tag with
  | 0 => @Load (tw T) (match a with 0 => None | _ => Some a end)
  | 1 => @Classify (tw T) a
  | 2 => @EvalExpr (tw T) s a
  | 3 => @EngParse (tw T) a
  | _ => @EngMatch (tw T) a
  end.
(* what the implementation showed for one operation: result id, flag, new cache keys, file whose load created
   the cached engine (0 = no cached engine) *)
Definition obs := (nat * bool * K * nat)%type.
Definition out_ok (T : tabs) (o : out (tw T)) (id : nat) (flag : bool) : bool :=
  match o with
  | OLoaded t => Nat.eqb t id
  | OResult r => Nat.eqb r id
  | OEval None => negb flag
  | OEval (Some v) => flag && Nat.eqb v id
  | OParsed raised => Bool.eqb raised flag
  | OMatch m => Nat.eqb m id
  end.
Definition added {V} (before after : list (string * V)) : list string :=
  firstn (length after - length before) (map fst after).
Definition same_set (a b : list string) := forallb (fun x => memb x b) a && forallb (fun x => memb x a) b.
Fixpoint walk (T : tabs) (fx : bool) (st : state (tw T)) (h : list ((nat * nat * string) * obs)) : bool :=
  match h with
  | [] => true
  | (c, (id, flag, k, origin)) :: r =>
      let so := step (tw T) fx st (decode T c) in
      let st' := fst so in
      out_ok T (snd so) id flag
      && same_set (added (ecache (cs (tw T) st)) (ecache (cs (tw T) st'))) (fst k)
      && same_set (added (rcache (cs (tw T) st)) (rcache (cs (tw T) st'))) (snd k)
      && Nat.eqb (match cached (tw T) st' with Some f => f | None => 0 end) origin
      && walk T fx st' r
  end.
(* ---- C07/Args.v against the implementation: engine.parse / engine.match / evaluate_transaction histories with the
   supplemental rows as an explicit per-call argument (0 = none passed, 1 = the universe's rows, 2 = other rows) *)
Record atabs := { t_am : list ((nat * nat * nat) * nat);            (* (parsed file, base txn, rows) -> result *)
                  t_ae : list ((string * nat) * nat * nat) }.       (* ((source, base txn), rows, value) *)
Definition rid (d : option nat) : nat := match d with Some r => r | None => 0 end.
Fixpoint find_ae (s : string) (t r : nat) (m : list ((string * nat) * nat * nat)) : nat :=
  match m with
  | [] => 0
  | ((s', t'), r', v) :: rest => if String.eqb s s' && Nat.eqb t t' && Nat.eqb r r' then v else find_ae s t r rest
  end.
Definition aw (T : atabs) : aworld := {|
  afile := nat; arules := nat; atxn := nat; arows := nat; ascope := unit; ares := nat; aval := nat;
  aparse := fun f => f; aempty := 0; empty_scope := tt;
  amatch := fun e t d s => (match find eq3 (e, t, rid d) (t_am T) with Some r => r | None => 0 end, s);
  aeval := fun src t d s => (find_ae src t (rid d) (t_ae T), s) |}.
Definition adecode (T : atabs) (c : nat * nat * nat * string) : aop (aw T) :=
  let '(tag, a, r, s) := c in
  let d := match r with 0 => None | _ => Some r end in
  match tag with 3 => @AParse (aw T) a | 4 => @AMatch (aw T) a d | _ => @AEval (aw T) s a d end.
(* the design is passed in literally from THIS run's extraction (never read from the shared Gen .vo, which a concurrent
   check of another tree may have rebuilt in the meantime) *)
Fixpoint awalk (source_design : design) (T : atabs) (st : astate (aw T)) (h : list ((nat * nat * nat * string) * nat)) : bool :=
  match h with
  | [] => true
  | (c, id) :: r =>
      let so := astep (aw T) source_design st (adecode T c) in
      (match snd so with AParsed => true | ARes x => Nat.eqb x id | AVal v => Nat.eqb v id end) && awalk source_design T (fst so) r
  end.
Fixpoint afailing_h (D : design) (T : atabs) (i : nat) (hs : list (list ((nat * nat * nat * string) * nat))) : list nat :=
  match hs with
  | [] => []
  | h :: r => if awalk D T (ainit (aw T)) h then afailing_h D T (S i) r else i :: afailing_h D T (S i) r
  end.
Fixpoint failing_h (T : tabs) (fx : bool) (i : nat) (hs : list (list ((nat * nat * string) * obs))) : list nat :=
  match hs with
  | [] => []
  | h :: r => if walk T fx (init (tw T)) h then failing_h T fx (S i) r else i :: failing_h T fx (S i) r
  end.
'''


def cstrs(xs):
    return '[' + '; '.join(coq_str(x) for x in xs) + ']'


def ckeys(r):
    return f'({cstrs(r["ek"])}, {cstrs(r["rk"])})'


def cbool(b):
    return 'true' if b else 'false'


class Interner:
    def __init__(self):
        self.ids = {}

    def __call__(self, out):
        k = json.dumps(out, sort_keys=True)
        if k not in self.ids:
            self.ids[k] = len(self.ids) + 1
        return self.ids[k]


def model_tables(uni, hists, results, fresh, fx, pool):
    """Oracle tables for one universe, every entry from a FRESH process; and the observation lists."""
    names = sorted(uni['files'])
    fid = {n: i + 1 for i, n in enumerate(names)}
    fid[None] = 0
    fid['-'] = 0
    intern = Interner()
    # which (state, op) pairs do the histories reach?  (python mirror; a wrong mirror = missing entry = failure)
    reqs = []
    for h in hists:
        for st, o in zip(mirror_states(h, fresh, fx), h):
            reqs.append((minimal_history(st, o), o))
    pnames = [n for n in names if uni['files'][n]['text'] is not None]
    for n in pnames:
        reqs.append(([], {'op': 'engparse', 'file': n}))
    for h in hists:
        reqs += [([], o) for o in h if o['op'] == 'load']
    fresh.need(reqs, pool)
    t_load = [f'({fid[n]}, ({cbool(builds_engine(fresh, n))}, {ckeys(fresh.get([], {"op": "load", "file": n}))}))' for n in names]
    t_parse = []
    for n in pnames:
        r = fresh.get([], {'op': 'engparse', 'file': n})
        t_parse.append(f'({fid[n]}, ({cbool(r["out"].get("raised") is not None)}, {ckeys(r)}))')
    t_cw, t_cl, t_em, t_ev, bad = {}, {}, {}, {}, set()
    for h in hists:
        for st, o in zip(mirror_states(h, fresh, fx), h):
            r = fresh.get(minimal_history(st, o), o)
            c, u, e = st
            if o['op'] == 'classify':
                if c is not None:
                    t_cw[(fid[c], fid[u], o['txn'])] = f'({intern(r["out"])}, {ckeys(r)})'
                else:
                    t_cl[(fid[u], o['txn'])] = f'({intern(r["out"])}, {ckeys(r)})'
            elif o['op'] == 'engmatch':
                t_em[(fid[e], o['txn'])] = f'({intern(r["out"])}, {ckeys(r)})'
            elif o['op'] == 'eval':
                tn = 99 if o['txn'] == 'filter' else o['txn']
                if r['parse_ok']:
                    t_ev[(o['src'], tn)] = f'({intern(r["out"])}, {ckeys(r)})'
                else:
                    bad.add(o['src'])
    tabs = ('{| t_load := [' + '; '.join(t_load) + '];\n  t_parse := [' + '; '.join(t_parse) + '];\n  t_cw := [' +
            '; '.join(f'(({a}, {b}, {c}), {v})' for (a, b, c), v in t_cw.items()) + '];\n  t_cl := [' +
            '; '.join(f'(({a}, {b}), {v})' for (a, b), v in t_cl.items()) + '];\n  t_em := [' +
            '; '.join(f'(({a}, {b}), {v})' for (a, b), v in t_em.items()) + '];\n  t_ev := [' +
            '; '.join(f'(({coq_str(a)}, {b}), {v})' for (a, b), v in t_ev.items()) + '];\n  t_bad := ' +
            cstrs(sorted(bad)) + ' |}')
    obs = []
    for h, res in zip(hists, results):
        row = []
        for i, (o, r) in enumerate(zip(h, res)):
            if o['op'] == 'load':
                code = f'(0, {fid[o["file"]]}, "")'
                same = r['out'] == fresh.get([], o)['out']
                oid, flag = (fid[o['file']] if same else 998), False
            elif o['op'] == 'classify':
                code, oid, flag = f'(1, {o["txn"]}, "")', intern(r['out']), False
            elif o['op'] == 'eval':
                tn = 99 if o['txn'] == 'filter' else o['txn']
                code, oid, flag = f'(2, {tn}, {coq_str(o["src"])})', intern(r['out']), bool(r['parse_ok'])
            elif o['op'] == 'engparse':
                code, oid, flag = f'(3, {fid[o["file"]]}, "")', 0, r['out'].get('raised') is not None
            else:
                code, oid, flag = f'(4, {o["txn"]}, "")', intern(r['out']), False
            org = r['origin']
            ofile = 0 if org is None else (997 if org == 'unknown' else fid[h[org]['file']])
            row.append(f'({code}, ({oid}, {cbool(flag)}, {ckeys(r)}, {ofile}))')
        obs.append('[' + '; '.join(row) + ']')
    # ---- C07/Args.v: histories made only of engine.parse / engine.match / evaluate_transaction
    txns = uni['txns']

    def base(j):
        core = {k: v for k, v in txns[j].items() if k not in ('ds', 'tag')}
        return next(i for i, t in enumerate(txns) if {k: v for k, v in t.items() if k not in ('ds', 'tag')} == core)

    def rows_id(j):
        return {'none': 0, 'alt': 2}.get(txns[j].get('ds'), 1)
    am, ae, aobs = {}, {}, []
    for h, res in zip(hists, results):
        if not all(o['op'] in ('engparse', 'engmatch') or (o['op'] == 'eval' and o['txn'] != 'filter') for o in h):
            continue
        row = []
        for (st, o), r in zip(zip(mirror_states(h, fresh, fx), h), res):
            if o['op'] == 'engparse':
                row.append(f'((3, {fid[o["file"]]}, 0, ""), 0)')
                continue
            fr = fresh.get(minimal_history(st, o), o)
            j = o['txn']
            if o['op'] == 'engmatch':
                am[(fid[st[2]], base(j), rows_id(j))] = intern(fr['out'])
                row.append(f'((4, {base(j)}, {rows_id(j)}, ""), {intern(r["out"])})')
            else:
                ae[(o['src'], base(j), rows_id(j))] = intern(fr['out'])
                row.append(f'((2, {base(j)}, {rows_id(j)}, {coq_str(o["src"])}), {intern(r["out"])})')
        aobs.append('[' + '; '.join(row) + ']')
    atabs = ('{| t_am := [' + '; '.join(f'(({a}, {b}, {c}), {v})' for (a, b, c), v in am.items()) + '];\n  t_ae := [' +
             '; '.join(f'(({coq_str(a)}, {b}), {c}, {v})' for (a, b, c), v in ae.items()) + '] |}')
    return tabs, obs, atabs, aobs


def model_check(unis, all_hists, all_results, freshes, fx, pool, name='C07'):
    """Returns (list of (universe index, history index) the model mispredicts, n histories checked, error)."""
    chunks, cur, size = [], [], 0
    for ui in range(len(unis)):
        cur.append(ui)
        size += len(all_hists[ui])
        if size >= 110:
            chunks.append(cur)
            cur, size = [], 0
    if cur:
        chunks.append(cur)

    design_def = ('Definition SD : design := {| remembers_rows := ' + cbool(not model_check.design[0]) + '; shares_scope := ' +
                  cbool(not model_check.design[1]) + ' |}.\n')
    bodies = []
    args_n = [0]
    model_check.args_histories = 0
    for ci, uis in enumerate(chunks):          # phase 1: oracle tables (fresh interpreters, <= PAR at a time)
        body = [design_def]
        for ui in uis:
            tabs, obs, atabs, aobs = model_tables(unis[ui], all_hists[ui], all_results[ui], freshes[ui], fx, pool)
            args_n[0] += len(aobs)
            body.append(f'Definition T{ui} : tabs := {tabs}.\nDefinition H{ui} : list (list ((nat * nat * string) * obs)) := [\n' +
                        ';\n'.join(obs) + '\n].\n')
            body.append(f'Definition AT{ui} : atabs := {atabs}.\nDefinition AH{ui} : list (list ((nat * nat * nat * string) * nat)) := [\n' +
                        ';\n'.join(aobs) + '\n].\n')
        # one list: the main model's failing histories, then (1000 + universe) for the Args model's
        body.append('Eval vm_compute in [' + '; '.join(f'({ui}, failing_h T{ui} {cbool(fx)} 0 H{ui}); ({1000 + ui}, afailing_h SD AT{ui} 0 AH{ui})'
                                                        for ui in uis) + '].\n')
        bodies.append((ci, uis, '\n'.join(body)))

    def one(ci, uis, body):                     # phase 2: the model, inside coqc
        rc, out, err = run_cases(f'{name}_{ci}', HEADER, body)
        return uis, rc, out, err
    bad, n = [], 0
    with ThreadPoolExecutor(min(PAR, 3)) as cp:
        for uis, rc, out, err in cp.map(lambda a: one(*a), bodies):
            m = re.search(r'=\s*\[(.*)\]\s*:\s*list \(nat \* list nat\)', out, re.S)
            if rc != 0 or not m:
                return None, n, (out + err)[-1500:]
            for um in re.finditer(r'\(\s*(\d+)(?:%nat)?,\s*\[([^\]]*)\]\)', m.group(1)):
                ui = int(um.group(1))
                if ui >= 1000:                      # the Args model: index within that universe's Args histories
                    for x in um.group(2).replace('%nat', '').split(';'):
                        if x.strip():
                            bad.append((ui - 1000, -1 - int(x)))
                    continue
                n += len(all_hists[ui])
                for x in um.group(2).replace('%nat', '').split(';'):
                    if x.strip():
                        bad.append((ui, int(x)))
    model_check.args_histories = args_n[0]
    return bad, n, ''


# ---- main ------------------------------------------------------------------------------------------------
def main(tier):
    run = Run('C07', tier)
    impl_env()
    run.assumptions = [
        'ORACLES (section/record variables, theorems hold for all of them): parse_expression\'s pure part (ast.parse + '
        'validate_ast), re.compile, load_merchants_file / load_merchant_rules, the engine match loop, the legacy tuple loop, '
        'TransactionEvaluator; any of them may request cache entries in any data-dependent order (free program type)',
        'MODELLED: _cached_engine writes/reads of get_all_rules / normalize_merchant, lookup-else-compute-and-store of both caches, '
        'the caller holding the last returned rules, one long-lived MerchantEngine re-parsed',
        'EXTRACTED from source every run (tools/c07_cache_keys.py, fail closed): dict names, every syntactic use of the two caches, '
        'key = bare argument, stored value = parse+validate / re.compile(key, constant flags), parse() resets, the shape of the '
        'show-once load-error report, every writer/reader '
        'of _cached_engine, the complete inventory of process-level state of expr_parser / merchant_engine / merchant_utils / modifier_parser '
        '(module-level variables, global declarations, class-level containers, mutable defaults, caching decorators, function attributes; '
        'ALL-CAPS constants never mutated) = what the model has, and that get_all_rules resets _cached_engine on entry (c07_history_independent_of_source type-checks only then)',
        'OUTSIDE THE PROPERTY (explicit): the stderr line `Error loading rules from <path>: ...` that get_all_rules / get_transforms / '
        'get_tag_only_rules print for an unparsable .rules file is shown once per distinct (path, message) per process '
        '(merchant_utils._reported_load_errors) and is therefore history dependent by design; it is not a classification result, is not '
        'compared, and is not in the model state. What IS checked (Gen/C07CacheKeys.v + c07_load_error_report_as_modelled): that set is '
        'tested/added-to only inside _report_rules_load_error, which returns nothing, prints to sys.stderr only, and is called only as an '
        'expression statement in except handlers - so it cannot reach any compared output; the differential runs cover loads of the same '
        'unparsable file repeated in one process',
        'a rule FILE in the model is its content (+ match mode); the path only names where it lives: every .rules load of a process is '
        'written to one and the same path (likewise every CSV load), so a reload after a rewrite is the normal case; file content does '
        'not change between the calls of ONE load (get_transforms / get_tag_only_rules / get_all_rules, either order)',
        'a load is ONE operation: the fresh-process reference always calls get_all_rules first, whatever order (CLI order or not) the '
        'in-process load used - the rule set must not depend on which getter was asked first',
        'the correspondence files take the model variant and the design flags literally from this run\'s extraction, and the proof step is '
        'repeated if the shared Gen/C07CacheKeys.v was rewritten by a concurrent check of another tree (VERIF_REPO) in the meantime',
        'cached ASTs / compiled patterns are values in the model; that the implementation never changes one after storing it is CHECKED '
        'after every operation (ast.dump of each _expression_cache entry = dump of a new parse of its key; pattern/flags of each '
        '_regex_cache entry = re.compile(key, re.IGNORECASE)): signature C07/cached-value-mutated; cache keys are str; set/dict order, object identities and message texts are not compared',
    ]
    tfails = regen_gen()
    res = None
    for attempt in range(4):
        obl0, dis0 = run.cov['obligations'], run.cov['discharged']
        res = run.proof_step(COQ_FILES, extra_trusted=PROOF_TRUSTED)
        mine = c07_cache_keys.generate(SRC)[0]
        try:
            on_disk = open(os.path.join(COQ, 'theories', 'Gen', 'C07CacheKeys.v')).read()
        except OSError:
            on_disk = None
        if tfails or mine is None or on_disk == mine:
            break
        # a concurrent check of ANOTHER tree rewrote Gen/C07CacheKeys.v between our regeneration and the build: redo
        run.cov['obligations'], run.cov['discharged'] = obl0, dis0
        run.cov.setdefault('gen_file_races', 0)
        run.cov['gen_file_races'] += 1
        regen_gen()
    run.cov['obligations'] += 1          # the extraction itself
    if not tfails:
        run.cov['discharged'] += 1
    broken = []
    if tfails:
        broken.append({'kind': 'translation-failure', 'obligation': 'Gen/C07CacheKeys.v (tools/c07_cache_keys.py)', 'detail': tfails})
    elif not res['ok']:
        broken.append({'kind': 'broken-obligation', 'detail': first_error(res['log']),
                       'obligation': first_error(res['log']).get('obligation')})
    if res['hygiene']:
        broken.append({'kind': 'hygiene', 'detail': res['hygiene']})
    facts = c07_cache_keys.generate(SRC)[1]
    fx = bool(facts and facts['cached']['resets'])
    model_check.design = ((facts['writes']['engine_match_write_free'], facts['writes']['scope_per_evaluation'])
                          if facts else (True, True))
    if facts is None:       # extraction failed: keep the variant of the last successful extraction for the correspondence
        try:
            fx = 'get_all_rules_resets_cached_engine : bool := true' in open(
                os.path.join(COQ, 'theories', 'Gen', 'C07CacheKeys.v')).read()
        except OSError:
            pass
    if facts and not fx:
        broken[:] = [b for b in broken if b.get('obligation') != 'c07_history_independent_of_source']
        broken.insert(0, {'kind': 'broken-obligation', 'obligation': 'c07_history_independent_of_source',
                          'detail': 'get_all_rules no longer resets _cached_engine on entry (regression of e98b1f7): the source is the '
                                    'variant for which c07_before_e98b1f7_refuted holds'})

    rnd = random.Random(run.seed * 7919 + 7)
    n_uni, n_hist, n_sys, n_twin = (10, 6, 1, 3) if tier == 'quick' else (120, 36, 24, 10)
    unis = [gen_universe(rnd, i) for i in range(n_uni)]
    all_hists = []
    for i, u in enumerate(unis):
        hs = [gen_history(rnd, u) for _ in range(n_hist)] + twin_histories(rnd, u, n_twin) + reparse_histories(rnd, u, 2) + \
            partial_variable_histories(rnd, u, 2) + rewrite_histories(u)
        if i < n_sys:
            hs += systematic_histories(u)
        all_hists.append(hs)

    pool = ThreadPoolExecutor(PAR)
    freshes = [Fresh(u) for u in unis]
    phases = {'proofs_s': round(time.time() - run.t0, 1)}
    t1 = time.time()
    all_results = []
    failing = {}          # signature -> list of (ui, hi, pos)
    n_cmp = 0
    discards = {'load_raised': 0}
    for ui, (u, hs) in enumerate(zip(unis, all_hists)):
        fr = freshes[ui]
        fr.need([([], {'op': 'load', 'file': n}) for n in list(u['files']) + [None]], pool)
        results = list(pool.map(lambda h: run_history(u, h), hs))
        all_results.append(results)
        reqs = []
        for h in hs:
            for i, o in enumerate(h):
                reqs.append((replay_prefix(h[:i], o), o))
        fr.need(reqs, pool)
        for hi, (h, r) in enumerate(zip(hs, results)):
            n_cmp += len(h)
            discards['load_raised'] += sum(1 for o, x in zip(h, r) if o['op'] == 'load' and 'raise' in x['out'])
            for pos, sig in check_history(u, h, r, fr):
                failing.setdefault(sig, []).append((ui, hi, pos))

    phases['oracle_s'] = round(time.time() - t1, 1)
    # generator health: the intended-good .rules file must really build an engine, the others must not
    kinds = {}
    for ui, u in enumerate(unis):
        for name in u['files']:
            key = f"{name}{u['files'][name]['suffix']}:{'engine' if builds_engine(freshes[ui], name) else 'no-engine'}"
            kinds[key] = kinds.get(key, 0) + 1
    if kinds.get('A.rules:engine', 0) * 10 < len(unis) * 6:
        broken.append({'kind': 'broken-correspondence', 'obligation': 'generator: file A is a .rules file that loads',
                       'detail': kinds})
    t1 = time.time()
    # determinism of the reference itself: a sample of fresh results re-run
    det_bad = 0
    for ui in range(min(3, len(unis))):
        ks = sorted(freshes[ui].memo)[:6]
        for k in ks:
            p, o = json.loads(k)
            if run_history(unis[ui], p + [o], True)[0]['out'] != freshes[ui].memo[k]['out']:
                det_bad += 1
    if det_bad:
        broken.append({'kind': 'broken-correspondence', 'obligation': 'fresh-process results are deterministic', 'detail': det_bad})

    # cache keys are exact substrings of what was handed in (a normalised key would not be)
    key_bad = []
    for ui, (u, hs) in enumerate(zip(unis, all_hists)):
        texts = [f['text'] for f in u['files'].values() if f['text'] is not None] + u['exprs'] + u['filter_exprs'] + [o['src'] for h in hs for o in h if o['op'] == 'eval']
        texts += [t.replace('""', '"') for t in texts]      # CSV quoting of a pattern cell
        for h, r in zip(hs, all_results[ui]):
            for x in r:
                for k in x['ek'] + x['rk']:
                    if not any(k in t for t in texts):
                        key_bad.append({'universe': ui, 'key': k})
    if key_bad:
        broken.append({'kind': 'broken-correspondence', 'obligation': 'cache keys are the exact argument strings',
                       'detail': key_bad[:3]})

    for sig, where in sorted(failing.items()):
        ui, hi, pos = min(where, key=lambda w: (w[2], len(all_hists[w[0]][w[1]])))
        u, h = unis[ui], all_hists[ui][hi]
        small = shrink(u, h, pos, sig, pool, budget=30 if tier == 'quick' else 120)
        u2, h2 = prune(u, small)
        r2 = run_history(u2, h2)
        f2 = run_history(u2, [Fresh.canon(x) for x in replay_prefix(h2[:-1], h2[-1]) + [h2[-1]]], True)[0]
        run.violation('history', {
            'kind': 'counterexample', 'universe': u2, 'history': h2, 'position': len(h2) - 1,
            'observed_in_process': r2[-1]['out'], 'frame_changes': r2[-1]['frame'], 'mutated_cache_entries': r2[-1].get('mutated'),
            'expected_fresh_process': f2['out'], 'fresh_history': [Fresh.canon(x) for x in replay_prefix(h2[:-1], h2[-1]) + [h2[-1]]],
            'obligation': 'c07_history_independent / c07_classify_frame on the implementation',
            'n_failing_comparisons': len(where), 'shrunk_from': pos + 1, 'broken': broken}, signature=sig)

    phases['shrink_s'] = round(time.time() - t1, 1)
    t1 = time.time()
    model_n = 0
    if res['ok']:
        bad, model_n, err = model_check(unis, all_hists, all_results, freshes, fx, pool)
        if bad is None:
            broken.append({'kind': 'broken-correspondence', 'obligation': 'model_vs_impl(C07.Model.step, in-process history)',
                           'detail': 'cases.v did not evaluate: ' + err})
        elif bad and bad[0][1] < 0:
            ui, k = bad[0]
            ah = [h for h in all_hists[ui] if all(o['op'] in ('engparse', 'engmatch') or (o['op'] == 'eval' and o['txn'] != 'filter')
                                                  for o in h)]
            broken.append({'kind': 'broken-correspondence', 'obligation': 'model_vs_impl(C07.Args.astep, engine.match / evaluate_transaction history)',
                           'detail': {'universe': unis[ui], 'history': ah[-1 - k], 'n': len(bad)}})
        elif bad:
            ui, hi = bad[0]
            broken.append({'kind': 'broken-correspondence', 'obligation': 'model_vs_impl(C07.Model.step, in-process history)',
                           'detail': {'universe': unis[ui], 'history': all_hists[ui][hi], 'implementation': all_results[ui][hi],
                                      'n': len(bad), 'model_variant_fixed': fx}})
    phases['model_s'] = round(time.time() - t1, 1)
    unknown_fail = [s for s in failing if s != KNOWN_SIG or not any(f.get('signature') == KNOWN_SIG and f.get('status') == 'finding' for f in run.findings)]
    if broken and not unknown_fail:
        b = broken[0]
        run.violation('broken', {'kind': b['kind'], 'obligation': b.get('obligation'), 'broken': broken,
                                 'searched': f'{n_cmp} in-process vs fresh-process comparisons over '
                                             f'{sum(map(len, all_hists))} histories; failing signatures: {sorted(failing)}'},
                      found_input=False)

    nontrivial = set()
    hist_len, nloads = {}, {}
    for ui, hs in enumerate(all_hists):
        for h in hs:
            files = {o['file'] for o in h if o['op'] == 'load'}
            hist_len[len(h)] = hist_len.get(len(h), 0) + 1
            nl = sum(o['op'] == 'load' for o in h)
            nloads[nl] = nloads.get(nl, 0) + 1
            if len(files) >= 2:
                nontrivial.add(json.dumps([ui, h], sort_keys=True))
    spawned = sum(f.spawned for f in freshes)
    run.cov.update({
        'evaluations': n_cmp + model_n + getattr(model_check, 'args_histories', 0), 'distinct_nontrivial': len(nontrivial),
        'rule': 'histories of 2-12 operations {load A|B|C|D|E|none, classify (normalize_merchant or parse_generic_csv), evaluate '
                '(transaction or view expression), engine.parse, engine.match} over generated universes of 3-4 rule files (.rules, CSV, '
                'one unparsable .rules; overlapping patterns, different categories, case/whitespace twins of expressions and regexes, '
                'top-level variables, transforms, let/field, dynamic tags, supplemental rows) and 4-6 transactions, plus probes (an expression then '
                'its case twin; one engine parsed twice then matched; a transaction on which a top-level variable raises first; the SAME path '
                'rewritten with other transforms / tag-only rules / match mode / deleted and reloaded in the CLI order get_transforms -> '
                'get_tag_only_rules -> get_all_rules; a dynamic tag taking different values on one load; every ordered pair of loads for the '
                'first universes); every operation is '
                'compared with a fresh interpreter (one subprocess per distinct (replayed last load, operation)); non-trivial = distinct histories loading >= 2 different files',
        'samples': [{'universe_files': unis[0]['files'], 'history': all_hists[0][0]}, {'history': all_hists[-1][-1]}],
        'universes': len(unis), 'histories': sum(map(len, all_hists)), 'in_process_vs_fresh_comparisons': n_cmp,
        'fresh_interpreters_spawned': spawned, 'history_length_histogram': hist_len, 'loads_per_history_histogram': nloads,
        'model_vs_impl_histories_in_coq': model_n,
        'args_model_vs_impl_histories_in_coq': getattr(model_check, 'args_histories', 0), 'model_variant': 'reset at entry (as /repo since e98b1f7)' if fx else 'NO reset (regression to before e98b1f7)',
        'failing_signatures': {k: len(v) for k, v in failing.items()}, 'translation_failures': tfails,
        'discards': discards, 'phase_seconds': phases, 'files_by_load_outcome': kinds,
        'claimed_for_this_tree': ['c07_history_independent_fixed', 'c07_history_independent_of_source',
                                  'c07_expr_cache_transparent', 'c07_regex_cache_transparent', 'c07_cache_invariant',
                                  'c07_outputs_cache_free', 'c07_classify_frame', 'c07_history_independent_partial'],
        'history_not_claimed_of_this_tree': ['c07_before_e98b1f7_refuted', 'c07_before_e98b1f7_refuted_generally '
                                             '(model variant without the reset; finding fixed by e98b1f7)'],
        'get_all_rules_resets_cached_engine': fx})
    shutil.rmtree(WORKDIR, ignore_errors=True)
    run.finish()


def replay(path):
    obj = json.load(open(path))
    if obj.get('kind') != 'counterexample' and 'history' not in obj:
        main('quick')
    impl_env()
    uni, hist = obj['universe'], obj['history']
    pool = ThreadPoolExecutor(PAR)
    fresh = Fresh(uni)
    fresh.need([([], {'op': 'load', 'file': n}) for n in list(uni['files']) + [None]], pool)
    res = run_history(uni, hist)
    fresh.need([(replay_prefix(hist[:i], o), o) for i, o in enumerate(hist)], pool)
    bad = check_history(uni, hist, res, fresh)
    for i, sig in bad:
        print(json.dumps({'position': i, 'operation': hist[i], 'signature': sig, 'in_process': res[i]['out'],
                          'frame_changes': res[i]['frame'], 'mutated_cache_entries': res[i].get('mutated'),
                          'fresh_process': fresh.get(replay_prefix(hist[:i], hist[i]), hist[i])['out']}, indent=1))
    shutil.rmtree(WORKDIR, ignore_errors=True)
    if bad:
        print(f'VIOLATION property=C07 replay={path}')
        return 1
    print('no difference between in-process and fresh-process results; frames intact')
    return 0
