"""C15 — an interrupted or failing migration never loses rules or strands the budget.

Proof: C15/Props.v over the hand model C15/Model.v (file system, effect lists of the two migrations,
load_config's rule resolution, re-running the command).  The full-strength statements are refuted on
the faithful model (witnesses by vm_compute) and the strongest guarded statements are proved.

Tie (every run, on the tree selected by VERIF_REPO):
  (i)  every initial budget shape is run through the REAL command (tally.cli.main) under an
       effect-recording shim; the recorded trace must equal the model's effect list;
  (ii) EVERY crash state (os._exit at step k, in-flight write cut at each chunk boundary) and every
       single-fault state (OSError at step k) is materialised on a real directory, observed with the
       real load_config / _check_merchant_migration / `tally up --format json`, directly and after
       re-running the command, and compared with the model's state / resolve_rules / rerun;
  (iii) the property itself is evaluated on those implementation observations alone (direct oracle).
The model runs on short token strings (one letter per chunk of real text); the harness interprets
tokens back to bytes (a monoid homomorphism, so append / truncate-at-chunk / equality / prefix
commute with it) and supplies the oracle tables (YAML reading of settings texts, the converter,
rule counts) computed with the real libraries on the real texts.
"""
import concurrent.futures
import itertools
import json
import os
import re
import shutil

from common import *

COQ_FILES = ['C15/Model.v', 'C15/Spec.v', 'C15/ProofsLoss.v', 'C15/ProofsLossFault.v', 'C15/ProofsCsvCrash.v',
             'C15/ProofsCsvFault.v', 'C15/ProofsLayout.v', 'C15/XMove.v', 'C15/Proofs.v', 'C15/Props.v']
# real dependencies (the five case-analysis files are independent of each other and are built in parallel by make)
COQ_DEPS = {'C15/Model.v': [], 'C15/Spec.v': ['C15/Model.v'],
            'C15/ProofsLoss.v': ['C15/Spec.v'], 'C15/ProofsLossFault.v': ['C15/Spec.v'], 'C15/ProofsCsvCrash.v': ['C15/Spec.v'],
            'C15/ProofsCsvFault.v': ['C15/Spec.v'], 'C15/ProofsLayout.v': ['C15/Spec.v'], 'C15/XMove.v': ['C15/Spec.v'],
            'C15/Proofs.v': ['C15/ProofsLoss.v', 'C15/ProofsLossFault.v', 'C15/ProofsCsvCrash.v', 'C15/ProofsCsvFault.v',
                             'C15/ProofsLayout.v', 'C15/XMove.v']}


def order_vo_times():
    """common.coq_build treats a .vo as stale when it is older than the .vo of ANY file earlier in COQ_FILES.  The
    five case-analysis files do not depend on each other, so a parallel build leaves their .vo in arbitrary time
    order.  When every .vo is fresh with respect to its REAL dependencies (source and imported .vo), make the
    times non-decreasing in list order; otherwise leave everything alone (coq_build then rebuilds what it must)."""
    th = os.path.join(COQ, 'theories')
    mt = {}
    for rel in COQ_FILES[:-1]:
        v, vo = os.path.join(th, rel), os.path.join(th, rel + 'o')
        if not os.path.exists(vo) or os.path.getmtime(vo) < os.path.getmtime(v):
            return False
        mt[rel] = os.path.getmtime(vo)
    for rel, deps in COQ_DEPS.items():
        if any(mt[d] > mt[rel] for d in deps):
            return False
    last = 0.0
    for rel in COQ_FILES[:-1]:
        if mt[rel] < last:
            vo = os.path.join(th, rel + 'o')
            os.utime(vo, (last, last))
            mt[rel] = last
        last = mt[rel]
    return True
IMPL = os.path.join(os.path.dirname(os.path.abspath(__file__)), 'impl_c15.py')
SCR = os.path.join(WORK, 'c15')

ATOMS = {'Aconfig': 'config', 'Adata': 'data', 'Aoutput': 'output', 'Atally': 'tally', 'Asettings': 'settings.yaml',
         'Acsv': 'merchant_categories.csv', 'Abak': 'merchant_categories.csv.bak', 'Arules': 'merchants.rules',
         'Aviews': 'views.rules', 'Agitignore': '.gitignore', 'Aschema': '.tally-schema', 'Adatafile': 't.csv',
         'Areport': 'spending_summary.html', 'Amissing': 'MISSING'}

# ---- the real texts of the generated budgets ---------------------------------------------------------
S_NOSUB = ('year: 2025\ndata_sources:\n  - name: T\n    file: data/t.csv\n'
           '    format: "{date:%Y-%m-%d},{description},{amount}"\n')
S_SUB = S_NOSUB + '# merchants_file: config/merchants.rules   (enable after converting the CSV)\n'
S_NEW = S_NOSUB + 'merchants_file: config/merchants.rules\n'
S_OTHER = 'year: 2024\n' + S_NEW.split('\n', 1)[1]
C_RULES = 'Pattern,Merchant,Category,Subcategory\nNETFLIX,Netflix,Subs,Stream\nUBER,Uber,Travel,Ride\n'
C_EMPTY = '# no rules yet\nPattern,Merchant,Category,Subcategory\n'
B_OLD = 'Pattern,Merchant,Category,Subcategory\nHULU,Hulu,Subs,Stream\n'
R_OLD = '[Spotify]\nmatch: contains("SPOTIFY")\ncategory: Subs\nsubcategory: Music\n'
R_USER = ('[Netflix]\nmatch: contains("NETFLIX")\ncategory: Subs\nsubcategory: Stream\n\n'
          '[Uber]\nmatch: contains("UBER")\ncategory: Travel\nsubcategory: Ride\n')
R_OTHER = '[Anything]\nmatch: contains("E")\ncategory: Other\nsubcategory: Misc\n'
D_STMT = 'Date,Description,Amount\n2025-01-05,NETFLIX.COM,15.00\n2025-01-06,UBER TRIP,20.00\n2025-01-07,SPOTIFY AB,9.00\n'
P_REPORT = '<html>last report</html>\n'
L1 = '\n# Merchant rules file (migrated from CSV)\n'
L2 = 'merchants_file: config/merchants.rules\n'
V1 = '\n# Views file (custom spending views)\n'
V2 = 'views_file: config/views.rules\n'
GITIGNORE = '# Tally - Ignore sensitive data\ndata/\noutput/\n'
SCHEMA = '1\n'


def cuts_for(label, text, tier):
    n = len(text)
    if label == 'l2':
        c = {12, 15, 28, n - 1}           # 'merchants_fi' | 'le:' | ' config/merch' | 'ants.rules' | '\n'
        if tier == 'thorough':
            c |= set(range(3, n, 3))
    elif label == 'l1':
        c = {1, n // 2}
        if tier == 'thorough':
            c |= {n - 1, n // 4}
    elif label == 'conv':
        c = {1, n // 2, n - 8}           # (the last cut is inside the last rule: a lone missing newline changes nothing)
        if tier == 'thorough':
            c |= {n * i // 8 for i in range(1, 8)}
    elif label in ('v1', 'v2'):
        c = {n // 2}
    elif label == 'schema':
        c = {1}
    else:
        c = set()
    return sorted(x for x in c if 0 < x < n)


class Tok:
    """Per-shape token table: every chunk of real text is one letter."""
    POOL = 'abcdefghijklmnopqrstuvwxyzABCDEFGHIJKLMNOPQRSTUVWXYZ023456789'

    def __init__(self, tier, halves=False):
        self.map, self.lab, self.tier, self.halves = {}, {}, tier, halves

    def add(self, label, text):
        if label in self.lab:
            return self.lab[label]
        mid = [len(text) // 2] if self.halves and label in ('s', 'r', 'd') and len(text) > 1 else []
        cuts = [0] + (mid or cuts_for(label.split('#')[0], text, self.tier)) + [len(text)]
        out = ''
        for a, b in zip(cuts, cuts[1:]):
            if b > a:
                ch = self.POOL[len(self.map)]
                self.map[ch] = text[a:b]
                out += ch
        self.lab[label] = out
        return out

    def interp(self, t):
        return ''.join(self.map[c] for c in t)

    def offsets(self, label):
        out, n = [0], 0
        for ch in self.lab[label]:
            n += len(self.map[ch])
            out.append(n)
        return out


# ---- shapes -------------------------------------------------------------------------------------------
def csv_shapes():
    out = []
    for cmd in ('up', 'init'):
        for st in ('absent', 'nosub', 'sub'):
            for bak in (False, True):
                for rules in (False, True):
                    for hasrules in (True, False):
                        out.append({'kind': 'csv', 'cmd': cmd, 'settings': st, 'bak': bak, 'rules': rules,
                                    'csv_has_rules': hasrules,
                                    'id': f"csv-{cmd}-{st}-bak{int(bak)}-rules{int(rules)}-has{int(hasrules)}"})
    # settings.yaml names a legacy CSV explicitly (merchants_file: config/<name>.csv): tally loads it as configured and
    # `tally up` must never start the CSV migration for it.  Outside the Coq model (load_config's format tag is not
    # modelled): run under the shim and judged by the direct oracle; the expected effect trace of `up` is empty.
    for cmd in ('up', 'init'):
        for name in ('merchant_categories.csv', 'my_rules.csv'):
            out.append({'kind': 'csv', 'cmd': cmd, 'settings': 'csvkey', 'csv_name': name, 'bak': False, 'rules': False,
                        'csv_has_rules': True, 'modelled': False, 'id': f"csvkey-{cmd}-{name.split('.')[0]}"})
    return out


def layout_shapes():
    out = []
    for data in (True, False):
        for output in (True, False):
            for t, tc, td in ((0, 0, 0), (1, 0, 0), (1, 1, 0), (1, 0, 1), (1, 1, 1)):
                out.append({'kind': 'layout', 'cmd': 'update', 'data': data, 'output': output, 'tally': bool(t),
                            'tally_config': bool(tc), 'tally_data': bool(td),
                            'id': f"layout-data{int(data)}-out{int(output)}-t{t}-tc{tc}-td{td}"})
    # ./tally on another file system: rename gives EXDEV, shutil.move copies the tree file by file and then removes
    # the source - the move is many steps, each a crash / fault point (both ./config and a partial ./tally/config
    # exist meanwhile).  Modelled by C15/XMove.v (xupdate_ops / xcrash / xupdate_rerun).
    for data in (True, False):
        for t in (0, 1):
            out.append({'kind': 'layout', 'cmd': 'update', 'data': data, 'output': False, 'tally': bool(t),
                        'tally_config': False, 'tally_data': False, 'exdev': True,
                        'id': f"layoutx-data{int(data)}-t{t}"})
    return out


def starter_texts(orc):
    return orc['starters']


def build_shape(sh, tier, orc):
    """-> dict(tree, tok, coq (term of the initial fs), c0tok, texts of interest)"""
    tok = Tok(tier, halves=bool(sh.get('exdev')))      # files copied by a cross-device move are cut at half
    tree = {}
    info = {'shape': sh, 'tok': tok}
    st = orc['starters']
    if sh['kind'] == 'csv':
        c0 = C_RULES if sh['csv_has_rules'] else C_EMPTY
        csv_rel = 'config/' + sh.get('csv_name', 'merchant_categories.csv')
        s0 = {'absent': None, 'nosub': S_NOSUB, 'sub': S_SUB, 'csvkey': S_NOSUB + f'merchants_file: {csv_rel}\n'}[sh['settings']]
        conv = orc['csvs'][c0]['conv']
        tree.update({'config': None, 'data': None, csv_rel: c0, 'data/t.csv': D_STMT})
        info['csv_rel'] = csv_rel
        tc = tok.add('c', c0)
        ts = tok.add('s', s0) if s0 is not None else None
        tb = tr = None
        if s0 is not None:
            tree['config/settings.yaml'] = s0
        if sh['bak']:
            tree['config/merchant_categories.csv.bak'] = B_OLD
            tb = tok.add('b', B_OLD)
        if sh['rules']:
            tree['config/merchants.rules'] = R_OLD
            tr = tok.add('r', R_OLD)
        td = tok.add('d', D_STMT)
        tok.add('conv', conv)
        for lab, txt in (('l1', L1), ('l2', L2), ('v1', V1), ('v2', V2), ('E', st['settings']), ('F', st['merchants']),
                         ('G', st['views']), ('H', GITIGNORE), ('schema', SCHEMA)):
            tok.add(lab, txt)

        def o(x):
            return f'(Some "{x}")' if x is not None else 'None'
        info.update({'tree': tree, 'c0': c0, 'conv': conv, 's0': s0,
                     'f0': f'(csv_budget {o(ts)} "{tc}" {o(tb)} {o(tr)} "{td}")',
                     'settings_bases': [x for x in (ts, tok.lab['E']) if x is not None],
                     'cmd_coq': 'Up' if sh['cmd'] == 'up' else 'Init'})
    else:
        tree.update({'config': None, 'config/settings.yaml': S_NEW, 'config/merchants.rules': R_USER})
        ts, tr = tok.add('s', S_NEW), tok.add('r', R_USER)
        td = tp = None
        if sh['data']:
            tree.update({'data': None, 'data/t.csv': D_STMT})
            td = tok.add('d', D_STMT)
        if sh['output']:
            tree.update({'output': None, 'output/spending_summary.html': P_REPORT})
            tp = tok.add('p', P_REPORT)
        if sh['tally'] or sh['tally_config'] or sh['tally_data']:
            tree['tally'] = None
        tcs = 'None'
        if sh['tally_config']:
            tree.update({'tally/config': None, 'tally/config/settings.yaml': S_OTHER, 'tally/config/merchants.rules': R_OTHER})
            tcs = f'(Some ("{tok.add("S", S_OTHER)}", "{tok.add("R", R_OTHER)}"))'
        if sh['tally_data']:
            tree['tally/data'] = None
        tok.add('schema', SCHEMA)
        for lab, txt in (('l1', L1), ('l2', L2), ('v1', V1), ('v2', V2), ('E', st['settings']), ('F', st['merchants']),
                         ('G', st['views']), ('H', GITIGNORE)):
            tok.add(lab, txt)
        tok.add('c', C_RULES)
        tok.add('conv', orc['csvs'][C_RULES]['conv'])

        def o(x):
            return f'(Some "{x}")' if x is not None else 'None'
        b = lambda v: 'true' if v else 'false'
        info.update({'tree': tree, 'c0': None, 's0': S_NEW,
                     'f0': f'(layout_budget "{ts}" "{tr}" {o(td)} {o(tp)} {b(sh["tally"])} {tcs} {b(sh["tally_data"])})',
                     'settings_bases': [ts] + ([tok.lab['S']] if sh['tally_config'] else [])})
    return info


def settings_candidates(info):
    tok = info['tok']
    lt = tok.lab['l1'] + tok.lab['l2']
    vt = tok.lab['v1'] + tok.lab['v2']
    out = []
    for base in info['settings_bases']:
        for i in range(len(lt) + 1):
            for j in range(len(vt) + 1):
                out.append(base + lt[:i] + vt[:j])
    return out


def rules_candidates(info):
    tok = info['tok']
    cv = tok.lab['conv']
    out = [cv[:i] for i in range(len(cv) + 1)] + [tok.lab['F']]
    for lab in ('r', 'R'):
        if lab in tok.lab:
            out += [tok.lab[lab][:i] for i in range(1, len(tok.lab[lab]) + 1)]     # (a half-copied rules file too)
    return out


def sha(t):
    return hashlib.sha1(t.encode()).hexdigest()


def mf_coq(mf, info):
    if mf['kind'] == 'err':
        return 'MfErr'
    if mf['kind'] == 'none':
        return 'MfNone'
    v = mf['value']
    if v == 'config/merchants.rules':
        return '(MfKey [Aconfig; Arules])'
    if isinstance(v, str) and not any(k == v or k.startswith(v + '/') for k in
                                      list(info['tree']) + ['config', 'data', 'output', 'tally', 'config/views.rules']):
        return '(MfKey [Aconfig; Amissing])'
    raise RuntimeError(f'merchants_file value outside the modelled fragment: {v!r}')


def tbl(pairs, default):
    return '(tbl [' + '; '.join(f'("{k}", {v})' for k, v in pairs) + f'] {default})'


def oracle_coq(info, facts, newrules):
    tok = info['tok']
    cands = settings_candidates(info)
    b = lambda v: 'true' if v else 'false'
    mfp, subp, vsubp = [], [], []
    for t in cands:
        f = facts[sha(tok.interp(t))]
        mfp.append((t, mf_coq(f['mf'], info)))
        subp.append((t, b(f['has_sub'])))
        vsubp.append((t, b(f['has_vsub'])))
    c0 = info.get('c0') or C_RULES
    cinfo = info['orc']['csvs'][c0]
    nn = [(t, b(newrules[sha(tok.interp(t))] > 0)) for t in rules_candidates(info)]
    L = tok.lab
    return ('{| conv := ' + tbl([(L['c'], '"' + L['conv'] + '"')], '""') + ';\n     mf := ' + tbl(mfp, 'MfErr') +
            ';\n     has_sub := ' + tbl(subp, 'false') + ';\n     has_vsub := ' + tbl(vsubp, 'false') +
            ';\n     has_rule_lines := ' + tbl([(L['c'], b(cinfo['rule_lines']))], 'false') +
            ';\n     nonempty := ' + tbl([(L['c'], b(cinfo['nrules'] > 0))], 'false') +
            ';\n     nonempty_new := ' + tbl(nn, 'false') +
            f';\n     l1 := "{L["l1"]}"; l2 := "{L["l2"]}"; v1 := "{L["v1"]}"; v2 := "{L["v2"]}";\n'
            f'     starter_settings := "{L["E"]}"; starter_merchants := "{L["F"]}"; starter_views := "{L["G"]}"; '
            f'gitignore_txt := "{L["H"]}"; schema_txt := "{L["schema"]}" |}}')


HEADER = r'''From Coq Require Import String List Bool Arith Ascii.
From Tally Require Import C15.Model C15.XMove.
Import ListNotations.
Open Scope string_scope.
Open Scope list_scope.
Definition sapp (a b : string) : string := (a ++ b)%string.
Fixpoint tbl {A} (l : list (string * A)) (d : A) (k : string) : A :=
  match l with [] => d | (k', v) :: r => if String.eqb k k' then v else tbl r d k end.
Definition atom_name (a : atom) : string :=
  match a with Aconfig => "config" | Adata => "data" | Aoutput => "output" | Atally => "tally"
  | Asettings => "settings.yaml" | Acsv => "merchant_categories.csv" | Abak => "merchant_categories.csv.bak"
  | Arules => "merchants.rules" | Aviews => "views.rules" | Agitignore => ".gitignore" | Aschema => ".tally-schema"
  | Adatafile => "t.csv" | Areport => "spending_summary.html" | Amissing => "MISSING" end.
Fixpoint join (sep : string) (l : list string) : string :=
  match l with [] => "" | [x] => x | x :: r => sapp x (sapp sep (join sep r)) end.
Definition show_path (p : path) : string := join "/" (map atom_name p).
Definition show_fs (f : fs) : string :=
  join "," (map (fun e => match snd e with File c => sapp (show_path (fst e)) (sapp "=" c)
                                         | Dir => sapp (show_path (fst e)) "/" end) f).
Definition show_inforce (r : inforce) : string :=
  match r with IErr => "E" | INone => "N" | ICsv c => sapp "C:" c | INew c => sapp "R:" c end.
Definition show_eff (e : eff) : string :=
  match e with
  | OpenTrunc p => sapp "T " (show_path p) | OpenAppend p => sapp "A " (show_path p)
  | Write p d => sapp "W " (sapp (show_path p) (sapp " " d)) | Close p => sapp "C " (show_path p)
  | Move a b => sapp "M " (sapp (show_path a) (sapp " " (show_path b))) | Mkdir p => sapp "D " (show_path p) end.
Definition show_bool (b : bool) : string := if b then "1" else "0".
Definition digit (n : nat) : string := String (ascii_of_nat (48 + n)) "".
Definition show_nat (n : nat) : string := sapp (digit (n / 10)) (digit (n mod 10)).
Definition show_ostr (o : option string) : string := match o with Some x => sapp "S:" x | None => "-" end.
Definition line (l : list string) : string := join "|" l.
Fixpoint pend_at (ops : list eff) (pd : list string) (opened : bool) (k : nat) : list string :=
  match ops with
  | [] => []
  | e :: r =>
    match k with
    | 0 => if opened then match e with Write _ d => pd ++ [d] | _ => pd end else []
    | S k' => match e with
              | Write _ d => pend_at r (pd ++ [d]) opened k'
              | Close _ => pend_at r [] false k'
              | OpenTrunc _ | OpenAppend _ => pend_at r [] true k'
              | _ => pend_at r pd opened k'
              end
    end
  end.
(* every interruption point: step k, and how far the open file's buffered pieces had been flushed *)
Definition scen (ops : list eff) : list (nat * (nat * nat)) :=
  flat_map (fun k =>
    let ps := pend_at ops [] false k in
    match ps with
    | [] => [(k, (0, 0))]
    | _ => flat_map (fun j => map (fun n => (k, (j, n))) (seq 0 (S (String.length (nth j ps ""))))) (seq 0 (length ps))
           ++ [(k, (length ps, 0))]
    end) (seq 0 (S (length ops))).

Definition csv_report (O : oracle) (c : cmd) (f0 : fs) (c0 : string) : list string :=
  let b := @nil atom in
  let cd := [Aconfig] in
  let ops := mig_ops O c f0 b in
  let row kind k j n f1 inrun :=
    let f2 := rerun O c f1 b in
    line [kind; show_nat k; show_nat j; show_nat n; show_fs f1; show_inforce (resolve O f1 cd); show_fs f2;
          show_inforce (resolve O f2 cd); inrun;
          show_bool (no_loss f0 f1); show_bool (users O c0 (resolve O f1 cd)); show_bool (users O c0 (resolve O f2 cd));
          show_bool (stranded O c0 (resolve O f1 cd) f1); show_bool (stranded O c0 (resolve O f2 cd) f2);
          show_bool (no_loss f0 f2)] in
  line ["ops"; join ";" (map show_eff ops)] ::
  line ["init"; show_fs f0; show_inforce (resolve O f0 cd)] ::
  row "full" 0 0 0 (rerun O c f0 b) "-" ::
  flat_map (fun kn => let '(k, (j, n)) := kn in
    row "crash" k j n (crash ops k j n f0) "-" ::
    (if Nat.ltb k (length ops)
     then [row "fault" k j n (after_fault O c f0 b k j n)
               (match c with Up => show_inforce (up_inrun_after_fault (crash ops k j n f0) cd) | Init => "-" end)]
     else [])) (scen ops).

Definition show_xeff (e : xeff) : string :=
  match e with
  | XB b => show_eff b
  | XBegin a b => sapp "Mx " (sapp (show_path a) (sapp " " (show_path b)))
  | XCopy a b => sapp "CP " (sapp (show_path a) (sapp " " (show_path b)))
  | XUnlink p => sapp "X:os.unlink " (show_path p)
  | XRmdir p => sapp "X:os.rmdir " (show_path p)
  | XFail => "FAIL"
  end.
Definition xproj (e : xeff) : eff := match e with XB b => b | _ => Mkdir [] end.
Definition xscen (f0 : fs) (ops : list xeff) : list (nat * (nat * nat)) :=
  flat_map (fun k =>
    match nth_error ops k with
    | Some (XCopy s _) =>
      map (fun n => (k, (0, n))) (seq 0 (S (String.length (match content_at f0 s with Some c => c | None => "" end))))
    | _ =>
      let ps := pend_at (map xproj ops) [] false k in
      match ps with
      | [] => [(k, (0, 0))]
      | _ => flat_map (fun j => map (fun n => (k, (j, n))) (seq 0 (S (String.length (nth j ps ""))))) (seq 0 (length ps))
             ++ [(k, (length ps, 0))]
      end
    end) (seq 0 (S (length ops))).
Definition show_lres (r : inforce * option string) : string := sapp (show_inforce (fst r)) (sapp "~" (show_ostr (snd r))).
Definition layout_report (O : oracle) (f0 : fs) (r0 : string) : list string :=
  let ops := update_ops O f0 in
  let row kind k j n f1 :=
    let f2 := update_rerun O f1 in
    line [kind; show_nat k; show_nat j; show_nat n; show_fs f1; show_lres (resolve_layout O f1); show_fs f2;
          show_lres (resolve_layout O f2); "-";
          show_bool (no_loss f0 f1); show_bool (lres_eqb (resolve_layout O f1) (resolve_layout O f0));
          show_bool (lres_eqb (resolve_layout O f2) (resolve_layout O f0));
          show_bool (layout_stranded O r0 (fst (resolve_layout O f1)) f1);
          show_bool (layout_stranded O r0 (fst (resolve_layout O f2)) f2);
          show_bool (no_loss f0 f2)] in
  line ["ops"; join ";" (map show_eff ops)] ::
  line ["init"; show_fs f0; show_lres (resolve_layout O f0)] ::
  row "full" 0 0 0 (update_rerun O f0) ::
  flat_map (fun kn => let '(k, (j, n)) := kn in
    row "crash" k j n (crash ops k j n f0) ::
    (if Nat.ltb k (length ops) then [row "fault" k j n (crash ops k j n f0)] else [])) (scen ops).
'''

HEADER += r'''
Definition xlayout_report (O : oracle) (f0 : fs) (r0 : string) : list string :=
  let ops := xupdate_ops O f0 in
  let row kind k j n f1 :=
    let f2 := xupdate_rerun O f1 in
    line [kind; show_nat k; show_nat j; show_nat n; show_fs f1; show_lres (resolve_layout O f1); show_fs f2;
          show_lres (resolve_layout O f2); "-";
          show_bool (no_loss f0 f1); show_bool (lres_eqb (resolve_layout O f1) (resolve_layout O f0));
          show_bool (lres_eqb (resolve_layout O f2) (resolve_layout O f0));
          show_bool (layout_stranded O r0 (fst (resolve_layout O f1)) f1);
          show_bool (layout_stranded O r0 (fst (resolve_layout O f2)) f2);
          show_bool (no_loss f0 f2)] in
  line ["ops"; join ";" (map show_xeff ops)] ::
  line ["init"; show_fs f0; show_lres (resolve_layout O f0)] ::
  row "full" 0 0 0 (xupdate_rerun O f0) ::
  flat_map (fun kn => let '(k, (j, n)) := kn in
    row "crash" k j n (xcrash ops k j n f0) ::
    (if Nat.ltb k (length ops) then [row "fault" k j n (xinterrupt true ops k j n f0)] else [])) (xscen f0 ops).
'''


# ---- running both sides ---------------------------------------------------------------------------------
def run_impl_jobs(jobs, nproc=4):
    buckets = [[] for _ in range(nproc)]
    order = sorted(range(len(jobs)), key=lambda i: -jobs[i].get('weight', 1))
    for n, i in enumerate(order):
        buckets[n % nproc].append(jobs[i])
    res = {}
    with concurrent.futures.ThreadPoolExecutor(nproc) as ex:
        for out in ex.map(lambda b: run_impl(IMPL, {'jobs': b}, timeout=3000)['results'] if b else [], buckets):
            for r in out:
                res[r['id']] = r
    return res


def get_oracles(tier):
    """Facts about texts, computed with the real libraries (phase 1: converter, starters)."""
    wd = os.path.join(SCR, 'oracle')
    return run_impl(IMPL, {'op': 'oracle', 'texts': {}, 'csvs': {C_RULES: C_RULES, C_EMPTY: C_EMPTY}, 'workdir': wd})


def get_text_facts(infos):
    texts, refs = {}, {}
    for info in infos:
        tok = info['tok']
        for t in settings_candidates(info):
            x = tok.interp(t)
            texts[sha(x)] = x
        for t in rules_candidates(info):
            x = tok.interp(t)
            refs[sha(x)] = {'kind': 'new', 'text': x}
    r = run_impl(IMPL, {'op': 'oracle', 'texts': texts, 'csvs': {}, 'refs': refs, 'workdir': os.path.join(SCR, 'oracle')})
    newrules = {k: (len(v['rules']) if 'rules' in v else 0) for k, v in r['refs'].items()}
    return r['texts'], newrules


def parse_model(out):
    strs = [m.replace('""', '"') for m in re.findall(r'"((?:[^"]|"")*)"', out)]
    shapes, cur = {}, None
    for s in strs:
        f = s.split('|')
        if f[0] == 'shape':
            cur = shapes.setdefault(f[1], {'rows': {}})
        elif f[0] == 'ops':
            cur['ops'] = [x for x in f[1].split(';') if x]
        elif f[0] == 'init':
            cur['init'] = f[1:]
        else:
            cur['rows'][(f[0], int(f[1]), int(f[2]), int(f[3]))] = f[4:]
    return shapes


def fs_of(tok, s):
    out = {}
    for ent in s.split(','):
        if not ent:
            continue
        if ent.endswith('/'):
            out[ent[:-1]] = None
        else:
            p, c = ent.split('=', 1)
            out[p] = tok.interp(c)
    return out


def run_model(infos, facts, newrules, nproc=4):
    chunks = [[] for _ in range(nproc)]
    for i, info in enumerate(infos):
        sid = info['shape']['id']
        body = [f'Definition O_{i} : oracle :=\n  {oracle_coq(info, facts, newrules)}.']
        if info['shape']['kind'] == 'csv':
            call = f'csv_report O_{i} {info["cmd_coq"]} {info["f0"]} "{info["tok"].lab["c"]}"'
        elif info['shape'].get('exdev'):
            call = f'xlayout_report O_{i} {info["f0"]} "{info["tok"].lab["r"]}"'
        else:
            call = f'layout_report O_{i} {info["f0"]} "{info["tok"].lab["r"]}"'
        body.append(f'Eval vm_compute in ("shape|{sid}" :: {call}).')
        chunks[i % nproc].append('\n'.join(body))
    shapes = {}
    with concurrent.futures.ThreadPoolExecutor(nproc) as ex:
        outs = list(ex.map(lambda a: run_cases(f'C15_{a[0]}', HEADER, '\n'.join(a[1])) if a[1] else (0, '', ''),
                           enumerate(chunks)))
    for rc, out, err in outs:
        if rc != 0:
            return None, (out + err)[-1500:]
        shapes.update(parse_model(out))
    return shapes, ''


# ---- the property on implementation observations only (direct oracle) -----------------------------------
def lost_files(t0, t1):
    texts = [v for v in t1.values() if v is not None]
    return sorted(rel for rel, v in t0.items()
                  if v is not None and not rel.endswith('.tally-schema') and not any(x.startswith(v) for x in texts))


def rules_user(info, obs):
    """the rules the next run uses are the user's (rule level, and `tally up` level when it runs)"""
    if 'error' in obs or obs.get('rules') is None:
        return False
    ok = obs['rules'] in info['ref_rules']
    up = obs.get('up')
    if ok and up and up.get('classification') is not None and info.get('ref_cls') is not None:
        ok = up['classification'] == info['ref_cls']
    return ok


def empty_in_force(obs):
    return 'error' not in obs and obs.get('rules') == []


def user_rules_on_disk(info, tree):
    if not info['user_nrules']:
        return False
    return any(v is not None and v in info['user_texts'] for v in tree.values())


def layout_same(info, obs):
    i0 = info['initial']
    if 'error' in obs or 'error' in i0:
        return ('error' in obs) == ('error' in i0)
    same = obs.get('rules') == i0.get('rules') and obs.get('data') == i0.get('data')
    if same and obs.get('up') and i0.get('up'):
        same = obs['up'].get('classification') == i0['up'].get('classification')
    return same


def signature(info, sc, clause, detail):
    """A specific, state-based name for a failing case (computed from implementation observations)."""
    sh = info['shape']
    t1 = sc['tree']
    if sh['kind'] == 'csv':
        c0, conv, s0 = info['c0'], info['conv'], info['s0']
        csv = t1.get(info['csv_rel'])
        bak = t1.get(info['csv_rel'] + '.bak')
        rules = t1.get('config/merchants.rules')
        st = t1.get('config/settings.yaml')
        moved = csv is None and bak == c0
        if clause == 'lost':
            rel = detail
            if rel == 'config/merchant_categories.csv.bak' and sh['bak'] and bak == c0:
                return 'C15/existing-bak-overwritten'
            if rel == 'config/merchants.rules' and sh['rules'] and rules is not None and conv.startswith(rules):
                return 'C15/existing-merchants-rules-overwritten'
            return 'C15/lost:' + rel
        appended = st[len(s0):] if (st is not None and s0 is not None and st.startswith(s0)) else None
        if sh['cmd'] == 'init' and appended is not None and appended.endswith(V1 + V2):
            appended = appended[:-len(V1 + V2)]
        if sh['settings'] == 'csvkey':
            # settings.yaml names the CSV explicitly: only `tally init` (which looks for merchant_categories.csv by
            # name, whatever settings say) migrates it on the unchanged tree
            if sh['cmd'] == 'init' and moved and rules == conv and appended == '':
                return 'C15/init-migrates-explicitly-configured-csv-key-left-dangling'
            return f"C15/explicit-csv-key-unclassified-{clause}-{sc['mode']}"
        if moved and rules == conv and s0 is not None and 'merchants_file:' in s0 and appended == '':
            return 'C15/settings-mentions-merchants_file-never-pointed'
        if moved and rules == conv and appended is not None and (L1 + L2).startswith(appended) and appended != L1 + L2:
            if len(appended) > len(L1):
                return 'C15/torn-settings-append'
            if sc['mode'] == 'fault':
                return 'C15/fault-on-settings-append-empty-rules'
            return 'C15/crash-after-move-before-settings-append'
        if clause == 'inrun' and moved and rules == conv:
            return 'C15/failed-migration-run-continues-with-moved-csv'
        if sh['cmd'] == 'init' and sh['settings'] == 'absent' and rules is not None and rules != conv and csv == c0:
            return 'C15/init-without-settings-incomplete-rules-pinned'
        return f"C15/unclassified-{clause}-{sc['mode']}"
    # layout
    if clause == 'lost':
        return 'C15/lost:' + detail
    if sh.get('exdev'):
        # the copy fallback of a cross-device move was interrupted; on the unchanged tree ./config still wins, but
        # re-running `tally update` moves ./config INTO the partial ./tally/config left behind
        if 'tally/config/config' in t1 and sc['mode'] == 'rerun':
            return 'C15/layout-cross-device-copy-interrupted-rerun-nests'
        if 'tally/config/settings.yaml' in t1 and 'config' not in t1 and 'data/t.csv' in t1:
            return 'C15/layout-config-moved-data-left-behind'     # (data/ not yet, or only partly, copied)
        return f"C15/cross-device-unclassified-{clause}-{sc['mode']}"
    if 'tally/config/config' in t1:
        return 'C15/layout-existing-tally-config-nests-old-config'
    if 'tally/data/data' in t1:
        return 'C15/layout-existing-tally-data-nests-data'
    if 'tally/config/settings.yaml' in t1 and 'config' not in t1 and 'data/t.csv' in t1 and 'tally/data/t.csv' not in t1:
        return 'C15/layout-config-moved-data-left-behind'
    return f"C15/unclassified-{clause}-{sc['mode']}"


def direct_oracle(info, res):
    """-> list of (scenario index, clause, detail, signature)"""
    bad = []
    t0 = info['tree_snapshot']
    for i, sc in enumerate(res['scenarios']):
        t1, t2 = sc['tree'], sc['rerun']['tree']
        o1, o2 = sc['observe'], sc['rerun']['observe']
        for rel in lost_files(t0, t1):
            bad.append((i, 'lost', rel, signature(info, sc, 'lost', rel)))
        for rel in lost_files(t0, t2):
            if rel not in lost_files(t0, t1):
                bad.append((i, 'lost', rel, signature(info, dict(sc, tree=t2), 'lost', rel)))
        if info['shape']['kind'] == 'csv':
            if not info['precondition']:
                continue
            if not (rules_user(info, o1) or rules_user(info, o2)):
                bad.append((i, 'not-users-rules-even-after-rerun', None, signature(info, sc, 'rules', None)))
            elif empty_in_force(o1) and user_rules_on_disk(info, t1):
                bad.append((i, 'empty-rule-set-while-rules-on-disk', None, signature(info, sc, 'stranded', None)))
            elif empty_in_force(o2) and user_rules_on_disk(info, t2):
                bad.append((i, 'empty-rule-set-while-rules-on-disk-after-rerun', None,
                            signature(info, dict(sc, tree=t2, mode='rerun'), 'stranded', None)))
            elif sc['mode'] == 'fault' and info['shape']['cmd'] == 'up' and info.get('ref_cls') is not None \
                    and sc['first'].get('inrun') is not None and sc['first']['inrun'] != info['ref_cls'] \
                    and user_rules_on_disk(info, t1):
                bad.append((i, 'failed-run-classified-with-empty-rules', None, signature(info, sc, 'inrun', None)))
        else:
            if not (layout_same(info, o1) or layout_same(info, o2)):
                bad.append((i, 'budget-does-not-classify-as-before-even-after-rerun', None, signature(info, sc, 'rules', None)))
            elif empty_in_force(o1) and any(v == R_USER for v in t1.values()):
                bad.append((i, 'empty-rule-set-while-rules-on-disk', None, signature(info, sc, 'stranded', None)))
            elif empty_in_force(o2) and any(v == R_USER for v in t2.values()):
                bad.append((i, 'empty-rule-set-while-rules-on-disk-after-rerun', None,
                            signature(info, dict(sc, tree=t2, mode='rerun'), 'stranded', None)))
    return bad


# ---- tie: model vs implementation ------------------------------------------------------------------------
def trace_tokens(tok, trace, upto=None):
    """the recorded real trace rendered like the model's show_eff (data mapped back to tokens)"""
    inv = {}
    for lab, t in tok.lab.items():
        inv.setdefault(tok.interp(t), t)
    out = []
    for e in trace[:upto]:
        if e[0] == 'W':
            d = inv.get(e[2])
            out.append(f'W {e[1]} {d if d is not None else "<unknown text " + sha(e[2])[:8] + ">"}')
        elif e[0] == 'M':
            out.append(f'M {e[1]} {e[2]}')
        else:
            out.append(' '.join(e))
    return out


def expect_resolve(tok, s, layout=False):
    data = None
    if layout:
        s, d = s.split('~', 1)
        data = tok.interp(d[2:]) if d.startswith('S:') else None
    if s == 'E':
        return {'kind': 'E'}
    if s == 'N':
        return {'kind': 'N', 'data': data}
    return {'kind': s[0], 'text': tok.interp(s[2:]), 'data': data}


def resolve_matches(exp, obs, tree, layout=False):
    if exp['kind'] == 'E':
        return 'error' in obs
    if 'error' in obs:
        return False
    if layout and obs.get('data') != exp.get('data'):
        return False
    if exp['kind'] == 'N':
        return obs.get('format') is None and obs.get('rules') == []
    fmt = 'csv' if exp['kind'] == 'C' else 'new'
    return obs.get('format') == fmt and obs.get('file') in tree and tree[obs['file']] == exp['text']


def writes_in_flight(trace):
    """for every step index k: the writes [(index, data)] to the file that is open while step k runs (before k)"""
    out, rel, ws = [], None, []
    for j, e in enumerate(trace):
        out.append(list(ws))
        if e[0] in ('T', 'A'):
            rel, ws = e[1], []
        elif e[0] == 'W' and e[1] == rel:
            ws.append((j, e[2]))
        elif e[0] == 'C' and e[1] == rel:
            rel, ws = None, []
    out.append(list(ws))
    return out


def model_key(sc, trace, start, offs, tree=None):
    """The model row (mode, k, j, n) of a real scenario: the shim's `n` counts how much of everything buffered
    so far had reached the disk; the model says: the first j buffered pieces entirely and n chunks of piece j."""
    if sc['mode'] == 'trace':
        return ('full', 0, 0, 0)
    k, n = sc['k'], sc['n']
    if k >= len(trace):
        return (sc['mode'], k - start, 0, 0)
    e = trace[k]
    if e[0] == 'CP':                     # a copy cut after n bytes of its source
        o = offs.get((tree or {}).get(e[1]))
        if o is None or n not in o:
            return None
        return (sc['mode'], k - start, 0, o.index(n))
    ws = writes_in_flight(trace)[k]
    if e[0] == 'W':
        ws = ws + [(k, e[2])]
    if not ws:
        return (sc['mode'], k - start, 0, 0)
    base = 0
    for idx, (j, d) in enumerate(ws):
        if n < base + len(d):
            o = offs.get(d)
            if o is None or (n - base) not in o:
                return None
            return (sc['mode'], k - start, idx, o.index(n - base))
        base += len(d)
    return (sc['mode'], k - start, len(ws), 0) if n == base else None


def compare(info, res, model):
    """-> list of mismatch dicts (broken correspondence)"""
    tok = info['tok']
    sh = info['shape']
    layout = sh['kind'] == 'layout'
    mism = []
    if model is None:
        return [{'what': 'model produced no output for this shape'}]
    scs = res['scenarios']
    tr = scs[0]['first']
    span = tr.get('span')
    real_ops = trace_tokens(tok, tr['trace'][span[0]:span[1]]) if span and span[1] is not None else []
    if real_ops != model['ops']:
        mism.append({'what': 'effect trace differs from the model\'s effect list', 'model_ops': model['ops'], 'real_ops': real_ops,
                     'real_full_trace': trace_tokens(tok, tr['trace'])})
        return mism
    start = span[0] if span else 0
    if fs_of(tok, model['init'][0]) != info['tree_snapshot']:
        mism.append({'what': 'initial tree differs', 'model': model['init'][0]})
    if not resolve_matches(expect_resolve(tok, model['init'][1], layout), res['initial'], info['tree_snapshot'], layout):
        mism.append({'what': 'resolve of the initial tree differs', 'model': model['init'][1], 'real': strip_obs(res['initial'])})
    offs = {}
    for lab in tok.lab:
        offs[tok.interp(tok.lab[lab])] = tok.offsets(lab)
    seen = set()
    for sc in scs:
        key = model_key(sc, tr['trace'], start, offs, info['tree'])
        if key is None:
            mism.append({'what': 'cut offset not on a chunk boundary', 'scenario': sc_id(sc)})
            continue
        row = model['rows'].get(key)
        if row is None:
            mism.append({'what': 'model has no such scenario', 'scenario': sc_id(sc), 'key': list(key)})
            continue
        seen.add(key)
        fs1, r1, fs2, r2, inrun = row[0], row[1], row[2], row[3], row[4]
        if fs_of(tok, fs1) != sc['tree']:
            mism.append({'what': 'state after the interrupted run differs', 'scenario': sc_id(sc), 'model': fs1,
                         'real': {k: (v if v is None or len(v) < 80 else sha(v)[:8]) for k, v in sc['tree'].items()}})
            continue
        if not resolve_matches(expect_resolve(tok, r1, layout), sc['observe'], sc['tree'], layout):
            mism.append({'what': 'resolve_rules differs', 'scenario': sc_id(sc), 'model': r1, 'real': strip_obs(sc['observe'])})
        if fs_of(tok, fs2) != sc['rerun']['tree']:
            mism.append({'what': 'state after re-running differs', 'scenario': sc_id(sc), 'model': fs2,
                         'real': {k: (v if v is None or len(v) < 80 else sha(v)[:8]) for k, v in sc['rerun']['tree'].items()}})
            continue
        if not resolve_matches(expect_resolve(tok, r2, layout), sc['rerun']['observe'], sc['rerun']['tree'], layout):
            mism.append({'what': 'resolve_rules after re-running differs', 'scenario': sc_id(sc), 'model': r2,
                         'real': strip_obs(sc['rerun']['observe'])})
        if inrun != '-' and info.get('ref_cls') is not None and sc['first'].get('inrun') is not None and info['precondition'] \
                and info['user_nrules']:
            want_user = inrun.startswith('C:') and tok.interp(inrun[2:]) == info['c0']
            if want_user != (sc['first']['inrun'] == info['ref_cls']):
                mism.append({'what': 'rules used by the failed run differ', 'scenario': sc_id(sc), 'model': inrun,
                             'real': sc['first']['inrun']})
    if not model['ops']:
        seen.add(('crash', 0, 0, 0))      # a command that does not migrate has no interruption points
    # rows with the same interrupted state are the same case (e.g. "cut c of the write" = "close with the buffer
    # flushed up to c"); every distinct model state must have been materialised
    seen_states = {(k[0], model['rows'][k][0]) for k in seen if k in model['rows']}
    missing = [list(k) for k, row in model['rows'].items() if k not in seen and (k[0], row[0]) not in seen_states]
    if missing:
        mism.append({'what': 'model scenarios never materialised', 'keys': missing[:10], 'n': len(missing)})
    return mism


def verdict_bits(info, res, model, bad):
    """model verdicts vs direct-oracle verdicts on the same scenario (both must call the same cases unsafe)"""
    out = []
    if model is None:
        return out
    tok = info['tok']
    tr = res['scenarios'][0]['first']
    span = tr.get('span')
    start = span[0] if span else 0
    offs = {tok.interp(tok.lab[lab]): tok.offsets(lab) for lab in tok.lab}
    badset = {}
    for i, clause, detail, sig in bad:
        badset.setdefault(i, set()).add('lost' if clause == 'lost' else 'rules')
    for i, sc in enumerate(res['scenarios']):
        key = model_key(sc, tr['trace'], start, offs, info['tree'])
        if key is None:
            continue
        row = model['rows'].get(key)
        if row is None:
            continue
        noloss1, u1, u2, s1, s2, noloss2 = [x == '1' for x in row[5:11]]
        m_lost = not (noloss1 and noloss2)
        m_rules = (not (u1 or u2)) or s1 or s2
        if info['shape']['kind'] == 'csv' and not info['precondition']:
            m_rules = False
        r = badset.get(i, set())
        # the failed run's own classification (Up) is a third way to be unsafe, only on the real side
        if m_lost != ('lost' in r):
            out.append({'what': 'content-loss verdict differs', 'scenario': sc_id(sc), 'model_lost': m_lost})
        if m_rules != ('rules' in r):
            only_inrun = any(c == 'failed-run-classified-with-empty-rules' for j, c, d, s in bad if j == i)
            if not (only_inrun and not m_rules):
                out.append({'what': 'rules verdict differs', 'scenario': sc_id(sc), 'model_unsafe': m_rules,
                            'model_bits': row[5:11]})
    return out


def unmodelled_expectation(info, res):
    """shapes outside the Coq model: the little that is pinned about their effect trace"""
    sh = info['shape']
    tr = res['scenarios'][0]['first'].get('trace') or []
    if sh.get('settings') == 'csvkey' and sh['cmd'] == 'up' and tr:
        return [{'what': '`tally up --migrate` performs file-system effects on a budget whose settings.yaml names its '
                         'merchants file explicitly (expected: loaded as configured, no migration)', 'real_ops': tr[:12]}]
    if sh.get('exdev') and not any(e[0] == 'CP' for e in tr):
        return [{'what': 'cross-device move did not go through the copy fallback (shim out of date?)', 'real_ops': tr[:12]}]
    return []


def sc_id(sc):
    return {'mode': sc['mode'], 'k': sc.get('k', -1), 'n': sc.get('n', 0)}


def strip_obs(o):
    return {k: v for k, v in o.items() if k not in ('data',)}


# ---- main --------------------------------------------------------------------------------------------------
def prepare(tier, shapes):
    orc = get_oracles(tier)
    infos = []
    for sh in shapes:
        info = build_shape(sh, tier, orc)
        info['orc'] = orc
        infos.append(info)
    facts, newrules = get_text_facts([i for i in infos if i['shape'].get('modelled', True)])
    return orc, infos, facts, newrules


def make_job(info, scenarios='auto', keep=False, root=None):
    tok = info['tok']
    cuts = {}
    for lab in tok.lab:
        cuts[tok.interp(tok.lab[lab])] = tok.offsets(lab)
    sh = info['shape']
    return {'id': sh['id'], 'root': root or os.path.join(SCR, sh['id']), 'tree': info['tree'], 'cmd': sh['cmd'],
            'scenarios': scenarios, 'cli': True, 'cuts': cuts, 'keep': keep, 'exdev': bool(sh.get('exdev')), 'all_cuts': info['tok'].tier == 'thorough',
            'weight': 3 if sh['kind'] == 'csv' and sh['cmd'] == 'init' else 2}


def finish_info(info, res, refs):
    """reference observations for the direct oracle (all from the implementation)"""
    sh = info['shape']
    info['initial'] = res['initial']
    info['tree_snapshot'] = dict(info['tree'])
    if sh['kind'] == 'csv':
        info['ref_rules'] = [refs[sha(info['c0'])]['rules'], refs[sha(info['conv'])]['rules']]
        info['user_nrules'] = len(info['ref_rules'][0])
        info['user_texts'] = [info['c0'], info['conv']]
        up = res['initial'].get('up') or {}
        info['ref_cls'] = up.get('classification') if up.get('exit') == 0 else None
        # the budget classifies with the user's CSV before the migration (or has no settings yet: init)
        i0 = res['initial']
        if sh['settings'] == 'csvkey':
            info['precondition'] = 'error' not in i0 and i0.get('file') == info['csv_rel'] and i0.get('rules') == info['ref_rules'][0]
        elif sh['settings'] == 'absent':
            info['precondition'] = sh['cmd'] == 'init' and not sh['rules'] and sh['csv_has_rules']
        else:
            info['precondition'] = 'error' not in i0 and i0.get('format') == 'csv'
    return info


def evaluate(run, tier, shapes, report=True):
    orc, infos, facts, newrules = prepare(tier, shapes)
    refs_req = {}
    for info in infos:
        if info['shape']['kind'] == 'csv':
            refs_req[sha(info['c0'])] = {'kind': 'csv', 'text': info['c0']}
            refs_req[sha(info['conv'])] = {'kind': 'new', 'text': info['conv']}
    refs = run_impl(IMPL, {'op': 'oracle', 'texts': {}, 'csvs': {}, 'refs': refs_req,
                           'workdir': os.path.join(SCR, 'oracle')})['refs'] if refs_req else {}
    results = run_impl_jobs([make_job(i) for i in infos])
    model, err = run_model([i for i in infos if i['shape'].get('modelled', True)], facts, newrules)
    out = {'infos': infos, 'results': results, 'model': model, 'model_error': err, 'bad': {}, 'mism': {}, 'bits': {}}
    for info in infos:
        sid = info['shape']['id']
        res = results[sid]
        finish_info(info, res, refs)
        out['bad'][sid] = direct_oracle(info, res)
        if not info['shape'].get('modelled', True):
            out['mism'][sid] = unmodelled_expectation(info, res)
            out['bits'][sid] = []
        elif model is not None:
            out['mism'][sid] = compare(info, res, model.get(sid))
            out['bits'][sid] = [] if out['mism'][sid] else verdict_bits(info, res, model.get(sid), out['bad'][sid])
    return out


def replay_obj(info, sc, clause, detail, sig, res_sc):
    return {'kind': 'counterexample', 'shape': info['shape'], 'scenario': sc_id(sc), 'clause': clause, 'detail': detail,
            'initial_tree': info['tree'],
            'observed': {'tree_after': {k: (v if v is None or len(v) < 400 else v[:120] + '...[' + sha(v)[:8] + ']')
                                        for k, v in res_sc['tree'].items()},
                         'rules_in_force': strip_obs(res_sc['observe']),
                         'after_rerun': strip_obs(res_sc['rerun']['observe']),
                         'first_run': {k: res_sc['first'].get(k) for k in ('exit', 'crashed', 'inrun', 'child_status')}},
            'expected': 'no content lost; the user\'s rules in force now or after re-running the command; never an empty '
                        'rule set while the user\'s rules are on disk',
            'obligation': 'c15 direct oracle on the implementation'}


def main(tier):
    run = Run('C15', tier)
    run.assumptions = [
        'hand model (C15/Model.v) of _migrate_csv_to_rules, _check_merchant_migration, cmd_init/init_config, migrate_v0_to_v1, '
        'run_migrations, find_config_dir and load_config\'s merchants_file resolution; tied by effect traces and by every '
        'crash/fault state materialised on disk (not regenerated from source)',
        'oracles (Section variable O): csv_to_merchants_content, yaml.safe_load(settings).get("merchants_file"), the substring '
        'tests on settings.yaml, rule counts of texts, and the literal texts written; tables for the generated budgets are '
        'computed with the real libraries every run',
        'file-system semantics assumed: rename is atomic and replaces an existing file; written text is buffered and becomes '
        'durable at close (the shim buffers every write handle and the model flushes at Close), an interruption leaves a '
        'prefix of the buffered pieces (none, a torn flush, all); completed steps are not reordered by the file system',
        'interruption points are the write effects of the migration functions themselves (not of the rest of `tally init`): a '
        'crash and a single OSError at every step incl. each close/flush and every step that runs while a file is still open, '
        'with the buffer flushed up to chunk boundaries (quick: 3-5 cuts per text; thorough: every 3rd byte of the settings line)',
        'shutil.move on one file system is one atomic step (Model.Move); across file systems (rename -> EXDEV) it is the effect '
        'list of C15/XMove.v (mkdir, one copy per file, one unlink per file, rmdir; copytree goes on after a failed copy), '
        'tied on shapes layoutx-* by trace and by every interrupted state; directories moved that way are flat and are '
        'copied in directory order as observed',
        'budgets whose settings.yaml names a *.csv merchants_file explicitly (shapes csvkey-*) are outside the Coq model '
        '(load_config format tag / get_all_rules extension test not modelled): direct oracle + empty-trace expectation only']
    with CoqLock():
        order_vo_times()
    res = run.proof_step(COQ_FILES, extra_trusted=[
        'harness/c15.py + harness/impl_c15.py (effect shim, crash/fault materialisation, token interpretation, direct oracle)',
        'CPython os/shutil/io as the things observed; yaml.safe_load as an oracle'])
    broken = []
    if not res['ok']:
        broken.append({'kind': 'broken-obligation', 'detail': first_error(res['log'])})
    if res['hygiene']:
        broken.append({'kind': 'hygiene', 'detail': res['hygiene']})

    if os.path.exists(SCR):
        shutil.rmtree(SCR, ignore_errors=True)
    shapes = csv_shapes() + layout_shapes()
    ev = evaluate(run, tier, shapes)
    n_viol = 0
    n_crash = n_fault = n_states = 0
    unsafe_known = {}
    by_sig = {}
    for info in ev['infos']:
        sid = info['shape']['id']
        r = ev['results'][sid]
        for sc in r['scenarios']:
            n_crash += sc['mode'] in ('crash', 'trace')
            n_fault += sc['mode'] == 'fault'
        n_states += len({json.dumps(sc['tree'], sort_keys=True) for sc in r['scenarios']})
        for i, clause, detail, sig in ev['bad'][sid]:
            sc = r['scenarios'][i]
            by_sig.setdefault(sig, []).append((len(info['tree']), max(sc.get('k', -1), 0), sc.get('n', 0), sid, i, clause, detail))
    # one report per distinct signature: the smallest budget, earliest step; the rest is counted
    for sig, lst in sorted(by_sig.items()):
        lst.sort()
        _, _, _, sid, i, clause, detail = lst[0]
        info = next(x for x in ev['infos'] if x['shape']['id'] == sid)
        sc = ev['results'][sid]['scenarios'][i]
        obj = replay_obj(info, sc, clause, detail, sig, sc)
        obj['n_failing_cases_with_this_signature'] = len(lst)
        obj['shapes_affected'] = sorted({x[3] for x in lst})
        if run.violation('oracle', obj, signature=sig):
            n_viol += 1
        else:
            unsafe_known[sig] = len(lst)
    if ev['model'] is None:
        broken.append({'kind': 'broken-correspondence', 'obligation': 'model run (cases.v)', 'detail': ev['model_error']})
    for sid, mm in ev['mism'].items():
        if mm:
            info = next(i for i in ev['infos'] if i['shape']['id'] == sid)
            broken.append({'kind': 'broken-correspondence', 'obligation': 'model_vs_impl(C15.Model, ' + info['shape']['cmd'] + ')',
                           'shape': info['shape'], 'initial_tree': info['tree'], 'detail': mm[:3], 'n': len(mm)})
    for sid, mm in ev['bits'].items():
        if mm:
            info = next(i for i in ev['infos'] if i['shape']['id'] == sid)
            broken.append({'kind': 'broken-correspondence', 'obligation': 'model verdict vs direct oracle',
                           'shape': info['shape'], 'initial_tree': info['tree'], 'detail': mm[:3], 'n': len(mm)})
    if broken and n_viol == 0:
        b0 = broken[0]
        run.violation('broken', {'kind': b0['kind'], 'obligation': b0.get('obligation') or
                                 (b0['detail'].get('obligation') if isinstance(b0.get('detail'), dict) else None),
                                 'shape': b0.get('shape'), 'initial_tree': b0.get('initial_tree'), 'broken': broken[:6],
                                 'n_broken': len(broken),
                                 'searched': f'{n_crash} crash states and {n_fault} fault states over {len(shapes)} shapes '
                                             'against the C15 oracle: none fails beyond the known findings'},
                      found_input=False)
    nontriv = sum(1 for i in ev['infos'] if len(ev['results'][i['shape']['id']]['scenarios']) > 1)
    run.cov.update({
        'evaluations': n_crash + n_fault, 'distinct_nontrivial': n_states, 'exhaustive': True,
        'rule': 'every initial budget shape (CSV migration: command up/init x settings absent / without / with a '
                '"merchants_file:" mention x .bak exists x merchants.rules exists x CSV has rules; layout: data x output x '
                'tally/ x tally/config x tally/data pre-existing) x every prefix of the migration\'s effect trace x every chunk '
                'cut of the in-flight write, as a crash (os._exit) and as a single OSError; non-trivial = distinct on-disk states',
        'shapes': len(shapes), 'shapes_with_migration': nontriv, 'crash_states': n_crash, 'fault_states': n_fault,
        'distinct_disk_states': n_states, 'unsafe_cases_by_known_signature': unsafe_known,
        'model_vs_impl_scenarios': sum(len(m['rows']) for m in (ev['model'] or {}).values()),
        'correspondence_mismatches': sum(len(v) for v in ev['mism'].values()) + sum(len(v) for v in ev['bits'].values()),
        'samples': [ev['infos'][0]['shape'], ev['infos'][-1]['shape']],
        'discards': {'csv shapes where the initial budget does not classify with the CSV (command does not migrate)':
                     sum(1 for i in ev['infos'] if i['shape']['kind'] == 'csv' and not i['precondition'])}})
    shutil.rmtree(SCR, ignore_errors=True)
    run.finish()


def replay(path):
    obj = json.load(open(path))
    if obj.get('kind') != 'counterexample':
        main('quick')
        return 0
    sh = obj['shape']
    orc, infos, facts, newrules = prepare('quick', [sh])
    info = infos[0]
    sc = obj['scenario']
    root = os.path.join(SCR, 'replay-' + sh['id'])
    scen = [{'mode': 'trace'}] if sc['mode'] == 'trace' else [{'mode': 'trace'}, sc]
    job = make_job(info, scenarios=scen, keep=True, root=root)
    res = run_impl(IMPL, {'jobs': [job]})['results'][0]
    refs_req = {}
    if sh['kind'] == 'csv':
        refs_req = {sha(info['c0']): {'kind': 'csv', 'text': info['c0']}, sha(info['conv']): {'kind': 'new', 'text': info['conv']}}
    refs = run_impl(IMPL, {'op': 'oracle', 'texts': {}, 'csvs': {}, 'refs': refs_req,
                           'workdir': os.path.join(SCR, 'oracle')})['refs'] if refs_req else {}
    finish_info(info, res, refs)
    bad = [b for b in direct_oracle(info, res) if b[0] == len(scen) - 1]
    last = res['scenarios'][-1]
    print(json.dumps({'materialised_at': os.path.join(root, f's{len(scen) - 1}', 'b'), 'scenario': sc,
                      'failing_clauses': [[b[1], b[2], b[3]] for b in bad],
                      'rules_in_force': strip_obs(last['observe']), 'after_rerun': strip_obs(last['rerun']['observe'])},
                     indent=1, default=str))
    if bad:
        print(f'VIOLATION property=C15 replay={path}')
        return 1
    return 0
