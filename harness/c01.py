"""C01 — the first matching categorizing rule decides merchant, category and subcategory.

Proof: C01/Props.v over Engine/Model.v (+ regenerated Gen/C01IsExpr.v, Gen/C09Specificity.v), for all oracles.
Tie:   model vs MerchantEngine.match / normalize_merchant (cached-engine path and legacy tuple loop) inside Coq, the
       oracle tables being filled from the implementation's own evaluator rule by rule (impl_engine.py).
Search (direct oracles on the implementation only):
  first          winner != first rule with a category whose condition the implementation's evaluator says is true
                 (.rules: match() and normalize_merchant; CSV: condition = re.search on the description and modifiers)
  unknown-name   two Unknown results with equal (transformed) descriptions carry different merchant names
  delete         the result changes when rules whose condition is false / not evaluable are deleted
  append         merchant/category/subcategory change when rules are appended after the winner
  transforms     normalize_merchant(d, transforms) != normalize_merchant(transformed d, no transforms)
  sequence       a transaction classified after others in the same load (normalize_merchant back to back, or as a row of a
                 statement through parse_generic_csv) gets another merchant/category/subcategory than when classified alone
  shadow         a file whose let binding / top-level variable is named like a primitive (amount, month, source, ...) classifies
                 differently from the same file with a fresh name for that binding
  aborted        any exception escapes match()/normalize_merchant (since /repo 58dcdc1 evaluation errors are ExpressionErrors
                 and skip the rule; RCrash stays in the model so that a regression shows up in the oracle tables and here)
"""
import copy
import json
import random

from engine_common import *

COQ_FILES = ENGINE_COQ + ['C01/Proofs.v', 'C01/Props.v']
SIG_F1 = 'C01/legacy-csv-pattern-evaluated-as-expression'
SIG_TAGERR = 'C01/legacy-tag-regex-error-skips-matching-rule'


def regen_gen():
    return regen_engine_gen()


# ---------------------------------------------------------------------------------------------------
def crashy(tr):
    o = tr.get('oracle') or {}
    if o.get('gv_crash'):
        return True
    if 'C' in o.get('cond', []):
        return True
    for dl in o.get('dyn', []):
        if any(d[1] == 'crash' for d in dl):
            return True
    return False


def expected_first(jr, tr):
    for r, c in zip(jr['rules'], tr['oracle']['cond']):
        if c == 'T' and r['category']:
            return r['id']
    return None


def named(jr, res):
    """Engine result with rule indices replaced by rule names (comparable across files)."""
    if 'crash' in res:
        return {'crash': True}
    nm = lambda i: None if i is None else jr['rules'][i]['name']
    out = {k: res[k] for k in ('matched', 'merchant', 'category', 'subcategory', 'tags', 'tag_sources', 'extra_fields')}
    out['matched_rule'] = nm(res['matched_rule'])
    out['merchant_rule'] = nm(res['merchant_rule'])
    out['subcategory_rule'] = nm(res['subcategory_rule'])
    out['all_matching'] = [nm(i) for i in res['all_matching']]
    return out


def norm_key(n):
    if 'crash' in n:
        return {'crash': True}
    return {k: n[k] for k in ('m', 'c', 's', 'info')}


def whole(jr, tr):
    out = {'fm': named(jr, tr['fm']), 'ms': named(jr, tr['ms'])}
    if 'norm' in tr and isinstance(tr['norm'], dict) and 'first_match' in tr['norm']:
        out['norm_fm'] = norm_key(tr['norm']['first_match'])
        out['norm_ms'] = norm_key(tr['norm']['most_specific'])
    return out


def mcs_fm(tr):
    f = tr['fm']
    if 'crash' in f:
        return None
    return [f['matched'], f['merchant'], f['category'], f['subcategory']]


def mcs_norm(n):
    return None if 'crash' in n else [n['m'], n['c'], n['s']]


def legacy_verdicts(jr, tr, t):
    """What the loop is expected to do per row if the ONLY deviation is 'pattern evaluated as expression'
    (and, second element, additionally 'tag regex error skips the rule')."""
    o = tr.get('oracle')
    if not o:
        return None, None
    v1, v2 = [], []
    for r, d, e, dl in zip(jr['rules'], legacy_direct(jr, t, tr), o['expr'], o['dyn']):
        v = (e == 'T') if looks_like_expression(r['pattern']) else d
        v1.append(v)
        v2.append(v and not any(x[1] == 'reerr' for x in dl))
    return v1, v2


def first_cat(rules, verdicts):
    for r, v in zip(rules, verdicts):
        if v and r['category']:
            return r['id']
    return None


# ---------------------------------------------------------------------------------------------------
# direct oracle on one base (case, txn)
def judge_base(c, jr, ti):
    """Returns list of (oracle name, detail, signature)."""
    t, tr = c['txns'][ti], jr['txns'][ti]
    out = []
    if c['kind'] == 'rules':
        if 'oracle' not in tr:
            return out
        aborted = [k for k, r in (('match(first_match)', tr['fm']), ('match(most_specific)', tr['ms']),
                                  ('normalize_merchant(first_match)', (tr.get('norm') or {}).get('first_match') or {}),
                                  ('normalize_merchant(most_specific)', (tr.get('norm') or {}).get('most_specific') or {}))
                   if 'crash' in r]
        if aborted or crashy(tr):
            # since /repo 58dcdc1 every evaluation error is an ExpressionError (rule skipped): an exception escaping
            # match()/normalize_merchant aborts classification of the transaction
            out.append(('aborted', {'why': 'an exception escapes ' + ', '.join(aborted or ['the per-rule evaluation']) +
                                           ': classification of the transaction is aborted',
                                    'exception': [tr['fm'].get('crash'), tr['ms'].get('crash')],
                                    'oracle_cond': tr['oracle'].get('cond'), 'gv_crash': tr['oracle'].get('gv_crash')}, None))
            return out
        e = expected_first(jr, tr)
        f = tr['fm']
        if e is None:
            if f['matched'] or f['category'] or f['merchant'] or f['subcategory'] or f['matched_rule'] is not None:
                out.append(('first', {'why': 'no categorizing rule matches but a result was assigned', 'observed': f}, None))
        else:
            r = jr['rules'][e]
            if not (f['matched'] and f['matched_rule'] == e and f['merchant'] == r['merchant'] and f['category'] == r['category']
                    and f['subcategory'] == r['subcategory']):
                out.append(('first', {'why': 'match(): winner is not the first categorizing rule whose condition is true',
                                      'expected_rule': r['name'], 'observed': f}, None))
        n = (tr.get('norm') or {}).get('first_match')
        if n is not None and 'crash' not in n:
            want = ['?', 'Unknown', 'Unknown'] if e is None else [jr['rules'][e]['merchant'], jr['rules'][e]['category'],
                                                                   jr['rules'][e]['subcategory']]
            got = mcs_norm(n)
            if (e is None and got[1:] != want[1:]) or (e is not None and got != want):
                out.append(('first', {'why': 'normalize_merchant: not the first categorizing rule whose condition is true',
                                      'expected': want, 'observed': n}, None))
    else:
        n = tr['norm']
        if 'crash' in n:
            out.append(('aborted', {'why': 'an exception escapes normalize_merchant (legacy loop): classification aborted',
                                    'exception': n['crash']}, None))
            return out
        e = first_cat(jr['rules'], legacy_direct(jr, c['txns'][ti], tr))
        want = ['?', 'Unknown', 'Unknown'] if e is None else [jr['rules'][e][k] for k in ('merchant', 'category', 'subcategory')]
        got = mcs_norm(n)
        if (e is None and got[1:] != want[1:]) or (e is not None and got != want):
            sig = None
            v1, v2 = legacy_verdicts(jr, tr, t)
            if v1 is not None:
                for vs, s in ((v1, SIG_F1), (v2, SIG_TAGERR)):
                    e2 = first_cat(jr['rules'], vs)
                    w2 = ['?', 'Unknown', 'Unknown'] if e2 is None else [jr['rules'][e2][k] for k in ('merchant', 'category', 'subcategory')]
                    if (e2 is None and got[1:] == w2[1:]) or (e2 is not None and got == w2):
                        sig = s
                        break
            out.append(('first', {'why': 'legacy loop: winner is not the first categorizing row whose regex matches the description '
                                         'and whose modifiers hold', 'expected': want,
                                  'expected_pattern': None if e is None else jr['rules'][e]['pattern'], 'observed': n}, sig))
    return out


# ---------------------------------------------------------------------------------------------------
# metamorphic variants
def variants(ci, c, jr, rnd=None):
    reqs = []
    rnd = case_rnd(c)
    if c.get('shadow_file'):
        reqs.append({'ci': ci, 'ti': 0, 'tag': 'shadow', 'case': {'kind': 'rules', 'file': c['shadow_file'], 'txns': c['txns']}})
    for ti, (t, tr) in enumerate(zip(c['txns'], jr['txns'])):
        if c['kind'] == 'rules':
            if 'oracle' not in tr or crashy(tr) or 'crash' in tr['fm'] or 'crash' in tr['ms'] or \
                    any('crash' in n for n in (tr.get('norm') or {}).values()):
                continue
            cond = tr['oracle']['cond']
            f = c['file']
            nonm = [i for i, x in enumerate(cond) if x in 'FS']
            if nonm:
                keep = [i for i in range(len(cond)) if i not in nonm]
                g = dict(f, rules=[f['rules'][i] for i in keep])
                reqs.append({'ci': ci, 'ti': ti, 'tag': 'delete', 'deleted': nonm, 'case': {'kind': 'rules', 'file': g, 'txns': [t]}})
                if len(nonm) > 1:
                    d = rnd.choice(nonm)
                    g = dict(f, rules=[r for i, r in enumerate(f['rules']) if i != d])
                    reqs.append({'ci': ci, 'ti': ti, 'tag': 'delete', 'deleted': [d], 'case': {'kind': 'rules', 'file': g, 'txns': [t]}})
            e = expected_first(jr, tr)
            if e is not None:
                names = [v[0].lower() for v in f['vars'] if v[0] != 'bad']
                extra = [gen_rule(rnd, 100 + k, names) for k in range(rnd.choice([1, 2, 3]))]
                g = dict(f, rules=f['rules'][:e + 1] + extra)
                reqs.append({'ci': ci, 'ti': ti, 'tag': 'append', 'case': {'kind': 'rules', 'file': g, 'txns': [t]}})
            if f['tfs']:
                st = tr['state']
                t2 = dict(t, d=st['desc'], field=None if st['field'] is None else dict(st['field']))
                reqs.append({'ci': ci, 'ti': ti, 'tag': 'transforms', 'case': {'kind': 'rules', 'file': dict(f, tfs=[]), 'txns': [t2]}})
        else:
            n = tr['norm']
            if 'crash' in n:
                continue
            f = c['file']
            nonm = [i for i, d in enumerate(legacy_direct(jr, c['txns'][ti], tr)) if not d]
            if nonm:
                g = dict(f, rows=[r for i, r in enumerate(f['rows']) if i not in nonm])
                if g['rows']:
                    reqs.append({'ci': ci, 'ti': ti, 'tag': 'delete', 'deleted': nonm, 'case': {'kind': 'csv', 'file': g, 'txns': [t]}})
            e = first_cat(jr['rules'], legacy_direct(jr, c['txns'][ti], tr))
            if e is not None:
                extra = gen_csv_file(rnd, rnd.choice([1, 2]))['rows']
                g = dict(f, rows=f['rows'][:e + 1] + extra)
                reqs.append({'ci': ci, 'ti': ti, 'tag': 'append', 'case': {'kind': 'csv', 'file': g, 'txns': [t]}})
            if f['tfs']:
                st = tr['state']
                t2 = dict(t, d=st['desc'], field=None if st['field'] is None else dict(st['field']))
                reqs.append({'ci': ci, 'ti': ti, 'tag': 'transforms', 'case': {'kind': 'csv', 'file': dict(f, tfs=[]), 'txns': [t2]}})
    return reqs


def judge_variant(c, jr, req, vr):
    """Compare a variant result with its base.  Returns list of (oracle, detail, signature)."""
    if 'parse_error' in vr or 'harness_error' in vr:
        return [('harness', {'why': 'variant did not load', 'detail': vr}, None)]
    if req['tag'] == 'shadow':
        out = []
        for k, (tr, vt) in enumerate(zip(jr['txns'], vr['txns'])):
            a, b = whole(jr, tr), whole(vr, vt)
            for w in (a, b):            # the matched pattern TEXT differs by construction (the binding is renamed)
                for part in ('norm_fm', 'norm_ms'):
                    if isinstance(w.get(part), dict) and isinstance(w[part].get('info'), dict):
                        w[part] = dict(w[part], info=dict(w[part]['info'], pattern=None))
            if a != b:
                diff = [p for p in a if a[p] != b.get(p)]
                out.append(('shadow', {'why': 'a let binding / top-level variable named like a transaction primitive does not shadow it: the '
                                              'file classifies differently from the same file with a fresh name for the binding',
                                       'transaction': c['txns'][k], 'differs_in': diff, 'fresh_name': {p: a[p] for p in diff},
                                       'primitive_name': {p: b.get(p) for p in diff}}, None))
                break
        return out
    ti = req['ti']
    tr, vt = jr['txns'][ti], vr['txns'][0]
    out = []
    if c['kind'] == 'rules':
        if req['tag'] == 'delete':
            a, b = whole(jr, tr), whole(vr, vt)
            if a != b:
                diff = [k for k in a if a[k] != b.get(k)]
                out.append(('delete', {'why': 'result changed after deleting rules whose condition is false/not evaluable',
                                       'deleted_rules': [jr['rules'][i]['name'] for i in req['deleted']], 'differs_in': diff,
                                       'base': {k: a[k] for k in diff}, 'variant': {k: b.get(k) for k in diff}}, None))
        elif req['tag'] == 'append':
            if judge_base(c, jr, ti):
                return out      # the base already fails 'first' (reported there); appending behind a wrong winner says nothing new
            if 'crash' not in vt['fm'] and mcs_fm(vt) != mcs_fm(tr):
                out.append(('append', {'why': 'm/c/s changed after appending rules behind the winner', 'base': mcs_fm(tr),
                                       'variant': mcs_fm(vt)}, None))
            nb, nv = tr['norm']['first_match'], vt['norm']['first_match']
            if 'crash' not in nb and 'crash' not in nv and mcs_norm(nb) != mcs_norm(nv):
                out.append(('append', {'why': 'normalize_merchant m/c/s changed after appending rules behind the winner',
                                       'base': mcs_norm(nb), 'variant': mcs_norm(nv)}, None))
        elif req['tag'] == 'transforms':
            for mode in ('first_match', 'most_specific'):
                nb, nv = tr['norm'][mode], vt['norm'][mode]
                kb = None if 'crash' in nb else (mcs_norm(nb), (nb['info'] or {}).get('tags', []))
                kv = None if 'crash' in nv else (mcs_norm(nv), (nv['info'] or {}).get('tags', []))
                if kb != kv:
                    out.append(('transforms', {'why': f'normalize_merchant({mode}) with transforms differs from normalize_merchant on the '
                                                      'transformed transaction', 'with_transforms': kb, 'pre_transformed': kv}, None))
    else:
        nb, nv = tr['norm'], vt['norm']
        if 'crash' in nv:
            return out
        if req['tag'] == 'delete':
            kb = (mcs_norm(nb), (nb['info'] or {}).get('tags', []), (nb['info'] or {}).get('pattern'))
            kv = (mcs_norm(nv), (nv['info'] or {}).get('tags', []), (nv['info'] or {}).get('pattern'))
            if kb != kv:
                pats = [jr['rules'][i]['pattern'] for i in req['deleted']]
                sig = SIG_F1 if any(looks_like_expression(p) for p in pats) else None
                out.append(('delete', {'why': 'legacy result changed after deleting rows whose regex does not match / modifiers fail',
                                       'deleted_patterns': pats, 'base': kb, 'variant': kv}, sig))
        elif req['tag'] == 'append':
            if judge_base(c, jr, ti):
                return out
            if mcs_norm(nb) != mcs_norm(nv):
                e = first_cat(jr['rules'], legacy_direct(jr, c['txns'][ti], tr))
                sig = SIG_F1 if any(looks_like_expression(r['pattern']) for r in jr['rules'][:e + 1]) else None
                out.append(('append', {'why': 'legacy m/c/s changed after appending rows behind the winner', 'base': mcs_norm(nb),
                                       'variant': mcs_norm(nv)}, sig))
        elif req['tag'] == 'transforms':
            kb = (mcs_norm(nb), (nb['info'] or {}).get('tags', []))
            kv = (mcs_norm(nv), (nv['info'] or {}).get('tags', []))
            if kb != kv:
                out.append(('transforms', {'why': 'legacy normalize_merchant with transforms differs from the pre-transformed call',
                                           'with_transforms': kb, 'pre_transformed': kv}, None))
    return out


def evaluate(cases, rnd, oracle=True):
    """Full direct-oracle pass over a list of cases.  Returns (base, failures) with
    failures = [(ci, ti, oracle, detail, signature, variant_case or None)]."""
    base, reqs, vres = run_two_phase(cases, lambda ci, c, jr: variants(ci, c, jr, rnd), oracle=oracle, norm=True, tag='c01')
    fails = []
    for ci, (c, jr) in enumerate(zip(cases, base)):
        if 'parse_error' in jr or 'harness_error' in jr:
            continue
        for ti in range(len(c['txns'])):
            for name, det, sig in judge_base(c, jr, ti):
                fails.append((ci, ti, name, det, sig, None))
    for req, vr in zip(reqs, vres):
        for name, det, sig in judge_variant(cases[req['ci']], base[req['ci']], req, vr):
            fails.append((req['ci'], req['ti'], name, det, sig, req['case']))
    # the same transactions classified back to back in one load / as rows of one statement (m/c/s; tags are C02's)
    for ci, (c, jr) in enumerate(zip(cases, base)):
        if 'parse_error' in jr or 'harness_error' in jr:
            continue
        for ti, mode, what, det in judge_one_load(c, jr):
            if what == 'mcs' and mode != 'most_specific':
                fails.append((ci, 0 if ti is None else ti, 'sequence', det, None, None))
    # Unknown name is a function of the (transformed) description
    names = {}
    for ci, (c, jr) in enumerate(zip(cases, base)):
        if 'parse_error' in jr or 'harness_error' in jr:
            continue
        for ti, tr in enumerate(jr['txns']):
            ns = [tr['norm']] if c['kind'] == 'csv' else list((tr.get('norm') or {}).values())
            for n in ns:
                if 'crash' not in n and n['c'] == 'Unknown' and n['s'] == 'Unknown':
                    names.setdefault(tr['state']['desc'], {}).setdefault(n['m'], (ci, ti))
    for d, m in names.items():
        if len(m) > 1:
            wit = sorted(m.values())
            (ci, ti) = wit[-1]
            fails.append((ci, ti, 'unknown-name', {'why': 'equal descriptions, different Unknown merchant names', 'description': d,
                                                   'names': sorted(m)}, None,
                          [sub_case(cases[a], None, [cases[a]['txns'][b]]) for a, b in wit[:-1]]))
    stats = {'variants': {}, 'unknown_descriptions': len(names),
             'unknown_descriptions_seen_repeatedly': sum(1 for d in names if sum(
                 1 for c, jr in zip(cases, base) if 'txns' in jr for tr in jr['txns'] if tr['state']['desc'] == d) > 1)}
    for r in reqs:
        hist_add(stats['variants'], r['tag'])
    return base, fails, stats


def still_fails_factory(c, txns, oracle_name, rnd_seed):
    def still(f):
        cases = [sub_case(c, f, txns)]
        try:
            _, fails, _ = evaluate(cases, random.Random(rnd_seed))
        except Exception:  # noqa
            return False
        return any(x[2] == oracle_name for x in fails)
    return still


# ---------------------------------------------------------------------------------------------------
def gen_cases(seed, tier):
    rnd = random.Random(seed * 7919 + 101)
    nr, nc = (190, 90) if tier == 'quick' else (5000, 2500)
    cases = []
    for k in range(nr):
        f = gen_rules_file(rnd, dup_names_p=0.1)
        ws = file_words(render_rules(f))
        # every file is run on 3 transactions plus neighbours of the first (same description/amount/date, other custom
        # field / location / source) back to back; half of the files without supplemental data sources
        cases.append({'kind': 'rules', 'file': f, 'txns': with_neighbours(rnd, [gen_txn(rnd, ws) for _ in range(3)]),
                      'ds': DS if k % 2 else None})
    for k in range(nc):
        f = gen_csv_file(rnd)
        ws = file_words(render_csv(f))
        cases.append({'kind': 'csv', 'file': f, 'txns': with_neighbours(rnd, [gen_txn(rnd, ws) for _ in range(3)]),
                      'ds': DS if k % 2 else None})
    # corpus: let bindings / top-level variables named like a transaction primitive shadow it (resolution order: scope,
    # user variables, primitives).  Each file is built twice from one template: with a fresh name, and with the primitive's
    # name; the right-hand side of the binding still reads the primitive.  The two files must classify alike ('shadow').
    def shadow_file(nm, prim, rhs, test, as_var):
        binding = [] if as_var else [(nm, rhs)]
        rules = [{'name': 'Bound', 'match': f'contains("ACME") and {test.format(n=nm)}', 'category': 'Shopping', 'subcategory': 'Big Ticket',
                  'merchant': '', 'tags': ['{' + nm + '}', 'bound'], 'priority': None, 'lets': binding, 'fields': [('seen', nm)]},
                 {'name': 'Plain', 'match': 'contains("ACME")', 'category': 'Shopping', 'subcategory': 'Small', 'merchant': '', 'tags': [],
                  'priority': None, 'lets': [], 'fields': []},
                 {'name': 'Tagger', 'match': f'not ({test.format(n=nm)})', 'category': '', 'subcategory': '', 'merchant': '', 'tags': ['other'],
                  'priority': None, 'lets': binding, 'fields': []}]
        return {'vars': [(nm, rhs)] if as_var else [], 'tfs': [], 'rules': rules}
    stx = lambda a, dt, src: {'d': 'ACME FURNITURE REFUND', 'a': a, 'date': dt, 'field': None, 'source': src, 'location': None}
    for prim, rhs, test in (('amount', 'abs(amount)', '{n} > 100'), ('month', 'month + 12 if year == 2025 else month', '{n} > 12'),
                            ('year', 'year - 2000', '{n} < 100'), ('day', 'day * 2', '{n} > 31'), ('weekday', 'weekday + 10', '{n} >= 10'),
                            ('source', 'lowercase(source) + "!"', '{n} == "amex!"'), ('description', 'lowercase(description)', '"acme" in {n}'),
                            ('date', 'year * 100 + month', '{n} > 202412')):
        for as_var in (False, True):
            cases.append({'kind': 'rules', 'ds': None, 'file': shadow_file('zq1', prim, rhs, test, as_var),
                          'shadow_file': shadow_file(prim, prim, rhs, test, as_var),
                          'txns': [stx(-128000, '2025-03-16', 'Amex'), stx(128000, '2024-12-31', 'Chase'), stx(5120, '2025-01-15', None)]})
    # corpus: legacy patterns that are equal up to letter case but mean different things (\d / \D, \s / \S, \w / \W, \b / \B)
    ltx = lambda d: {'d': d, 'a': 20480, 'date': '2025-01-15', 'field': None, 'source': 'Amex', 'location': None}
    for lo, up in (('\\d+', '\\D+'), ('\\s\\w', '\\S\\W'), ('\\w+', '\\W+'), ('\\b', '\\B')):
        for order in ((0, 1), (1, 0)):
            rws = [{'pattern': 'CHECK ' + lo, 'merchant': 'Check Payment', 'category': 'Bills', 'subcategory': 'Checks', 'tags': ['lo']},
                   {'pattern': 'CHECK ' + up, 'merchant': 'Check Deposit', 'category': 'Income', 'subcategory': 'Deposits', 'tags': ['up']}]
            cases.append({'kind': 'csv', 'ds': None, 'file': {'tfs': [], 'rows': [rws[i] for i in order]},
                          'txns': [ltx('CHECK DEPOSIT MOBILE'), ltx('CHECK 1234'), ltx('CHECK  #9'), ltx('CHECKS')]})
    # corpus: the legacy loop searches the UPPER-CASED description; upper-casing is not 1:1 (sharp s -> SS, fi ligature -> FI,
    # n-apostrophe -> 'N), so a row written for the upper-cased text must match although IGNORECASE on the raw text would not
    for pat, d in (('STRASSE', 'Cafe Stra\u00dfe 12'), ('FINANZ', 'Uni \ufb01nanz 7'), ('CAFE \u02bcN', 'Cafe \u0149 bar'),
                   ('STRASSE[amount>10]', 'Hauptstra\u00dfe 5')):
        cases.append({'kind': 'csv', 'ds': None, 'file': {'tfs': [], 'rows': [
            {'pattern': pat, 'merchant': 'Upper', 'category': 'Dining', 'subcategory': 'Cafe', 'tags': ['u']},
            {'pattern': 'CAFE|UNI|HAUPT', 'merchant': 'Later', 'category': 'Other', 'subcategory': '', 'tags': []}]},
            'txns': [ltx(d), ltx(d.upper()), ltx('Cafe Strasse 12')]})
    # corpus: a walrus target in one rule's match (true, false, in a tag-only rule) and LATER rules that read the same name
    # through a let binding, a top-level variable, a primitive, or not at all (then it is undefined: rule skipped)
    wr = lambda n, m, c, lets=(): {'name': n, 'match': m, 'category': c, 'subcategory': '', 'merchant': '', 'tags': [] if c else ['t'],
                                   'priority': None, 'lets': list(lets), 'fields': []}
    wtx = lambda d, a: {'d': d, 'a': a, 'date': '2025-01-15', 'field': None, 'source': 'Amex', 'location': None}
    for first in (wr('Costco Bulk', '(big_buy := amount > 200) and contains("COSTCO")', 'Groceries'),
                  wr('Costco Tag', '(big_buy := amount > 200) and contains("COSTCO")', ''),
                  wr('Any', '(big_buy := amount > 200) or true', ''),
                  wr('Prim', '(amount := 5000) > 0 and contains("COSTCO")', 'Groceries'),
                  wr('Var', '(is_large := true) and contains("COSTCO")', 'Groceries')):
        cases.append({'kind': 'rules', 'ds': None, 'file': {'vars': [('is_large', 'amount > 1000')], 'tfs': [], 'rules': [
            first, wr('Big Ticket', 'big_buy', 'Shopping', [('big_buy', 'amount > 1000')]), wr('Huge', 'amount > 2000', 'Luxury'),
            wr('Large', 'is_large', 'Large'), wr('Undefined', 'big_buy', 'Never'), wr('Best Buy', 'contains("BEST BUY")', 'Electronics')]},
            'txns': [wtx('BEST BUY 00123', 153600), wtx('CORNER CAFE 42', 153600), wtx('COSTCO 7', 153600), wtx('COSTCO 7', 5120)]})
    # corpus: a legacy row with an empty / blank Merchant cell that wins, followed by further matching categorizing rows
    for mer in ('', ' '):
        cases.append({'kind': 'csv', 'ds': None, 'file': {'tfs': [], 'rows': [
            {'pattern': 'COSTCO GAS', 'merchant': mer, 'category': 'Transport', 'subcategory': 'Fuel', 'tags': []},
            {'pattern': 'COSTCO', 'merchant': 'Costco', 'category': 'Groceries', 'subcategory': 'Wholesale', 'tags': ['bulk']},
            {'pattern': 'KIRKLAND', 'merchant': 'Kirkland', 'category': 'Shopping', 'subcategory': '', 'tags': []}]},
            'txns': [wtx('COSTCO GAS #0042 KIRKLAND', 20480), wtx('COSTCO #7', 20480)]})
    # corpus: rows of one statement that differ only in a custom column, decided by rules reading field.memo
    zrule = lambda n, m, c, s: {'name': n, 'match': m, 'category': c, 'subcategory': s, 'merchant': '', 'tags': [], 'priority': None,
                                'lets': [], 'fields': []}
    ztx = lambda d, a, dt, memo, **kw: dict({'d': d, 'a': a, 'date': dt, 'field': {'memo': memo}, 'source': 'Amex', 'location': None}, **kw)
    cases.append({'kind': 'rules', 'ds': None, 'file': {'vars': [], 'tfs': [], 'rules': [
        zrule('Childcare', 'contains("ZELLE") and contains(field.memo, "BABYSITTER")', 'Family', 'Childcare'),
        zrule('Rent', 'contains("CHECK PAID") and contains(field.memo, "RENT")', 'Housing', 'Rent'),
        zrule('Zelle Other', 'contains("ZELLE")', 'Transfers', 'P2P'), zrule('Checks', 'contains("CHECK PAID")', 'Bills', 'Checks')]},
        'txns': [ztx('ZELLE PAYMENT', 30720, '2025-05-02', 'POKER NIGHT'), ztx('ZELLE PAYMENT', 30720, '2025-05-02', 'BABYSITTER FRI'),
                 ztx('CHECK PAID', 768000, '2025-05-03', 'RENT MAY'), ztx('CHECK PAID', 768000, '2025-05-03', 'ROOF REPAIR'),
                 ztx('CHECK PAID', 768000, '2025-05-03', 'ROOF REPAIR', location='Seattle, WA'),
                 ztx('CHECK PAID', 768000, '2025-05-03', 'RENT JUNE', source='Chase')]})
    # boundary stream for the legacy modifiers: the modified row wins exactly when the modifier holds
    def brow(mod):
        return {'rows': [{'pattern': 'UBER' + mod, 'merchant': 'With Modifier', 'category': 'A', 'subcategory': 'a', 'tags': ['m']},
                         {'pattern': 'UBER', 'merchant': 'Plain', 'category': 'B', 'subcategory': '', 'tags': []}], 'tfs': []}

    def btx(a=51456, date='2025-01-15'):        # 100.5 in ticks of 1/512
        return {'d': 'Uber 77', 'a': a, 'date': date, 'field': None, 'source': None, 'location': None}
    for op in ('>', '>=', '<', '<=', '='):
        cases.append({'kind': 'csv', 'file': brow(f'[amount{op}100.5]'), 'txns': [btx(a) for a in (51455, 51456, 51457, 51448, 51464, -51456, None)]})
    # [amount=N] is "within less than one cent": amounts at N +- 1/512 .. 1/64 straddle the tolerance edge (5/512 < 0.01 < 6/512)
    for n in ('100.5', '10', '0'):
        base = int(float(n) * 512)
        cases.append({'kind': 'csv', 'file': brow(f'[amount={n}]'),
                      'txns': [btx(base + d) for d in (0, 1, -1, 2, -2, 3, -3, 4, -4, 5, -5, 6, -6, 7, 8, -8, 51, 52)]})
    cases.append({'kind': 'csv', 'file': brow('[amount:50-200]'), 'txns': [btx(a) for a in (25599, 25600, 25601, 102399, 102400, 102401)]})
    cases.append({'kind': 'csv', 'file': brow('[date=2025-01-15]'), 'txns': [btx(date=d) for d in ('2025-01-14', '2025-01-15', '2025-01-16', None)]})
    cases.append({'kind': 'csv', 'file': brow('[date:2025-01-15..2025-03-01]'),
                  'txns': [btx(date=d) for d in ('2025-01-14', '2025-01-15', '2025-02-28', '2025-03-01', '2025-03-02')]})
    cases.append({'kind': 'csv', 'file': brow('[month=3]'), 'txns': [btx(date=d) for d in ('2025-02-28', '2025-03-01', '2025-03-31', '2025-04-01')]})
    cases.append({'kind': 'csv', 'file': brow('[amount>50][date:2024-12-31..2025-01-15][month=1]'),
                  'txns': [btx(a, d) for a in (25600, 25601) for d in ('2024-12-31', '2025-01-15', '2025-01-16')]})
    # hand-written corner files: tag-only first, skipped rule, winner third; F1 witness
    cases.append({'kind': 'csv', 'file': {'rows': [{'pattern': '(UBER|LYFT)', 'merchant': 'Rides', 'category': 'Transport',
                                                     'subcategory': 'Rideshare', 'tags': []}], 'tfs': []},
                  'txns': [{'d': 'UBER TRIP', 'a': 640, 'date': '2025-01-15', 'field': None, 'source': None, 'location': None}]})
    return cases, rnd


def main(tier):
    run = Run('C01', tier)
    run.assumptions = [
        'the expression evaluator (expr_parser), re.search, difflib and transform evaluation are ORACLES of the model: the theorems '
        'hold for every oracle; the correspondence fills the oracle tables from the implementation\'s own evaluator, rule by rule',
        'a rule\'s evaluation outcome is a function of the rule and the transaction, not of the other rules in the file '
        '(checked directly: deleting non-matching rules / appending rules never changed a result)',
        'rule files are taken as parsed by the implementation (MerchantEngine.parse, load_merchant_rules): parsing is C17/C14',
        'strings are bytes; str.lower/upper/strip/title modelled for ASCII; generated text is ASCII',
        'amounts are exact ticks of 1/512 (dyadic), so float comparisons in modifiers (incl. the 0.01 tolerance of [amount=N]) are exact; '
        '[date:lastNdays] is not generated',
        'tools/engine2coq.py renders _is_expression_pattern / calculate_specificity faithfully (validated through the correspondence)']
    tfails = regen_engine_gen()
    res = run.proof_step(COQ_FILES, extra_trusted=[
        'tools/engine2coq.py (translator, fail closed)', 'harness/engine_common.py, harness/c01.py, harness/impl_engine.py '
        '(generators, oracle-table extraction, comparison)'])
    broken = []
    if tfails:
        broken.append({'kind': 'translation-failure', 'detail': tfails})
    elif not res['ok']:
        broken.append({'kind': 'broken-obligation', 'detail': first_error(res['log'])})
    if res['hygiene']:
        broken.append({'kind': 'hygiene', 'detail': res['hygiene']})

    cases, rnd = gen_cases(run.seed, tier)
    base, fails, stats = evaluate(cases, rnd)
    load_fail = [(ci, jr) for ci, jr in enumerate(base) if 'parse_error' in jr or 'harness_error' in jr]
    for ci, jr in load_fail[:1]:
        broken.append({'kind': 'harness', 'detail': {'why': 'generated file did not load', 'result': jr,
                                                     'file': cases[ci]['file']}})
    # report direct-oracle failures: one per (oracle, signature), smallest case, shrunk
    groups = {}
    for fl in fails:
        groups.setdefault((fl[2], fl[4]), []).append(fl)
    found_unlisted = False
    for (name, sig), fl in sorted(groups.items(), key=lambda kv: str(kv[0])):
        ci, ti, _, det, _, vcase = min(fl, key=lambda x: len(json.dumps(cases[x[0]]['file'])))
        det0 = det
        c = cases[ci]
        f0 = c['file']
        small, case_out = f0, sub_case(c)     # the full case unless a smaller one reproduces
        if name not in ('unknown-name', 'shadow'):      # 'shadow' compares two fixed twin files: reported unshrunk
            txs = c['txns'] if name == 'sequence' else [c['txns'][ti]]      # a sequence failure needs its predecessors
            still = still_fails_factory(c, txs, name, run.seed)
            if still(f0):
                small = (shrink_rules if c['kind'] == 'rules' else shrink_csv)(f0, still)
                i = 0
                while len(txs) > 1 and i < len(txs):
                    cand = txs[:i] + txs[i + 1:]
                    if still_fails_factory(c, cand, name, run.seed)(small):
                        txs = cand
                    else:
                        i += 1
                _, f2, _ = evaluate([sub_case(c, small, txs)], random.Random(run.seed))
                f2 = [x for x in f2 if x[2] == name]
                if f2:
                    det = f2[0][3]
                    if f2[0][4] != sig:       # shrinking drifted to a differently-classified failure: keep the original
                        small, txs, det = f0, (c['txns'] if name == 'sequence' else [c['txns'][ti]]), det0
                case_out = sub_case(c, small, txs)
        obj = {'kind': 'counterexample', 'oracle': name, 'case': case_out,
               'text': render_rules(small) if c['kind'] == 'rules' else render_csv(small), 'detail': det,
               'n_failing': len(fl), 'shrunk_from': len(f0.get('rules', f0.get('rows', []))), 'seed': run.seed,
               'obligation': 'c01_* on the implementation', 'broken': broken}
        if name == 'unknown-name':
            obj['case'] = sub_case(c, f0, [c['txns'][ti]])
            obj['more_cases'] = vcase
        if run.violation(name, obj, signature=sig):
            found_unlisted = True

    # model vs implementation in Coq
    n_rows, disc, bad = 0, {}, None
    if not tfails and res['ok']:
        bad, n_rows, disc, err = model_check('C01', cases, base, max_rows=1800 if tier == 'quick' else None)
        if bad is None:
            broken.append({'kind': 'broken-correspondence', 'obligation': 'model_vs_impl(Engine.Model, MerchantEngine.match/normalize_merchant)',
                           'detail': 'cases.v did not evaluate: ' + err})
        elif bad:
            ci, ti, codes = bad[0]
            broken.append({'kind': 'broken-correspondence',
                           'obligation': 'model_vs_impl: ' + ', '.join(PART[k] for k in codes),
                           'detail': {'case': {'kind': cases[ci]['kind'], 'file': cases[ci]['file'], 'txns': [cases[ci]['txns'][ti]]},
                                      'implementation': base[ci]['txns'][ti], 'n_disagreeing': len(bad)}})
    if broken and not found_unlisted:
        run.violation('broken', {'kind': broken[0]['kind'], 'obligation': broken[0].get('obligation') or
                                 (broken[0]['detail'].get('obligation') if isinstance(broken[0]['detail'], dict) else None),
                                 'broken': broken, 'searched': f'{len(cases)} files x ~4 transactions + {sum(stats["variants"].values())} '
                                 'metamorphic variants against the C01 oracles; no failing input beyond listed findings'},
                      found_input=False)

    # evidence
    win_hist, nm_hist, nontrivial, evals = {}, {}, set(), 0
    out_hist, cond_hist = {}, {'RCrash': 0}
    for c, jr in zip(cases, base):
        if 'txns' not in jr:
            continue
        for t, tr in zip(c['txns'], jr['txns']):
            evals += 1
            if c['kind'] == 'rules':
                f = tr['fm']
                for x in (tr.get('oracle') or {}).get('cond', []):
                    hist_add(cond_hist, {'T': 'RTrue', 'F': 'RFalse', 'S': 'RSkip', 'C': 'RCrash'}[x])
                if (tr.get('oracle') or {}).get('gv_crash'):
                    hist_add(cond_hist, 'RCrash(global variables)')
                if 'crash' in f:
                    hist_add(out_hist, 'rules:exception-escapes')
                    continue
                hist_add(out_hist, 'rules:' + ('matched' if f['matched'] else 'unknown'))
                hist_add(win_hist, f['matched_rule'])
                hist_add(nm_hist, len(f['all_matching']))
                if len(f['all_matching']) >= 2 and f['matched_rule'] not in (None, 0):
                    nontrivial.add(json.dumps([c['file'], t], sort_keys=True))
            else:
                n = tr['norm']
                if 'crash' in n:
                    hist_add(out_hist, 'csv:raises')
                    continue
                k = sum(legacy_direct(jr, t, tr))
                e = first_cat(jr['rules'], legacy_direct(jr, t, tr))
                hist_add(out_hist, 'csv:' + ('matched' if n['c'] != 'Unknown' else 'unknown'))
                hist_add(win_hist, 'csv:' + str(e))
                hist_add(nm_hist, 'csv:' + str(k))
                if k >= 2 and e not in (None, 0):
                    nontrivial.add(json.dumps([c['file'], t], sort_keys=True))
    seq_calls = sum(len(ol.get('seq', [])) for jr in base for ol in (jr.get('one_load') or {}).values())
    stmt_rows = sum(len(ol.get('rows', [])) for jr in base for ol in (jr.get('one_load') or {}).values())
    run.cov.update({
        'back_to_back_normalize_calls': seq_calls, 'statement_rows_through_parse_generic_csv': stmt_rows,
        'evaluations': seq_calls + stmt_rows + evals + sum(stats['variants'].values()) + n_rows, 'distinct_nontrivial': len(nontrivial),
        'rule': 'distinct (rule file, transaction) pairs in which >= 2 rules match and the winner is not the first rule; files of 1-8 '
                'rules (40% tag-only), overlapping patterns over a 6-word vocabulary, all match functions, amount/date/field/source '
                'comparisons, and/or/not, variables, let, field:, priority, static+dynamic tags, transforms; legacy CSV rows with every '
                'modifier form; boundary amounts/dates; ill-typed / unevaluable conditions, lets, tags and fields (rule skipped)',
        'samples': [{'text': render_rules(cases[0]['file']), 'txn': cases[0]['txns'][0]},
                    {'text': render_csv(cases[-2]['file']), 'txn': cases[-2]['txns'][0]}],
        'index_of_winning_rule_histogram': win_hist, 'number_of_matching_rules_histogram': nm_hist, 'outcome_histogram': out_hist, 'oracle_condition_outcomes': cond_hist,
        'base_pairs': evals, 'metamorphic_variants': stats['variants'], 'unknown_descriptions': stats['unknown_descriptions'],
        'unknown_descriptions_seen_repeatedly': stats['unknown_descriptions_seen_repeatedly'],
        'model_vs_impl_cases_in_coq': n_rows, 'model_vs_impl_disagreements': None if bad is None else len(bad),
        'discarded': disc, 'translation_failures': tfails,
        'direct_oracle_failures': {f'{k[0]}|{k[1]}': len(v) for k, v in groups.items()}})
    run.finish()


def replay(path):
    obj = json.load(open(path))
    if obj.get('kind') != 'counterexample':
        main('quick')
        return 1
    c = obj['case']
    _, fails, _ = evaluate([c] + list(obj.get('more_cases') or []), random.Random(obj.get('seed', 0)))
    hit = [x for x in fails if x[2] == obj.get('oracle') and x[4] == obj.get('signature')]
    print(json.dumps({'text': render_rules(c['file']) if c['kind'] == 'rules' else render_csv(c['file']), 'txn': c['txns'][0],
                      'failing_oracles': [[x[2], x[3], x[4]] for x in hit]}, indent=1, default=str))
    if hit:
        print(f'VIOLATION property=C01 replay={path}')
        return 1
    return 0
