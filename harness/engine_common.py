"""Shared by C01, C02, C09: generators of rule files (.rules and legacy CSV) and transactions, batched
implementation runs (impl_engine.py), rendering of cases for the Coq model (Engine/Model.v), the
model-vs-implementation comparison inside Coq, shrinking, and an independent re-statement of the
specificity tuple.

Fragment the generators stay in (so that the model is exact): ASCII text; amounts are dyadic (integer ticks of 1/512);
no date-relative modifiers; no non-ASCII white space."""
import concurrent.futures
import json
import os
import re

from common import *

TICK = 512       # amounts are integer ticks of 1/512 (same constant in impl_engine.py and Engine/Model.v)
IMPL = os.path.join(os.path.dirname(os.path.abspath(__file__)), 'impl_engine.py')
ENGINE_COQ = ['Lib/Str.v', 'Engine/StrLib.v', 'Gen/C09Specificity.v', 'Gen/C01IsExpr.v', 'Engine/Model.v', 'Engine/Lemmas.v']

WORDS = ['UBER', 'EATS', 'LYFT', 'COSTCO', 'GAS', 'HOLIDAY']
CATS = ['Food', 'Transport', 'Shopping']
SUBS = ['Rides', 'Delivery', 'Fuel']
AMOUNT_CONSTS = ['0', '10', '50', '100', '100.5', '200']
DATE_CONSTS = ['2025-01-15', '2025-03-01', '2025-03-31', '2024-12-31']
DS = {'extra': [{'kind': 'Alpha', 'n': 1}, {'kind': ' ', 'n': 2}, {'kind': '', 'n': 3}, {'kind': 'beta', 'n': 4}]}


# ---------------------------------------------------------------------------------------------------
# regenerated Gallina (translator: tools/engine2coq.py)
def regen_engine_gen():
    """Regenerate Gen/C09Specificity.v and Gen/C01IsExpr.v from the tree under test; returns translation failures."""
    import importlib
    import engine2coq
    importlib.reload(engine2coq)
    fails = []
    for rel, fn, src in (('Gen/C09Specificity.v', engine2coq.translate_specificity, 'merchant_engine.py'),
                         ('Gen/C01IsExpr.v', engine2coq.translate_is_expr, 'merchant_utils.py')):
        try:
            regen(rel, fn(os.path.join(SRC, src)))
        except Exception as e:  # noqa  (Untranslatable, SyntaxError, OSError)
            fails.append({'translator': 'engine2coq', 'target': rel, 'error': f'{type(e).__name__}: {e}'})
    return fails


# ---------------------------------------------------------------------------------------------------
# .rules generator
def word(rnd):
    return rnd.choice(WORDS)


def gen_atom(rnd, env):
    """One condition; env = names of variables / let bindings in scope."""
    k = rnd.random()
    w = word(rnd)
    if k < 0.30:
        return f'contains("{w}")'
    if k < 0.36:
        return rnd.choice([f'regex("{w}.*{word(rnd)}")', f'regex("{w}\\\\s+\\\\d+")', f"regex('^{w}')"])
    if k < 0.40:
        return rnd.choice([f'normalized("{w}{word(rnd)}")', f'normalized("{w}")'])
    if k < 0.45:
        return f'startswith("{w}")'
    if k < 0.50:
        return f'anyof("{w}", "{word(rnd)}")'
    if k < 0.53:
        return rnd.choice([f'fuzzy("{w}")', f'fuzzy("{w}", 0.8)'])
    if k < 0.58:
        return rnd.choice([f'contains(field.memo, "{w}")', 'field.memo == "ref"', 'exists(field.memo)', f'"{w}" in description',
                           'field.code != "X1"'])
    if k < 0.70:
        op = rnd.choice(['>', '>=', '<', '<=', '==', '!='])
        return rnd.choice([f'amount {op} {rnd.choice(AMOUNT_CONSTS)}', f'abs(amount) {op} {rnd.choice(AMOUNT_CONSTS)}'])
    if k < 0.80:
        op = rnd.choice(['>', '>=', '<', '<=', '=='])
        return rnd.choice([f'date {op} "{rnd.choice(DATE_CONSTS)}"', f'month == {rnd.choice([1, 3, 12])}', f'year {op} 2025',
                           f'day {op} 15', f'weekday == {rnd.choice([0, 2, 6])}'])
    if k < 0.85:
        return rnd.choice(['source == "Amex"', 'source != "Chase"', 'source == "amex"'])
    if k < 0.91 and env:
        return rnd.choice(env)
    if k < 0.97:      # raises ExpressionError for (some) transactions: the rule is skipped
        return rnd.choice(['field.missing == "x"', 'nosuchvar', 'date > "not-a-date"', 'regex("(")', 'nosuchfn(1)',
                           'field.memo == "ref"'])
    if k < 0.978:      # raises another exception: it escapes match() (C08's business; here the model says Crash too)
        return rnd.choice(['amount > "5"', 'contains(5)'])
    return rnd.choice(['true', 'false', f'contains("{w}") == true'])


def gen_cond(rnd, env, depth):
    if depth <= 0 or rnd.random() < 0.45:
        return gen_atom(rnd, env)
    k = rnd.random()
    if k < 0.45:
        return f'{gen_cond(rnd, env, depth - 1)} and {gen_cond(rnd, env, depth - 1)}'
    if k < 0.80:
        return f'({gen_cond(rnd, env, depth - 1)} or {gen_cond(rnd, env, depth - 1)})'
    return f'not ({gen_cond(rnd, env, depth - 1)})'


STATIC_TAGS = ['Biz', 'ride', 'FOOD', 'x-y', 'recurring', 'Ride', "kid's", "O'Hare", 'say "hi', "rock'n'roll", 'fee (atm)', '5" sub']
DYNAMIC_TAGS = ['{field.memo}', '{source}', '{extract("(\\\\d+)")}', '{extract(field.memo, "REF (\\\\w+)")}', '{[r.kind for r in extra]}',
                '{nosuchvar}', '{ }', '{field.missing}', '{amount > 100}', '{split(" ", 0)}', '{lowercase(source)}',
                '{[r.kind for r in extra if r.n > 2]}', '{extract("(\\\\d{4})")}', '{extract(description, "(\\\\d{2,4})")}',
                '{regex_replace(source, "[a-z]{2,}", "x")}', '{lowercase("{A}")}', '{"{big}" if amount > 100 else "small"}',
                '{extract(field.memo, "REF (\\\\w{3})")}', '{field.source}', '{field.location}', '{field.description}', '{field.amount}',
                '{field.date}', '{tagvar}', '{ field.code }']


def gen_tags(rnd):
    n = rnd.choice([0, 1, 1, 2, 3])
    out = []
    for _ in range(n):
        if rnd.random() < 0.35:
            t = rnd.choice(DYNAMIC_TAGS)
            if rnd.random() < 0.015:
                t = '{amount > "x"}'     # TypeError escapes _resolve_tags
        else:
            t = rnd.choice(STATIC_TAGS)
        if t not in out:
            out.append(t)
    return out


def gen_rule(rnd, i, var_names, tag_only_p=0.4):
    lets = []
    env = list(var_names)
    for j in range(rnd.choice([0, 0, 0, 1, 2])):
        nm = f'v{j}'
        lets.append((nm, rnd.choice([gen_cond(rnd, env, 1), 'extract("(\\\\d+)")', 'nosuchvar', 'amount * 2', 'field.memo', 'field.code',
                                     'extract(field.memo, "REF (\\\\w+)")', 'source', '"lit" + source', 'split(" ", 1)'])))
        env.append(rnd.choice([nm, f'{nm} != ""', f'{nm} == "123"']))
    r = {'name': f'R{i} {word(rnd).title()}' if rnd.random() < 0.5 else f'R{i}', 'match': gen_cond(rnd, env, 3 if rnd.random() < 0.3 else 1),
         'category': '', 'subcategory': '', 'merchant': '', 'tags': gen_tags(rnd), 'priority': None, 'lets': lets, 'fields': []}
    if rnd.random() < 0.10:                  # a walrus target in the match: must stay local to THIS rule's evaluation
        nm = rnd.choice(['big', 'v0', 'v1', 'is_large', 'is_ride', 'jan', 'amount', 'month', 'source'])
        val = rnd.choice(['amount > 100', 'amount > 1000', f'contains("{word(rnd)}")', 'true', 'false', '5', '"Amex"'])
        r['match'] = rnd.choice([f'({nm} := {val}) and {r["match"]}', f'({nm} := {val}) or {r["match"]}',
                                 f'{r["match"]} and ({nm} := {val})', f'not ({nm} := {val}) and {r["match"]}'])
    elif rnd.random() < 0.06:                # ... and rules that read such a name without defining it
        r['match'] = rnd.choice(['big', 'big and ' + r['match'], 'not big', r['match'] + ' or big'])
    if lets and rnd.random() < 0.5:          # a dynamic tag over this rule's own let binding
        r['tags'].append('{' + rnd.choice(lets)[0] + '}')
    if rnd.random() >= tag_only_p:
        r['category'] = rnd.choice(CATS)
    if rnd.random() < (0.5 if r['category'] else 0.25):
        r['subcategory'] = rnd.choice(SUBS)
    if rnd.random() < 0.3:
        r['merchant'] = rnd.choice(['Uber Inc', 'Costco', 'Big Tag'])
    if rnd.random() < 0.25:
        r['priority'] = rnd.choice([10, 50, 60, 100, 0, -5, -10])
    if not r['category'] and not r['tags']:
        r['tags'] = [rnd.choice(STATIC_TAGS)]
    for j in range(rnd.choice([0, 0, 0, 1, 2])):
        r['fields'].append((rnd.choice(['note', 'big', 'ref']),
                            rnd.choice(['extract("(\\\\d+)")', 'amount > 100', 'field.memo', 'nosuchvar', 'amount * 2', 'source'])))
    return r


VAR_POOL = [('is_large', 'amount > 100'), ('is_ride', 'contains("UBER") or contains("LYFT")'), ('bad', 'field.nothing'),
            ('both', 'is_large and is_ride'), ('Is_Gas', 'contains("GAS")'), ('jan', 'month == 1'),
            ('tagvar', 'lowercase(source) + "-src"'), ('tagvar', 'extract("(\\\\d+)")')]       # tagvar: read only from {tagvar} tags
TF_POOL = [('field.description', 'regex_replace(field.description, "^APLPAY\\\\s+", "")'), ('field.description', 'uppercase(field.description)'),
           ('field.memo', 'trim(field.memo)'), ('field.memo', 'strip_prefix(field.memo, "REF ")'), ('field.description', 'nosuchfn(1)'),
           ('field.newf', '"const"'), ('field.description', 'strip_suffix(field.description, " 1234")'),
           ('field.description', 'regex_replace(field.description, "(", "")')]


def gen_rules_file(rnd, nrules=None, tag_only_p=0.4, tf_p=0.3, dup_names_p=0.0):
    vs = rnd.sample(VAR_POOL, rnd.choice([0, 0, 1, 2]))
    names = [v[0].lower() for v in vs if v[0] not in ('bad', 'tagvar')] if vs else []
    tfs = [rnd.choice(TF_POOL) for _ in range(rnd.choice([1, 2]))] if rnd.random() < tf_p else []
    n = nrules or rnd.choice([1, 2, 3, 3, 4, 4, 5, 6, 7, 8])
    rules = [gen_rule(rnd, i, names, tag_only_p) for i in range(n)]
    if dup_names_p:
        for i in range(1, n):
            if rnd.random() < dup_names_p:      # several blocks under one [Name] (the name doubles as merchant display name)
                rules[i]['name'] = rules[rnd.randrange(i)]['name']
    return {'vars': vs, 'tfs': tfs, 'rules': rules}


def render_rules(f):
    L = ['# generated']
    for n, e in f['vars']:
        L.append(f'{n} = {e}')
    for p, e in f['tfs']:
        L.append(f'{p} = {e}')
    L.append('')
    for r in f['rules']:
        L.append(f"[{r['name']}]")
        for n, e in r['lets']:
            L.append(f'let: {n} = {e}')
        L.append(f"match: {r['match']}")
        if r['category']:
            L.append(f"category: {r['category']}")
        if r['subcategory']:
            L.append(f"subcategory: {r['subcategory']}")
        if r['merchant']:
            L.append(f"merchant: {r['merchant']}")
        if r['tags']:
            L.append('tags: ' + ', '.join(r['tags']))
        if r['priority'] is not None:
            L.append(f"priority: {r['priority']}")
        for n, e in r['fields']:
            L.append(f'field: {n} = {e}')
        L.append('')
    return '\n'.join(L)


# ---------------------------------------------------------------------------------------------------
# transactions
def file_words(text):
    """Vocabulary words a rule file mentions (transactions for that file are biased towards them)."""
    return [w for w in WORDS if w in text.upper()]


def gen_desc(rnd, words=None):
    pool = words if (words and rnd.random() < 0.75) else WORDS
    ws = [rnd.choice(pool) for _ in range(rnd.choice([1, 2, 2, 3]))]
    d = rnd.choice([' ', ' ', ' *', '  ', '-']).join(ws)
    k = rnd.random()
    if k < 0.25:
        d += ' 1234'
    elif k < 0.35:
        d = 'APLPAY ' + d
    elif k < 0.40:
        d = d.lower()
    elif k < 0.45:
        d = d.title() + ' #77'
    elif k < 0.48:
        d = rnd.choice(['', '12345 ***', 'zz'])
    return d


def gen_txn(rnd, words=None):
    c = rnd.choice(AMOUNT_CONSTS)
    base = int(float(c) * TICK)
    a = rnd.choice([base, base + 8, base - 8, -base, base * 2, rnd.randint(-2500, 2500) * 64,
                    base + rnd.choice([1, 2, 3, 4, 5, 6, -1, -2, -3, -4, -5, -6])])      # incl. sub-cent distances from a constant
    if rnd.random() < 0.06:
        a = None
    dt = rnd.choice(DATE_CONSTS + ['2025-01-14', '2025-01-16', '2025-03-02', '2025-02-28', '2025-04-01', '2025-01-13', None])
    fk = rnd.random()
    if fk < 0.2:
        fld = None
    elif fk < 0.3:
        fld = {}
    else:
        fld = {'memo': rnd.choice(['ref', 'REF abc123', ' REF 9 ', 'Uber trip', '', '  ', 'GAS'])}
        if rnd.random() < 0.3:
            fld['code'] = rnd.choice(['X1', 'x1', 'Y2'])
    return {'d': gen_desc(rnd, words), 'a': a, 'date': dt, 'field': fld, 'source': rnd.choice([None, 'Amex', 'Chase', 'AMEX', '']),
            'location': rnd.choice([None, 'Seattle, WA'])}


def with_neighbours(rnd, txns):
    """Append, right behind the first transaction, copies of it that differ ONLY in a custom field / only in location /
    only in source (and one exact duplicate): classified back to back in one load, each must get its own result."""
    t = txns[0]
    out = [t]
    f2 = dict(t.get('field') or {})
    f2['memo'] = rnd.choice([m for m in ['ref', 'REF abc123', 'Uber trip', 'GAS', ''] if m != f2.get('memo')])
    out.append(dict(t, field=f2))
    if rnd.random() < 0.5:
        f3 = dict(f2)
        f3['code'] = 'Y2' if f2.get('code') != 'Y2' else 'X1'
        out.append(dict(t, field=f3))
    out.append(dict(t, location='Portland, OR' if t.get('location') != 'Portland, OR' else None))
    out.append(dict(t, source='Chase' if t.get('source') != 'Chase' else 'Amex'))
    out.append(dict(t))
    return out + txns[1:]


# ---------------------------------------------------------------------------------------------------
# legacy CSV generator
def gen_csv_pattern(rnd):
    w, w2 = word(rnd), word(rnd)
    k = rnd.random()
    if k < 0.35:
        p = w
    elif k < 0.45:
        p = f'{w}.*{w2}'
    elif k < 0.52:
        p = f'{w}|{w2}'
    elif k < 0.60:
        p = f'({w}|{w2})'                       # F1: starts with '('
    elif k < 0.65:
        p = f'{w}\\s?{w2}'
    elif k < 0.69:
        p = rnd.choice([f'{w} and {w2}', f'{w} or {w2}'])      # literal text containing ' and ' / ' or '
    elif k < 0.72:
        p = f'{w}('                             # re.error: skipped
    elif k < 0.75:
        p = rnd.choice([f'{w.lower()}', f'^{w}', f'{w2}$', f'{w} \\d+', f'{w} \\D+', f'{w}\\s', f'{w}\\S', f'{w}\\b', f'{w}\\B',
                        f'{w}\\W+\\w', f'{w}\\w+'])
    elif k < 0.78:
        p = rnd.choice(['field.memo == "ref"', f'contains("{w}")', 'amount > 100', 'source=web', f'regex("{w}") and amount > 50'])
    else:
        p = w
    if rnd.random() < 0.4:
        mods = []
        for _ in range(rnd.choice([1, 1, 2])):
            j = rnd.random()
            if j < 0.45:
                c = rnd.choice(AMOUNT_CONSTS)
                mods.append(rnd.choice([f'[amount>{c}]', f'[amount>={c}]', f'[amount<{c}]', f'[amount<={c}]', f'[amount={c}]',
                                        f'[amount:{rnd.choice(["0", "10", "50"])}-{rnd.choice(["100", "100.5", "200"])}]']))
            elif j < 0.8:
                a, b = sorted(rnd.sample(DATE_CONSTS, 2))
                mods.append(rnd.choice([f'[date={rnd.choice(DATE_CONSTS)}]', f'[date:{a}..{b}]']))
            else:
                mods.append(f'[month={rnd.choice([1, 3, 12])}]')
        p += ''.join(mods)
    return p


def gen_csv_file(rnd, nrules=None):
    n = nrules or rnd.choice([1, 2, 3, 3, 4, 5, 6, 8])
    rows = []
    all_cat = rnd.random() < 0.4        # files without any tag-only row (every matching row both categorizes and tags)
    for i in range(n):
        cat = rnd.choice(CATS) if (all_cat or rnd.random() < 0.65) else ''
        tags = []
        for _ in range(rnd.choice([0, 1, 1, 2])):
            tags.append(rnd.choice(STATIC_TAGS + ['{field.memo}', '{source}', '{nosuchvar}', '{regex_replace(description, "(", "")}',
                                                  '{extract("(\\\\d+)")}']))
        if not cat and not tags:
            tags = ['tagged']
        rows.append({'pattern': gen_csv_pattern(rnd), 'merchant': '' if rnd.random() < 0.12 else f'M{i} {word(rnd).title()}', 'category': cat,
                     'subcategory': rnd.choice(SUBS + ['']), 'tags': tags})
    tfs = [list(rnd.choice(TF_POOL)) for _ in range(rnd.choice([1, 2]))] if rnd.random() < 0.2 else []
    return {'rows': rows, 'tfs': tfs}


def csv_cell(s):
    if any(c in s for c in ',"\n'):
        return '"' + s.replace('"', '""') + '"'
    return s


def render_csv(f):
    L = ['Pattern,Merchant,Category,Subcategory,Tags']
    for r in f['rows']:
        L.append(','.join(csv_cell(x) for x in [r['pattern'], r['merchant'], r['category'], r['subcategory'], '|'.join(r['tags'])]))
    return '\n'.join(L) + '\n'


def looks_like_expression(pattern):
    """Harness-side predicate for the known-finding signature (what makes the legacy loop evaluate a CSV pattern as
    an expression)."""
    return bool(re.match(r'^[a-z_]+\s*\(', pattern)) or bool(re.match(r'^[a-z]+\s*[<>=!]', pattern)) or \
        pattern.startswith('field.') or ' and ' in pattern or ' or ' in pattern or pattern.startswith('(')


# ---------------------------------------------------------------------------------------------------
# running the implementation
def run_jobs(jobs, nproc=4, tag='engine'):
    if not jobs:
        return []
    nproc = max(1, min(nproc, 4, len(jobs)))
    chunks = [jobs[i::nproc] for i in range(nproc)]
    tmp = os.path.join(WORK, f'{tag}-{os.getpid()}')

    def one(k):
        return run_impl(IMPL, {'jobs': chunks[k], 'tmp': os.path.join(tmp, str(k))}, timeout=3000)['results']
    with concurrent.futures.ThreadPoolExecutor(nproc) as ex:
        parts = list(ex.map(one, range(nproc)))
    out = [None] * len(jobs)
    for k, part in enumerate(parts):
        for j, r in enumerate(part):
            out[k + j * nproc] = r
    import shutil
    shutil.rmtree(tmp, ignore_errors=True)
    return out


def rules_job(f, txns, oracle=False, norm=False, ds=DS):
    return {'kind': 'rules', 'text': render_rules(f), 'txns': txns, 'ds': ds, 'oracle': oracle, 'norm': norm}


def csv_job(f, txns, oracle=False, ds=DS):
    return {'kind': 'csv', 'text': render_csv(f), 'txns': txns, 'ds': ds, 'oracle': oracle, 'tfs': f['tfs']}


# ---------------------------------------------------------------------------------------------------
# independent re-statement of the ranking tuple (C09's statement, not the code): priority, number of pattern
# function calls, number of constraint keywords, total length of quoted pattern text
def spec_independent(match_expr, priority):
    low = match_expr.lower()
    pats = sum(len(re.findall(re.escape(f) + r'\(', low)) for f in ['contains', 'regex', 'normalized', 'startswith', 'fuzzy', 'anyof'])
    kinds = sum(1 for kw in ['amount', 'date', 'month', 'year', 'day', 'weekday', 'source', 'field.'] if kw in low)
    length = sum(len(m) for m in re.findall(r'"([^"]*)"', match_expr)) + sum(len(m) for m in re.findall(r"'([^']*)'", match_expr))
    return [priority, pats, kinds, length]


KIND_KEYWORDS = ['amount', 'date', 'month', 'year', 'day', 'weekday', 'source']


def spec_semantic(match_expr, priority):
    """The tuple as C09 WORDS it: '... how many kinds of amount, date, source or field constraints it USES ...'.
    Same as spec_independent except that constraint kinds are identifiers of the expression: text inside quoted
    pattern strings is not a constraint, and `weekday` is one kind (it is not also `day`)."""
    low = match_expr.lower()
    bare = re.sub(r'"[^"]*"', '""', low)
    bare = re.sub(r"'[^']*'", "''", bare)
    toks = set(re.findall(r'[a-z_][a-z0-9_]*', bare))
    kinds = sum(1 for kw in KIND_KEYWORDS if kw in toks) + (1 if re.search(r'\bfield\s*\.', bare) else 0)
    t = spec_independent(match_expr, priority)
    return [t[0], t[1], kinds, t[3]]


# ---------------------------------------------------------------------------------------------------
# Coq rendering
def cs(s):
    return coq_str(s)


def clist(xs):
    return '[' + '; '.join(xs) + ']'


def copt(x, f=lambda v: v):
    return 'None' if x is None else f'(Some {f(x)})'


def cz(n):
    n = int(n)
    return f'({n})%Z' if n < 0 else f'{n}%Z'


def cpairs(ps):
    return clist(f'({cs(a)}, {cs(b)})' for a, b in ps)


def cbool(b):
    return 'true' if b else 'false'


CASES_HEADER = '''From Coq Require Import String Ascii List Bool ZArith Arith NArith.
From Tally Require Import Lib.Str Engine.StrLib Engine.Model.
Import ListNotations.
Open Scope string_scope.
Definition sbytes (l : list N) : string := fold_right (fun n s => String (Ascii.ascii_of_N n) s) EmptyString l.
Definition R id name mt cat sub mer tgs prio flds : rule :=
  {| r_id := id; r_name := name; r_match := mt; r_category := cat; r_subcategory := sub; r_merchant := mer;
     r_tags := tgs; r_priority := prio; r_fields := flds |}.
Fixpoint alook {V : Type} (k : string) (l : list (string * V)) (d : V) : V :=
  match l with [] => d | (k', v) :: r => if String.eqb k k' then v else alook k r d end.
Definition mko (gv : bool) (conds : list outcome) (dyns : list (list (string * dynres))) (flds : list (list (string * fres))) : oracle :=
  {| o_gv_crash := gv; o_cond := fun r => nth (r_id r) conds RFalse;
     o_dyn := fun r e => alook e (nth (r_id r) dyns []) DCrash;
     o_field := fun r n => alook n (nth (r_id r) flds []) FCrash |}.
Definition crash_oracle : oracle :=
  {| o_gv_crash := true; o_cond := fun _ => RCrash; o_dyn := fun _ _ => DCrash; o_field := fun _ _ => FCrash |}.
Definition set_eqb (a b : list string) : bool := (forallb (fun x => mem x b) a && forallb (fun x => mem x a) b)%bool.
Fixpoint pairs_eqb (a b : list (string * string)) : bool :=
  match a, b with
  | [], [] => true
  | (k, v) :: r, (k', v') :: s => (String.eqb k k' && String.eqb v v' && pairs_eqb r s)%bool
  | _, _ => false
  end.
Fixpoint nats_eqb (a b : list nat) : bool :=
  match a, b with [], [] => true | x :: r, y :: s => (Nat.eqb x y && nats_eqb r s)%bool | _, _ => false end.
Definition oid_eqb (a : option rule) (b : option nat) : bool :=
  match a, b with None, None => true | Some r, Some n => Nat.eqb (r_id r) n | _, _ => false end.
Definition ostr_eqb (a b : option string) : bool :=
  match a, b with None, None => true | Some x, Some y => String.eqb x y | _, _ => false end.
Definition ofields_eqb (a b : option (list (string * string))) : bool :=
  match a, b with None, None => true | Some x, Some y => pairs_eqb x y | _, _ => false end.

Inductive xres := XCrash | XRes (mt : bool) (m c s : string) (mr mer sr : option nat) (tg : list string)
                                (srcs : list (string * string)) (ex : list (string * string)) (allm : list nat).
Definition ok_match (got : mres) (x : xres) : bool :=
  match got, x with
  | Crash, XCrash => true
  | Res r, XRes mt m c s mr mer sr tg srcs ex allm =>
      (Bool.eqb (matched r) mt && String.eqb (merchant r) m && String.eqb (category r) c && String.eqb (subcategory r) s
       && oid_eqb (matched_rule r) mr && oid_eqb (merchant_rule r) mer && oid_eqb (subcategory_rule r) sr
       && set_eqb (tags r) tg
       && forallb (fun p => String.eqb (alook (fst p) (map (fun tr => (fst tr, r_name (snd tr))) (tag_list r)) "?") (snd p)) srcs
       && pairs_eqb (extra_fields r) ex && nats_eqb (map r_id (all_matching r)) allm)%bool
  | _, _ => false
  end.

Inductive xn := XNSkip | XNCrash | XN (m c s : string)
                      (info : option (option string * string * list string * list (string * string) * list (string * string))).
Definition ok_norm (got : nres) (x : xn) : bool :=
  match x, got with
  | XNSkip, _ => true
  | XNCrash, NCrash => true
  | XN m c s xi, NRes m' c' s' gi =>
      (String.eqb m m' && String.eqb c c' && String.eqb s s' &&
       match xi, gi with
       | None, None => true
       | Some (p, src, tg, raws, ex), Some i =>
           (ostr_eqb (i_pattern i) p && String.eqb (i_source i) src && set_eqb (i_tags i) tg && pairs_eqb (i_raws i) raws
            && pairs_eqb (i_extra i) ex)%bool
       | _, _ => false
       end)%bool
  | _, _ => false
  end.

Definition tfrow := (string * option (list (string * string)) * string * option string)%type.
Fixpoint mk_tf (tab : list tfrow) : tf_oracle :=
  fun d f e =>
    match tab with
    | [] => None
    | (d', f', e', v) :: rest => if (String.eqb d d' && ofields_eqb f f' && String.eqb e e')%bool then v else mk_tf rest d f e
    end.
Definition xstate := (string * option (list (string * string)) * list (string * string))%type.
Definition state_ok (t : txn) (x : xstate) : bool :=
  let '(d, f, raws) := x in (String.eqb (t_desc t) d && ofields_eqb (t_fields t) f && pairs_eqb (t_raws t) raws)%bool.
Definition T0 d f : txn := {| t_desc := d; t_fields := f; t_raws := [] |}.

(* one .rules case: bit k of the answer set = part k disagrees *)
Definition check_engine (rules : list rule) (tfs : list (string * string)) (t0 : txn) (tab : list tfrow) (xs : xstate)
           (o : oracle) (xfm xms : xres) (nfm nms : xn) : list nat :=
  let tf := mk_tf tab in
  let t := apply_transforms tf tfs t0 in
  let o_at := fun d f => if (String.eqb d (fst (fst xs)) && ofields_eqb f (snd (fst xs)))%bool then o else crash_oracle in
  (if state_ok t xs then [] else [1]) ++
  (if ok_match (engine_match FirstMatch rules o) xfm then [] else [2]) ++
  (if ok_match (engine_match MostSpecific rules o) xms then [] else [3]) ++
  (if ok_norm (normalize_engine tf o_at FirstMatch rules tfs t0) nfm then [] else [4]) ++
  (if ok_norm (normalize_engine tf o_at MostSpecific rules tfs t0) nms then [] else [5]).

Definition L id p m c s parsed ac dc src tgs : lrule :=
  {| l_id := id; l_pattern := p; l_merchant := m; l_category := c; l_subcategory := s; l_parsed := parsed;
     l_aconds := ac; l_dconds := dc; l_source := src; l_tags := tgs |}.
Definition mklo (search : list rsres) (exprs : list outcome) (dyns : list (list (string * ldyn))) (rules : list lrule) : loracle :=
  {| lo_search := fun p _ => match find (fun r => String.eqb (l_pattern r) p) rules with
                             | Some r => nth (l_id r) search RSErr | None => RSErr end;
     lo_expr := fun r => nth (l_id r) exprs RCrash;
     lo_dyn := fun r e => alook e (nth (l_id r) dyns []) LCrash |}.
Definition crash_loracle : loracle :=
  {| lo_search := fun _ _ => RSErr; lo_expr := fun _ => RCrash; lo_dyn := fun _ _ => LCrash |}.
Definition check_legacy (rules : list lrule) (tfs : list (string * string)) (t0 : txn) (tab : list tfrow) (xs : xstate)
           (amount date : option Z) (lo : loracle) (x : xn) : list nat :=
  let tf := mk_tf tab in
  let t := apply_transforms tf tfs t0 in
  let lo_at := fun d f => if (String.eqb d (fst (fst xs)) && ofields_eqb f (snd (fst xs)))%bool then lo else crash_loracle in
  (if state_ok t xs then [] else [1]) ++
  (if ok_norm (normalize_legacy tf lo_at rules amount date tfs t0) x then [] else [6]).

Fixpoint failing (i : nat) (l : list (list nat)) : list (nat * list nat) :=
  match l with [] => [] | [] :: r => failing (S i) r | c :: r => (i, c) :: failing (S i) r end.
'''


def coq_rules(rules):
    return clist(f"R {r['id']} {cs(r['name'])} {cs(r['match'])} {cs(r['category'])} {cs(r['subcategory'])} {cs(r['merchant'])} "
                 f"{clist(cs(t) for t in r['tags'])} {cz(r['priority'])} {clist(cs(x) for x in r['fields'])}" for r in rules)


def coq_dyn(d):
    e, kind = d[0], d[1]
    if kind == 'scalar':
        return f'({cs(e)}, DScalar {cbool(d[2])} {cs(d[3])})'
    if kind == 'list':
        return f'({cs(e)}, DList {clist(f"({cbool(b)}, {cs(s)})" for b, s in d[2])})'
    return f'({cs(e)}, {"DErr" if kind == "err" else "DCrash"})'


def coq_oracle(o, nrules):
    if o['gv_crash']:
        return 'crash_oracle'
    conds = clist({'T': 'RTrue', 'F': 'RFalse', 'S': 'RSkip', 'C': 'RCrash'}[c] for c in o['cond'])
    dyns = clist(clist(coq_dyn(d) for d in dl) for dl in o['dyn'])
    flds = clist(clist(f"({cs(n)}, {'FVal ' + cs(v) if k == 'val' else ('FErr' if k == 'err' else 'FCrash')})" for n, k, v in fl)
                 for fl in o['fields'])
    return f'(mko false {conds} {dyns} {flds})'


def coq_xres(r):
    if 'crash' in r:
        return 'XCrash'
    def oid(x):
        return copt(x, str)
    srcs = cpairs(sorted(r['tag_sources'].items()))
    return (f"(XRes {cbool(r['matched'])} {cs(r['merchant'])} {cs(r['category'])} {cs(r['subcategory'])} {oid(r['matched_rule'])} "
            f"{oid(r['merchant_rule'])} {oid(r['subcategory_rule'])} {clist(cs(t) for t in r['tags'])} {srcs} "
            f"{cpairs(r['extra_fields'])} {clist(str(i) for i in r['all_matching'])})")


def coq_xn(n):
    if n is None:
        return 'XNSkip'
    if 'crash' in n:
        return 'XNCrash'
    i = n['info']
    if i is None:
        info = 'None'
    else:
        info = (f"(Some ({copt(i['pattern'], cs)}, {cs(i['source'] or '')}, {clist(cs(t) for t in i['tags'])}, {cpairs(i['raws'])}, "
                f"{cpairs(i['extra'])}))")
    return f"(XN {cs(n['m'])} {cs(n['c'])} {cs(n['s'])} {info})"


def coq_fields(f):
    return copt(f, lambda v: cpairs((k, str(x)) for k, x in (v.items() if isinstance(v, dict) else v)))


def coq_tftab(tab):
    return clist(f"({cs(r['desc'])}, {coq_fields(r['field'])}, {cs(r['expr'])}, {copt(r['val'], cs)})" for r in tab)


def coq_state(st):
    return f"({cs(st['desc'])}, {coq_fields(st['field'])}, {cpairs(st['raws'])})"


def all_ascii(obj):
    return all(ord(c) < 128 for c in json.dumps(obj, ensure_ascii=False))


def coq_engine_case(fname, jr, t, tr):
    """jr: job result (rules, transforms), t: input txn, tr: per-txn implementation result with oracle."""
    nf = tr.get('norm') or {}
    return (f"check_engine {fname} {cpairs(jr['transforms'])} (T0 {cs(t['d'])} {coq_fields(t.get('field'))}) {coq_tftab(tr['tf'])} "
            f"{coq_state(tr['state'])} {coq_oracle(tr['oracle'], len(jr['rules']))} {coq_xres(tr['fm'])} {coq_xres(tr['ms'])} "
            f"{coq_xn(nf.get('first_match'))} {coq_xn(nf.get('most_specific'))}")


def date_z(s):
    y, m, d = s.split('-')
    return int(y) * 10000 + int(m) * 100 + int(d)


def coq_lrules(rules):
    """None when a condition is outside the exact fragment (non-tick amount, relative date)."""
    out = []
    for r in rules:
        ac, dc = [], []
        for c in r['aconds']:
            if any(float(v) != int(v) for v in c[1:]):
                return None
            op = {'>': 'AGt', '>=': 'AGe', '<': 'ALt', '<=': 'ALe', '=': 'AEq', ':': 'ARange'}[c[0]]
            ac.append(f"({op} {' '.join(cz(v) for v in c[1:])})")
        for c in r['dconds']:
            if c[0] == 'relative':
                return None
            if c[0] == 'month':
                dc.append(f'(DMonth {cz(c[1])})')
            elif c[0] == '=':
                dc.append(f'(DEq {cz(date_z(c[1]))})')
            else:
                dc.append(f'(DRange {cz(date_z(c[1]))} {cz(date_z(c[2]))})')
        out.append(f"L {r['id']} {cs(r['pattern'])} {cs(r['merchant'])} {cs(r['category'])} {cs(r['subcategory'])} {cbool(r['parsed'])} "
                   f"{clist(ac)} {clist(dc)} {cs(r['source'])} {clist(cs(t) for t in r['tags'])}")
    return clist(out)


def coq_ldyn(d):
    e, kind = d[0], d[1]
    if kind == 'scalar':
        return f'({cs(e)}, LScalar {cbool(d[2])} {cs(d[3])})'
    return f"({cs(e)}, {dict(err='LErr', reerr='LReErr', crash='LCrash')[kind]})"


def coq_legacy_case(fname, jr, f, t, tr):
    o = tr['oracle']
    search = clist({'Y': 'RSYes', 'N': 'RSNo', 'E': 'RSErr'}[x] for x in o['search'])
    exprs = clist({'T': 'RTrue', 'F': 'RFalse', 'S': 'RSkip', 'C': 'RCrash'}[c] for c in o['expr'])
    dyns = clist(clist(coq_ldyn(d) for d in dl) for dl in o['dyn'])
    return (f"check_legacy {fname} {cpairs(f['tfs'])} (T0 {cs(t['d'])} {coq_fields(t.get('field'))}) {coq_tftab(tr['tf'])} "
            f"{coq_state(tr['state'])} {copt(t.get('a'), cz)} {copt(t.get('date'), lambda s: cz(date_z(s)))} "
            f"(mklo {search} {exprs} {dyns} {fname}) {coq_xn(tr['norm'])}")


def run_coq_cases(name, defs, rows, chunk=300, nproc=3):
    """defs: {defname: coq term}; rows: list of (defnames_needed, coq_expr evaluating to a list of failing part codes).
    Returns (failing: list of (row index, [codes]), '') or (None, err)."""
    def one(off):
        part = rows[off:off + chunk]
        need = []
        for dn, _ in part:
            for d in dn:
                if d not in need:
                    need.append(d)
        body = ''.join(f'Definition {d} := {defs[d]}.\n' for d in need)
        body += 'Definition cases : list (list nat) := [\n' + ';\n'.join(r for _, r in part) + '\n].\n'
        body += 'Eval vm_compute in failing 0 cases.\n'
        rc, out, err = run_cases(f'{name}_{off // chunk}', CASES_HEADER, body)
        m = re.search(r'=\s*\[(.*?)\]\s*:\s*list \(nat \* list nat\)', out, re.S)
        if rc != 0 or not m:
            return None, (out + err)[-1500:]
        txt = m.group(1).replace('%nat', '').replace('\n', ' ')
        return [(off + int(mm.group(1)), [int(x) for x in mm.group(2).split(';') if x.strip()])
                for mm in re.finditer(r'\(\s*(\d+)\s*,\s*\[([^\]]*)\]\s*\)', txt)], ''
    offs = list(range(0, len(rows), chunk))
    bad = []
    with concurrent.futures.ThreadPoolExecutor(max(1, min(nproc, len(offs) or 1))) as ex:
        for b, err in ex.map(one, offs):
            if b is None:
                return None, err
            bad += b
    return sorted(bad), ''


# ---------------------------------------------------------------------------------------------------
def shrink_rules(f, still_fails):
    """Delta-debug a .rules file dict by deleting rules, then variables / transforms / tags / lets / fields."""
    import copy
    cur = copy.deepcopy(f)
    changed = True
    while changed:
        changed = False
        for key in ('rules', 'vars', 'tfs'):
            i = 0
            while i < len(cur[key]):
                if key == 'rules' and len(cur['rules']) <= 1:
                    break
                cand = copy.deepcopy(cur)
                del cand[key][i]
                if still_fails(cand):
                    cur, changed = cand, True
                else:
                    i += 1
        for ri in range(len(cur['rules'])):
            for key in ('lets', 'fields', 'tags'):
                i = 0
                while i < len(cur['rules'][ri][key]):
                    cand = copy.deepcopy(cur)
                    del cand['rules'][ri][key][i]
                    if not cand['rules'][ri]['category'] and not cand['rules'][ri]['tags']:
                        i += 1
                        continue
                    if still_fails(cand):
                        cur, changed = cand, True
                    else:
                        i += 1
    return cur


def shrink_csv(f, still_fails):
    import copy
    cur = copy.deepcopy(f)
    changed = True
    while changed:
        changed = False
        i = 0
        while i < len(cur['rows']) and len(cur['rows']) > 1:
            cand = copy.deepcopy(cur)
            del cand['rows'][i]
            if still_fails(cand):
                cur, changed = cand, True
            else:
                i += 1
        if cur['tfs']:
            cand = copy.deepcopy(cur)
            cand['tfs'] = []
            if still_fails(cand):
                cur, changed = cand, True
    return cur


def case_rnd(case, salt=0):
    """PRNG derived from the case itself: metamorphic variants are a function of the case, so a replay file
    (which stores only the case) reproduces exactly the variants the check judged."""
    import hashlib
    import random
    h = hashlib.sha1(json.dumps([case['kind'], case['file'], case['txns'], salt], sort_keys=True, default=str).encode()).hexdigest()
    return random.Random(int(h[:16], 16))


def sub_case(c, file=None, txns=None):
    """A case derived from c (other file and/or transactions), keeping its kind and supplemental data."""
    out = {'kind': c['kind'], 'file': c['file'] if file is None else file, 'txns': c['txns'] if txns is None else txns}
    if 'ds' in c:
        out['ds'] = c['ds']
    if 'shadow_file' in c and file is None:
        out['shadow_file'] = c['shadow_file']      # the twin file of the 'shadow' oracle belongs to the unshrunk file
    return out


def job_of(case, oracle=False, norm=True):
    """case = {'kind': 'rules'|'csv', 'file': generator dict, 'txns': [...]}"""
    ds = case.get('ds', DS)        # None: no supplemental data sources (list-valued {.. for r in extra} tags are then unevaluable)
    if case['kind'] == 'rules':
        return rules_job(case['file'], case['txns'], oracle=oracle, norm=norm, ds=ds)
    return csv_job(case['file'], case['txns'], oracle=oracle, ds=ds)


def run_two_phase(cases, variants_fn, oracle=True, norm=True, tag='engine'):
    """Run the base cases, let variants_fn(ci, case, job_result) derive metamorphic variants
    (dicts with at least 'case'), run those too.  Returns (base results, variant requests, variant results)."""
    base = run_jobs([job_of(c, oracle, norm) for c in cases], tag=tag)
    reqs = []
    for ci, (c, jr) in enumerate(zip(cases, base)):
        if 'parse_error' in jr or 'harness_error' in jr:
            continue
        new = variants_fn(ci, c, jr)
        if 'ds' in c:
            for r in new:
                r['case']['ds'] = c['ds']      # variants run with the same supplemental data as their base
        reqs += new
    vres = run_jobs([job_of(r['case'], r.get('oracle', False), r.get('norm', True)) for r in reqs], tag=tag + 'v')
    return base, reqs, vres


def model_check(name, cases, base, max_rows=None):
    """Model vs implementation inside Coq for every (file, txn) of the base cases that carries oracle tables.
    Returns (failing [(ci, ti, codes)], n_rows, discarded {reason: n}, err)."""
    defs, rows, where, disc = {}, [], [], {}
    # corpus / boundary cases are appended last by the checks: go backwards so that a row cap drops random cases, not them
    for ci, (c, jr) in reversed(list(enumerate(zip(cases, base)))):
        if 'parse_error' in jr or 'harness_error' in jr:
            hist_add(disc, 'not-loaded')
            continue
        if not all_ascii([c['file'], c['txns']]):
            hist_add(disc, 'non-ascii')
            continue
        fname = f'F{ci}'
        if c['kind'] == 'rules':
            d = coq_rules(jr['rules'])
        else:
            d = coq_lrules(jr['rules'])
            if d is None:
                hist_add(disc, 'modifier-outside-exact-fragment')
                continue
        defs[fname] = d
        for ti, (t, tr) in enumerate(zip(c['txns'], jr['txns'])):
            if 'oracle' not in tr:
                hist_add(disc, 'no-oracle-table:' + str(tr.get('oracle_error', ''))[:60])
                continue
            if max_rows is not None and len(rows) >= max_rows:
                hist_add(disc, 'over-quick-tier-row-cap')
                break
            rows.append(([fname], coq_engine_case(fname, jr, t, tr) if c['kind'] == 'rules'
                         else coq_legacy_case(fname, jr, c['file'], t, tr)))
            where.append((ci, ti))
    bad, err = run_coq_cases(name, defs, rows)
    if bad is None:
        return None, len(rows), disc, err
    return [(where[i][0], where[i][1], codes) for i, codes in bad], len(rows), disc, ''


def resolved_tags_spec(rule, dyn):
    """C02's statement applied to ONE rule, from the implementation evaluator's verdict on each {expr} (dyn rows of the
    oracle table): static tag -> lower-cased, stripped, non-empty; {expr} -> the value it evaluates to, as text, lower-cased
    and stripped, dropped when empty / falsy / not evaluable; a list value contributes one tag per (non-empty) item.
    Returns (set of tags, set of tags the statement forbids but a literal reading of the code would add)."""
    vals = {d[0]: d[1:] for d in dyn}
    out = set()
    for raw in rule['tags']:
        t = raw.strip()
        if not t:
            continue
        if t.startswith('{') and t.endswith('}'):
            e = t[1:-1].strip()
            if not e or e not in vals:
                continue
            v = vals[e]
            if v[0] == 'scalar' and v[1]:
                s = v[2].strip().lower()
                if s:
                    out.add(s)
            elif v[0] == 'list':
                for truthy, item in v[1]:
                    s = item.strip().lower()
                    if truthy and s:
                        out.add(s)
        else:
            out.add(t.lower())
    return out


def expected_tags(jr, tr, frules=None):
    """frules: the generator's rule blocks (their 'tags' lists are the tags as WRITTEN, independent of how the
    implementation split the `tags:` line); without them the implementation-parsed tags are used."""
    exp = set()
    src = frules if frules is not None and len(frules) == len(jr['rules']) else jr['rules']
    for r, c, dyn in zip(src, tr['oracle']['cond'], tr['oracle']['dyn']):
        if c == 'T':
            exp |= resolved_tags_spec(r, dyn)
    return exp


def mcs_of(n):
    return None if (n is None or 'crash' in n) else [n['m'], n['c'], n['s']]


def tags_of(n):
    return None if (n is None or 'crash' in n) else sorted((n.get('info') or {}).get('tags', [])) if 'info' in n else sorted(n.get('tags', []))


def judge_one_load(c, jr):
    """Back-to-back classification in ONE load against each transaction classified alone in a fresh load.
    Yields (txn index or None, mode, 'mcs'|'tags', detail)."""
    out = []
    for mode, ol in (jr.get('one_load') or {}).items():
        for ti, n in enumerate(ol.get('seq', [])):
            tr = jr['txns'][ti]
            ref = tr['norm'] if c['kind'] == 'csv' else (tr.get('norm') or {}).get(mode)
            if ref is None or 'crash' in ref or 'crash' in n:
                continue
            for what, a, b in (('mcs', mcs_of(ref), mcs_of(n)), ('tags', tags_of(ref), tags_of(n))):
                if a != b:
                    out.append((ti, mode, what, {
                        'why': f'normalize_merchant ({mode}) gives transaction #{ti} a different result when it is classified after the '
                               'preceding transactions of the same load than when it is classified alone',
                        'alone': a, 'in_sequence': b, 'transaction': c['txns'][ti],
                        'preceding_transactions': c['txns'][:ti]}))
        if 'rows_error' in ol:
            out.append((None, mode, 'mcs', {'why': 'parse_generic_csv failed on the generated statement', 'error': ol['rows_error']}))
            continue
        an = ol.get('analysis') or {}
        if 'error' in an:
            out.append((None, mode, 'tags', {'why': 'analyze_transactions failed on the parsed statement', 'error': an['error']}))
        elif an:
            for k, (a, b) in enumerate(zip(an['before'], an['after'])):
                if a != b:
                    out.append((None, mode, 'tags', {
                        'why': f'analyze_transactions ({mode}) changed the tags of statement row #{k}: after the analysis pass the transaction '
                               'carries tags of rules that do not match it', 'row': ol['rows'][k]['txn'] if k < len(ol.get('rows', [])) else k,
                        'tags_before_analysis': a, 'tags_after_analysis': b}))
                    break
        for k, row in enumerate(ol.get('rows', [])):
            if 'crash' in row['ref']:
                continue
            g = row['got']
            for what, a, b in (('mcs', mcs_of(row['ref']), [g['m'], g['c'], g['s']]), ('tags', tags_of(row['ref']), sorted(g['tags']))):
                if a != b:
                    out.append((None, mode, what, {
                        'why': f'parse_generic_csv ({mode}): statement row #{k} carries a different result than normalize_merchant gives '
                               'for that very row classified alone', 'row': row['txn'], 'alone': a, 'in_statement': b,
                        'earlier_rows': [r['txn'] for r in ol['rows'][:k]]}))
            if 'oracle' in row and not any_abort({'oracle': row['oracle']}):
                exp = sorted(expected_tags(jr, row, c['file'].get('rules')))
                if sorted(g['tags']) != exp and sorted(set(g['tags']) - {''}) == exp:
                    continue
                if sorted(g['tags']) != exp:
                    out.append((None, mode, 'tags', {
                        'why': f'parse_generic_csv ({mode}): the tags of statement row #{k} are not the union of the resolved tags of the rules '
                               'matching THAT row', 'row': row['txn'], 'expected': exp, 'in_statement': sorted(g['tags'])}))
    return out


def legacy_direct(jr, t, tr):
    """C01's reading of a legacy row's condition, evaluated in the harness (not by the code under test): the regex finds
    a match in the upper-cased description (re.search result reported by the runner) AND every modifier holds — amounts
    compared exactly (ticks of 1/512; [amount=N] = within less than 0.01 of N), date ranges inclusive, month equality; a missing amount/date fails the modifier."""
    out = []
    for r, s in zip(jr['rules'], tr['search']):
        ok = s == 'Y'
        if ok and r['parsed']:
            a, d = t.get('a'), t.get('date')
            for c in r['aconds']:
                if a is None:
                    ok = False
                    break
                op, v = c[0], c[1:]
                ok = ok and {'>': lambda: a > v[0], '>=': lambda: a >= v[0], '<': lambda: a < v[0], '<=': lambda: a <= v[0],
                             '=': lambda: abs(a - v[0]) * 100 < TICK, ':': lambda: v[0] <= a <= v[1]}[op]()   # '=': within less than one cent
            for c in r['dconds']:
                if d is None:
                    ok = False
                    break
                if c[0] == '=':
                    ok = ok and d == c[1]
                elif c[0] == ':':
                    ok = ok and c[1] <= d <= c[2]
                elif c[0] == 'month':
                    ok = ok and int(d[5:7]) == c[1]
                else:
                    ok = ok and tr['direct'][r['id']]      # relative dates: not generated; fall back to the code's verdict
        out.append(bool(ok))
    return out


def any_abort(tr):
    rs = [tr.get('fm') or {}, tr.get('ms') or {}] + list((tr.get('norm') or {}).values() if isinstance(tr.get('norm'), dict) and
                                                          'first_match' in tr.get('norm') else [])
    o = tr.get('oracle') or {}
    return any('crash' in r for r in rs) or bool(o.get('gv_crash')) or 'C' in o.get('cond', []) or \
        any(d[1] == 'crash' for dl in o.get('dyn', []) for d in dl)


PART = {1: 'apply_transforms', 2: 'MerchantEngine.match(first_match)', 3: 'MerchantEngine.match(most_specific)',
        4: 'normalize_merchant(cached engine, first_match)', 5: 'normalize_merchant(cached engine, most_specific)',
        6: 'normalize_merchant(legacy tuple loop)'}


def hist_add(h, k):
    h[str(k)] = h.get(str(k), 0) + 1
