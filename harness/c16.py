"""C16 — explain and discover describe the same classification that up applies.

Proof: C16/Props.v — the three load-and-parse pipelines and explain_description's matching loop AS WRITTEN; the
full-strength equalities are refuted on that faithful model (witnesses), the partial forms are proved under computable
guards (no live supplemental source; first_match, per-rule verdicts agree, first matching rule categorising with
merchant = name).  PARTIAL: hand models + oracles; the weight is on the tie.

Tie / direct oracle (real CLI, FRESH PROCESS per command, the C11 budget generator):
  discover  == the transactions `up` leaves Unknown (descriptions, counts, totals);
  explain <merchant> == up's merchant / category / subcategory / matched rule;
  explain "<raw description>" --amount a == what `up` assigns to a budget whose only transaction is that one.
Every disagreement is compared with the faithful model's prediction (computed from tally's own leaf functions by
impl_c16.py): a disagreement the model predicts gets the signature of its cause (KNOWN-FINDING when listed), any
other one is a VIOLATION.  Model-vs-implementation inside Coq (cases.v) for both parts."""
import collections
import copy
import json
import os
import random

from common import *
import budget_common as B

COQ_FILES = ['Lib/Str.v', 'C11/Model.v', 'C11/Proofs.v', 'C16/Model.v', 'C16/Proofs.v', 'C16/Lookup.v', 'C16/LookupProofs.v', 'C16/Props.v']
IMPL = os.path.join(os.path.dirname(os.path.abspath(__file__)), 'impl_c16.py')
PROP = 'C16'
PROBE_SUFFIX = ' ZQ7'
CTX1 = {'date': '2025-06-16', 'source': 'Probe'}      # a Monday in June
CTX2 = {'date': '2025-12-06', 'source': 'Probe2'}     # a Saturday in December, another source name


# ------------------------------------------------------------------ probes
def gen_probes(spec, rnd, n):
    descs = rnd.sample(B.DESCS, min(n, len(B.DESCS)))
    supp_amounts = [r['q'] / 4.0 for s in spec['sources'] if s['supplemental'] for r in s['rows']]
    out = []
    for d in descs:
        a = rnd.choice([5.0, 150.0, 250.0, -20.0, 150.0] + supp_amounts * 2)
        if 'AMZN' in d and supp_amounts and rnd.random() < 0.7:
            a = rnd.choice(supp_amounts)
        out.append({'desc': d + PROBE_SUFFIX, 'amount': a})
    return out


def probe_budget(spec, probe):
    """The budget whose only transaction is the probe (supplemental sources, rules, mode kept)."""
    b = copy.deepcopy(spec)
    q = int(round(probe['amount'] * 4))
    src = {'name': CTX1['source'], 'file': 'data/probe.csv', 'cols': ['date', 'description', 'amount'], 'datefmt': '%Y-%m-%d',
           'delimiter': None, 'has_header': False, 'decimal_separator': None, 'sign': '', 'negate_amount': None,
           'supplemental': False, 'state': 'present', 'template': None,
           'rows': [{'d': CTX1['date'], 'desc': probe['desc'], 'q': q, 'kind': 'POS', 'loc': '', 'style': 'plain', 'bad': None}]}
    B.sync_file_to_settings(src)
    b['sources'] = [s for s in b['sources'] if s['supplemental']] + [src]
    b['views'] = None
    return b


def single_rule_texts(spec):
    r = spec['rules']
    if r['kind'] != 'rules':
        return []
    return [B.rules_text({'variables': r['variables'], 'transforms': [], 'rules': [x]}) for x in r['rules']]


def tables(root, spec, probes):
    pl = []
    for p in probes:
        pl.append(dict(p, **CTX1))
        pl.append(dict(p, **CTX2))
    return run_impl(IMPL, {'root': B.budget_root(spec, root), 'spec': spec, 'fmts': [B.format_string(s) for s in spec['sources']],
                           'delims': [B.setting_delimiter(s) for s in spec['sources']], 'probes': pl, 'single_rule_texts': single_rule_texts(spec)}, timeout=120)


# ------------------------------------------------------------------ the faithful model's predictions (python mirror of C16/Model.v,
# used ONLY to decide whether an observed disagreement is the modelled one; the Coq model is checked separately)
def truth(v):
    return v is True


def pred_explain(rules, verdicts, extract):
    for r, v in zip(rules, verdicts):
        if truth(v['exp']):
            return (r['name'], r['cat'], r['sub'], r['expr'])
    return (extract, 'Unknown', 'Unknown', None)


def argmax(rs):
    best = None
    for r in rs:
        if best is None or tuple(r['spec']) > tuple(best['spec']):
            best = r
    return best


def pred_up(kind, mode, rules, verdicts, extract):
    if kind == 'rules':
        ms = [r for r, v in zip(rules, verdicts) if truth(v['eng'])]
        cats = [r for r in ms if r['cat']]
        if mode == 'most_specific':
            w = argmax(cats)
            if w is None:
                return (extract, 'Unknown', 'Unknown', None)
            mw, sw = argmax([r for r in ms if r['merchant']]), argmax([r for r in ms if r['sub']])
            return (mw['merchant'] if mw else '', w['cat'], sw['sub'] if sw else '', w['expr'])
        if cats:
            r = cats[0]
            return (r['merchant'], r['cat'], r['sub'], r['expr'])
        return (extract, 'Unknown', 'Unknown', None)
    for r, v in zip(rules, verdicts):
        if truth(v['leg']) and r['cat']:
            return (r['name'], r['cat'], r['sub'], r['expr'])
    return (extract, 'Unknown', 'Unknown', None)


def guard_holds(kind, mode, rules, verdicts):
    """C16/Model.v explain_guard."""
    if kind == 'rules' and mode == 'most_specific':
        return False
    upk = 'eng' if kind == 'rules' else 'leg'
    if any(truth(v['exp']) != truth(v[upk]) for v in verdicts):
        return False
    for r, v in zip(rules, verdicts):
        if truth(v['exp']):
            return bool(r['cat']) and (kind != 'rules' or r['merchant'] == r['name'])
    return True


REPAIRS = [('guard', 'C16/explain-description-reports-tag-only-rule'),
           ('supp', 'C16/explain-description-passes-no-supplemental-data'),
           ('vars', 'C16/explain-description-ignores-variables-and-let'),
           ('regex', 'C16/explain-description-treats-expression-as-regex'),
           ('mode', 'C16/explain-description-ignores-rule-mode'),
           ('merchant', 'C16/explain-description-reports-rule-name-not-merchant')]


def rule_classes(spec, kind, rules, verdicts):
    """Why explain's bare evaluation of a rule may differ from up's: it queries a supplemental source, it uses a global
    variable / let binding, or its text is not recognised as an expression and is run as a regular expression."""
    varnames = [n.lower() for n, _ in spec['rules']['variables']]
    suppnames = [s['name'].lower() for s in spec['sources'] if s['supplemental']]
    out = []
    for i, (r, v) in enumerate(zip(rules, verdicts)):
        low = r['expr'].lower()
        srule = spec['rules']['rules'][i] if kind == 'rules' and i < len(spec['rules']['rules']) else None
        c = set()
        if any(re.search(r'\b' + re.escape(n) + r'\b', low) for n in suppnames):
            c.add('supp')
        if any(re.search(r'\b' + re.escape(n) + r'\b', low) for n in varnames) or (srule and srule['let']):
            c.add('vars')
        if not v['guess']:
            c.add('regex')
        out.append(c)
    return out


def repaired_explain(kind, mode, rules, verdicts, extract, classes, on):
    """explain_description's answer if the repairs in `on` were made to it (all repairs on = up's classification).
    'mode' = select as the engine does under the configured mode (which includes its category guard)."""
    upk = 'eng' if kind == 'rules' else 'leg'
    vs = []
    for v, c in zip(verdicts, classes):
        x = v[upk] if (c & on) else v['exp']
        vs.append({'exp': x, 'eng': x, 'leg': x})
    rs = [dict(r, merchant=r['merchant'] if 'merchant' in on else r['name']) for r in rules]
    if 'mode' in on and kind == 'rules':
        return pred_up(kind, mode, rs, vs, extract)
    if 'guard' in on:
        return pred_up(kind, 'first_match', rs, vs, extract)
    for r, v in zip(rs, vs):
        if truth(v['exp']):
            return (r['merchant'], r['cat'], r['sub'], r['expr'])
    return (extract, 'Unknown', 'Unknown', None)


def cause_of_probe_divergence(spec, kind, mode, rules, verdicts, e_pred, u_pred, extract):
    """The smallest set of repairs of explain_description that makes it answer like `up`; signature = its first member.
    None when no set of modelled repairs does (an unmodelled divergence = VIOLATION)."""
    import itertools
    classes = rule_classes(spec, kind, rules, verdicts)
    names = [n for n, _ in REPAIRS]
    for size in range(1, len(names) + 1):
        for sub in itertools.combinations(names, size):
            on = set(sub)
            if repaired_explain(kind, mode, rules, verdicts, extract, classes, on) == u_pred:
                return dict(REPAIRS)[sub[0]], list(sub)
    return None, None


# ------------------------------------------------------------------ observation helpers
def up_unknown_groups(html_data):
    g = {}
    for t in B.html_txns(html_data):
        if t[5] == 'Unknown':
            c, s = g.get(t[2], (0, 0.0))
            g[t[2]] = (c + 1, s + abs(t[3]))
    return {k: (c, round(s, 2)) for k, s2 in [(k, v) for k, v in g.items()] for c, s in [s2]}


def model_discover(tb):
    g = {}
    for ps in tb['per_source']:
        for row in ps.get('rows', []):
            if row[5] == 'Unknown':
                c, s = g.get(row[0], (0, 0.0))
                g[row[0]] = (c + 1, s + row[1])
    return {k: (c, round(s, 2)) for k, (c, s) in g.items()}


def model_up_unknowns(spec, tb):
    g = {}
    for s, ps in zip(spec['sources'], tb['per_source']):
        if s['supplemental']:
            continue
        for row in ps.get('rows', []):
            if row[3] == 'Unknown':
                c, sm = g.get(row[0], (0, 0.0))
                g[row[0]] = (c + 1, sm + row[1])
    return {k: (c, round(s, 2)) for k, (c, s) in g.items()}


def live_supp(spec):
    return [s for s in spec['sources'] if s['supplemental'] and s['state'] == 'present']


def explain_answer(js):
    """(merchant, category, subcategory, rule) from `explain <raw description>` JSON, or None when it is not a trace."""
    if not isinstance(js, dict) or 'is_unknown' not in js:
        return None
    mr = js.get('matched_rule')
    return (js.get('merchant'), js.get('category'), js.get('subcategory'), mr.get('pattern') if mr else None)


def up_answer_for_probe(html_data):
    tx = [t for t in B.html_txns(html_data) if t[0] == CTX1['source']]
    if len(tx) != 1:
        return None
    for cat in html_data['categoryView'].values():
        for sub in cat['subcategories'].values():
            for m in sub['merchants'].values():
                if m['displayName'] == tx[0][4]:
                    mi = m.get('matchInfo') or {}
                    return (m['displayName'], m['category'], m['subcategory'], mi.get('pattern'))
    return None


# ------------------------------------------------------------------ one budget
def eval_budget(job, only=None):
    """only: None = all checks | 'discover' | 'merchant' | 'probe' (used when re-checking one recorded failure)."""
    k, spec, probes = job
    root = B.work_root(PROP, f'b{k}')
    res = {'k': k, 'fails': [], 'n_cli': 0, 'probe_obs': [], 'stats': collections.Counter()}
    try:
        cfg = B.materialize(spec, root)
        skip = {'rc': None, 'json': None, 'data': None, 'stderr': '', 'stdout': ''}
        upj = B.up_json(cfg) if only in (None, 'merchant') else skip
        uph = B.up_html(cfg, os.path.join(root, 'out.html')) if only in (None, 'discover') else skip
        disc = B.discover_json(cfg) if only in (None, 'discover') else skip
        res['n_cli'] += 3 if only is None else 1
        tb = tables(root, spec, probes)
        res['tables'] = tb
        kind, mode = spec['rules']['kind'], spec.get('rule_mode') or 'first_match'

        # ---------------- discover vs up
        if uph['rc'] == 0 and uph['data'] is not None:
            want = up_unknown_groups(uph['data'])
        elif uph['rc'] == 1 and 'No transactions found' in uph['stderr']:
            want = {}
        else:
            want = None
            if uph['rc'] is not None:
                res['fails'].append({'law': 'up-failed', 'detail': f"rc={uph['rc']} {uph['stderr'][-200:]}", 'sig': None})
        got = None
        if disc['rc'] == 0 and disc['json'] is not None:
            got = {d['raw_description']: (d['count'], d['total_spend']) for d in disc['json']}
        elif disc['rc'] == 1 and 'No transactions found' in disc['stderr']:
            got = {}
        elif disc['rc'] is not None:
            res['fails'].append({'law': 'discover-failed', 'detail': f"rc={disc['rc']} {disc['stderr'][-200:]}", 'sig': None})
        res['up_unknown'], res['discover'] = want, got
        if want is not None and got is not None:
            res['stats']['discover_compared'] += 1
            if want:
                res['stats']['discover_nonempty'] += 1
            if got != want:
                sig = None
                if got == model_discover(tb) and want == model_up_unknowns(spec, tb) and live_supp(spec):
                    supp_descs = {r['desc'] for s in live_supp(spec) for r in s['rows']}
                    extra = [d for d in set(got) | set(want) if got.get(d) != want.get(d)]
                    sig = ('C16/discover-lists-supplemental-rows' if any(d in supp_descs for d in extra)
                           else 'C16/discover-passes-no-supplemental-data')
                diff = sorted(d for d in set(got) | set(want) if got.get(d) != want.get(d))
                res['fails'].append({'law': 'discover!=up-unknowns', 'sig': sig, 'check': {'type': 'discover'},
                                     'detail': '; '.join(f"{d!r}: discover {got.get(d)} vs up {want.get(d)}" for d in diff[:4])})

        # ---------------- explain <merchant> vs up
        merchants = (upj['json'] or {}).get('merchants', []) if upj['rc'] == 0 and only in (None, 'merchant') else []
        rnd = random.Random(k)
        # prefer merchants whose rule queries a supplemental source, then random ones
        suppn = [s['name'].lower() for s in spec['sources'] if s['supplemental']]
        pri = [m for m in merchants if any(n in ((m.get('pattern') or {}).get('matched') or '').lower() for n in suppn)]
        rest = [m for m in merchants if m not in pri]
        rnd.shuffle(rest)
        # every exact name that has a case-insensitive twin among up's merchants is asked for
        lows = collections.Counter(m['name'].lower() for m in merchants)
        twins = [m for m in merchants if lows[m['name'].lower()] > 1]
        res['stats']['explain_merchant_case_twins'] += len(twins)
        # merchants that two rules with different category/subcategory/pattern produce: what analyze_transactions reports
        # for them depends on transaction order (category of the LAST, rule of the FIRST transaction)
        var = collections.defaultdict(set)
        for ps in tb['per_source']:
            for row in ps.get('rows', []):
                var[row[2]].add(row[3])
        multi = [m for m in merchants if len(var.get(m['name'], ())) > 1 or m['count'] > 1 and m in pri]
        res['stats']['explain_merchant_order_sensitive'] += len([m for m in merchants if len(var.get(m['name'], ())) > 1])
        order = twins + [m for m in multi if m not in twins] + [m for m in pri + rest if m not in twins and m not in multi]
        limit = 8 if spec.get('ask_all') else max(2, min(len(twins) + len(multi), 6))
        for m in order[:limit]:
            ex = B.explain_json(cfg, m['name'])
            res['n_cli'] += 1
            res['stats']['explain_merchant'] += 1
            want_m = (m['name'], m['category'], m['subcategory'], (m.get('pattern') or {}).get('matched'))
            j = ex['json']
            got_m = (j.get('name'), j.get('category'), j.get('subcategory'), (j.get('pattern') or {}).get('matched')) \
                if isinstance(j, dict) and 'name' in j else None
            res.setdefault('merchant_obs', []).append({'name': m['name'], 'up_count': m['count'],
                                                       'explain_count': j.get('count') if got_m else None})
            if got_m != want_m:
                # the model's prediction: by_merchant of the explain pipeline (all sources, no supplemental data)
                rows = [r for ps in tb['per_source'] for r in ps.get('rows', []) if r[4] == m['name']]
                sig = None
                if live_supp(spec):
                    if not rows and got_m is None:
                        sig = 'C16/explain-merchant-ignores-supplemental-sources'
                    elif rows and got_m is not None and got_m[1] == rows[-1][5]:
                        sig = 'C16/explain-merchant-ignores-supplemental-sources'
                res['fails'].append({'law': 'explain-merchant!=up', 'sig': sig, 'check': {'type': 'merchant', 'name': m['name']},
                                     'detail': f"explain {m['name']!r}: {got_m if got_m else ex['stdout'][:120] + ex['stderr'][:120]} vs up {want_m}"})

        # ---------------- what a query names: the lookup cascade of cmd_explain (C16/Lookup.v), observed by the shape of the answer
        if spec.get('lookup_queries') and only is None:
            keys, descs = [], []
            for ps in tb['per_source']:
                for row in ps.get('rows', []):
                    if row[4] not in keys:
                        keys.append(row[4])
                    descs.append((row[4], row[0]))
            qs = []
            for m in keys[:4]:
                qs += [m, m.upper(), m.lower(), m[:3], m[1:]]
            for d in [d for _, d in descs][:2]:
                qs += [d, d.lower()[2:], d.split()[0]]
            qs += ['QQQ ZZZ 77', 'a', ' ']
            seen = []
            for q in qs:
                if q in seen or not q or not q.isascii() or q.startswith('-'):
                    continue
                seen.append(q)
            if keys:        # with no transaction at all explain stops at "No transactions found" before any lookup
                res['lookup'] = {'keys': keys, 'descs': descs, 'obs': []}
            for q in (seen[:14] if keys else []):
                rc, out, err = B.run_cli(['explain', q, cfg, '--format', 'json'])
                res['n_cli'] += 1
                names = re.findall(r'^  "name": "((?:[^"\\\\]|\\\\.)*)",?$', out, re.M)
                if out.startswith('Merchants matching'):
                    route = ['Partial', sorted(json.loads('"' + n + '"') for n in names)]
                elif out.startswith('Transactions matching'):
                    route = ['TxnSearch']
                elif out.lstrip().startswith('{') and '"is_unknown"' in out:
                    route = ['Describe']
                elif names and out.lstrip().startswith('{'):
                    n0 = json.loads('"' + names[0] + '"')
                    route = ['Exact', n0] if n0 == q else ['CaseInsens', n0]
                elif not out.strip() and 'No merchant matching' in err:
                    route = ['Describe']      # explain_description said Unknown, then the fuzzy suggestion
                else:
                    route = ['?', out[:80] + err[:80]]
                res['lookup']['obs'].append([q, route])
                res['stats']['lookup_queries'] += 1
                # direct oracle: the exact name of a merchant is answered with that merchant
                if q in keys and route != ['Exact', q]:
                    res['fails'].append({'law': 'explain-exact-name', 'sig': None, 'check': {'type': 'lookup', 'query': q},
                                         'detail': f'explain {q!r} (an exact merchant name) answered {route}'})

        # ---------------- explain "<raw description>" --amount vs up on the one-transaction budget
        rules = tb['rules']
        for pi, pr in enumerate(probes if only in (None, 'probe') else []):
            v1, v2 = tb['probes'][2 * pi], tb['probes'][2 * pi + 1]
            upk = 'eng' if kind == 'rules' else 'leg'
            if any(a[upk] != b[upk] for a, b in zip(v1['verdicts'], v2['verdicts'])):
                res['stats']['probe_discarded_depends_on_date_or_source'] += 1
                continue
            if any(isinstance(x[f], str) for x in v1['verdicts'] for f in ('exp', 'eng', 'leg')):
                res['stats']['probe_discarded_rule_raises'] += 1   # C08's topic
                continue
            pb = probe_budget(spec, pr)
            proot = root + f'_p{pi}'
            ph = B.up_html(B.materialize(pb, proot), os.path.join(proot, 'out.html'))
            ex = B.explain_json(cfg, pr['desc'], pr['amount'])
            res['n_cli'] += 2
            u_obs = up_answer_for_probe(ph['data']) if ph['rc'] == 0 and ph['data'] else None
            e_obs = explain_answer(ex['json'])
            if u_obs is None:
                res['fails'].append({'law': 'probe-up-failed', 'sig': None, 'check': {'type': 'probe', 'probe': pr},
                                     'detail': f"rc={ph['rc']} {ph['stderr'][-200:]}"})
                continue
            if e_obs is None:
                res['stats']['probe_explain_gave_no_trace'] += 1     # "Did you mean ..." on stderr, exit 1
                continue
            res['stats']['probe_compared'] += 1
            e_pred = pred_explain(rules, v1['verdicts'], v1['extract'])
            u_pred = pred_up(kind, mode, rules, v1['verdicts'], v1['extract'])
            g = guard_holds(kind, mode, rules, v1['verdicts'])
            res['stats']['probe_guard_holds' if g else 'probe_guard_fails'] += 1
            nmatch = sum(1 for v in v1['verdicts'] if truth(v[upk]))
            if nmatch >= 2:
                res['stats']['probe_two_or_more_rules_match'] += 1
            res['probe_obs'].append({'probe': pr, 'explain': e_obs, 'up': u_obs, 'pi': pi, 'guard': g})
            if e_obs != u_obs:
                sig, repairs = None, None
                if e_obs == e_pred and u_obs == u_pred and not g:
                    sig, repairs = cause_of_probe_divergence(spec, kind, mode, rules, v1['verdicts'], e_pred, u_pred, v1['extract'])
                res['fails'].append({'law': 'explain-description!=up', 'sig': sig, 'check': {'type': 'probe', 'probe': pr},
                                     'repairs': repairs,
                                     'detail': f"explain {pr['desc']!r} --amount {pr['amount']}: {e_obs} vs up {u_obs}"
                                               + ('' if e_obs == e_pred and u_obs == u_pred else
                                                  f' [model predicted explain {e_pred}, up {u_pred}]')})
            elif not (e_obs == e_pred and u_obs == u_pred):
                res['fails'].append({'law': 'model-mispredicts', 'sig': None, 'check': {'type': 'probe', 'probe': pr},
                                     'detail': f"{pr}: CLI explain {e_obs} up {u_obs}; model explain {e_pred} up {u_pred}"})
    except Exception as e:  # noqa
        import traceback
        res['fails'].append({'law': 'harness-error', 'sig': None, 'check': {'type': 'none'},
                             'detail': f'{type(e).__name__}: {e} {traceback.format_exc()[-400:]}'})
    return res


# ------------------------------------------------------------------ model side (Coq)
HEADER = '''From Coq Require Import String List Bool Arith NArith.
From Tally Require Import Lib.Str C11.Model C16.Model C16.Lookup.
Import ListNotations.
Open Scope nat_scope.
Open Scope list_scope.
Definition sbytes (l : list N) : string := fold_right (fun n s => String (Ascii.ascii_of_N n) s) EmptyString l.
(* ---- part 2: one description. Every rule carries its verdicts (engine, legacy, explain) as observed on tally's leaf functions *)
Definition V := (option bool * option bool * option bool)%type.
Definition w_eng (r : rule V) (_ : unit) := fst (fst (r_x r)).
Definition w_leg (r : rule V) (_ : unit) := snd (fst (r_x r)).
Definition w_exp (r : rule V) (_ : unit) := snd (r_x r).
Definition R n m e c s (p a b d : nat) (x y z : option bool) : rule V := mkRule n m e c s (p, a, b, d) (x, y, z).
Definition oeqb (a b : option string) := match a, b with Some x, Some y => String.eqb x y | None, None => true | _, _ => false end.
Definition aeqb (a b : answer) : bool :=
  let '(a1, a2, a3, a4) := a in let '(b1, b2, b3, b4) := b in
  (String.eqb a1 b1 && String.eqb a2 b2 && String.eqb a3 b3 && oeqb a4 b4)%bool.
(* case: kind, mode, rules, extracted name, explain's answer on the CLI, up's answer on the CLI, does the guard hold (python) *)
Definition okd (c : kind * mode * list (rule V) * string * answer * answer * bool) : bool :=
  let '(k, m, rules, nm, e_obs, u_obs, g) := c in
  (aeqb (explain_desc w_exp (fun _ => nm) rules tt) e_obs
   && aeqb (up_classify w_eng w_leg (fun _ => nm) k m rules tt) u_obs
   && Bool.eqb (explain_guard w_eng w_leg w_exp k m rules tt) g)%bool.
(* ---- part 1: pipelines. A row: (description id, |amount| in quarters, unknown under up, unknown under explain/discover) *)
Definition Row := (nat * nat * bool * bool)%type.
Definition Cont := (option (list Row) * list nat)%type.       (* parse result as a transaction source, supplemental rows *)
Definition p_parse (_ : unit) (c : Cont) := fst c.
Definition p_supp (_ : unit) (c : Cont) : option (list nat) := Some (snd c).
Definition p_classify (_ : unit) (_ : mode) (sd : supp_data nat) (_ : string) (r : Row) : nat * nat * bool :=
  let '(d, a, u_up, u_cmd) := r in (d, a, match sd with [] => u_cmd | _ => u_up end).
Definition p_unknown (t : nat * nat * bool) := snd t.
Fixpoint bump (d a : nat) (g : list (nat * (nat * nat))) :=
  match g with [] => [(d, (1, a))] | (d', (c, s)) :: r => if Nat.eqb d d' then (d', (c + 1, s + a)) :: r else (d', (c, s)) :: bump d a r end.
Definition p_group (l : list (nat * nat * bool)) := fold_left (fun g t => bump (fst (fst t)) (snd (fst t)) g) l [].
Fixpoint glook (d : nat) (g : list (nat * (nat * nat))) := match g with [] => (0, 0) | (d', v) :: r => if Nat.eqb d d' then v else glook d r end.
Definition geqb (g obs : list (nat * (nat * nat))) : bool :=
  (Nat.eqb (length g) (length obs) && forallb (fun e => let v := glook (fst e) g in Nat.eqb (fst v) (fst (snd e)) && Nat.eqb (snd v) (snd (snd e))) obs)%bool.
Definition S (n : string) (sp : bool) (st : state) (c : Cont) : source unit Cont := mkSource n sp true tt st c.
(* case: sources, discover's groups on the CLI, up's Unknown groups on the CLI, no_live_supp (python) *)
Definition okp (c : list (source unit Cont) * list (nat * (nat * nat)) * list (nat * (nat * nat)) * bool) : bool :=
  let '(ss, d_obs, u_obs, g) := c in
  let b := mkBudget ss tt FirstMatch None in
  (geqb (discover p_parse p_classify p_unknown p_group b) d_obs
   && geqb (up_unknowns p_parse p_supp p_classify p_unknown p_group b) u_obs
   && Bool.eqb (no_live_supp b) g)%bool.
(* ---- the lookup cascade *)
Fixpoint sleqb (a b : list string) := match a, b with [], [] => true | x :: r, y :: s => (String.eqb x y && sleqb r s)%bool | _, _ => false end.
Definition sameset (a b : list string) := (Nat.eqb (length a) (length b) && forallb (fun x => mem x b) a)%bool.
Definition reqb (a b : Lookup.route) : bool :=
  match a, b with
  | Lookup.Exact x, Lookup.Exact y | Lookup.CaseInsens x, Lookup.CaseInsens y => String.eqb x y
  | Lookup.Partial x, Lookup.Partial y => sameset x y
  | Lookup.TxnSearch, Lookup.TxnSearch | Lookup.Describe, Lookup.Describe => true
  | _, _ => false end.
Definition okl (c : list string * list (string * string) * list (string * Lookup.route)) : bool :=
  let '(keys, descs, obs) := c in forallb (fun o => reqb (Lookup.lookup (fst o) keys descs) (snd o)) obs.
Fixpoint failing {A} (ok : A -> bool) (i : nat) (l : list A) : list nat :=
  match l with [] => [] | c :: r => if ok c then failing ok (Datatypes.S i) r else i :: failing ok (Datatypes.S i) r end.
'''


def ob(v):
    return 'Some true' if v is True else 'Some false' if v is False else 'None'


def ans(a, exprs):
    pat = 'None' if a[3] is None else ('Some ' + coq_str('e%d' % exprs[a[3]]) if a[3] in exprs else 'Some ' + coq_str('?'))
    return f"({coq_str(a[0] or '')}, {coq_str(a[1] or '')}, {coq_str(a[2] or '')}, {pat})"


def coq_probe_case(spec, tb, obs):
    kind, mode = spec['rules']['kind'], spec.get('rule_mode') or 'first_match'
    v = tb['probes'][2 * obs['pi']]
    exprs = {}
    rs = []
    for i, (r, x) in enumerate(zip(tb['rules'], v['verdicts'])):
        exprs.setdefault(r['expr'], i)      # the CLI reports the rule by its expression text: equal texts get the same token
        sp = r['spec']
        rs.append(f"R {coq_str(r['name'])} {coq_str(r['merchant'])} {coq_str('e%d' % exprs[r['expr']])} {coq_str(r['cat'])} {coq_str(r['sub'])} "
                  f"{sp[0]} {sp[1]} {sp[2]} {sp[3]} ({ob(x['eng'])}) ({ob(x['leg'])}) ({ob(x['exp'])})")
    # rules with identical expression text are reported by text: map to the first index, as the harness does for the CLI side
    return (f"({'KRules' if kind == 'rules' else 'KCsv'}, {'MostSpecific' if mode == 'most_specific' else 'FirstMatch'}, "
            f"[{'; '.join(rs)}], {coq_str(v['extract'])}, {ans_first(obs['explain'], exprs, tb)}, {ans_first(obs['up'], exprs, tb)}, "
            f"{'true' if obs['guard'] else 'false'})")


def ans_first(a, exprs, tb):
    return ans(a, exprs)


def coq_pipeline_case(spec, tb, discover, up_unknown):
    ids = {}
    srcs = []
    for i, (s, ps) in enumerate(zip(spec['sources'], tb['per_source'])):
        cst = {'present': 'Present', 'missing': 'Missing'}.get(s['state'], 'Unreadable')
        if 'rows' in ps:
            rows = []
            for r in ps['rows']:
                d = ids.setdefault(r[0], len(ids))
                rows.append(f"({d}, {int(round(r[1] * 4))}, {'true' if r[3] == 'Unknown' else 'false'}, {'true' if r[5] == 'Unknown' else 'false'})")
            content = 'Some [' + '; '.join(rows) + ']'
        elif ps.get('skipped') in ('error', 'missing'):
            content = 'None'
        else:
            return None
        sup = '[' + '; '.join('1' for _ in s['rows']) + ']' if s['supplemental'] else '[]'
        srcs.append(f"S {coq_str('s%d' % i)} {'true' if s['supplemental'] else 'false'} {cst} ({content}, {sup})")

    def grp(g):
        items = []
        for d, (c, t) in g.items():
            if d not in ids:
                return None
            items.append(f'({ids[d]}, ({c}, {int(round(t * 4))}))')
        return '[' + '; '.join(items) + ']'
    gd, gu = grp(discover), grp(up_unknown)
    if gd is None or gu is None:
        return None
    inert = all((not s['supplemental']) or s['state'] != 'present' for s in spec['sources'])
    return f"([{'; '.join(srcs)}], {gd}, {gu}, {'true' if inert else 'false'})"


def coq_lookup_case(lk):
    def rt(r):
        if r[0] in ('Exact', 'CaseInsens'):
            return f'Lookup.{r[0]} {coq_str(r[1])}'
        if r[0] == 'Partial':
            return 'Lookup.Partial [' + '; '.join(coq_str(x) for x in r[1]) + ']'
        return 'Lookup.' + r[0]
    if any(r[0] == '?' for _, r in lk['obs']):
        return None
    return ('([' + '; '.join(coq_str(k) for k in lk['keys']) + '], [' + '; '.join(f'({coq_str(a)}, {coq_str(b)})' for a, b in lk['descs'])
            + '], [' + '; '.join(f'({coq_str(q)}, {rt(r)})' for q, r in lk['obs']) + '])')


def model_check(rows, okname, name):
    bad = []
    CH = 300
    for off in range(0, len(rows), CH):
        body = 'Definition cases := [\n' + ';\n'.join(rows[off:off + CH]) + f'\n].\nEval vm_compute in failing {okname} 0 cases.\n'
        rc, out, err = run_cases(f'{name}_{off // CH}', HEADER, body)
        m = re.search(r'=\s*\[(.*?)\]\s*:\s*list nat', out, re.S)
        if rc != 0 or not m:
            return None, (out + err)[-800:]
        bad += [off + int(x) for x in m.group(1).replace('%nat', '').replace('\n', ' ').split(';') if x.strip()]
    return bad, ''


# ------------------------------------------------------------------ corpus: one small budget per modelled divergence (always run first)
def corpus():
    def row(d, desc, q):
        return {'d': d, 'desc': desc, 'q': q, 'kind': 'POS', 'loc': '', 'style': 'plain', 'bad': None}

    def card(rows):
        s = {'name': 'Card', 'file': 'data/card.csv', 'cols': ['date', 'description', 'amount'], 'datefmt': '%Y-%m-%d', 'delimiter': None,
             'has_header': None, 'decimal_separator': None, 'sign': '', 'negate_amount': None, 'supplemental': False, 'state': 'present',
             'template': None, 'rows': rows}
        return B.sync_file_to_settings(s)

    def orders(rows):
        s = {'name': 'Orders', 'file': 'data/orders.csv', 'cols': ['date', 'item', 'amount'], 'datefmt': '%Y-%m-%d', 'delimiter': None,
             'has_header': None, 'decimal_separator': None, 'sign': '', 'negate_amount': None, 'supplemental': True, 'state': 'present',
             'template': '{item}', 'rows': rows}
        return B.sync_file_to_settings(s)

    byname = {t[0]: B.mkrule(t) for t in B.RULE_POOL + B.SUPP_RULES}
    data = [row('2025-01-05', 'NETFLIX.COM', 62), row('2025-02-06', 'MYSTERY SHOP', 600), row('2025-02-07', 'AMZN MKTP US', 100),
            row('2025-03-01', 'AMZN MKTP US', 104)]

    def bud(rules, mode=None, variables=(), kind='rules', csv=(), supp=None):
        src = [card([dict(r) for r in data])] + ([orders(supp)] if supp is not None else [])
        return {'year': 2025, 'rule_mode': mode, 'sources': src, 'views': None,
                'rules': {'kind': kind, 'variables': [list(v) for v in variables], 'transforms': [],
                          'rules': [copy.deepcopy(byname[n]) for n in rules], 'csv': [list(x) for x in csv]}}
    books = {'name': 'Books', 'match': 'contains("BOOK")', 'category': 'Shopping', 'subcategory': 'Books', 'merchant': '', 'tags': [],
             'let': [], 'field': [], 'priority': None}
    b_not = bud([])
    b_not['rules']['rules'].append({'name': 'Not Coffee', 'match': 'not contains("COFFEE")', 'category': 'Misc', 'subcategory': 'Other',
                                    'merchant': '', 'tags': [], 'let': [], 'field': [], 'priority': None})
    b_data = bud(['Ordered'], supp=[row('2025-02-07', 'Book', 100)])
    b_data['rules']['rules'].append(books)
    # one merchant name produced by two rules with different category, file order != date order (newest-first export,
    # two sources with interleaving dates): by_merchant takes the category of the LAST and the rule of the FIRST transaction
    b_new = bud(['Costco Big', 'Costco'])
    b_new['sources'][0]['rows'] = [row('2025-03-10', 'COSTCO WHSE', 1200), row('2025-02-02', 'NETFLIX.COM', 62), row('2025-01-05', 'COSTCO WHSE', 200)]
    b_new['ask_all'] = True
    b_two = bud(['Costco Big', 'Costco', 'Fuel'])
    b_two['rules']['rules'].append({'name': 'Parking', 'match': 'contains("PARKING")', 'category': 'Transport', 'subcategory': 'Parking',
                                    'merchant': 'Gas Station', 'tags': [], 'let': [], 'field': [], 'priority': None})
    b_two['sources'][0]['rows'] = [row('2025-01-05', 'COSTCO WHSE', 1200), row('2025-03-01', 'COSTCO WHSE', 100), row('2025-02-20', 'CITY PARKING', 40)]
    second = card([row('2025-02-01', 'COSTCO WHSE', 2000), row('2025-01-20', 'COSTCO GAS', 90), row('2025-04-01', 'SHELL OIL 5521', 120)])
    second['name'], second['file'] = 'Bank', 'data/bank.csv'
    b_two['sources'].append(second)
    b_two['ask_all'] = True
    # descriptions with inner whitespace runs / a tab, and patterns that span the run: `up` strips only the ends of the cell
    def rl(name, match, cat, sub):
        return {'name': name, 'match': match, 'category': cat, 'subcategory': sub, 'merchant': '', 'tags': [], 'let': [], 'field': [],
                'priority': None}
    b_ws = bud([])
    b_ws['rules']['rules'] = [rl('Amazon Payments', 'contains("PMTS  AMZN")', 'Shopping', 'Payments'),
                              rl('Wire Out', 'regex("WIRE\\\\s{3}OUT")', 'Banking', 'Wire'),
                              rl('Tabbed', 'contains("ACH\\tDEBIT")', 'Banking', 'Ach'),
                              rl('Single', 'regex("^PMTS AMZN")', 'Shopping', 'Single'),
                              rl('Amazon', 'contains("AMZN")', 'Shopping', 'Online'), rl('Wire', 'contains("WIRE")', 'Banking', 'Other'),
                              rl('Ach', 'contains("ACH")', 'Banking', 'Other Ach')]
    b_ws['sources'][0]['rows'] += [row('2025-05-01', 'PMTS  AMZN 12', 100), row('2025-05-02', 'PMTS AMZN 12', 100),
                                   row('2025-05-03', 'UNKNOWN  TWO  BLANKS', 40), row('2025-05-04', 'UNKNOWN TWO BLANKS', 40)]
    b_ws['ask_all'] = True
    ws_probes = [{'desc': 'PMTS  AMZN ZQ7', 'amount': 25.0}, {'desc': 'WIRE   OUT ZQ7', 'amount': 500.0},
                 {'desc': 'ACH\tDEBIT ZQ7', 'amount': 40.0}, {'desc': 'PMTS AMZN ZQ7', 'amount': 25.0}]
    b_wscsv = bud([], kind='csv', csv=[['PMTS  AMZN', 'Amazon Payments', 'Shopping', 'Payments', ''], ['AMZN', 'Amazon', 'Shopping', 'Online', '']])
    # a transform rewrites the description before matching: rules written against the ORIGINAL text never apply, in up or explain
    b_tr = bud(['Coffee'])
    b_tr['rules']['transforms'] = [list(v) for v in B.TRANSFORMS] + [['field.description', 'regex_replace(field.description, "\\\\s+#\\\\d+$", "")']]
    b_tr['rules']['rules'] = [rl('Square', 'contains("SQ *")', 'Square', 'Reader'), rl('Square Re', 'regex("^SQ ")', 'Square', 'Anchored'),
                              rl('Store No', 'regex("#\\\\d+$")', 'Stores', 'Numbered')] + b_tr['rules']['rules']
    b_tr['sources'][0]['rows'] += [row('2025-06-01', 'SQ *BAKERY', 40), row('2025-06-02', 'SQ *COFFEE HUT', 18), row('2025-06-03', 'ZED MART #4411', 60)]
    b_tr['ask_all'] = True
    tr_probes = [{'desc': 'SQ *BAKERY ZQ7', 'amount': 10.0}, {'desc': 'SQ *COFFEE HUT ZQ7', 'amount': 4.5}, {'desc': 'ZED MART ZQ7 #4411', 'amount': 15.0},
                 {'desc': 'BAKERY ZQ7', 'amount': 10.0}]
    b_case = bud(['ZED MART', 'COFFEE', 'Coffee'])     # merchants whose names differ only in letter case
    b_case['sources'][0]['rows'] += [row('2025-04-01', 'ZED MART', 200), row('2025-04-02', 'ZED MART', 40),
                                     row('2025-04-03', 'COFFEE ROASTERS', 30), row('2025-04-04', 'SQ *COFFEE HUT', 18)]
    return [
        (bud(['Any Tag', 'Coffee']), [{'desc': 'COFFEE ROASTERS ZQ7', 'amount': 5.0}]),                       # tag-only rule in front
        (bud(['Netflix', 'Netflix Premium'], mode='most_specific'), [{'desc': 'NETFLIX PREMIUM 8841 ZQ7', 'amount': 15.5}]),
        (bud(['Var Rule'], variables=B.VARIABLES), [{'desc': 'BIG BOX STORE ZQ7', 'amount': 250.0}]),         # global variable
        (bud(['Let Rule']), [{'desc': 'BIG BOX STORE ZQ7', 'amount': 250.0}]),                               # let binding
        (bud(['In Desc']), [{'desc': 'GYM CLUB ZQ7', 'amount': 20.0}]),                                      # `in` condition run as a regex
        (b_not, [{'desc': 'ZED MART ZQ7', 'amount': 20.0}]),                                                 # `not ...` condition run as a regex
        (bud(['Fuel']), [{'desc': 'SHELL OIL 5521 ZQ7', 'amount': 40.0}]),                                   # merchant: property
        (bud(['Ordered'], supp=[row('2025-02-07', 'Book', 100)]), [{'desc': 'AMZN MKTP US ZQ7', 'amount': 25.0}]),   # supplemental rows + data
        (b_data, [{'desc': 'AMZN MKTP 4411 ZQ7', 'amount': 25.0}]),                                          # supplemental data only
        (b_case, [{'desc': 'ZED MART ZQ7', 'amount': 50.0}]),
        (b_ws, ws_probes),
        (b_tr, tr_probes),
        (b_wscsv, [{'desc': 'PMTS  AMZN ZQ7', 'amount': 25.0}, {'desc': 'PMTS AMZN ZQ7', 'amount': 25.0}]),
        # first_match ignores `priority:` — file order decides, for up and for explain alike
        (bud(['Mystery Low', 'Prio']), [{'desc': 'MYSTERY SHOP ZQ7', 'amount': 150.0}]),
        (bud(['Netflix', 'Netflix Premium', 'Prio', 'Mystery Low']), [{'desc': 'MYSTERY SHOP ZQ7', 'amount': 15.0},
                                                                      {'desc': 'NETFLIX PREMIUM 8841 ZQ7', 'amount': 15.5}]),
        (b_new, [{'desc': 'COSTCO WHSE ZQ7', 'amount': 300.0}]),
        (b_two, [{'desc': 'CITY PARKING ZQ7', 'amount': 10.0}]),
        (bud([], kind='csv', csv=[B.CSV_POOL[9], ['SHOP', 'Shop', 'Shopping', 'Misc', '']]), [{'desc': 'MYSTERY SHOP ZQ7', 'amount': 150.0}]),
    ]


# ------------------------------------------------------------------ main
def recheck(check, spec, probes=None):
    """Re-evaluate one budget; returns failures of the same check type."""
    pr = [check['probe']] if check.get('type') == 'probe' else (probes or [])
    r = eval_budget((9999, spec, pr), only=check.get('type'))
    want = {'discover': 'discover!=up-unknowns', 'merchant': 'explain-merchant!=up', 'probe': 'explain-description!=up'}.get(check.get('type'))
    return [f for f in r['fails'] if want is None or f['law'] == want or f['law'] in ('model-mispredicts', 'harness-error')]


def main(tier):
    run = Run(PROP, tier)
    run.assumptions = [
        'PARTIAL: the three pipelines and the two matching loops are hand models (C16/Model.v); per-rule tests and stages are oracles',
        '`explain "<raw description>"` is compared with `up` on a budget whose only transaction has that description and amount '
        '(same rules, mode, supplemental sources); probes whose up-verdicts depend on date or source name are discarded and counted '
        '(explain cannot be told a date): the property is read as quantifying over rule sets whose verdict is a function of description and amount',
        'a probe for which explain prints no trace ("Did you mean ...", exit 1) is counted, not compared',
        'merchant names never collide with extracted fallback names in the generator, so merchant-level category == transaction-level category']
    res = run.proof_step(COQ_FILES, extra_trusted=['harness/budget_common.py (budget generator, CLI runners)',
                                                   'harness/c16.py + harness/impl_c16.py (oracles, oracle tables from tally leaf functions, correspondence)'])
    broken = []
    if not res['ok']:
        broken.append({'kind': 'broken-obligation', 'detail': first_error(res['log'])})
    if res['hygiene']:
        broken.append({'kind': 'hygiene', 'detail': res['hygiene']})

    B.clean_work(PROP)
    rnd = random.Random(run.seed * 104729 + 16)
    n = 36 if tier == 'quick' else 160
    jobs = [(k, spec, probes) for k, (spec, probes) in enumerate(corpus())]
    for k, spec, _ in jobs:
        if k % 2 == 0 or spec.get('ask_all'):
            spec['lookup_queries'] = True
    n += len(jobs)
    for k in range(len(jobs), n):
        spec = B.gen_budget(rnd, profile=[None, 'supp', 'nosupp', None][k % 4])
        for s in spec['sources']:       # C16 is about classification; keep every file readable
            if s['state'] != 'present' and k % 8 != 7:
                s['state'] = 'present'
        if k % 9 == 0 or tier == 'thorough':
            spec['lookup_queries'] = True
        jobs.append((k, spec, gen_probes(spec, rnd, 3 if tier == 'quick' else 5)))
    results = B.pmap(eval_budget, jobs)
    n_cli = sum(r['n_cli'] for r in results)

    groups = {}
    for r in results:
        for f in r['fails']:
            if f['law'] == 'model-mispredicts':
                # explain and up agree on this case, but not the way the faithful model says: the model no longer
                # describes the code (broken tie), which is not by itself a failing input of the property
                if not any(b.get('obligation') == 'model_vs_impl(python mirror of C16/Model.v)' for b in broken):
                    broken.append({'kind': 'broken-correspondence', 'obligation': 'model_vs_impl(python mirror of C16/Model.v)',
                                   'detail': {'budget': jobs[r['k']][1], 'what': f['detail']}})
                continue
            groups.setdefault((f.get('sig'), f['law']), []).append((jobs[r['k']], f))
    for (sig, law), items in groups.items():
        (k, spec, probes), f = min(items, key=lambda x: len(json.dumps(x[0][1])))
        small = spec
        chk = f.get('check', {'type': 'none'})
        listed = any(x.get('signature') == sig and x.get('status') == 'finding' for x in run.findings)
        if law in ('discover!=up-unknowns', 'explain-description!=up') and not listed:
            def still(c, chk=chk, law=law, sig=sig):
                return any(x['law'] == law and x.get('sig') == sig for x in recheck(chk, c, probes))
            small = B.shrink_budget(spec, still, max_steps=14 if tier == 'quick' else 60)
        run.violation(law.replace('!=', '-ne-'), {'kind': 'counterexample', 'budget': small, 'check': chk, 'law': law, 'probes': probes,
                                                  'observed': f['detail'], 'expected': 'C16: explain / discover agree with up',
                                                  'obligation': 'c16_* on the implementation', 'broken': broken,
                                                  'n_failing': len(items), 'shrunk_from': len(json.dumps(spec))}, signature=sig)

    # ---- model vs implementation inside Coq
    prow, drow, lrow = [], [], []
    unmapped = 0
    if res['ok']:
        for r in results:
            if 'tables' not in r:
                continue
            spec = jobs[r['k']][1]
            if r.get('discover') is not None and r.get('up_unknown') is not None:
                c = coq_pipeline_case(spec, r['tables'], r['discover'], r['up_unknown'])
                if c is None:
                    unmapped += 1
                else:
                    prow.append((c, r['k']))
            for o in r['probe_obs']:
                drow.append((coq_probe_case(spec, r['tables'], o), r['k'], o['probe']))
            if r.get('lookup'):
                c = coq_lookup_case(r['lookup'])
                if c is None:
                    unmapped += 1
                    broken.append({'kind': 'broken-correspondence', 'obligation': 'model_vs_impl(explain lookup cascade)',
                                   'detail': {'budget': spec, 'unrecognised answer': [o for o in r['lookup']['obs'] if o[1][0] == '?'][:2]}})
                else:
                    lrow.append((c, r['k'], None))
        for rows, okname, nm, what in ((prow, 'okp', 'C16_pipe', 'discover/up pipelines'), (drow, 'okd', 'C16_desc', 'explain_description/up_classify'),
                                       (lrow, 'okl', 'C16_lookup', 'explain lookup cascade')):
            bad, err = model_check([x[0] for x in rows], okname, nm)
            if bad is None:
                broken.append({'kind': 'broken-correspondence', 'obligation': f'model_vs_impl({what})', 'detail': 'cases.v did not evaluate: ' + err})
            elif bad:
                x = rows[bad[0]]
                broken.append({'kind': 'broken-correspondence', 'obligation': f'model_vs_impl({what})',
                               'detail': {'budget': jobs[x[1]][1], 'probe': x[2] if len(x) > 2 else None, 'n': len(bad), 'case': x[0][:1500]}})
    if broken and not [1 for (sig, law) in groups if sig is None]:
        run.violation('broken', {'kind': broken[0]['kind'], 'obligation': broken[0].get('obligation') or
                                 (broken[0]['detail'].get('obligation') if isinstance(broken[0]['detail'], dict) else None),
                                 'broken': broken, 'searched': f'{n} generated budgets ({n_cli} CLI runs) against the C16 oracles'},
                      found_input=False)

    stats = collections.Counter()
    for r in results:
        stats.update(r['stats'])
    nontrivial = set()
    for r in results:
        for o in r['probe_obs']:
            v = r['tables']['probes'][2 * o['pi']]['verdicts']
            upk = 'eng' if jobs[r['k']][1]['rules']['kind'] == 'rules' else 'leg'
            if sum(1 for x in v if x[upk] is True) >= 2:
                nontrivial.add(json.dumps([jobs[r['k']][1]['rules'], o['probe']], sort_keys=True))
        if r.get('up_unknown') and r.get('discover') is not None and len(jobs[r['k']][1]['sources']) >= 2:
            nontrivial.add(json.dumps(jobs[r['k']][1], sort_keys=True))
    run.cov.update({
        'evaluations': n_cli + len(prow) + len(drow) + len(lrow), 'distinct_nontrivial': len(nontrivial),
        'rule': 'C11 budget generator (profiles: mixed / with a supplemental source queried by a rule / without); per budget: discover vs '
                'up Unknowns, explain <merchant> for <= 2 merchants, explain "<description>" --amount for 3 fresh descriptions vs up on the '
                'one-transaction budget; non-trivial = distinct (rules, probe) with >= 2 matching rules, plus distinct multi-source budgets with '
                'a non-empty Unknown set',
        'budgets': n, 'cli_runs_fresh_process': n_cli, 'coq_pipeline_cases': len(prow), 'coq_description_cases': len(drow), 'coq_lookup_cases': len(lrow), 'coq_lookup_queries': sum(len(r['lookup']['obs']) for r in results if r.get('lookup')),
        'unmapped_cases': unmapped, 'counts': dict(stats),
        'oracle_failures_by_law': {f'{law} [{sig or "VIOLATION"}]': len(v) for (sig, law), v in groups.items()},
        'samples': [{'budget': jobs[0][1], 'probes': jobs[0][2]}]})
    run.finish()


def replay(path):
    obj = json.load(open(path))
    if obj.get('kind') != 'counterexample':
        main('quick')
        return 0
    B.clean_work(PROP + '_replay')
    fails = recheck(obj['check'], obj['budget'], obj.get('probes'))
    hit = [f for f in fails if f['law'] == obj.get('law')] or fails
    known = {x.get('signature') for x in load_known_findings(PROP) if x.get('status') == 'finding'}
    print(json.dumps({'failing': [{'law': f['law'], 'signature': f.get('sig'), 'known_finding': f.get('sig') in known,
                                   'detail': f['detail']} for f in hit]}, indent=1))
    hit = [f for f in hit if f.get('sig') not in known]     # a listed finding is reported, it does not fail the replay
    if hit:
        print(f'VIOLATION property=C16 replay={path}')
        return 1
    return 0
