"""C12 — HTML, JSON, Markdown and text outputs all render and carry the same data.
Proof: C12/Props.v over C12/Model.v and Gen/C12MerchantId.v + Gen/C12Embed.v (regenerated from
report.py / analyzer.py by tools/c12_report2coq.py).  Tie: model vs implementation inside Coq
(json.dumps/json.loads on strings, make_merchant_id / section_id observed through the report,
embed / script scan / extraction on small templates, category view and sections, export_json's
figures).  Search: the property itself evaluated on implementation outputs only (all four formats,
all verbosity levels, the HTML parsed back with html.parser and with the browser rule + json.loads)."""
import json
import os
import random
import re
import shutil
import threading
import time
from decimal import Decimal, ROUND_HALF_EVEN

from common import *
import c12_html
import c12_report2coq

COQ_FILES = ['Lib/Str.v', 'Lib/NumOps.v', 'Gen/ClassificationPy.v', 'C06/Model.v', 'C06/Proofs.v',
             'C12/TextLib.v', 'Gen/C12MerchantId.v', 'Gen/C12Embed.v', 'C12/Model.v', 'C12/Proofs.v', 'C12/Classify.v', 'C12/Props.v']
IMPL = os.path.join(os.path.dirname(os.path.abspath(__file__)), 'impl_c12.py')
WORKDIR = os.path.join(WORK, 'C12_render')
PH = ['/* CSS_PLACEHOLDER */', '/* DATA_PLACEHOLDER */', '/* JS_PLACEHOLDER */']
JS_PH = PH[2]
HP_CLOSE_RE = re.compile(r'</\s*script\s*>', re.I | re.A)


def regen_gen():
    fails = []
    try:
        import c13
        fails += [f for f in c13.translate_classification(None) if f['translator'] == 'py2coq']   # Gen/ClassificationPy.v
    except Exception as e:  # noqa
        fails.append({'translator': 'py2coq', 'error': repr(e)})
    if fails:
        return fails
    try:
        for rel, txt in c12_report2coq.translate(SRC).items():
            regen(rel, txt)
    except (c12_report2coq.Untranslatable, SyntaxError, OSError) as e:
        return [{'translator': 'c12_report2coq', 'error': str(e)}]
    return []


# =========================================================================================
# generators
# =========================================================================================
TPL_STD = ('<!DOCTYPE html><html><head><style>/* CSS_PLACEHOLDER */</style></head><body><div id="app"></div>'
           '<!-- deps --><script src="v.js"></script>\n<script>/* DATA_PLACEHOLDER */</script>\n'
           '<script>/* JS_PLACEHOLDER */</script></body></html>')
TEMPLATES = [
    {'html': TPL_STD, 'css': 'b{c:d}', 'js': 'app();'},
    {'html': TPL_STD.replace('<script>/* DATA', '<SCRIPT >/* DATA').replace('*/</script>\n<script>/* JS', '*/</SCRIPT >\n<script>/* JS'),
     'css': '.x > .y{color:red}', 'js': 'if (a < b) { run("</" + "script>"); }'},
    {'html': '<html><style>/* CSS_PLACEHOLDER */</style><script type="text/javascript">/* DATA_PLACEHOLDER */</script>'
             '<p title="a>b">t</p><script>/* JS_PLACEHOLDER */</script></html>', 'css': '', 'js': 'var s = "é";'},
    {'html': '<style>/* CSS_PLACEHOLDER */</style><scripty>no</scripty><script>/* DATA_PLACEHOLDER */</script ><script defer>/* JS_PLACEHOLDER */</script>',
     'css': 'a{}', 'js': 'x=1;'},
]
NAMES = ['Acme', 'A B', 'A_B', "A'B", 'AB', 'A"B', 'A B ', 'A  B', 'A__B', 'Café Zoë', '日本 店', 'O\'Neil "Q"', 'ONeil Q',
         'ONeil_Q', 'x</script>y', 'x</SCRIPT >y', JS_PH, 'a\\b', 'Tab\tX', 'emoji \U0001f600', 'Net flix', 'Net_flix', '"', "'", ' ',
         '<b>', 'a&b', PH[0], PH[1], '</script x>', '</ script>']
DESCS = ['AMZN MKTP US*1234', 'plain', 'desc </script> tail', '</SCRIPT >', '</script\n>', '</script/>', '</script x="1">', '</ script>',
         '<script>alert(1)</script>', 'say "hi"', 'back\\slash', 'trail\\', '\\"', "it's", 'line\nbreak\ttab', '  ', PH[0], PH[1],
         JS_PH, 'x ' + JS_PH + ' y', '<script>' + JS_PH + '</script>', 'café €5', '\U0001f600\U0001f4b0', '\x00\x1f\x7f',
         'window.spendingData = 1;', ';', ']]>', '&amp;&lt;/script&gt;', '</scrip', '</scriptx>', '<', '</', '{"a": 1}', '﻿�',
         '</style>', '/* x */', 'K</ſcript>',
         # sequences special to HTML inside <script>, and to JavaScript-but-not-JSON escaping
         '<!--', 'POS <!-- pending --> COFFEE', '<!--<script>', '<!-- </script> -->', '-->', '--!>', '<!', '<?php ?>', '<![CDATA[ x ]]>',
         '<\\!--', '<\\/script>', '\\!', '\\x3c', "\\'", '\u2028\u2029', '&lt;!--', '<!- -', '<!--' * 3]
TAGSETS = [[], [], [], ['food'], ['income'], ['Income'], ['transfer'], ['TRANSFER'], ['investment'], ['income', 'transfer'],
           ['a"b'], ['</script>'], ['tag with space', 'é'], [JS_PH], ['food', 'recurring']]
CATS = [('Food', 'Grocery'), ('Food', 'Restaurant'), ('Bills', 'Power'), ('', ''), ('Unknown', 'Unknown'), ('Unknown', 'x'),
        ('Fun "x"', "o'k"), ('</script>', JS_PH), ('Food', ''), ('Café', '日本')]
SOURCES = ['Amex', 'Chase "x"', 'B\\A', '</script>']
EXTRAS = [None, None, None, {'note': 'x</script>'}, {'memo': 'é"q"'}, {'k</script>': JS_PH}, {'a': '1', 'b': '2'},
          # blank / falsy values are data too (extract() without a match gives '', an empty lookup [])
          {'po': ''}, {'invoice': '11', 'po': ''}, {'invoice': '', 'po': ''}, {'n': None}, {'l': []}, {'z': 0, 'f': False},
          {'l': ['']}, {'': 'x'}, {'sp': ' '}]
CURRENCIES = ['${amount}', '${amount}', '{amount} zl', '€{amount}']
VIEWSETS = [
    None, None,
    '[Total]\nfilter: True\n',
    '[Total]\nfilter: True\n\n[Food]\ndescription: eats </script>\nfilter: category == "Food"\n',
    '[My View]\nfilter: True\n\n[my view]\nfilter: total > 0\n\n[my_view]\nfilter: category == "Food"\n',
    '[Big]\nfilter: total > 5\n\n[None]\nfilter: False\n',
    '[A B]\nfilter: True\n\n[A_B]\nfilter: True\n',
    '[x]\nfilter: months >= 1\n',
]


def gen_txn(rnd, names, adversarial):
    m = rnd.choice(names)
    cat, sub = rnd.choice(CATS if adversarial else CATS[:3])
    a = rnd.choice([640, 320, -192, 0, 16, -16, 64000, -6400, 1, -1, rnd.randint(-400, 800) * 16, rnd.randint(-5000, 9000)])
    t = {'m': m, 'd': rnd.choice(DESCS) if adversarial and rnd.random() < .7 else rnd.choice(DESCS[:2]),
         'a': a, 'tags': list(rnd.choice(TAGSETS if adversarial else TAGSETS[:9])), 'c': cat, 's': sub,
         'date': f'{rnd.choice([2024, 2025])}-{rnd.randint(1, 12):02d}-{rnd.randint(1, 28):02d}',
         'src': rnd.choice(SOURCES if adversarial else SOURCES[:1]), 'extra': rnd.choice(EXTRAS) if adversarial else None,
         'raw': None, 'loc': None}
    if rnd.random() < .15:
        t['raw'] = rnd.choice(DESCS)
    if rnd.random() < .1:
        t['loc'] = 'WA'
    return t


def derived_placeholders():
    """Placeholder texts of the tree under test (fallback: the three known ones)."""
    try:
        got = c12_report2coq.replaced_texts(SRC)
    except Exception:  # noqa
        got = []
    return got + [p for p in PH if p not in got]


def merchant_consistent(txns):
    """analyze_transactions keeps the last category per merchant; the data handed to the report is what
    it is.  Tags: one rule per merchant in practice — keep tags uniform per merchant in half of the cases."""
    seen = {}
    for t in txns:
        if t['m'] in seen:
            t['c'], t['s'], t['tags'] = seen[t['m']]
        else:
            seen[t['m']] = (t['c'], t['s'], list(t['tags']))
    return txns


def gen_cases(seed, n):
    rnd = random.Random(seed)
    cases = []

    def case(txns, views=None, tpl=0, cur='${amount}', sources=None):
        # object sharing as tally's parsers produce it: every transaction's tag list is its match_info['tags'] list;
        # 'shared': equal-tag transactions of a merchant share one match_info; 'none': hand-built stats (no match_info)
        alias = ('per-txn', 'shared', 'per-txn', 'none')[len(cases) % 4]
        if alias == 'none':
            txns = [dict(t, mi=False) for t in txns]
        return {'txns': txns, 'views': views, 'tpl': (None if tpl is None else TEMPLATES[tpl]), 'tpl_id': tpl,
                'currency': cur, 'sources': sources if sources is not None else ['Amex'], 'alias': alias}

    def T(m, d, a, tags=(), c='Food', s='Grocery', date='2025-01-05', **kw):
        t = {'m': m, 'd': d, 'a': a, 'tags': list(tags), 'c': c, 's': s, 'date': date, 'src': 'Amex', 'extra': None, 'raw': None,
             'loc': None}
        t.update(kw)
        return t
    # ---- boundary stream: one adversarial string at a time, in each position ------------------
    for d in DESCS:
        cases.append(case([T('Acme', d, 640)]))
        cases.append(case([T('Acme', 'plain', -640, tags=[d])], views=VIEWSETS[2]))
    for nm in NAMES:
        cases.append(case([T(nm, 'plain', 640), T('Other', 'p', -192, c='Bills', s='Power')]))
    for i, a in enumerate(NAMES):
        for b in NAMES[i + 1:]:
            if spec_norm(a) == spec_norm(b):
                cases.append(case([T(a, 'one', 640), T(b, 'two', 320, date='2025-02-07')], views=VIEWSETS[2]))
    for cat, sub in CATS:
        cases.append(case([T('Acme', 'plain', 640, c=cat, s=sub), T('Bolt', 'p', 320, c=cat, s='Other')]))
    for ex in EXTRAS[3:]:
        cases.append(case([T('Acme', 'plain', 640, extra=ex)]))
        cases.append(case([T('Acme', 'plain', 640, extra=ex), T('Bolt', 'p', 320, c='Bills', s='Power', extra={'note': 'kept'})], views=VIEWSETS[3]))
    # every text the report replaces in the template (derived from report.py and the template on this tree) as data
    for ph in derived_placeholders():
        for d in (ph, 'x ' + ph + ' y', '</title><script>' + ph + '</script>', ph + ph):
            cases.append(case([T('Acme', d, 640)]))
        cases.append(case([T(ph, 'plain', 640, tags=[ph], c=ph, s=ph, extra={'k': ph}, src=ph), T('Ref', 'r', -192)],
                          views='[Total]\ndescription: ' + ph + '\nfilter: True\n', sources=[ph]))
        cases.append(case([T('Acme', 'a ' + ph, 640)], tpl=None))
    for d in ('{amount}', '${amount}', '{year}', '{0}', '%s %d', '{{x}}', '$&', '\\1', '\\g<0>'):
        cases.append(case([T('Acme', d, 640, tags=[d])], cur=CURRENCIES[2]))
    for src in SOURCES:
        cases.append(case([T('Acme', 'plain', 640, src=src)], sources=[src]))
    # signs / totals: negative and zero totals, all-non-positive (markdown renders), specials
    cases.append(case([T('Refund', 'r', -640)]))
    cases.append(case([T('Refund', 'r', -640), T('Zero', 'z', 0, c='Bills', s='Power')], views=VIEWSETS[2]))
    cases.append(case([T('Mix', 'buy', 640), T('Mix', 'refund', -192)]))
    cases.append(case([T('Pay', 'salary', -64000, tags=['income'], c='Income', s='Salary'), T('Acme', 'p', 640)]))
    cases.append(case([T('Pay', 'salary', 64000, tags=['income'], c='Income', s='Salary'), T('Ref', 'r', -640)]))
    cases.append(case([T('Xfer', 'out', -6400, tags=['transfer'], c='Transfers', s='X'), T('Xfer2', 'in', 3200, tags=['Transfer'], c='Transfers', s='X'),
                       T('Ref', 'r', -640)]))
    cases.append(case([T('401k', 'inv', 6400, tags=['investment'], c='Invest', s='X'), T('Ref', 'r', -16)], views=VIEWSETS[3]))
    # merchants whose transactions do not all carry the same special tag (tag-only rules hit some rows only)
    for tg in (['income'], ['Income'], ['TRANSFER'], ['investment'], ['Investment', 'x'], ['transfer', 'income']):
        cases.append(case([T('PayPal', 'buy', 2560, c='Shopping', s='Online'), T('PayPal', 'buy2', 3840, c='Shopping', s='Online'),
                           T('PayPal', 'payout', -32000, tags=tg, c='Shopping', s='Online'), T('Grocer', 'g', 1632)]))
        cases.append(case([T('PayPal', 'in', 6400, tags=tg, c='Shopping', s='Online'), T('PayPal', 'refund', -640, c='Shopping', s='Online'),
                           T('Ref', 'r', -192, c='Bills', s='Power')], views=VIEWSETS[3]))
    # every subset of the special tags (mixed case, either order) on single transactions, both signs and zero:
    # the category view restates the precedence income > investment > transfer on its own
    import itertools
    spell = {'income': ['income', 'INCOME'], 'transfer': ['transfer', 'Transfer'], 'investment': ['investment', 'InVestment']}
    k = 0
    for r in range(0, 4):
        for sub in itertools.permutations(['income', 'transfer', 'investment'], r):
            for a in (32000, -32000, 0):
                k += 1
                tg = [spell[w][k % 2] for w in sub] + (['misc'] if k % 3 == 0 else [])
                cases.append(case([T('Broker', 'ACH TRANSFER VANGUARD', a, tags=tg, c='Money', s='Moves'), T('Grocer', 'g', 1632)],
                                  views=VIEWSETS[2] if k % 4 == 0 else None))
    # ... and mixed within one merchant / one category
    cases.append(case([T('Broker', 'buy', -32000, tags=['transfer', 'investment'], c='Money', s='Moves'),
                       T('Broker', 'fee', 640, tags=['investment'], c='Money', s='Moves'),
                       T('Broker', 'in', 6400, tags=['Investment', 'Transfer'], c='Money', s='Moves'),
                       T('Bank', 'pay', -64000, tags=['transfer', 'income'], c='Money', s='Moves'),
                       T('Bank', 'x', 1280, tags=['investment', 'income', 'transfer'], c='Money', s='Other'), T('Grocer', 'g', 1632)]))
    # list aliasing between parser and report: first transaction untagged, a later one tagged (and the reverse as control)
    for tg in (['income'], ['transfer'], ['investment'], ['recurring']):
        for al in ('per-txn', 'shared'):
            cases.append(dict(case([T('Acme', 'ACME STORE', 3200, c='Shopping', s='Supplies'), T('Acme', 'ACME PAYROLL', -64000, tags=tg, c='Shopping', s='Supplies')],
                                   views=VIEWSETS[2]), alias=al))
            cases.append(dict(case([T('Acme', 'ACME PAYROLL', -64000, tags=tg, c='Shopping', s='Supplies'), T('Acme', 'ACME STORE', 3200, c='Shopping', s='Supplies'),
                                    T('Acme', 'ACME STORE 2', 1600, tags=['x'], c='Shopping', s='Supplies')]), alias=al))
    # refunds netted inside a merchant, transfer-tagged net outflow next to real refunds
    cases.append(case([T('Outfitter', 'buy', 1280), T('Outfitter', 'return', -3200), T('Airline', 'refund', -6400, c='Travel', s='Air'),
                       T('Grocer', 'g', 5120)]))
    cases.append(case([T('Outfitter', 'buy', 3200), T('Outfitter', 'return', -1280), T('Airline', 'refund', -6400, c='Travel', s='Air')]))
    cases.append(case([T('Bank', 'to savings', -64000, tags=['transfer'], c='Transfers', s='X'), T('Bank', 'back', 6400, tags=['transfer'], c='Transfers', s='X'),
                       T('Airline', 'refund', -6400, c='Travel', s='Air'), T('Grocer', 'g', 5120)]))
    cases.append(case([T('Bank', 'to savings', -64000, tags=['Transfer'], c='Transfers', s='X'), T('Grocer', 'g', 5120)], views=VIEWSETS[2]))
    for vs in VIEWSETS:
        cases.append(case([T('Acme', 'plain', 640), T('Bolt', 'p2', 320, c='Bills', s='Power'), T('Ref', 'r', -192)], views=vs))
        cases.append(case([T('Ref', 'r', -192), T('Ref2', 'r', -16, c='Bills', s='Power')], views=vs, cur=CURRENCIES[2]))
    for ti in range(len(TEMPLATES)):
        cases.append(case([T('Acme', 'plain', 640), T('Ref', 'x /* CSS_PLACEHOLDER */ /* DATA_PLACEHOLDER */', -192)], tpl=ti))
        cases.append(case([T('Acme', JS_PH, 640)], tpl=ti))
        cases.append(case([T('Acme', '</script>', 640)], tpl=ti))
    for d in ['plain', '</script>', JS_PH, PH[0] + PH[1], 'café "q" \\']:
        cases.append(case([T('Acme', d, 640), T('Ref', 'r', -192)], tpl=None, views=VIEWSETS[3]))
    # ---- id stream: random names / view names over the characters the id functions touch ------
    for i in range(45):
        nms = {''.join(rnd.choice(['A', 'b', ' ', '_', "'", '"', 'é', '-', '.', '/', '  ', '9']) for _ in range(rnd.randint(1, 7))) for _ in range(5)}
        vnames = {''.join(rnd.choice(['A', 'b', 'Z', ' ', '_', '-', '9', '/']) for _ in range(rnd.randint(1, 6))).strip() or 'v' for _ in range(3)}
        views = ''.join(f'[{vn}]\nfilter: True\n\n' for vn in sorted(vnames)) if i % 2 else None
        cases.append(case([T(nm, 'p', 64 * (k + 1)) for k, nm in enumerate(sorted(nms))], views=views))
    # ---- random stream ---------------------------------------------------------------------
    for i in range(n):
        adversarial = rnd.random() < .75
        k = rnd.choice([1, 1, 2, 2, 3, 4, 6, 9])
        fam = rnd.random()
        if fam < .25:
            names = rnd.sample(NAMES[:9], 3)          # collision family
        elif fam < .5:
            names = ['Acme', 'Bolt', 'Ref', 'Zed']
        else:
            names = rnd.sample(NAMES, 4)
        txns = [gen_txn(rnd, names, adversarial) for _ in range(k)]
        if rnd.random() < .6:
            merchant_consistent(txns)
        if rnd.random() < .25:
            for t in txns:                              # all non-positive: export_markdown gets past its table
                t['a'] = -abs(t['a'])
                t['tags'] = [x for x in t['tags'] if x.lower() not in ('income', 'investment')]
        tpl = None if i % 14 == 0 else rnd.randrange(len(TEMPLATES))
        cases.append(case(txns, views=rnd.choice(VIEWSETS), tpl=tpl, cur=rnd.choice(CURRENCIES),
                          sources=rnd.choice([['Amex'], [], ['A', 'B </script>']])))
    # ---- size boundaries (placed last: the Coq samples above are filled from the small cases) ------------
    # one merchant owning N transactions, N just above round numbers (a cap at 25/100/256/1000/... drops rows);
    # the exact round numbers are the controls
    def many(name, n, c='Transit', s='Fares'):
        return [T(name, f'FARE {i:05d}', 176 + 16 * (i % 7), c=c, s=s, date=f'2025-{1 + i % 12:02d}-{1 + i % 28:02d}') for i in range(n)]
    for nsz in (25, 26, 51, 100, 101, 129, 201, 256, 257, 501, 513, 1000, 1001, 1025, 2001, 2049, 4097, 5001):
        cases.append(dict(case(many('Transit', nsz) + [T('Books', 'b', 1280, c='Fun', s='Books')],
                               views=VIEWSETS[2] if nsz % 2 else None), size_case=True))
    # many merchants in one category / one view, many categories, many views, many tags, a long description
    cases.append(case([T(f'M{i:04d}', 'p', 64 + i, c='Food', s='Grocery') for i in range(1001)], views=VIEWSETS[2]))
    cases.append(case([T(f'M{i:04d}', 'p', 64 + i, c=f'Cat{i:03d}', s=f'Sub{i:03d}') for i in range(257)]))
    cases.append(case([T('Acme', 'p', 640), T('Bolt', 'q', 320, c='Bills', s='Power')],
                      views=''.join(f'[V{i:03d}]\nfilter: True\n\n' for i in range(129))))
    cases.append(case([T('Acme', 'p', 640, tags=[f't{i:03d}' for i in range(257)], extra={f'k{i:03d}': str(i) for i in range(129)})]))
    cases.append(case([T('Acme', 'x' * 70000 + '</script>' + 'y' * 70000, 640), T('N' * 5000, 'p', 320)]))
    return cases


# =========================================================================================
# the property, restated over implementation outputs only (direct oracle)
# =========================================================================================
def spec_norm(name):
    """names 'differing only in quotes, spaces or underscores' fall in one class"""
    return name.replace("'", '').replace('"', '').replace(' ', '_')


def spec_section_norm(name):
    return name.lower().replace(' ', '_')


def q(x, places):
    return Decimal(x).quantize(Decimal(1).scaleb(-places), rounding=ROUND_HALF_EVEN)


NUM_RE = re.compile(r'[^0-9.+\-]')
ANSI_RE = re.compile(r'\x1b\[[0-9;]*m')


def num(s):
    s = NUM_RE.sub('', s).replace('+', '')
    try:
        return Decimal(s)
    except Exception:  # noqa
        return None


def grab(text, pats):
    """label -> printed amount string (first line matching)"""
    out = {}
    for k, pat in pats.items():
        m = re.search(pat, text, re.M)
        out[k] = m.group(1) if m else None
    return out


# (figure, regex for the printed amount, printed negated?) — EVERY place a format prints one of the figures
MD_PATS = [('income', r'^\| Income \| ([^|]*) \|$', False), ('spending', r'^\| Spending \| ([^|]*) \|$', True),
           ('credits', r'^\| Credits/Refunds \| ([^|]*) \|$', False), ('credits', r'^\| \*\*Total\*\* \| \| \*\*([^|]*)\*\* \|$', False),
           ('cash_flow', r'^\| \*\*Net Cash Flow\*\* \| ([^|]*) \|$', False), ('transfers_in', r'^\| In \| ([^|]*) \|$', False),
           ('transfers_out', r'^\| Out \| ([^|]*) \|$', False), ('transfers_net', r'^\| \*\*Net Transfers\*\* \| ([^|]*) \|$', False)]
TXT_PATS = [('income', r'^Income:(.*)$', False), ('spending', r'^Spending:(.*)$', True), ('credits', r'^Credits/Refunds:(.*)$', False),
            ('credits', r'^TOTAL CREDITS\s(.*)$', False), ('spending', r'^TOTAL\s.*?/mo (.*)$', False),
            ('cash_flow', r'^Net Cash Flow:(.*)$', False), ('transfers_in', r'^In:(.*)$', False), ('transfers_out', r'^Out:(.*)$', False),
            ('transfers_net', r'^Net Transfers:(.*)$', False)]
SEC_PATS = [('income', r'^\s*Income:(.*)$', False), ('spending', r'^\s*Spending:(.*)$', True), ('spending', r'^TOTAL SPENDING:\s*(.*?)/yr', False),
            ('credits', r'^\s*Credits:(.*)$', False), ('cash_flow', r'^\s*Cash Flow:(.*)$', False)]
# occurrences that must be present in every rendering (the others are conditional tables)
REQUIRED = {'markdown': {'income', 'spending', 'credits', 'cash_flow', 'transfers_in', 'transfers_out', 'transfers_net'},
            'text': {'income', 'spending', 'credits', 'cash_flow', 'transfers_in', 'transfers_out', 'transfers_net'},
            'sections': {'income', 'spending', 'cash_flow'}}
STAT_KEY = {'income': 'income_total', 'spending': 'spending_total', 'credits': 'credits_total', 'cash_flow': 'cash_flow',
            'transfers_in': 'transfers_in', 'transfers_out': 'transfers_out', 'transfers_net': 'transfers_net'}


def printed_figures(fmt, text, pats, st, places):
    """Every printed occurrence of every figure must equal the analysed value (at the format's precision)."""
    bad, seen = [], set()
    for k, pat, negated in pats:
        for m in re.finditer(pat, text, re.M):
            seen.add(k)
            v = num(m.group(1))
            want = q(st[STAT_KEY[k]], places)
            if negated:
                want = -want
            if v is None or v != want:
                bad.append((k, m.group(0).strip()[:70], str(want)))
    for k in sorted(REQUIRED[fmt] - seen):
        bad.append((k, 'missing'))
    return bad


def json_known_recomputation(st):
    """what export_json is known to print instead (recomputed per merchant) — only used to name the finding"""
    bm = st['by_merchant']
    inc = sum(m['total'] for m in bm if 'income' in [t.lower() for t in m['tags']])
    return {'gross_spending': round(sum(m['total'] for m in bm if m['total'] > 0), 2),
            'credits_total': round(abs(sum(m['total'] for m in bm if m['total'] < 0)), 2),
            'income_total': round(inc, 2),
            'transfers_total': round(abs(sum(m['total'] for m in bm if 'transfer' in [t.lower() for t in m['tags']])), 2),
            'net_cash_flow': round(inc - st['total'], 2) if inc > 0 else None}


def spec_type(amount, tags):
    """bucket of one analysed (effective) amount in the category breakdown; None = credit"""
    low = {t.lower() for t in tags}
    for w in ('income', 'investment', 'transfer'):
        if w in low:
            return w
    return 'spending' if amount >= 0 else None


def txn_obs(t):
    return (t.get('description'), t.get('amount'), t.get('month'), t.get('tags'), t.get('source'), t.get('extra_fields') or None)


def view_merchants(cv):
    out = []
    for cat in cv.values():
        for sub in cat['subcategories'].values():
            out.extend(sub['merchants'].values())
    return out


def compare_data(data, st, J):
    """decoded spendingData vs the analysed data -> list of (signature, detail)"""
    v = []
    names = [m['name'] for m in st['by_merchant']]
    classes = {}
    for n in names:
        classes.setdefault(spec_norm(n), []).append(n)
    colliding = {n for c in classes.values() if len(c) > 1 for n in c}
    placeholder = JS_PH in J
    try:
        for k, sk in (('incomeTotal', 'income_total'), ('spendingTotal', 'spending_total'), ('creditsTotal', 'credits_total'),
                      ('cashFlow', 'cash_flow'), ('transfersIn', 'transfers_in'), ('transfersOut', 'transfers_out'),
                      ('transfersNet', 'transfers_net')):
            if data[k] != st[sk]:
                v.append(('C12/html-figures', {k: data[k], 'analysed': st[sk]}))
                break

        def check_listing(listed, expected, where, sig_missing):
            by_name = {}
            for m in listed:
                by_name.setdefault(m['displayName'], []).append(m)
            missing = [m['name'] for m in expected if m['name'] not in by_name]
            dup = [n for n, l in by_name.items() if len(l) > 1]
            extra = [n for n in by_name if n not in {m['name'] for m in expected}]
            if missing or dup or extra:
                if missing and not dup and not extra and all(n in colliding for n in missing):
                    v.append(('C12/merchant-id-collision', {'where': where, 'missing': missing}))
                elif placeholder:
                    v.append(('C12/placeholder-in-data', {'where': where, 'missing': missing, 'extra': extra}))
                else:
                    v.append((sig_missing, {'where': where, 'missing': missing, 'duplicated': dup, 'unexpected': extra}))
            for m in expected:
                for j in by_name.get(m['name'], [])[:1]:
                    diffs = []
                    if j['ytd'] != m['total'] or j['count'] != m['count']:
                        diffs.append('totals')
                    if j['category'] != m['category'] or j['subcategory'] != m['subcategory']:
                        diffs.append('category')
                    if sorted(j['tags']) != m['tags']:
                        diffs.append('tags')
                    jt = [txn_obs(t) for t in j['transactions']]
                    mt = [txn_obs(t) for t in m['transactions']]
                    if jt != mt:
                        names6 = ['description', 'amount', 'month', 'tags', 'source', 'extra_fields']
                        diffs.append('transactions' if len(jt) != len(mt) else 'transactions: ' + ','.join(sorted(
                            {names6[i] for a, b in zip(jt, mt) for i in range(6) if a[i] != b[i]})))
                    if diffs:
                        v.append(('C12/placeholder-in-data' if placeholder else 'C12/merchant-data-differs',
                                  {'where': where, 'merchant': m['name'], 'fields': diffs}))
                        return
        cvm = view_merchants(data['categoryView'])
        check_listing(cvm, st['by_merchant'], 'categoryView', 'C12/merchant-missing-or-duplicated')
        # per-category sums
        tot = sum(c['total'] for c in data['categoryView'].values())
        cnt = sum(c['count'] for c in data['categoryView'].values())
        if tot != st['total_transactions'] or cnt != sum(m['count'] for m in st['by_merchant']):
            listed = {m['displayName'] for m in cvm}
            dropped = [m for m in st['by_merchant'] if m['name'] not in listed]
            # a merchant whose *name* holds the JS placeholder is listed under an overwritten name (known finding
            # placeholder-in-data): it still counts in the sums
            renamed = [m for m in dropped if placeholder and JS_PH in m['name']]
            gone = [m for m in dropped if m not in renamed]
            explained = gone and all(m['name'] in colliding for m in gone) and \
                tot + sum(m['total'] for m in gone) == st['total_transactions'] and \
                cnt + sum(m['count'] for m in gone) == sum(m['count'] for m in st['by_merchant'])
            v.append(('C12/merchant-id-collision' if explained else 'C12/category-sums',
                      {'sum_of_category_totals': tot, 'analysed_total': st['total_transactions'],
                       'dropped_merchants': [m['name'] for m in dropped]}))
        # typeTotals: per category = the analysed transactions of the merchants listed there, each classified by
        # its own tags; summed over the categories = the analysed spending / income / investment / transfer totals
        bmap0 = {m['name']: m for m in st['by_merchant']}
        tt_sum = {'spending': 0, 'income': 0, 'investment': 0, 'transfer': 0}
        tt_bad = None
        for cn, c in data['categoryView'].items():
            exp = {'spending': 0, 'income': 0, 'investment': 0, 'transfer': 0}
            for sub in c['subcategories'].values():
                for m in sub['merchants'].values():
                    for t in bmap0.get(m['displayName'], {'transactions': []})['transactions']:
                        b = spec_type(t['amount'], t['tags'])
                        if b:
                            exp[b] += abs(t['amount'])
            got = c.get('typeTotals')
            if got != exp and tt_bad is None:
                tt_bad = {'category': cn, 'typeTotals': got, 'from_analysed_transactions': exp}
            for k in tt_sum:
                tt_sum[k] += (got or {}).get(k, 0)
        all_listed = {m['displayName'] for m in cvm} == set(names) and len(cvm) == len(names)
        want_tt = {'spending': st['spending_total'], 'income': st['income_total'], 'investment': st['investment_total'],
                   'transfer': st['transfers_in'] + st['transfers_out']}
        if tt_bad is None and all_listed and tt_sum != want_tt:
            tt_bad = {'sum_over_categories': tt_sum, 'analysed_totals': want_tt}
        if tt_bad is None and all_listed:
            # the same buckets from the analysed transactions directly (income > investment > transfer), and the top-level figures
            direct = {'spending': 0, 'income': 0, 'investment': 0, 'transfer': 0}
            for m in st['by_merchant']:
                for t in m['transactions']:
                    b = spec_type(t['amount'], t['tags'])
                    if b:
                        direct[b] += abs(t['amount'])
            top = {'spending': data.get('spendingTotal'), 'income': data.get('incomeTotal'), 'investment': data.get('investmentTotal'),
                   'transfer': (data.get('transfersIn') or 0) + (data.get('transfersOut') or 0)}
            if direct != want_tt or top != tt_sum:
                tt_bad = {'sum_over_categories': tt_sum, 'top_level_figures': top, 'analysed_totals': want_tt,
                          'bucket_table_over_analysed_transactions': direct}
        if tt_bad is not None:
            v.append(('C12/placeholder-in-data' if placeholder and any(JS_PH in n and n not in {m['displayName'] for m in cvm} for n in names)
                      else 'C12/type-totals', tt_bad))
        for cn, c in data['categoryView'].items():
            subs = list(c['subcategories'].values())
            if c['total'] != sum(s['total'] for s in subs) or c['count'] != sum(s['count'] for s in subs) or \
                    any(s['total'] != sum(m['ytd'] for m in s['merchants'].values()) or
                        s['count'] != sum(m['count'] for m in s['merchants'].values()) for s in subs):
                v.append(('C12/category-sums-inconsistent', {'category': cn}))
                break
        # views
        if st['sections'] is not None:
            nonempty = [s for s in st['sections'] if s['merchants']]
            ids = {}
            for s in nonempty:
                ids.setdefault(spec_section_norm(s['name']), []).append(s['name'])
            by_title = {}
            for sid, sec in data['sections'].items():
                by_title.setdefault(sec['title'], []).append(sec)
            bmap = {m['name']: m for m in st['by_merchant']}
            for s in nonempty:
                got = by_title.get(s['name'], [])
                if len(got) != 1:
                    if not got and len(ids[spec_section_norm(s['name'])]) > 1:
                        v.append(('C12/section-id-collision', {'view': s['name'], 'same_id_as': ids[spec_section_norm(s['name'])]}))
                    else:
                        v.append(('C12/section-missing-or-duplicated', {'view': s['name'], 'listed': len(got)}))
                    continue
                check_listing(list(got[0]['merchants'].values()), [bmap[n] for n in s['merchants']], 'view ' + s['name'],
                              'C12/section-merchant-missing-or-duplicated')
            if len(data['sections']) > len(nonempty):
                v.append(('C12/section-unexpected', {'listed': list(data['sections'])}))
    except (KeyError, TypeError, AttributeError) as e:
        v.append(('C12/placeholder-in-data' if placeholder else 'C12/html-data-shape', {'error': repr(e)[:120]}))
    return v


def judge(case, r):
    """All violations of the property on this case: list of (signature, detail)."""
    if 'analyze_error' in r:
        return []
    st = r['stats']
    v = []
    # ---- every format renders ------------------------------------------------------------
    renders = [('json', lv, x) for lv, x in r['json'].items()] + [('markdown', lv, x) for lv, x in r['markdown'].items()] + \
              [('text', g, x) for g, x in r['text'].items()]
    if 'sections_text' in r:
        renders.append(('sections', '', r['sections_text']))
    renders.append(('html', 'embedded', r['html']))
    renders.append(('html', 'separate', r['data_js'] if isinstance(r['data_js'], dict) else {}))
    for fmt, lv, x in renders:
        if 'error' in x:
            if fmt == 'markdown' and x['error'] == 'NameError' and 'gross_spending' in x['msg'] and st['by_category_pos'] > 0:
                v.append(('C12/markdown-nameerror', {'level': lv, 'error': x}))
            else:
                v.append((f'C12/render-raises-{fmt}', {'level': lv, 'error': x}))
    # ---- the HTML decodes to what was analysed --------------------------------------------
    J = None
    if isinstance(r['data_js'], str) and r['data_js'].startswith(c12_html.DATA_PREFIX) and r['data_js'].endswith(c12_html.DATA_SUFFIX):
        J = r['data_js'][len(c12_html.DATA_PREFIX):-len(c12_html.DATA_SUFFIX)]
    h = r['html']
    if 'error' not in h:
        for route, close_re in (('hp', HP_CLOSE_RE), ('br', c12_html.CLOSE_RE)):
            j = h['data_' + route]
            data, why = None, 'no complete data script'
            if j is not None:
                try:
                    data, why = json.loads(j), ''
                except ValueError as e:
                    why = 'json: ' + str(e)[:60]
            if data is None:
                probe = J if J is not None else json.dumps(case)
                if close_re.search(probe):
                    v.append(('C12/script-end-tag-in-data', {'route': route, 'why': why}))
                elif JS_PH in probe:
                    v.append(('C12/placeholder-in-data', {'route': route, 'why': why}))
                else:
                    v.append(('C12/html-undecodable', {'route': route, 'why': why}))
            else:
                v.extend(compare_data(data, st, J if J is not None else ''))
        if case.get('tpl') is None and (h.get('css_once') != 1 or h.get('js_once') != 1) and not (J and JS_PH in J):
            v.append(('C12/html-assets', {'css': h.get('css_once'), 'js': h.get('js_once')}))
    if J is not None:
        try:
            v.extend((s + '@separate' if s not in KNOWN_EITHER else s, d) for s, d in compare_data(json.loads(J), st, ''))
        except ValueError:
            v.append(('C12/data-js-undecodable', {}))
    # ---- the figures agree across formats -------------------------------------------------
    mds = [x['text'] for x in r['markdown'].values() if 'text' in x]
    for t in mds:
        bad = printed_figures('markdown', t, MD_PATS, st, 2)
        if bad:
            v.append(('C12/markdown-figures', {'differs': bad}))
            break
    for x in r['text'].values():
        if 'out' in x:
            bad = printed_figures('text', x['out'], TXT_PATS, st, 0)
            if bad:
                v.append(('C12/text-figures', {'differs': bad}))
                break
    if 'sections_text' in r and 'out' in r['sections_text']:
        bad = printed_figures('sections', ANSI_RE.sub('', r['sections_text']['out']), SEC_PATS, st, 0)
        if bad:
            v.append(('C12/sections-figures', {'differs': bad}))
    summaries = []
    for x in r['json'].values():
        if 'text' in x:
            try:
                summaries.append(json.loads(x['text'])['summary'])
            except (ValueError, KeyError) as e:
                v.append(('C12/json-undecodable', {'error': repr(e)[:80]}))
    if summaries:
        if any(s != summaries[0] for s in summaries):
            v.append(('C12/json-verbosity-differs', {}))
        s = summaries[0]
        want = {'income_total': round(st['income_total'], 2), 'gross_spending': round(st['spending_total'], 2),
                'credits_total': round(st['credits_total'], 2), 'net_cash_flow': round(st['cash_flow'], 2),
                'transfers_total': round(abs(st['transfers_net']), 2)}
        diff = [k for k in want if s.get(k) != want[k]]
        if diff:
            known = json_known_recomputation(st)
            if not all(s.get(k) == known[k] for k in diff):
                v.append(('C12/json-figures', {'differs': {k: [s.get(k), want[k], known[k]] for k in diff}}))
            else:
                # two known behaviours: totals recomputed from per-merchant totals; cash flow = income - sum of raw amounts (or null)
                d1 = [k for k in diff if k != 'net_cash_flow']
                if d1:
                    v.append(('C12/json-figures-per-merchant', {'differs': {k: {'json': s.get(k), 'analysed': want[k]} for k in d1}}))
                if 'net_cash_flow' in diff:
                    v.append(('C12/json-net-cash-flow', {'differs': {'net_cash_flow': {'json': s.get('net_cash_flow'), 'analysed': want['net_cash_flow']}}}))
    return v


EMBED_CH = 25
KNOWN_EITHER = {'C12/merchant-id-collision', 'C12/section-id-collision'}


# =========================================================================================
# running, shrinking
# =========================================================================================
def run_cases_impl(cases, facts=False):
    shutil.rmtree(WORKDIR, ignore_errors=True)
    os.makedirs(WORKDIR, exist_ok=True)
    out = {'results': [], 'facts': {}}
    CH = 400
    for off in range(0, len(cases), CH):
        p = {'mode': 'cases', 'cases': cases[off:off + CH], 'work': WORKDIR}
        if facts and off == 0:
            p['template_facts'] = PH
        o = run_impl(IMPL, p, timeout=1200)
        out['results'] += o['results']
        if o.get('facts'):
            out['facts'] = o['facts']
    return out


def size(case):
    return len(case['txns']) * 1000 + len(json.dumps(case['txns'])) + (500 if case['views'] else 0) + (300 if case['tpl'] is None else 0)


def shrink(case, sig, rounds=8):
    """Greedy batch delta-debugging: candidates of one round are evaluated in a single implementation run."""
    cur = case
    for _ in range(rounds):
        cands = []
        txns = cur['txns']
        big = len(txns) > 40
        if big:                                   # delta debugging by chunks
            k = 8
            step = (len(txns) + k - 1) // k
            for off in range(0, len(txns), step):
                cands.append(dict(cur, txns=txns[:off] + txns[off + step:]))
                cands.append(dict(cur, txns=txns[off:off + step]))
        for nm in sorted({t['m'] for t in txns}) if len({t['m'] for t in txns}) > 1 else []:
            cands.append(dict(cur, txns=[t for t in txns if t['m'] != nm]))     # drop a whole merchant
        for i in range(len(txns) if not big else 0):
            if len(txns) > 1:
                cands.append(dict(cur, txns=txns[:i] + txns[i + 1:]))
        if cur['views'] is not None:
            cands.append(dict(cur, views=None))
        if cur['tpl'] is None or cur.get('tpl_id') != 0:
            cands.append(dict(cur, tpl=TEMPLATES[0], tpl_id=0))
        if cur['currency'] != '${amount}':
            cands.append(dict(cur, currency='${amount}'))
        for i, t in enumerate(txns if not big else []):
            for k, simple in (('d', 'x'), ('tags', []), ('extra', None), ('raw', None), ('loc', None), ('c', 'Food'), ('s', 'Grocery'),
                              ('src', 'S'), ('a', 640), ('a', -640), ('date', '2025-01-05')):
                if t[k] != simple:
                    t2 = dict(t)
                    t2[k] = simple
                    cands.append(dict(cur, txns=txns[:i] + [t2] + txns[i + 1:]))
        if not cands:
            break
        res = run_cases_impl(cands)['results']
        nxt = None
        for c, r in zip(cands, res):
            if any(s == sig for s, _ in judge(c, r)):
                if nxt is None or size(c) < size(nxt):
                    nxt = c
        if nxt is None or size(nxt) >= size(cur):
            break
        cur = nxt
    return cur


# =========================================================================================
# model side (inside Coq)
# =========================================================================================
def ctext(s):
    if all(32 <= ord(c) < 127 or c == '\n' for c in s):
        return '(cps "' + s.replace('"', '""') + '")'
    return '[' + '; '.join(str(ord(c)) for c in s) + ']'


def cz(n):
    return f'({n})%Z' if n < 0 else f'{n}%Z'


def clist(xs):
    return '[' + '; '.join(xs) + ']'


def copt(x, f):
    return 'None' if x is None else f'(Some {f(x)})'


HEADER = '''From Coq Require Import String List Bool NArith ZArith.
From Tally Require Import C12.TextLib Gen.C12MerchantId Gen.C12Embed C12.Model.
Import ListNotations.
Open Scope N_scope.
Section Eqs.
  Context {A : Type} (eqb : A -> A -> bool).
  Fixpoint leqb (a b : list A) : bool :=
    match a, b with [], [] => true | x :: r, y :: s => eqb x y && leqb r s | _, _ => false end.
  Definition oeqb (a b : option A) : bool :=
    match a, b with Some x, Some y => eqb x y | None, None => true | _, _ => false end.
End Eqs.
Fixpoint failing {A} (f : A -> bool) (i : nat) (l : list A) : list nat :=
  match l with [] => [] | c :: r => if f c then failing f (S i) r else i :: failing f (S i) r end.
Definition peqb {A B} (ea : A -> A -> bool) (eb : B -> B -> bool) (x y : A * B) : bool := ea (fst x) (fst y) && eb (snd x) (snd y).
(* strings *)
Definition chk_enc (p : text * text) : bool := text_eqb (encode (fst p)) (snd p).
Definition chk_dec (p : text * option text) : bool := oeqb text_eqb (decode (fst p)) (snd p).
(* ids *)
Definition chk_mid (p : text * text) : bool := text_eqb (Id.make_merchant_id (fst p)) (snd p).
Definition chk_sid (p : text * text) : bool := text_eqb (Id.section_id (fst p)) (snd p).
(* embedding: template, css, js, json.dumps text, data script written, document written, its script texts, extracted data *)
Definition chk_embed (c : text * text * text * text * text * text * list text * option text) : bool :=
  let '(tpl, css, js, j, ds, doc, scr, ext) := c in
  text_eqb (data_script j) ds && text_eqb (embed tpl css js j) doc && leqb text_eqb (scan MData [] doc) scr
  && oeqb text_eqb (extract_script doc) ext.
(* category view and sections *)
Definition X (a : Z) (tg : list text) (d mo src : text) (ex : list (text * text)) : txn :=
  {| t_desc := d; t_amount := a; t_month := mo; t_tags := tg; t_source := src; t_extra := ex |}.
(* the rows embedded under a merchant: id, description, amount, month, tags, source, extra fields (value = its JSON text) *)
Definition row_sum (p : text * txn) :=
  (fst p, (t_desc (snd p), (t_amount (snd p), (t_month (snd p), (t_tags (snd p), (t_source (snd p), t_extra (snd p))))))).
Definition row_eqb := peqb text_eqb (peqb text_eqb (peqb Z.eqb (peqb text_eqb (peqb (leqb text_eqb) (peqb text_eqb (leqb (peqb text_eqb text_eqb))))))).
Definition rows_of (l : list (text * jmerchant)) := map (fun p => map row_sum (embedded_txns (snd p))) l.
Definition M (n c s : text) (t k : Z) (xs : list txn) : merchant := {| m_name := n; m_cat := c; m_sub := s; m_total := t; m_count := k; m_txns := xs |}.
Definition tt_eqb := peqb Z.eqb (peqb Z.eqb (peqb Z.eqb Z.eqb)).
Definition sub_sum (s : subcat) := (s_name s, (s_total s, (s_count s, map (fun p => (fst p, j_name (snd p))) (s_merchants s)))).
Definition cat_sum (c : category) := (c_name c, (c_total c, (c_count c, map sub_sum (c_subs c)))).
Definition ids_eqb := leqb (peqb text_eqb text_eqb).
Definition sub_eqb := peqb text_eqb (peqb Z.eqb (peqb Z.eqb ids_eqb)).
Definition cat_eqb := peqb text_eqb (peqb Z.eqb (peqb Z.eqb (leqb sub_eqb))).
Definition sec_sum (p : text * jsection) := (fst p, (sec_title (snd p), map (fun q => (fst q, j_name (snd q))) (sec_merchants (snd p)))).
Definition sec_eqb := peqb text_eqb (peqb text_eqb ids_eqb).
Definition row_t := (text * (text * (Z * (text * (list text * (text * list (text * text)))))))%type.
Definition view_case := (list merchant * list (text * (Z * (Z * list (text * (Z * (Z * list (text * text)))))))
                        * list (text * list merchant) * list (text * (text * list (text * text)))
                        * list (Z * (Z * (Z * Z))) * list (list row_t) * list (list row_t))%type.
Definition chk_view (c : view_case) : bool :=
  let '(ms, cv, views, secs, tts, rows, srows) := c in
  leqb cat_eqb (map cat_sum (category_view ms)) cv && leqb sec_eqb (map sec_sum (sections_view views)) secs
  && leqb tt_eqb (map type_totals (category_view ms)) tts
  && leqb (leqb row_eqb) (rows_of (view_pairs (category_view ms))) rows
  && leqb (leqb row_eqb) (rows_of (flat_map (fun p => sec_merchants (snd p)) (sections_view views))) srows.
(* export_json figures *)
Definition chk_figs (c : astats * list (option Z)) : bool :=
  leqb (oeqb Z.eqb) (map (json_fig (fst c)) [FIncome; FSpending; FCredits; FCashFlow; FTransfersNet]) (snd c).
'''


def coq_eval(name, body, results, key):
    rc, out, errt = run_cases(name, HEADER, body, timeout=600)
    lists = re.findall(r'=\s*\[(.*?)\]\s*:\s*list nat', out, re.S)
    n_expected = body.count('Eval vm_compute in failing')
    if rc != 0 or len(lists) != n_expected:
        results[key] = {'error': (out + errt)[-1500:]}
        return
    results[key] = {'failing': [[int(x) for x in l.replace('%nat', '').replace('\n', ' ').split(';') if x.strip()] for l in lists]}


def ascii_lower(s):
    return ''.join(chr(ord(c) + 32) if 'A' <= c <= 'Z' else c for c in s)


def model_check(cases, results, strings_io, facts, tier):
    """Builds the cases.v files, runs them (<= 4 coqc at a time). Returns (broken list, counts)."""
    jobs = {}
    counts = {}
    # ---- strings --------------------------------------------------------------------------
    enc = [f'({ctext(s)}, {ctext(d)})' for s, d in zip(strings_io['strings'], strings_io['dumps'])]
    dec = [f'({ctext(t)}, {copt(v, ctext)})' for t, v in zip(strings_io['tokens'], strings_io['loads'])]
    jobs['strings'] = ('Definition enc_cases := ' + clist(enc) + '.\nEval vm_compute in failing chk_enc 0 enc_cases.\n'
                       'Definition dec_cases := ' + clist(dec) + '.\nEval vm_compute in failing chk_dec 0 dec_cases.\n')
    counts['json_dumps_strings'] = len(enc)
    counts['json_loads_tokens'] = len(dec)
    # ---- ids, views, figures, embedding from the rendered cases -----------------------------
    mids, sids, views, figs, embeds, embed_pool, embeds_first = {}, {}, [], [], [], [], []
    skipped = {'section_name_non_ascii_case': 0, 'inexact_ticks': 0, 'json_not_2dp_exact': 0, 'embed_disagreement_fragment': 0}
    for ci, (c, r) in enumerate(zip(cases, results)):
        if 'analyze_error' in r or not isinstance(r.get('data_js'), str):
            continue
        st = r['stats']
        J = r['data_js'][len(c12_html.DATA_PREFIX):-len(c12_html.DATA_SUFFIX)]
        try:
            data = json.loads(J)
        except ValueError:
            continue
        for m in view_merchants(data['categoryView']):
            mids.setdefault(m['displayName'], m['id'])
        for sid, sec in data['sections'].items():
            for m in sec['merchants'].values():
                mids.setdefault(m['displayName'], m['id'])
            if sec['title'].lower() == ascii_lower(sec['title']):
                sids.setdefault(sec['title'], sid)
            else:
                skipped['section_name_non_ascii_case'] += 1
        # category view
        n_tx = len(c['txns'])
        take = (len(views) < (400 if tier == 'quick' else 4000) and n_tx <= 60) or \
               (c.get('size_case') and n_tx <= (130 if tier == 'quick' else 1100))
        if take and all(m['total_ticks'] is not None for m in st['by_merchant']):
            ok = True
            if any(t['amount_ticks'] is None for m in st['by_merchant'] for t in m['transactions']):
                ok = False

            def cextra(e):
                return clist(f"({ctext(k)}, {ctext(json.dumps(v))})" for k, v in (e or {}).items())

            def crow(t):
                a = t['amount'] * 64
                return None if not float(a).is_integer() else (
                    f"({ctext(t['id'])}, ({ctext(t['description'])}, ({cz(int(a))}, ({ctext(t['month'])}, ({clist(ctext(g) for g in t['tags'])}, "
                    f"({ctext(t['source'])}, {cextra(t.get('extra_fields'))}))))))")

            def crows(mobjs):
                out = []
                for mo in mobjs:
                    rs = [crow(t) for t in mo['transactions']]
                    if any(x is None for x in rs):
                        return None
                    out.append(clist(rs))
                return clist(out)

            def mterm(m):
                xs = clist(f"X {cz(t['amount_ticks'] or 0)} {clist(ctext(g) for g in t['tags'])} {ctext(t['description'])} {ctext(t['month'])} "
                           f"{ctext(t['source'])} {cextra(t['extra_fields'])}" for t in m['transactions'])
                return f"M {ctext(m['name'])} {ctext(m['category'])} {ctext(m['subcategory'])} {cz(m['total_ticks'])} {cz(m['count'])} {xs}"
            ms = [mterm(m) for m in st['by_merchant']]
            cv, tts = [], []
            for cn, cat in data['categoryView'].items():
                subs = []
                for sn, sub in cat['subcategories'].items():
                    t = sub['total'] * 64
                    if not float(t).is_integer():
                        ok = False
                        break
                    subs.append(f"({ctext(sn)}, ({cz(int(t))}, ({cz(sub['count'])}, "
                                + clist(f"({ctext(k)}, {ctext(m['displayName'])})" for k, m in sub['merchants'].items()) + ')))')
                t = cat['total'] * 64
                if not ok or not float(t).is_integer():
                    ok = False
                    break
                cv.append(f"({ctext(cn)}, ({cz(int(t))}, ({cz(cat['count'])}, {clist(subs)})))")
                tt = cat.get('typeTotals') or {}
                tv = [tt.get(k, 0) * 64 for k in ('spending', 'income', 'investment', 'transfer')]
                if not all(float(x).is_integer() for x in tv):
                    ok = False
                    break
                tts.append('({}, ({}, ({}, {})))'.format(*[cz(int(x)) for x in tv]))
            vs, secs = [], []
            if st['sections'] is not None:
                if any(s['name'].lower() != ascii_lower(s['name']) for s in st['sections']):
                    ok = False
                bm = {m['name']: m for m in st['by_merchant']}
                for s in st['sections']:
                    vs.append(f"({ctext(s['name'])}, " + clist(mterm(bm[n]) for n in s['merchants']) + ')')
                for sid, sec in data['sections'].items():
                    secs.append(f"({ctext(sid)}, ({ctext(sec['title'])}, "
                                + clist(f"({ctext(k)}, {ctext(m['displayName'])})" for k, m in sec['merchants'].items()) + '))')
            rows = crows(view_merchants(data['categoryView'])) if ok else None
            srows = crows([m for sec in data['sections'].values() for m in sec['merchants'].values()]) if ok else None
            if ok and rows is not None and srows is not None:
                views.append((ci, f"({clist(ms)}, {clist(cv)}, {clist(vs)}, {clist(secs)}, {clist(tts)}, {rows}, {srows})"))
            else:
                skipped['inexact_ticks'] += 1
        # export_json figures (compared exactly when every figure is a multiple of 1/4)
        if len(figs) < (400 if tier == 'quick' else 4000) and '0' in r['json'] and 'text' in r['json']['0']:
            s = json.loads(r['json']['0']['text'])['summary']
            vals = [s['income_total'], s['gross_spending'], s['credits_total'], s['net_cash_flow'], s['transfers_total']]
            tk = st['ticks']
            if all(m['total_ticks'] is not None and m['total_ticks'] % 16 == 0 for m in st['by_merchant']) and \
                    all(tk[k] is not None for k in tk) and tk['total'] % 16 == 0:
                exp = [None if x is None else int(x * 64) for x in vals]
                a = (f"{{| a_income := {cz(tk['income_total'])}; a_spending := {cz(tk['spending_total'])}; a_credits := {cz(tk['credits_total'])}; "
                     f"a_cash_flow := {cz(tk['cash_flow'])}; a_transfers_in := {cz(tk['transfers_in'])}; a_transfers_out := {cz(tk['transfers_out'])}; "
                     f"a_transfers_net := {cz(tk['transfers_net'])}; a_total_raw := {cz(tk['total'])}; a_merchants := "
                     + clist(f"{{| ms_tags := {clist(ctext(t) for t in m['tags'])}; ms_total := {cz(m['total_ticks'])} |}}" for m in st['by_merchant'])
                     + ' |}')
                figs.append((ci, f"({a}, {clist(copt(x, cz) for x in exp)})"))
            else:
                skipped['json_not_2dp_exact'] += 1
        # embedding (small templates only)
        h = r['html']
        if c.get('tpl') is not None and 'doc' in h and len(h['doc']) < 6000:
            embed_pool.append((len(h['doc']), ci))
    # embedding: smallest documents first (Coq reads ~15 KB of literals per second), every template and
    # every adversarial class represented, within a byte budget
    budget = 450000 if tier == 'quick' else 3000000
    embed_pool.sort()
    seen_kinds, rest = set(), []
    for ln, ci in embed_pool:
        kind = (cases[ci]['tpl_id'], tuple(sorted(classes_of(cases[ci]) & {'script-end-tag', 'placeholder', 'non-ascii', 'views'})))
        (rest if kind in seen_kinds else embeds_first).append((ln, ci))
        seen_kinds.add(kind)
    for ln, ci in embeds_first + rest:
        if budget - 4 * ln < 0:
            continue
        budget -= 4 * ln
        c, r = cases[ci], results[ci]
        h = r['html']
        J = r['data_js'][len(c12_html.DATA_PREFIX):-len(c12_html.DATA_SUFFIX)]
        # the un-escaped json.dumps text: dumps(loads(x)) reproduces it (same encoder, key order and float repr kept)
        J_raw = json.dumps(json.loads(J))
        if c12_html.DISAGREE_RE.search(h['doc']):
            skipped['embed_disagreement_fragment'] += 1
            scr = c12_html.scripts_browser(h['doc'])
        else:
            scr = h['scripts_hp']
        t = c['tpl']
        embeds.append((ci, f"({ctext(t['html'])}, {ctext(t['css'])}, {ctext(t['js'])}, {ctext(J_raw)}, {ctext(r['data_js'])}, {ctext(h['doc'])}, "
                           f"{clist(ctext(x) for x in scr)}, {copt(h['data_br'], ctext)})"))
    jobs['ids'] = ('Definition mid_cases := ' + clist(f'({ctext(a)}, {ctext(b)})' for a, b in mids.items()) + '.\n'
                   'Eval vm_compute in failing chk_mid 0 mid_cases.\n'
                   'Definition sid_cases := ' + clist(f'({ctext(a)}, {ctext(b)})' for a, b in sids.items()) + '.\n'
                   'Eval vm_compute in failing chk_sid 0 sid_cases.\n')
    for nm, rows, chk in (('view', views, 'chk_view'), ('figs', figs, 'chk_figs'), ('embed', embeds, 'chk_embed')):
        CH = 200 if nm != 'embed' else EMBED_CH
        for off in range(0, len(rows), CH):
            ty = ' : list view_case' if nm == 'view' else ''
            jobs[f'{nm}_{off // CH}'] = (f'Definition cases{ty} := [\n' + ';\n'.join(x for _, x in rows[off:off + CH]) + '\n].\n'
                                         f'Eval vm_compute in failing {chk} 0 cases.\n')
    # the real template satisfies the hypotheses of the theorems (style sheet replaced by a stub; the real
    # style sheet and script are checked below to be free of '<', placeholders and "</script")
    if facts.get('html'):
        jobs['tplok'] = ('Definition real_tpl : text := ' + ctext(facts['html']) + '.\n'
                         'Definition tplok_cases := [tpl_ok real_tpl (cps "a{}") (cps "app();")].\n'
                         'Eval vm_compute in failing (fun b : bool => b) 0 tplok_cases.\n')
    counts.update({'make_merchant_id_pairs': len(mids), 'section_id_pairs': len(sids), 'category_view_cases': len(views),
                   'json_figure_cases': len(figs), 'embed_extract_cases': len(embeds), 'skipped': skipped})
    res = {}
    sem = threading.Semaphore(4)

    def work(k, body):
        with sem:
            coq_eval('C12_' + k, body, res, k)
    th = [threading.Thread(target=work, args=(k, b)) for k, b in jobs.items()]
    for t in th:
        t.start()
    for t in th:
        t.join()
    broken = []
    index = {'view': views, 'figs': figs, 'embed': embeds}
    for k, rr in sorted(res.items()):
        if 'error' in rr:
            broken.append({'kind': 'broken-correspondence', 'obligation': f'model_vs_impl({k})', 'detail': 'cases.v did not evaluate: ' + rr['error']})
            continue
        for li, fl in enumerate(rr['failing']):
            if not fl:
                continue
            base = k.split('_')[0]
            if base in index:
                off = int(k.split('_')[1]) * (200 if base != 'embed' else EMBED_CH)
                ci = index[base][off + fl[0]][0]
                det = {'case': cases[ci], 'n': len(fl)}
            elif k == 'strings':
                det = {'string': (strings_io['strings'][fl[0]] if li == 0 else strings_io['tokens'][fl[0]]), 'list': ['dumps', 'loads'][li], 'n': len(fl)}
            elif k == 'ids':
                src = list((mids if li == 0 else sids).items())[fl[0]]
                det = {'name': src[0], 'implementation_id': src[1], 'list': ['make_merchant_id', 'section_id'][li], 'n': len(fl)}
            else:
                det = {'real template': 'tpl_ok is false'}
            broken.append({'kind': 'broken-correspondence', 'obligation': f'model_vs_impl({k})', 'detail': det})
    # facts about the real style sheet / script the theorems' template hypothesis relies on
    if facts:
        if facts.get('css_has_lt') or any(facts.get('css_ph', [])) or any(facts.get('js_ph', [])) or facts.get('js_close') or facts.get('css_close'):
            broken.append({'kind': 'broken-correspondence', 'obligation': 'template_facts(real css/js inert)', 'detail': {k: v for k, v in facts.items() if k != 'html'}})
    return broken, counts


def gen_strings(seed, n):
    rnd = random.Random(seed + 12)
    pool = list(DESCS) + NAMES + ['', '"', '\\', '/', '\x08\x0c\n\r\t', '\x7f\x80\x9f\xa0', '퟿￿', '\U00010000\U0010ffff',
                                 ''.join(chr(i) for i in range(0, 48)), ''.join(chr(i) for i in range(48, 130))]
    alphabet = ['"', '\\', '/', '<', '>', 'u', 'n', ' ', 'a', 'Z', '\n', '\x00', '\x1f', '\x7f', '\xe9', '€', '퟿', '', '￿',
                '\U00010000', '\U0001f600', '\U0010ffff', ' ']
    for _ in range(n):
        pool.append(''.join(rnd.choice(alphabet) for _ in range(rnd.choice([1, 2, 3, 5, 8, 13]))))
    toks = ['"abc"', '"a\\/b"', '"\\u00e9"', '"\\u00E9"', '"\\ud83d\\ude00"', '"\\uD83D\\uDE00"', '"\\ud83d"', '"\\ud83dx"', '"\\ud83d\\u0041"',
            '"\\ude00\\ud83d"', '"\\ud83d\\ud83d\\ude00"', '"\\x41"', '"\\u12"', '"\\u12g4"', '"abc', 'abc"', '""', '"', '"a"b"', '"\t"', '"\x1f"',
            '"\x7f"', '"é"', '"\\"', '"\\\\"', '"\\b\\f\\n\\r\\t\\"\\\\\\/"', '"\\a"', '"\\u+123"', '"\\u 123"', '"\\ud83d\\u"', '"\\ud83d\\ude0"',
            '"\\ud83d\\ude0g"', '"\\uDBFF\\uDFFF"', '"\\udbff\\udc00"', '"\\ud800\\udbff"', '"\\ud7ff\\udc00"', '"</script>"']
    esc = ['\\u00e9', '\\ud83d', '\\ude00', '\\n', '\\"', '\\\\', '\\/', 'a', '<', '\\u0000', '\\uffff', '\\udc00', '\\udbff', '\\x', '\\u12', '\xe9', ' ']
    for _ in range(n):
        toks.append('"' + ''.join(rnd.choice(esc) for _ in range(rnd.choice([1, 2, 3, 4, 6]))) + '"')
    return pool, toks


# =========================================================================================
def classes_of(case):
    s = json.dumps(case['txns']) + (case['views'] or '')
    raw = ' '.join([t['d'] + t['m'] + ' '.join(t['tags']) + t['c'] + t['s'] + t['src'] + json.dumps(t['extra'], ensure_ascii=False) for t in case['txns']])
    out = set()
    if c12_html.ANY_CLOSE_RE.search(raw):
        out.add('script-end-tag')
    if any(p in raw for p in PH):
        out.add('placeholder')
    if '"' in raw or "'" in raw:
        out.add('quotes')
    if '\\' in raw:
        out.add('backslash')
    if any(ord(c) > 127 for c in raw):
        out.add('non-ascii')
    if any(ord(c) < 32 for c in raw):
        out.add('control')
    names = {t['m'] for t in case['txns']}
    if len({spec_norm(n) for n in names}) < len(names):
        out.add('id-collision')
    if case['views']:
        out.add('views')
    if any(t['a'] <= 0 for t in case['txns']):
        out.add('non-positive')
    return out


def main(tier):
    run = Run('C12', tier)
    run.assumptions = [
        'texts are lists of Unicode scalar values (a str obtained by decoding UTF-8); lone/paired surrogate code points are outside the JSON round-trip theorem',
        'money is exact integer ticks (1/64); generated amounts are dyadic so every implementation figure is compared exactly; float rounding of sums is outside the model',
        'HTML: only the script-data end rule and a tag-name scan are modelled ("</script" + whitespace, "/" or ">", ASCII case-insensitive); comments, attribute '
        'quoting and the script-data-escaped states ("<!--<script") are not; the installed html.parser (end tag = </\\s*script\\s*>) and the browser rule are '
        'both run on every rendered document, the Coq scan is compared with html.parser where the two rules cannot differ and with the browser-rule twin otherwise',
        'the real style sheet is checked each run to contain no "<" and style sheet and script no placeholder text and no "</script"; tpl_ok is evaluated in '
        'Coq on the real spending_report.html with a stub style sheet and a stub script',
        'the un-escaped json.dumps text handed to the model is recomputed as json.dumps(json.loads(data script)) (same encoder; a difference would show as a '
        'broken correspondence, never hide one)',
        'str.lower is modelled for ASCII (section names with other cased letters are skipped and counted)',
        'build_section_merchants / build_category_view / export_json figure recomputation are hand-modelled and tied by correspondence; make_merchant_id, '
        'section_id, the replacement order, the data script framing and the stats-key bindings are translated from source (tools/c12_report2coq.py)',
        'the rows embedded under a merchant (ids "<merchant id>_<i>", description, amount, month, tags, source, extra fields as JSON text) are modelled '
        '(Model.embedded_txns) and compared inside Coq with the decoded data for the category view and every view, including the size-boundary cases '
        '(<= 130 rows per case in quick, <= 1100 in thorough); date and location of a row are not in the model',
        'the typeTotals bucket table is proved equal to the translated classification.categorize_amount (C12/Classify.v, via C06 categorize_table) for ASCII tags',
        'monthly averages, matchInfo and the human-readable explanations in the data are not compared (not named by the property); JSON is modelled for '
        'strings only (numbers, objects and arrays of the data are decoded by json.loads in the oracle, not in Coq)']
    timing = {}
    t0 = time.time()
    tfails = regen_gen()
    res = run.proof_step(COQ_FILES, extra_trusted=[
        'tools/c12_report2coq.py (translator, fail closed)', 'harness/c12.py + impl_c12.py + c12_html.py (generators, oracle, correspondence)',
        'CPython html.parser and json (the parsers the property names)'])
    broken = []
    if tfails:
        broken.append({'kind': 'translation-failure', 'detail': tfails})
    elif not res['ok']:
        broken.append({'kind': 'broken-obligation', 'detail': first_error(res['log'])})
    if res['hygiene']:
        broken.append({'kind': 'hygiene', 'detail': res['hygiene']})

    timing['proofs_s'] = round(time.time() - t0, 1)
    t0 = time.time()
    n = 1300 if tier == 'quick' else 6000
    cases = gen_cases(run.seed, n)
    out = run_cases_impl(cases, facts=True)
    results, facts = out['results'], out['facts']
    timing['implementation_s'] = round(time.time() - t0, 1)
    t0 = time.time()
    by_sig = {}
    n_fail = 0
    discards = {'not-analysable': 0}
    for c, r in zip(cases, results):
        if 'analyze_error' in r:
            discards['not-analysable'] += 1
            continue
        vs = judge(c, r)
        if vs:
            n_fail += 1
        for sig, det in vs:
            e = by_sig.setdefault(sig, {'n': 0, 'case': None, 'detail': None})
            e['n'] += 1
            if e['case'] is None or size(c) < size(e['case']):
                e['case'], e['detail'] = c, det
    known = {f['signature'] for f in run.findings if f.get('status') == 'finding'}
    for sig, e in sorted(by_sig.items()):
        small = e['case']
        if sig not in known:
            small = shrink(e['case'], sig)
        r1 = run_cases_impl([small])['results'][0]
        det = [d for s, d in judge(small, r1) if s == sig]
        run.violation(sig.split('/')[1], {'kind': 'counterexample', 'case': small, 'violation': det[:1] or e['detail'],
                                          'expected': 'C12: every format renders; the HTML data decodes to the analysed data; all formats print the same figures',
                                          'obligation': 'C12 direct oracle on the implementation', 'n_failing_cases': e['n'],
                                          'shrunk_from': size(e['case']), 'broken': broken}, signature=sig)
    timing['oracle_shrink_s'] = round(time.time() - t0, 1)
    t0 = time.time()
    # ---- model vs implementation ----------------------------------------------------------
    counts = {}
    if not tfails and res['ok']:
        strs, toks = gen_strings(run.seed, 150 if tier == 'quick' else 3000)
        sio = run_impl(IMPL, {'mode': 'strings', 'strings': strs, 'tokens': toks})
        sio.update({'strings': strs, 'tokens': toks})
        mbroken, counts = model_check(cases, results, sio, facts, tier)
        broken += mbroken
    timing['model_in_coq_s'] = round(time.time() - t0, 1)
    unknown_found = any(sig not in known for sig in by_sig)
    if broken and not unknown_found:
        run.violation('broken', {'kind': broken[0]['kind'], 'obligation': broken[0].get('obligation') or
                                 (broken[0]['detail'].get('obligation') if isinstance(broken[0]['detail'], dict) else None),
                                 'broken': broken, 'searched': f'{len(cases)} generated analysis results against the C12 oracle; '
                                                               f'signatures seen: {sorted(by_sig)}'}, found_input=False)
    # ---- coverage ---------------------------------------------------------------------------
    hist, nontrivial = {}, set()
    tplh = {}
    for c, r in zip(cases, results):
        cl = classes_of(c)
        for k in cl:
            hist[k] = hist.get(k, 0) + 1
        tplh['real' if c['tpl'] is None else f"small-{c['tpl_id']}"] = tplh.get('real' if c['tpl'] is None else f"small-{c['tpl_id']}", 0) + 1
        if 'analyze_error' not in r and len({t['m'] for t in c['txns']}) >= 2 and \
                cl & {'script-end-tag', 'placeholder', 'quotes', 'backslash', 'non-ascii', 'control', 'id-collision'}:
            nontrivial.add(json.dumps(c['txns'], sort_keys=True))
    n_model = sum(v for k, v in counts.items() if isinstance(v, int))
    run.cov.update({'evaluations': len(cases) * 11 + n_model, 'distinct_nontrivial': len(nontrivial),
                    'rule': 'analysis results of 1-9 generated transactions (adversarial merchant names / descriptions / tags / categories / sources / '
                            'extra fields: </script> variants, quotes, backslashes, the three placeholder texts, control and non-ASCII characters, '
                            'names differing only in quotes/spaces/underscores; negative, zero and mixed totals; special tags; 8 view files incl. colliding '
                            'view names; 4 small templates + the real one); each rendered as JSON x3, Markdown x3, text x2, sections text, HTML embedded + '
                            'separate = 11 renders per case; non-trivial = distinct transaction lists with >= 2 merchants and >= 1 adversarial string class',
                    'samples': [cases[3], cases[-1]], 'class_histogram': hist, 'template_histogram': tplh,
                    'cases': len(cases), 'cases_violating_some_part': n_fail,
                    'violations_by_signature': {k: v['n'] for k, v in by_sig.items()}, 'discards': discards,
                    'model_vs_impl_in_coq': counts, 'translation_failures': tfails, 'timing': timing})
    shutil.rmtree(WORKDIR, ignore_errors=True)
    run.finish()


def replay(path):
    obj = json.load(open(path))
    if obj.get('kind') != 'counterexample':
        main('quick')
    case = obj['case']
    r = run_cases_impl([case])['results'][0]
    shutil.rmtree(WORKDIR, ignore_errors=True)
    vs = judge(case, r)
    print(json.dumps({'violations': vs}, indent=1, default=str)[:4000])
    want = obj.get('signature')
    hit = [s for s, _ in vs if want is None or s == want]
    if hit:
        print(f'VIOLATION property=C12 replay={path}')
        return 1
    return 0
