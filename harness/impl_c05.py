"""Runs tally's statement reader on generated files (under /venv/bin/python, PYTHONPATH=$VERIF_REPO/src).

Two clearly separated halves:
 * library_view(): what CPython's own libraries make of the file and the settings — csv.reader records,
   text-mode lines + re.match groups, datetime.strptime of candidate date texts, string.Formatter().parse of
   the description template.  No tally code.  These are the oracles/tokeniser the Coq model is parameterised by
   (they are computed here because the harness itself runs under a different CPython).
 * run_impl(): config_loader.resolve_source_format + parsers.parse_generic_csv exactly as commands/run.py
   calls them; the observable fields of every returned transaction.
"""
import csv
import json
import math
import os
import re
import string
import sys
import tempfile
from datetime import datetime

from tally.config_loader import resolve_source_format
from tally.parsers import parse_generic_csv


# ------------------------------------------------------------------------------------------ library half
def library_view(path, case, date_col, date_fmt):
    out = {}
    kind = case['kind']
    rows = []
    if kind == 'csv':
        with open(path, 'r', encoding='utf-8') as f:
            try:
                recs = list(csv.reader(f, delimiter=case['delim_char'])) if case['delim_char'] != ',' else list(csv.reader(f))
            except csv.Error as e:
                return {'token_error': f'csv.Error: {e}'}
        out['records'] = recs
        rows = recs
    else:
        pat = re.compile(case['regex'])
        with open(path, 'r', encoding='utf-8') as f:
            lines = list(f)
        groups = []
        for line in lines:
            m = pat.match(line.strip())
            groups.append(list(m.groups()) if m else None)
        out['lines'] = lines
        out['groups'] = groups
        rows = [g for g in groups if g is not None]
    dates = {}
    if date_col is not None:
        for r in rows:
            if date_col < len(r) and isinstance(r[date_col], str):
                k1 = r[date_col].strip()
                keys = [k1] + (k1.split()[:1])
                for k in keys:
                    if k and k not in dates:
                        try:
                            dates[k] = datetime.strptime(k, date_fmt).isoformat()
                        except ValueError:
                            dates[k] = None
                        except Exception as e:  # noqa  (anything else escapes the row loop)
                            dates[k] = 'EXC:' + type(e).__name__
    out['dates'] = sorted(dates.items())
    tmpl = case['source'].get('columns', {}).get('description') if isinstance(case['source'].get('columns'), dict) else None
    if tmpl is not None:
        try:
            out['pieces'] = [[lit, fld, fs, conv] for lit, fld, fs, conv in string.Formatter().parse(tmpl)]
        except ValueError as e:
            out['pieces_error'] = str(e)
    return out


# ------------------------------------------------------------------------------------------ implementation half
def amount_repr(a):
    if isinstance(a, float):
        if a != a:
            return 'nan'
        if math.isinf(a):
            return 'inf' if a > 0 else '-inf'
        return a.hex()
    return 'nonfloat:' + repr(a)


def observe(t):
    fld = t.get('field')
    return {'date': t['date'].isoformat() if hasattr(t['date'], 'isoformat') else repr(t['date']),
            'desc': t['raw_description'], 'amount': amount_repr(t['amount']), 'source': t['source'],
            'field': None if fld is None else [[k, v] for k, v in fld.items()],
            'location': t['location'], 'is_credit': bool(t['is_credit'])}


def spec_view(fs):
    return {'date_column': fs.date_column, 'date_format': fs.date_format, 'amount_column': fs.amount_column,
            'description_column': fs.description_column,
            'custom_captures': None if fs.custom_captures is None else list(fs.custom_captures.items()),
            'description_template': fs.description_template,
            'extra_fields': None if fs.extra_fields is None else list(fs.extra_fields.items()),
            'location_column': fs.location_column, 'has_header': fs.has_header, 'source_name': fs.source_name,
            'negate_amount': fs.negate_amount, 'abs_amount': fs.abs_amount, 'delimiter': fs.delimiter}


def run_file(path, text, src, fs):
    with open(path, 'w', encoding='utf-8', newline='') as f:
        f.write(text)
    try:
        # exactly the call of commands/run.py (rules: none loaded; no transforms; no supplemental data)
        txns = parse_generic_csv(path, fs, [], source_name=src.get('name', 'CSV'),
                                 decimal_separator=src.get('decimal_separator', '.'),
                                 transforms=None, data_sources={})
    except Exception as e:  # noqa
        return {'error': type(e).__name__, 'message': str(e)[:200]}
    return {'txns': [observe(t) for t in txns]}


def main():
    payload = json.load(sys.stdin)
    res = []
    with tempfile.TemporaryDirectory(prefix='c05-') as d:
        path = os.path.join(d, 'statement.csv')
        for case in payload['cases']:
            r = {}
            src = case['source']
            try:
                fs = resolve_source_format(dict(src))['_format_spec']
            except Exception as e:  # noqa
                r['spec_error'] = f'{type(e).__name__}: {e}'[:300]
                res.append(r)
                continue
            r['spec'] = spec_view(fs)
            r['full'] = run_file(path, case['text'], src, fs)
            # library view of the same file (written by run_file)
            r['lib'] = library_view(path, case, fs.date_column, fs.date_format)
            if 'singles' in case:
                r['singles'] = [run_file(path, t, src, fs) for t in case['singles']]
            if 'variants' in case:      # the same file under other source settings (sign modes)
                r['variants'] = []
                for vsrc in case['variants']:
                    try:
                        vfs = resolve_source_format(dict(vsrc))['_format_spec']
                        r['variants'].append(run_file(path, case['text'], vsrc, vfs))
                    except Exception as e:  # noqa
                        r['variants'].append({'error': 'spec:' + type(e).__name__, 'message': str(e)[:200]})
            res.append(r)
    json.dump({'results': res}, sys.stdout)


main()
