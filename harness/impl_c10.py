"""Runs tally's views pipeline (section_engine.parse_sections -> analyzer.analyze_transactions ->
analyzer.classify_by_sections -> analyzer.compute_section_totals) on generated jobs.

A job = {'text': views file, 'merchants': [{'name','cat','sub','txns':[{'d','a'(ticks 1/64),'tags'}]}],
         'order': [[mi, ti], ...] (interleaving of the transactions), 'tables': bool}.
Returns, per job: the parsed structure, the run's result (view -> member names, total in ticks, count) or the
exception that escaped, and (tables) the implementation's OWN evaluate_section_filter verdict for every
(merchant, view): once on the merchant groups classify_by_sections built ('own_rebuilt', captured at the
public call section_engine.classify_merchants) and once on the merchant's own dated payments ('own_true')."""
import json
import sys
from datetime import datetime

from tally import analyzer, expr_parser
from tally import section_engine as se

TICK = 64.0
SPECIAL = {'income', 'transfer', 'investment'}


def ticks(x):
    v = x * TICK
    if v != v or v in (float('inf'), float('-inf')) or not float(v).is_integer():
        return None
    return int(v)


def amount(t):
    """'a': ticks of 1/64 (exact in binary); 'c': cents (decimal stream: generally NOT exact in binary)"""
    return t['a'] / TICK if 'a' in t else t['c'] / 100


def build_txns(job):
    out = []
    ms = job['merchants']
    order = job.get('order') or [[i, j] for i, m in enumerate(ms) for j in range(len(m['txns']))]
    for mi, ti in order:
        m, t = ms[mi], ms[mi]['txns'][ti]
        out.append({'amount': amount(t), 'merchant': m['name'], 'category': m['cat'], 'subcategory': m['sub'],
                    'date': datetime.strptime(t['d'], '%Y-%m-%d'), 'source': 'S', 'description': m['name'].upper(),
                    'tags': list(t['tags'])})
    return out


def verdict(section, txns, num_months, gvars, period_data):
    try:
        return bool(se.evaluate_section_filter(section, txns, num_months, gvars, period_data))
    except Exception as e:  # noqa — anything that escapes is the observation
        return 'raise:' + type(e).__name__


def table_for(cfg, groups, num_months, period_data):
    """{merchant: {'globals': 'ok'|'raise:X', 'views': [True|False|'raise:X'|None, ...]}}"""
    out = {}
    for g in groups:
        try:
            gv = se.evaluate_variables(cfg.global_variables, g['transactions'], num_months, period_data=period_data)
        except Exception as e:  # noqa
            out[g['merchant']] = {'globals': 'raise:' + type(e).__name__, 'views': [None] * len(cfg.sections)}
            continue
        out[g['merchant']] = {'globals': 'ok',
                              'views': [verdict(s, g['transactions'], num_months, gv, period_data) for s in cfg.sections]}
    return out


def own_groups(job):
    """The merchant's own payments as evaluate_section_filter expects them — real dates; exclusion by the
    property's wording (tagged income/transfer/investment, any letter case); period = distinct months/years
    of the listed merchants."""
    groups, months, years = [], set(), set()
    for m in job['merchants']:
        tags = []
        for t in m['txns']:
            for x in t['tags']:
                if x not in tags:
                    tags.append(x)
        if {x.lower() for x in tags} & SPECIAL:
            continue
        txns = []
        for t in m['txns']:
            d = datetime.strptime(t['d'], '%Y-%m-%d')
            txns.append({'amount': amount(t), 'date': d, 'category': m['cat'], 'subcategory': m['sub'],
                         'merchant': m['name'], 'tags': list(tags)})
            months.add(t['d'][:7])
            years.add(d.year)
        groups.append({'merchant': m['name'], 'transactions': txns})
    return groups, {'month': len(months), 'year': len(years)}


def run_job(job):
    res = {}
    try:
        cfg = se.parse_sections(job['text'])
    except Exception as e:  # noqa
        return {'parse_error': type(e).__name__ + ': ' + str(e)}
    res['parsed'] = {'globals': [[k, v] for k, v in cfg.global_variables.items()],
                     'views': [{'name': s.name, 'vars': [[k, v] for k, v in s.variables.items()],
                                'filter': s.filter_expr} for s in cfg.sections]}
    try:
        stats = analyzer.analyze_transactions(build_txns(job))
    except Exception as e:  # noqa
        return {'analyze_error': type(e).__name__ + ': ' + str(e)}
    res['by_merchant'] = [[k, ticks(v['total']), len(v['transactions'])] for k, v in stats['by_merchant'].items()]
    captured = {}
    orig = se.classify_merchants

    def spy(config, merchant_groups, num_months=12, period_data=None):
        captured['groups'] = merchant_groups
        captured['num_months'] = num_months
        captured['period_data'] = period_data
        return orig(config, merchant_groups, num_months, period_data=period_data)
    se.classify_merchants = spy
    try:
        try:
            r = analyzer.classify_by_sections(stats['by_merchant'], cfg, stats['num_months'])
            views, totals_f = [], {}
            for name, members in r.items():
                t = analyzer.compute_section_totals(members)
                views.append([name, [m for m, _ in members], ticks(t['total']), t['count']])
                totals_f[name] = float(t['total'])
            res['run'] = {'views': views, 'totals_f': totals_f}
        except Exception as e:  # noqa
            res['run'] = {'error': type(e).__name__, 'message': str(e)[:200]}
    finally:
        se.classify_merchants = orig
    if job.get('tables'):
        if 'groups' in captured:
            res['own_rebuilt'] = table_for(cfg, captured['groups'], captured['num_months'], captured['period_data'])
            res['period_data'] = captured['period_data']
        groups, pd = own_groups(job)
        res['own_true'] = table_for(cfg, groups, stats['num_months'], pd)
    return res


def main():
    payload = json.load(sys.stdin)
    out = []
    for job in payload['jobs']:
        try:
            out.append(run_job(job))
        except Exception as e:  # noqa
            out.append({'harness_error': type(e).__name__ + ': ' + str(e)})
    json.dump({'results': out}, sys.stdout)


main()
