"""C06 — totals conserve money. Proof: C06/Props.v over Gen/ClassificationPy.v (regenerated) and the
hand model of the accumulation pass. Tie: analyze_transactions vs the model (vm_compute in coqc) on
exact dyadic amounts. Search: the property's algebraic laws evaluated on implementation outputs."""
import itertools
import json
import os
import random

from common import *
import c13

COQ_FILES = ['Lib/Str.v', 'Lib/NumOps.v', 'Gen/ClassificationPy.v', 'C06/Model.v', 'C06/Proofs.v', 'C06/Keys.v', 'C06/Props.v']
SPECIAL = ['income', 'investment', 'transfer']
KEYS = ['income_total', 'investment_total', 'spending_total', 'credits_total', 'transfers_in', 'transfers_out']


def casing(rnd, w):
    return rnd.choice([w, w.upper(), w.title(), ''.join(c.upper() if rnd.random() < .5 else c for c in w)])


def gen_txn(rnd):
    a = rnd.choice([0, 1, -1, 64, -64, rnd.randint(-2 ** 20, 2 ** 20), rnd.randint(-6400, 6400) * 1,
                    rnd.randint(-100, 100) * 64])
    r = rnd.random()
    if r < 0.08:
        tags = None
    else:
        tags = []
        for w in SPECIAL:
            if rnd.random() < 0.22:
                tags.append(casing(rnd, w))
        for w in ['food', 'gas', 'Refund', 'income tax', 'transfers', ' income']:
            if rnd.random() < 0.12:
                tags.append(w)
        rnd.shuffle(tags)
    m = rnd.choice(MERCHANTS)
    c = rnd.choice(['Food', 'Bills', 'Fun', '', 'Food ', 'food'])
    s = rnd.choice(['a', 'b', '', ' a', 'A'])
    d = f'{rnd.choice([2024, 2025])}-{rnd.randint(1, 12):02d}-{rnd.randint(1, 28):02d}'
    t = {'a': a, 'tags': tags, 'm': m, 'c': c, 's': s, 'd': d, 'src': rnd.choice(['Amex', 'Chase', 'Chase', 'Bank'])}
    if rnd.random() < 0.3:
        t['noise'] = gen_noise(rnd)
    return t


# names that differ only by surrounding blanks, letter case or Unicode normal form are DIFFERENT merchants
MERCHANTS = ['Acme', 'acme', 'Bolt', 'Café', 'D"q', 'E F', 'E_F', 'Acme ', ' Acme', 'Acme\t', 'ACME', 'Cafe\u0301', 'E  F', '']


def gen_noise(rnd):
    """Other things a classified transaction carries (rule provenance, extra fields, ...). None of it is the
    transaction's own tag list or amount, so none of it may influence any figure."""
    n = {}
    if rnd.random() < 0.8:
        mt = [casing(rnd, w) for w in SPECIAL if rnd.random() < 0.5]
        n['match_info'] = {'pattern': rnd.choice(['X', None, 'income']), 'source': rnd.choice(['user', 'auto']), 'tags': mt,
                           'tag_sources': {x: {'rule': 'R', 'pattern': 'X'} for x in mt}}
    if rnd.random() < 0.4:
        n['extra_fields'] = {'tags': ['income'], 'kind': 'transfer', 'amount': -1}
    if rnd.random() < 0.4:
        n['location'] = rnd.choice(['income', 'WA', None])
    if rnd.random() < 0.4:
        n['raw_description'] = rnd.choice(['INCOME TRANSFER', 'investment', ''])
    for k in ('is_income', 'is_transfer', 'excluded', 'is_credit'):
        if rnd.random() < 0.2:
            n[k] = True
    if rnd.random() < 0.2:
        n['category_tags'] = ['investment']
    return n


def gen_cases(seed, n):
    rnd = random.Random(seed)
    cases = []
    # exhaustive small: every subset of special tags x sign, as singletons and in all orders of 3
    base = []
    for r in range(4):
        for sub in itertools.combinations(SPECIAL, r):
            for a in (320, -320, 0):
                base.append({'a': a, 'tags': [casing(rnd, w) for w in sub], 'm': 'M' + str(len(base) % 3), 'c': 'C',
                             's': 's' + str(len(base) % 2), 'd': f'2025-0{1 + len(base) % 3}-10'})
    cases.append({'txns': base, 'perm': list(reversed(range(len(base)))), 'split': len(base) // 2, 'singles': True})
    coffee = {'a': 304, 'tags': [], 'm': 'Cafe', 'c': 'Food', 's': 'x', 'd': '2025-03-10'}
    xfer = {'a': -32000, 'tags': ['transfer'], 'm': 'Bank', 'c': 'T', 's': '', 'd': '2025-03-10'}
    for srcs in (['A', 'B', 'A'], ['B', 'A', 'A'], ['A', 'A', 'A'], ['A', 'B', 'C']):
        txns = [dict(coffee, src=x) for x in srcs] + [dict(xfer, src=x) for x in srcs[:2]]
        cases.append({'txns': txns, 'perm': list(reversed(range(len(txns)))), 'split': 2, 'singles': True})
    # months that net to zero or below, refund-only merchants first in a month, multi-year same month numbers
    for seq in ([-500, 300], [-500, 500], [300, -800, 100], [-100], [0, -64], [640, -640, 64]):
        txns = [{'a': a, 'tags': [], 'm': f'M{i}', 'c': 'C', 's': '', 'd': '2025-04-0%d' % (i + 1)} for i, a in enumerate(seq)]
        txns += [{'a': 128, 'tags': [], 'm': 'Z', 'c': 'C', 's': '', 'd': '2024-04-09'}, {'a': 64, 'tags': ['Transfer'], 'm': 'Z', 'c': 'C', 's': '', 'd': '2025-04-09'}]
        for order in (txns, txns[::-1]):
            cases.append({'txns': order, 'perm': list(reversed(range(len(order)))), 'split': 1, 'singles': False})
    # provenance/extra data that names special tags while the transaction's own tag list says otherwise
    for own in ([], None, ['food'], ['Transfer'], ['income']):
        for mt in (['income'], ['investment'], ['transfer'], [], ['Income', 'Transfer']):
            txns = [{'a': a, 'tags': own, 'm': 'Shop', 'c': 'C', 's': '', 'd': '2025-03-0%d' % (i + 1),
                     'noise': {'match_info': {'pattern': 'SHOP', 'source': 'user', 'tags': list(mt)},
                               'extra_fields': {'tags': list(mt)}, 'raw_description': ' '.join(mt)}}
                    for i, a in enumerate((250 * 64, -300 * 64, 0))]
            cases.append({'txns': txns, 'perm': [2, 1, 0], 'split': 1, 'singles': True})
    # merchant / category names that are equal only after trimming, case folding or normalisation
    for names in (['Corner Cafe', 'Corner Cafe '], [' Corner Cafe', 'Corner Cafe'], ['Corner Cafe', 'CORNER CAFE'],
                  ['Caf\u00e9', 'Cafe\u0301'], ['A\tB', 'A B'], ['A  B', 'A B'], ['Shop\n', 'Shop'], ['', ' ']):
        for kind in ('m', 'c', 's'):
            txns = []
            for i, a in enumerate((640, 1280, -64, 3200, 64)):
                t = {'a': a, 'tags': [], 'm': 'M', 'c': 'C', 's': 'S', 'd': '2025-05-0%d' % (i + 1)}
                t[kind] = names[i % 2]
                txns.append(t)
            for order in (txns, txns[::-1]):
                cases.append({'txns': order, 'perm': [1, 0, 3, 2, 4], 'split': 2, 'singles': False})
    for trip in itertools.islice(itertools.combinations(base, 3), 0, 60):
        for perm in itertools.permutations(range(3)):
            cases.append({'txns': list(trip), 'perm': list(perm), 'split': 1})
    for i in range(n):
        k = rnd.choice([1, 2, 3, 5, 8, 13, 30])
        txns = [gen_txn(rnd) for _ in range(k)]
        if k >= 2 and rnd.random() < 0.35:
            # the same payment seen twice: identical row under another source / the same source (each must count)
            for _ in range(rnd.randint(1, 2)):
                dup = dict(rnd.choice(txns))
                if rnd.random() < 0.7:
                    dup['src'] = rnd.choice(['Amex', 'Chase', 'Bank', 'Card2'])
                txns.insert(rnd.randint(0, len(txns)), dup)
            k = len(txns)
        perm = list(range(k))
        rnd.shuffle(perm)
        cases.append({'txns': txns, 'perm': perm, 'split': rnd.randint(0, k), 'singles': i % 10 == 0})
    return cases


# ---- the property, restated independently of the code (direct oracle on implementation outputs) ----
def spec_bucket(a, tags):
    low = {t.lower() for t in (tags or [])}
    if 'income' in low:
        return 'income_total'
    if 'investment' in low:
        return 'investment_total'
    if 'transfer' in low:
        return 'transfers_in' if a > 0 else 'transfers_out'
    return 'spending_total' if a > 0 else 'credits_total'


def oracle(case, r):
    """Returns a list of law names that fail on the implementation's outputs for this case."""
    bad = []
    f = r['full']
    if 'error' in f:
        return ['raises:' + f['error']]
    if f.get('inexact'):
        return []  # outside the exact fragment (never happens for dyadic inputs within range)
    txns = case['txns']
    if sum(f[k] for k in KEYS) != sum(abs(t['a']) for t in txns):
        bad.append('conservation')
    exp = {k: 0 for k in KEYS}
    for t in txns:
        exp[spec_bucket(t['a'], t['tags'])] += abs(t['a'])
    if any(f[k] != exp[k] for k in KEYS):
        bad.append('one-bucket-decision-table')
    if f['cash_flow'] != f['income_total'] - f['spending_total'] + f['credits_total']:
        bad.append('cash-flow-formula')
    if f['transfers_net'] != f['transfers_in'] - f['transfers_out']:
        bad.append('transfers-net-formula')
    grand = sum(v[2] for v in f['by_merchant'])
    if not (grand == sum(v[3] for v in f['by_category']) == sum(v[1] for v in f['by_month']) == f['total_transactions']):
        bad.append('breakdown-totals-disagree')
    eff = sum(abs(t['a']) if ({x.lower() for x in (t['tags'] or [])} & {'income', 'investment'}) else t['a'] for t in txns)
    if grand != eff:
        bad.append('breakdown-total-not-sum-of-transactions')
    if not (sum(v[1] for v in f['by_merchant']) == sum(v[2] for v in f['by_category']) == f['count'] == len(txns)):
        bad.append('breakdown-counts-disagree')
    if 'perm' in r:
        p = r['perm']
        if any(p.get(k) != f.get(k) for k in f if k != 'inexact'):
            bad.append('order-dependence')
    if 'part1' in r:
        a, b = r['part1'], r['part2']
        if 'error' in a or 'error' in b:
            bad.append('partition-raises')
        else:
            for k in KEYS + ['total', 'count', 'cash_flow', 'transfers_net']:
                if a[k] + b[k] != f[k]:
                    bad.append('partition-dependence:' + k)
                    break

            def merged(x, y, nk):
                d = {}
                for row in x + y:
                    key = tuple(row[:nk])
                    d[key] = [p + q for p, q in zip(d.get(key, [0] * (len(row) - nk)), row[nk:])]
                return sorted(list(k) + v for k, v in d.items())
            if merged(a['by_merchant'], b['by_merchant'], 1) != f['by_merchant'] or \
                    merged(a['by_category'], b['by_category'], 2) != f['by_category'] or \
                    merged(a['by_month'], b['by_month'], 1) != f['by_month']:
                bad.append('partition-dependence:breakdowns')
    if 'plain' in r:
        if any(r['plain'].get(k) != f.get(k) for k in f if k != 'inexact'):
            bad.append('depends-on-data-other-than-tags-and-amount')
    if 'singles' in r:
        for t, s in zip(txns, r['singles']):
            if 'error' in s:
                bad.append('single-raises')
                break
            nz = [k for k in KEYS if s[k] != 0]
            want = [spec_bucket(t['a'], t['tags'])] if t['a'] != 0 else []
            if nz != want or (nz and s[nz[0]] != abs(t['a'])):
                bad.append('single-transaction-bucket')
                break
    return bad


def shrink(case, still_fails):
    txns = list(case['txns'])
    changed = True
    while changed and len(txns) > 1:
        changed = False
        for i in range(len(txns)):
            cand = txns[:i] + txns[i + 1:]
            c2 = {'txns': cand, 'perm': list(reversed(range(len(cand)))), 'split': len(cand) // 2, 'singles': True}
            if still_fails(c2):
                txns, changed = cand, True
                break
    return {'txns': txns, 'perm': list(reversed(range(len(txns)))), 'split': len(txns) // 2, 'singles': True}


IMPL = os.path.join(os.path.dirname(os.path.abspath(__file__)), 'impl_c06.py')


def impl_fails(case):
    r = run_impl(IMPL, {'cases': [case]})['results'][0]
    return bool(oracle(case, r))


# ---- model side -----------------------------------------------------------------------------------
HEADER = '''From Coq Require Import String List Bool ZArith.
From Tally Require Import Lib.Str Lib.NumOps C06.Model C06.Proofs.
Import ListNotations.
Open Scope Z_scope.
Definition sbytes (l : list N) : string := fold_right (fun n s => String (Ascii.ascii_of_N n) s) EmptyString l.
Definition T a tg m c s mo := {| amount := a; tags := tg; merchant := m; category := c; subcategory := s; month := mo |}.
Definition zz_eqb (a b : Z * Z) := (Z.eqb (fst a) (fst b) && Z.eqb (snd a) (snd b))%bool.
Fixpoint list_eqb (a b : list Z) : bool :=
  match a, b with [], [] => true | x :: r, y :: s => (Z.eqb x y && list_eqb r s)%bool | _, _ => false end.
Definition ok (c : list txn * list Z * list (string * (Z * Z)) * list ((string * string) * (Z * Z)) * list (string * Z)) : bool :=
  let '(l, sc, bm, bc, bmo) := c in
  let s := analyze l in
  (list_eqb (scalars s) sc
   && Nat.eqb (length (by_merchant s)) (length bm) && forallb (fun e => zz_eqb (look String.eqb (fst e) (by_merchant s)) (snd e)) bm
   && Nat.eqb (length (by_category s)) (length bc) && forallb (fun e => zz_eqb (look pair_eqb (fst e) (by_category s)) (snd e)) bc
   && Nat.eqb (length (by_month s)) (length bmo) && forallb (fun e => Z.eqb (snd (look String.eqb (fst e) (by_month s))) (snd e)) bmo)%bool.
Fixpoint failing (i : nat) (l : list _) : list nat :=
  match l with [] => [] | c :: r => if ok c then failing (S i) r else i :: failing (S i) r end.
'''


def z(n):
    return f'({n})' if n < 0 else str(n)


def coq_case(case, f):
    ts = []
    for t in case['txns']:
        tg = 'None' if t['tags'] is None else 'Some [' + '; '.join(coq_str(x) for x in t['tags']) + ']'
        ts.append(f"T {z(t['a'])} ({tg}) {coq_str(t['m'])} {coq_str(t['c'])} {coq_str(t['s'])} {coq_str(t['d'][:7])}")
    sc = [f[k] for k in ['income_total', 'investment_total', 'spending_total', 'credits_total', 'transfers_in',
                         'transfers_out', 'total']] + [f['count'], f['cash_flow'], f['transfers_net']]
    bm = '; '.join(f'({coq_str(k)}, ({c}, {z(t)}))' for k, c, t in f['by_merchant'])
    bc = '; '.join(f'(({coq_str(a)}, {coq_str(b)}), ({c}, {z(t)}))' for a, b, c, t in f['by_category'])
    bmo = '; '.join(f'({coq_str(k)}, {z(t)})' for k, t in f['by_month'])
    return (f"([{'; '.join(ts)}], [{'; '.join(z(x) for x in sc)}], [{bm}], [{bc}], [{bmo}])")


def model_check(cases, results, name='C06'):
    rows, idx = [], []
    for i, (c, r) in enumerate(zip(cases, results)):
        f = r['full']
        if 'error' in f or f.get('inexact') or any(v is None for v in f.values()):
            continue
        rows.append(coq_case(c, f))
        idx.append(i)
    bad = []
    CH = 400
    from concurrent.futures import ThreadPoolExecutor

    def one(off):
        body = 'Definition cases := [\n' + ';\n'.join(rows[off:off + CH]) + '\n].\nEval vm_compute in failing 0 cases.\n'
        return off, run_cases(f'{name}_{off // CH}', HEADER, body)
    with ThreadPoolExecutor(max_workers=4) as ex:
        for off, (rc, out, err) in ex.map(one, range(0, len(rows), CH)):
            m = re.search(r'=\s*\[(.*?)\]\s*:\s*list nat', out, re.S)
            if rc != 0 or not m:
                return None, idx, (out + err)[-800:]
            bad += [idx[off + int(x)] for x in m.group(1).replace('%nat', '').replace('\n', ' ').split(';') if x.strip()]
    return bad, idx, ''


def main(tier):
    run = Run('C06', tier)
    run.assumptions = [
        'money is modelled in exact integer ticks (1/64): binary floating-point rounding of sums is outside the model; '
        'generated amounts are dyadic so every implementation figure is exact and compared exactly',
        'tools/py2coq.py renders classification.py faithfully (validated through the correspondence)',
        'str.lower is modelled for ASCII; tags in generated cases are ASCII',
        'the accumulation pass of analyze_transactions is modelled by hand (C06/Model.v) and tied by correspondence']
    tfails = [f for f in c13.translate_classification(run) if f['translator'] == 'py2coq']
    res = run.proof_step(COQ_FILES, extra_trusted=[
        'tools/py2coq.py (translator, fail closed)', 'harness/c06.py + harness/impl_c06.py (correspondence, oracle)'])
    broken = []
    if tfails:
        run.cov['discharged'] = 0   # the compiled theorems are about a stale translation, not the current source
        broken.append({'kind': 'translation-failure', 'detail': tfails})
    elif not res['ok']:
        broken.append({'kind': 'broken-obligation', 'detail': first_error(res['log'])})
    if res['hygiene']:
        broken.append({'kind': 'hygiene', 'detail': res['hygiene']})

    n = 600 if tier == 'quick' else 20000
    cases = gen_cases(run.seed, n)
    results = run_impl(IMPL, {'cases': cases}, timeout=3000)['results']
    failing = []
    for c, r in zip(cases, results):
        laws = oracle(c, r)
        if laws:
            failing.append((c, laws))
    if failing:
        c, laws = min(failing, key=lambda x: len(x[0]['txns']))
        small = shrink(c, impl_fails)
        r = run_impl(IMPL, {'cases': [small]})['results'][0]
        run.violation('law', {'kind': 'counterexample', 'case': small, 'laws_failing': oracle(small, r), 'observed': r,
                              'expected': 'C06 laws (conservation, decision table, breakdown sums, order/partition independence)',
                              'obligation': 'c06_* on the implementation', 'broken': broken, 'n_failing_cases': len(failing),
                              'shrunk_from': len(c['txns'])})
    model_idx = []
    if not tfails and res['ok']:
        mc = cases if tier == 'thorough' else cases[:1 + 4 + 12 + 25 + 48 + 360 + 400]
        bad, model_idx, err = model_check(mc, results[:len(mc)])
        if bad is None:
            broken.append({'kind': 'broken-correspondence', 'obligation': 'model_vs_impl(C06.Model.analyze, analyze_transactions)',
                           'detail': 'cases.v did not evaluate: ' + err})
        elif bad:
            broken.append({'kind': 'broken-correspondence', 'obligation': 'model_vs_impl(C06.Model.analyze, analyze_transactions)',
                           'detail': {'case': cases[bad[0]], 'implementation': results[bad[0]]['full'], 'n': len(bad)}})
    if broken and not failing:
        run.violation('broken', {'kind': broken[0]['kind'], 'obligation': broken[0].get('obligation') or
                                 (broken[0]['detail'].get('obligation') if isinstance(broken[0]['detail'], dict) else None),
                                 'broken': broken, 'searched': f'{len(cases)} generated lists against the C06 laws, none fails'},
                      found_input=False)
    nontrivial = set()
    hist = {}
    for c, r in zip(cases, results):
        f = r['full']
        if 'error' in f:
            continue
        nb = sum(1 for k in KEYS if f[k])
        hist[nb] = hist.get(nb, 0) + 1
        if nb >= 3:
            nontrivial.add(json.dumps(c['txns'], sort_keys=True))
    run.cov.update({'evaluations': len(cases) + len(model_idx), 'distinct_nontrivial': len(nontrivial),
                    'rule': 'transaction lists of 1-30 dyadic amounts with random special/ordinary tags in random letter case, '
                            'missing tags, colliding merchants/categories/months; each with a permutation and a partition; plus all '
                            'tag-subset x sign singletons; non-trivial = distinct lists hitting >= 3 buckets',
                    'samples': [cases[5], cases[-1]],
                    'buckets_hit_histogram': hist, 'impl_law_cases': len(cases), 'model_vs_impl_cases_in_coq': len(model_idx),
                    'translation_failures': tfails})
    run.finish()


def replay(path):
    obj = json.load(open(path))
    if obj.get('kind') != 'counterexample':
        main('quick')
    r = run_impl(IMPL, {'cases': [obj['case']]})['results'][0]
    laws = oracle(obj['case'], r)
    print(json.dumps({'laws_failing': laws, 'observed': r['full']}, indent=1))
    if laws:
        print(f'VIOLATION property=C06 replay={path}')
        return 1
    return 0
