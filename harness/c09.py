"""C09 — most_specific mode picks the most specific matching rule, whatever the order.

Proof: C09/Props.v over Engine/Model.v with calculate_specificity TRANSLATED from the source each run
       (Gen/C09Specificity.v); c09_lex_order ties the translated function to the tuple the property names.
Tie:   model vs MerchantEngine.match(most_specific) / normalize_merchant inside Coq, oracle tables from the
       implementation's evaluator (impl_engine.py).
Search (direct oracles, implementation outputs only; the ranking tuple is RE-STATED in the harness, not taken from the code):
  tuple        calculate_specificity(rule) != (priority, #pattern conditions, #constraint kinds, pattern text length)
  lexmax       the category winner is not a matching categorizing rule with the lexicographically greatest tuple,
               or a rule with an equal tuple stands before it; same for the subcategory among matching rules that set one
  normalize    normalize_merchant(...) in most_specific mode (rules loaded with get_all_rules(path, match_mode='most_specific'))
               does not return that category / that subcategory
  permutation  category / subcategory change under a permutation of the file although no two candidates tie
  tags         tags differ from the union over all matching rules / change under a permutation
               (constraint kinds = the kinds of amount/date/source/field identifiers the rule USES; deviations explained by the
               code counting keyword SUBSTRINGS of the expression text carry the known-finding signatures below)
"""
import itertools
import json
import random
import re

from engine_common import *

COQ_FILES = ENGINE_COQ + ['C09/Proofs.v', 'C09/Props.v']
SIG_QUOTED = 'C09/constraint-keyword-counted-inside-pattern-text'
SIG_WEEKDAY = 'C09/weekday-counted-as-two-constraint-kinds'


def regen_gen():
    return regen_engine_gen()


# ---------------------------------------------------------------------------------------------------
# generator aimed at competition: many rules match the same description and differ in one tuple component
CONSTRAINTS = ['amount > -100000', 'amount < 100000', 'year >= 2024', 'month >= 1', 'day >= 1', 'weekday >= 0', 'source != "zzz"',
               'date >= "2020-01-01"', 'field.memo != "zzz"', 'abs(amount) >= 0']


def gen_c09_file(rnd):
    D = rnd.sample(WORDS, rnd.choice([2, 3]))
    if rnd.random() < 0.25:        # pattern text containing the OTHER quote character
        D[rnd.randrange(len(D))] = rnd.choice(["JOE'S", "MCDONALD'S", 'SIZE"L', "O'HARE"])
    # a quarter of the files rank entirely at or below zero (low-priority catch-alls)
    prios = [-10, -5, -1, -1, 0] if rnd.random() < 0.25 else [None, None, None, 50, 60, 40, 0, -5]
    rules = []
    qof = lambda w: '"' if "'" in w else ("'" if '"' in w else rnd.choice(['"', '"', '"', "'"]))     # a quote the word does not contain
    for i in range(rnd.choice([2, 3, 3, 4, 4, 5, 6, 8])):
        atoms = []
        for _ in range(rnd.choice([1, 1, 2, 3])):
            w = rnd.choice(D)
            k = rnd.random()
            q = qof(w)
            if k < 0.4:
                atoms.append(f'contains({q}{w}{q})')
            elif k < 0.55:
                atoms.append(f'contains({q}{w[:rnd.choice([2, 3])]}{q})')
            elif k < 0.7:
                atoms.append(f'regex({q}{w}{q})')
            elif k < 0.8:
                atoms.append(f'anyof({q}{w}{q}, {q}ZZZ{q})')
            elif k < 0.9:
                atoms.append(f'normalized({q}{w}{q})')
            else:
                atoms.append(rnd.choice([f'{q}{w}{q} in description', 'startswith({0}{1}{0})'.format(qof(D[0]), D[0]), gen_atom(rnd, [])]))
        if rnd.random() < 0.15:          # function names are case-insensitive in the expression language
            style = rnd.choice([str.upper, str.title])
            atoms = [re.sub(r'^(contains|regex|normalized|startswith|anyof)\(', lambda m: style(m.group(1)) + '(', a) for a in atoms]
        atoms += rnd.sample(CONSTRAINTS, rnd.choice([0, 0, 1, 1, 2]))
        r = {'name': f'R{i}', 'match': ' and '.join(atoms), 'category': '', 'subcategory': '', 'merchant': '', 'tags': gen_tags(rnd),
             'priority': rnd.choice(prios), 'lets': [], 'fields': []}
        if rnd.random() < 0.75:
            r['category'] = rnd.choice(CATS) + str(i)
        if rnd.random() < 0.5:
            r['subcategory'] = rnd.choice(SUBS) + str(i)
        if rnd.random() < 0.2:
            r['merchant'] = f'Mer{i}'
        if rules and rnd.random() < 0.25:       # several blocks under one [Name] (same or different category)
            r['name'] = rnd.choice(rules)['name']
        if rules and rnd.random() < 0.25:       # an exact tie: same expression text and priority as an earlier rule
            src = rnd.choice(rules)
            r['match'], r['priority'] = src['match'], src['priority']
        if not r['category'] and not r['tags']:
            r['tags'] = ['t' + str(i)]
        rules.append(r)
    return respell_priorities(rnd, {'vars': [], 'tfs': [], 'rules': rules}), D


def gen_cases(seed, tier):
    rnd = random.Random(seed * 104729 + 9)
    n = 300 if tier == 'quick' else 2500
    cases = []
    for i in range(n):
        if i % 3 == 2:
            f = gen_rules_file(rnd, tag_only_p=0.3, tf_p=0.1)
            ws = file_words(render_rules(f))
            txns = [gen_txn(rnd, ws) for _ in range(3)]
        else:
            f, D = gen_c09_file(rnd)
            txns = []
            for _ in range(3):
                t = gen_txn(rnd, D)
                t['d'] = ' '.join(rnd.sample(D, len(D))) + rnd.choice(['', ' 1234', ' #9'])
                txns.append(t)
        cases.append({'kind': 'rules', 'file': f, 'txns': txns})
    # corpus: pattern text containing the other quote character, with a competitor tied on (priority, patterns, kinds) whose
    # length lies between the length up to the quote and the full length; both quote styles; every order
    blk = lambda n, m, c, s_='', tags=None, prio=None: {'name': n, 'match': m, 'category': c, 'subcategory': s_, 'merchant': '',
                                                         'tags': tags or [], 'priority': prio, 'lets': [], 'fields': []}
    tx = lambda d: {'d': d, 'a': 31334, 'date': '2025-01-15', 'field': None, 'source': 'Amex', 'location': None}
    for a, b, d in (('contains("MCDONALD\'S")', 'contains("SEATTLE W")', "MCDONALD'S F12345 SEATTLE WA"),
                    ("contains('SIZE\"L TEE')", "contains('SHOP 12')", 'SIZE"L TEE SHOP 123'),
                    ('regex("TRADER JOE\'S") and amount > 5', 'regex("TRADER J.*#") and amount > 5', "TRADER JOE'S #552"),
                    ('contains("O\'HARE") and contains("ORD")', 'contains("AIRPORT") and contains("OR")', "O'HARE AIRPORT ORD")):
        for order in ((0, 1), (1, 0)):
            rs = [blk('Quoted', a, 'Food', 'Fast Food'), blk('Generic', b, 'Travel', 'Misc')]
            cases.append({'kind': 'rules', 'file': {'vars': [], 'tfs': [], 'rules': [rs[i] for i in order]}, 'txns': [tx(d)]})
    # corpus: several blocks under one [Name]; the more specific one later / earlier; same and different categories; a
    # same-named tag-only block in between
    for names in (('Costco', 'Big Spend', 'Costco'), ('Costco', 'Costco', 'Costco'), ('A', 'Costco', 'Costco')):
        for cats in (('Shopping', 'Transport'), ('Shopping', 'Shopping')):
            rs = [blk(names[0], 'contains("COSTCO")', cats[0], 'Warehouse', ['bulk']),
                  blk(names[1], 'amount > 40', '', '', ['large']),
                  blk(names[2], 'contains("COSTCO") and contains("GAS")', cats[1], 'Fuel', ['car'])]
            for order in ((0, 1, 2), (2, 1, 0), (1, 0, 2)):
                cases.append({'kind': 'rules', 'file': {'vars': [], 'tfs': [], 'rules': [rs[i] for i in order]},
                              'txns': [tx('COSTCO GAS #0123 KIRKLAND')]})
    # corpus: an explicit `priority: 0` (and other boundary values) is a priority, not "none given": the 0 rule would win
    # on the later keys but must lose to any positive / default priority, and must beat negative ones
    for pz, po, want_zero_wins in ((0, None, False), (0, 1, False), (0, 50, False), (0, -1, True), (1, 0, True)):
        for order in ((0, 1), (1, 0)):
            rs = [blk('Zero', 'contains("UBER") and contains("EATS") and amount > 0', 'Food', 'Delivery', prio=pz),
                  blk('Other', 'contains("UBER")', 'Transport', 'Rideshare', prio=po)]
            cases.append({'kind': 'rules', 'file': {'vars': [], 'tfs': [], 'rules': [rs[i] for i in order]}, 'txns': [tx('UBER EATS ORDER')]})
    # corpus: pattern text whose lower-cased form has another length (U+0130 lower-cases to two code points): the length
    # that ranks is that of the text as written; competitor tied on the first three components with equal / one longer length
    for a, b, d in (('contains("\u0130STANBUL")', 'contains("TANBUL M")', '\u0130STANBUL M\u0130GROS'),
                    ('contains("M\u0130GROS \u0130Z")', 'contains("\u0130ZM\u0130R 1")', 'M\u0130GROS \u0130ZM\u0130R 1'),
                    ('contains("B\u0130M")', 'contains("MARKET")', 'B\u0130M MARKET')):
        for order in ((0, 1), (1, 0)):
            rs = [blk('Dotted', a, 'Groceries', 'Market'), blk('Plain', b, 'Travel', 'Misc')]
            cases.append({'kind': 'rules', 'file': {'vars': [], 'tfs': [], 'rules': [rs[i] for i in order]}, 'txns': [tx(d)]})
    # corpus: pattern functions spelled in upper / mixed case count as pattern conditions like lower-case ones
    for a, b, d in (('CONTAINS("UBER") and Contains("EATS")', 'contains("UBER EATS O")', 'UBER EATS ORDER'),
                    ('REGEX("COSTCO") and amount > 200', 'contains("COSTCO")', 'COSTCO WHSE 123'),
                    ('AnyOf("UBER", "LYFT") and STARTSWITH("UBER")', 'normalized("UBEREATSORDER77")', 'UBER EATS ORDER 77'),
                    ('Normalized("UBEREATS") and FUZZY("UBER EATS")', 'contains("UBER EATS ORDER 7")', 'UBER EATS ORDER 77')):
        for order in ((0, 1), (1, 0)):
            rs = [blk('Mixed Case', a, 'Food', 'Delivery'), blk('Lower', b, 'Transport', 'Rideshare')]
            cases.append({'kind': 'rules', 'file': {'vars': [], 'tfs': [], 'rules': [rs[i] for i in order]}, 'txns': [tx(d)]})
    # corpus: every matching rule ranks at or below zero (negative priorities, the all-zero tuple), for category, subcategory
    # and merchant separately, every order of the first two
    for order in ((0, 1, 2), (1, 0, 2)):
        rs = [blk('Small misc', 'amount < 20000', 'Misc', 'Small', prio=-10), blk('Kiosk', 'contains("KIOSK")', 'Snacks', 'Vending', prio=-5),
              blk('Coffee', 'contains("STARBUCKS")', 'Food', 'Coffee')]
        cases.append({'kind': 'rules', 'file': {'vars': [], 'tfs': [], 'rules': [rs[i] for i in order]},
                      'txns': [tx('CORNER KIOSK 44'), tx('PARKING METER')]})
        rs = [blk('Zero', 'true', 'Catchall', '', prio=0), blk('Zero too', 'is_any', 'Other', 'Sub', prio=0),
              blk('Tag neg', 'contains("KIOSK")', '', 'Negsub', ['t'], prio=-3)]
        cases.append({'kind': 'rules', 'file': {'vars': [('is_any', 'true')], 'tfs': [], 'rules': [rs[i] for i in order]},
                      'txns': [tx('CORNER KIOSK 44'), tx('PARKING METER')]})
    # corpus: the SAME expression text under different priorities (the ranking is per rule, not per expression), every order
    for pa, pb in ((None, 60), (60, None), (40, 50), (50, 40)):
        cases.append({'kind': 'rules', 'file': {'vars': [], 'tfs': [], 'rules': [
            blk('First', 'contains("COSTCO")', 'Shopping', 'Warehouse', ['a'], pa), blk('Second', 'contains("COSTCO")', 'Bulk', 'Club', ['b'], pb),
            blk('Third', 'contains("COSTCO") and amount > 0', 'Other', '', [], 10)]}, 'txns': [tx('COSTCO GAS #0123 KIRKLAND')]})
    return cases, rnd


# ---------------------------------------------------------------------------------------------------
def as_written(jr, c):
    """(match text, priority) of every rule AS WRITTEN in the generated file (no `priority:` line = 50), not as loaded:
    the ranking the property speaks of is that of the file the user wrote."""
    fr = (c or {}).get('file', {}).get('rules')
    if fr is not None and len(fr) == len(jr['rules']):
        return [(r['match'].strip(), 50 if r['priority'] is None else r['priority']) for r in fr]
    return [(r['match'], r['priority']) for r in jr['rules']]


def tuples(jr, c=None):
    """The ranking tuple as the property words it (constraint kinds = kinds the rule USES)."""
    return [tuple(spec_semantic(m, p)) for m, p in as_written(jr, c)]


def tuples_textual(jr, c=None):
    """The code's reading: constraint kinds = keyword substrings of the expression text."""
    return [tuple(spec_independent(m, p)) for m, p in as_written(jr, c)]


def kinds_signature(jr, idxs, tup, txt):
    """Known-finding signature when a deviation is explained by substring counting of constraint keywords."""
    culprits = [i for i in idxs if tup[i] != txt[i]]
    if not culprits:
        return None, culprits
    bare = lambda m: re.sub(r"'[^']*'", "''", re.sub(r'"[^"]*"', '""', m))
    quoted = [i for i in culprits if spec_independent(bare(jr['rules'][i]['match']), 0)[2] != txt[i][2]]
    if quoted:
        return SIG_QUOTED, culprits
    if any('weekday' in jr['rules'][i]['match'].lower() for i in culprits):
        return SIG_WEEKDAY, culprits
    return None, culprits


def first_max_index(idxs, tup):
    """Index (in file order) of the first rule among idxs whose tuple is maximal."""
    best = None
    for i in idxs:
        if best is None or tup[i] > tup[best]:
            best = i
    return best


def cands(jr, tr):
    cond = tr['oracle']['cond']
    m = [r['id'] for r, c in zip(jr['rules'], cond) if c == 'T']
    return ([i for i in m if jr['rules'][i]['category']], [i for i in m if jr['rules'][i]['subcategory']], m)


def judge_base(c, jr, ti):
    tr = jr['txns'][ti]
    out = []
    if 'oracle' not in tr or any_abort(tr):
        return out
    tup, txt = tuples(jr, c), tuples_textual(jr, c)
    ms = tr['ms']
    cat, sub, m = cands(jr, tr)
    for r, a, b in zip(jr['rules'], tup, txt):
        got = tuple(r['spec'])
        if (got[0], got[1], got[3]) != (a[0], a[1], a[3]) or got[2] not in (a[2], b[2]):
            out.append(('tuple', {'why': 'calculate_specificity differs from (priority, pattern conditions, constraint kinds, pattern length)',
                                  'rule': r['name'], 'match': r['match'], 'priority': r['priority'], 'implementation': r['spec'],
                                  'expected': list(a), 'expected_with_substring_counting': list(b)}, None))
            break
    for what, idxs, got, val, key in (('category', cat, ms['matched_rule'], ms['category'], 'category'),
                                      ('subcategory', sub, ms['subcategory_rule'], ms['subcategory'], 'subcategory')):
        ew = first_max_index(idxs, tup)
        if ew is None:
            if val or got is not None or (what == 'category' and ms['matched']):
                out.append(('lexmax', {'why': f'no matching rule sets a {what}, yet one was assigned', 'observed': ms}, None))
            continue
        if got == ew and val == jr['rules'][ew][key] and (what != 'category' or ms['matched']):
            continue
        sig, culprits = (None, [])
        why = f'{what} winner is not the first lexicographic maximum among the matching rules that set a {what}'
        if got in idxs and got == first_max_index(idxs, txt):
            sig, culprits = kinds_signature(jr, idxs, tup, txt)
            why = (f'{what}: winner differs from the most specific rule when constraint kinds are the kinds the rule USES '
                   '(keyword substrings of the expression text are counted instead)')
        elif got in idxs and tup[got] == tup[ew]:
            why = f'{what}: tie between equal tuples did not go to the earlier rule'
        elif got in idxs and tup[got] < tup[ew]:
            why = f'{what} winner ranks below another matching rule that sets a {what}'
        out.append(('lexmax', {'why': why, 'expected_rule': jr['rules'][ew]['name'], 'expected_tuple': list(tup[ew]),
                               'observed_rule': None if got is None else jr['rules'][got]['name'],
                               'observed_tuple': None if got is None else list(tup[got]),
                               'candidates': {jr['rules'][i]['name']: list(tup[i]) for i in idxs},
                               'candidates_with_substring_counting': {jr['rules'][i]['name']: list(txt[i]) for i in idxs if txt[i] != tup[i]},
                               'expressions': {jr['rules'][i]['name']: jr['rules'][i]['match'] for i in culprits}}, sig))
    # the same ranking seen through normalize_merchant (get_all_rules(path, match_mode='most_specific') + cached engine):
    # category of the first lexicographic maximum among matching categorizing rules, subcategory of the highest-ranked
    # matching rule that sets one (which may be a tag-only rule outranking the category winner)
    n = (tr.get('norm') or {}).get('most_specific')
    if n is not None and 'crash' not in n and not out:
        ec, es = first_max_index(cat, tup), first_max_index(sub, tup)
        want = ['Unknown', 'Unknown'] if ec is None else [jr['rules'][ec]['category'], '' if es is None else jr['rules'][es]['subcategory']]
        if [n['c'], n['s']] != want:
            tc, ts = first_max_index(cat, txt), first_max_index(sub, txt)
            want_txt = ['Unknown', 'Unknown'] if tc is None else [jr['rules'][tc]['category'], '' if ts is None else jr['rules'][ts]['subcategory']]
            sig = None
            if [n['c'], n['s']] == want_txt:
                sig = kinds_signature(jr, cat if n['c'] != want[0] else sub, tup, txt)[0]
            out.append(('normalize', {'why': 'normalize_merchant(most_specific): category/subcategory are not those of the most specific matching '
                                             'categorizing rule / the highest-ranked matching rule that sets a subcategory',
                                      'expected [category, subcategory]': want, 'observed': [n['c'], n['s']],
                                      'match() says': [ms['category'], ms['subcategory']],
                                      'subcategory_candidates': {jr['rules'][i]['name']: [jr['rules'][i]['subcategory'], list(tup[i])] for i in sub},
                                      'category_candidates': {jr['rules'][i]['name']: [jr['rules'][i]['category'], list(tup[i])] for i in cat}}, sig))
    exp = expected_tags(jr, tr)
    if set(ms['tags']) - {''} != exp:
        out.append(('tags', {'why': 'most_specific: tags are not the union over all matching rules', 'expected': sorted(exp),
                             'observed': ms['tags']}, None))
    return out


def variants(ci, c, jr, rnd, tier):
    rnd = case_rnd(c)
    n = len(c['file']['rules'])
    if n < 2:
        return []
    if tier == 'thorough' and n <= 4:
        perms = [list(p) for p in itertools.permutations(range(n))][1:]
    else:
        perms = [list(reversed(range(n)))]
        for _ in range(2 if tier == 'quick' else 5):
            p = list(range(n))
            rnd.shuffle(p)
            if p not in perms and p != list(range(n)):
                perms.append(p)
    return [{'ci': ci, 'tag': 'permutation', 'perm': p, 'norm': False,
             'case': {'kind': 'rules', 'file': dict(c['file'], rules=[c['file']['rules'][i] for i in p]), 'txns': c['txns']}} for p in perms]


def judge_variant(c, jr, req, vr):
    out = []
    if 'parse_error' in vr or 'harness_error' in vr:
        return [(0, 'harness', {'why': 'variant did not load', 'detail': vr}, None)]
    tup, txt = tuples(jr, c), tuples_textual(jr, c)
    for ti, (tr, vt) in enumerate(zip(jr['txns'], vr['txns'])):
        if 'oracle' not in tr or any_abort(tr) or 'crash' in vt['ms']:
            continue
        cat, sub, m = cands(jr, tr)
        a, b = tr['ms'], vt['ms']
        # a rule's identity = its name AND its position in the BASE file (names may repeat)
        idb = lambda i: None if i is None else f"{jr['rules'][i]['name']}#{i}"
        idv = lambda i: None if i is None else f"{vr['rules'][i]['name']}#{req['perm'][i]}"
        free = lambda idxs: len({tup[i] for i in idxs}) == len(idxs) and len({txt[i] for i in idxs}) == len(idxs)
        if free(cat) and (a['category'], a['matched'], idb(a['matched_rule'])) != (b['category'], b['matched'], idv(b['matched_rule'])):
            out.append((ti, 'permutation', {'why': 'category changes under a tie-free permutation of the rules', 'perm': req['perm'],
                                            'base': [a['category'], idb(a['matched_rule'])],
                                            'permuted': [b['category'], idv(b['matched_rule'])]}, None))
        if free(sub) and (a['subcategory'], idb(a['subcategory_rule'])) != (b['subcategory'], idv(b['subcategory_rule'])):
            out.append((ti, 'permutation', {'why': 'subcategory changes under a tie-free permutation of the rules', 'perm': req['perm'],
                                            'base': [a['subcategory'], idb(a['subcategory_rule'])],
                                            'permuted': [b['subcategory'], idv(b['subcategory_rule'])]}, None))
        if not free(cat) and a['matched_rule'] is not None and b['matched_rule'] is not None:
            # with ties the winner must be the earliest of the maximal ones IN THE PERMUTED ORDER
            pos = {orig: k for k, orig in enumerate(req['perm'])}
            order = sorted(cat, key=lambda i: pos[i])
            ok_names = {idb(first_max_index(order, t)) for t in (tup, txt)}
            if idv(b['matched_rule']) not in ok_names:
                out.append((ti, 'permutation', {'why': 'after permuting, the tie did not go to the earlier rule of the permuted file',
                                                'perm': req['perm'], 'expected': sorted(ok_names),
                                                'observed': idv(b['matched_rule'])}, None))
        if set(a['tags']) != set(b['tags']):
            out.append((ti, 'tags', {'why': 'tag set changes under a permutation of the rules', 'perm': req['perm'], 'base': a['tags'],
                                     'permuted': b['tags']}, None))
    return out


def evaluate(cases, rnd, tier='quick'):
    base, reqs, vres = run_two_phase(cases, lambda ci, c, jr: variants(ci, c, jr, rnd, tier), oracle=True, norm=True, tag='c09')
    fails = []
    for ci, (c, jr) in enumerate(zip(cases, base)):
        if 'parse_error' in jr or 'harness_error' in jr:
            continue
        for ti in range(len(c['txns'])):
            for name, det, sig in judge_base(c, jr, ti):
                fails.append((ci, ti, name, det, sig))
    for req, vr in zip(reqs, vres):
        for ti, name, det, sig in judge_variant(cases[req['ci']], base[req['ci']], req, vr):
            fails.append((req['ci'], ti, name, det, sig))
    return base, fails, {'permutation': len(reqs)}


def still_fails_factory(txn, name, sig, seed):
    def still(f):
        try:
            _, fails, _ = evaluate([{'kind': 'rules', 'file': f, 'txns': [txn]}], random.Random(seed), 'thorough')
        except Exception:  # noqa
            return False
        return any(x[2] == name and x[4] == sig for x in fails)
    return still


def main(tier):
    run = Run('C09', tier)
    run.assumptions = [
        'the expression evaluator is an ORACLE of the model (theorems hold for every oracle); the correspondence fills its tables '
        'from the implementation\'s own evaluator, rule by rule',
        'calculate_specificity/_extract_pattern_length are translated from the source by tools/engine2coq.py on every run; '
        'str.lower/count/in and the two quote-scanning findall calls are library functions of Engine/StrLib.v (ASCII case mapping)',
        'the MODEL ranks by the translated calculate_specificity (constraint keywords counted as substrings of the expression text); '
        'the direct oracle ranks by the tuple the property words (constraint kinds the rule uses) — the two differ only in the listed findings',
        'rule files are taken as parsed by the implementation; rule_mode plumbing (config_loader) is C11']
    tfails = regen_engine_gen()
    res = run.proof_step(COQ_FILES, extra_trusted=[
        'tools/engine2coq.py (translator, fail closed)', 'harness/engine_common.py, harness/c09.py, harness/impl_engine.py'])
    broken = []
    if tfails:
        broken.append({'kind': 'translation-failure', 'detail': tfails})
    elif not res['ok']:
        broken.append({'kind': 'broken-obligation', 'detail': first_error(res['log'])})
    if res['hygiene']:
        broken.append({'kind': 'hygiene', 'detail': res['hygiene']})

    cases, rnd = gen_cases(run.seed, tier)
    base, fails, vstats = evaluate(cases, rnd, tier)
    for ci, jr in enumerate(base):
        if 'parse_error' in jr or 'harness_error' in jr:
            broken.append({'kind': 'harness', 'detail': {'why': 'generated file did not load', 'result': jr, 'file': cases[ci]['file']}})
            break
    groups = {}
    for fl in fails:
        groups.setdefault((fl[2], fl[4]), []).append(fl)
    found_unlisted = False
    for (name, sig), fl in sorted(groups.items(), key=lambda kv: str(kv[0])):
        ci, ti, _, det, _ = min(fl, key=lambda x: len(json.dumps(cases[x[0]]['file'])))
        c = cases[ci]
        small, case_out = c['file'], c
        still = still_fails_factory(c['txns'][ti], name, sig, run.seed)
        if still(small):
            small = shrink_rules(small, still)
            case_out = {'kind': 'rules', 'file': small, 'txns': [c['txns'][ti]]}
            _, f2, _ = evaluate([case_out], random.Random(run.seed), 'thorough')
            f2 = [x for x in f2 if x[2] == name and x[4] == sig]
            if f2:
                det = f2[0][3]
        obj = {'kind': 'counterexample', 'oracle': name, 'case': case_out,
               'text': render_rules(small), 'detail': det, 'n_failing': len(fl), 'shrunk_from': len(c['file']['rules']),
               'seed': run.seed, 'obligation': 'c09_* on the implementation', 'broken': broken}
        if run.violation(name, obj, signature=sig):
            found_unlisted = True

    n_rows, disc, bad = 0, {}, None
    if not tfails and res['ok']:
        bad, n_rows, disc, err = model_check('C09', cases, base)
        if bad is None:
            broken.append({'kind': 'broken-correspondence', 'obligation': 'model_vs_impl(Engine.Model, MerchantEngine.match)',
                           'detail': 'cases.v did not evaluate: ' + err})
        elif bad:
            ci, ti, codes = bad[0]
            broken.append({'kind': 'broken-correspondence', 'obligation': 'model_vs_impl: ' + ', '.join(PART[k] for k in codes),
                           'detail': {'case': {'kind': 'rules', 'file': cases[ci]['file'], 'txns': [cases[ci]['txns'][ti]]},
                                      'implementation': base[ci]['txns'][ti], 'n_disagreeing': len(bad)}})
    if broken and not found_unlisted:
        run.violation('broken', {'kind': broken[0]['kind'], 'obligation': broken[0].get('obligation') or
                                 (broken[0]['detail'].get('obligation') if isinstance(broken[0]['detail'], dict) else None),
                                 'broken': broken, 'searched': f'{len(cases)} files x 3 transactions + {vstats["permutation"]} permuted files '
                                 'against the C09 oracles; no failing input'}, found_input=False)

    ncat_hist, win_hist, tie_hist, decided_hist, nontrivial, evals, aborted = {}, {}, {}, {}, set(), 0, 0
    for c, jr in zip(cases, base):
        if 'txns' not in jr:
            continue
        tup = tuples(jr, c)
        for t, tr in zip(c['txns'], jr['txns']):
            evals += 1
            if 'oracle' not in tr or any_abort(tr):
                aborted += 1
                continue
            cat, sub, m = cands(jr, tr)
            hist_add(ncat_hist, len(cat))
            hist_add(win_hist, tr['ms']['matched_rule'])
            if len(cat) >= 2:
                ts = sorted((tup[i] for i in cat), reverse=True)
                hist_add(tie_hist, 'top-tie' if ts[0] == ts[1] else 'no-top-tie')
                if ts[0] != ts[1]:
                    k = next(j for j in range(4) if ts[0][j] != ts[1][j])
                    hist_add(decided_hist, ['priority', 'pattern-count', 'constraint-kinds', 'pattern-length'][k])
                if len(set(ts)) >= 2:
                    nontrivial.add(json.dumps([c['file'], t], sort_keys=True))
    run.cov.update({
        'evaluations': evals + vstats['permutation'] * 3 + n_rows, 'distinct_nontrivial': len(nontrivial),
        'rule': 'distinct (rule file, transaction) pairs with >= 2 matching categorizing rules that have different tuples; 2/3 of the files '
                'are built so that most rules match the same description and differ in priority / number of pattern functions / '
                'constraints / pattern length / quote style, 1/3 come from the general C01 generator; every file is also run reversed '
                'and under 2 random permutations (thorough: all permutations up to 4 rules, 6 otherwise)',
        'samples': [{'text': render_rules(cases[0]['file']), 'txn': cases[0]['txns'][0]},
                    {'text': render_rules(cases[2]['file']), 'txn': cases[2]['txns'][0]}],
        'matching_categorizing_rules_histogram': ncat_hist, 'index_of_winning_rule_histogram': win_hist,
        'top_tie_histogram': tie_hist, 'deciding_component_histogram': decided_hist, 'permuted_files': vstats['permutation'],
        'pairs_with_escaping_exception(reported by C01)': aborted,
        'model_vs_impl_cases_in_coq': n_rows, 'model_vs_impl_disagreements': None if bad is None else len(bad), 'discarded': disc,
        'translation_failures': tfails, 'direct_oracle_failures': {f'{k[0]}|{k[1]}': len(v) for k, v in groups.items()}})
    run.finish()


def replay(path):
    obj = json.load(open(path))
    if obj.get('kind') != 'counterexample':
        main('quick')
        return 1
    c = obj['case']
    _, fails, _ = evaluate([c], random.Random(obj.get('seed', 0)), 'thorough' if len(c['txns']) == 1 else 'quick')
    hit = [x for x in fails if x[2] == obj.get('oracle') and x[4] == obj.get('signature')]
    print(json.dumps({'text': render_rules(c['file']), 'txn': c['txns'][0], 'failing_oracles': [[x[2], x[3], x[4]] for x in hit]},
                     indent=1, default=str))
    if hit:
        print(f'VIOLATION property=C09 replay={path}')
        return 1
    return 0
