"""Runs tally's discover suggestion functions, the rules loader and the matcher on generated
descriptions (executed by /venv/bin/python with PYTHONPATH=<tree>/src).

mode 'cases': for each {'d': description, 'neg': bool} compose the suggestion exactly as
cmd_discover's json branch does, load the suggested text with parse_merchants (as is, and with the
CATEGORY/SUBCATEGORY placeholders given real values) and match the very description.
mode 'texts': for each {'text': rules text, 'd': description}: load + match."""
import json
import sys
import warnings

warnings.simplefilter('ignore')

from tally.commands import discover as D          # noqa: E402
from tally.merchant_engine import parse_merchants, MerchantParseError  # noqa: E402


def load_and_match(text, d):
    try:
        eng = parse_merchants(text)
    except MerchantParseError as e:
        return {'load': 'parse-error', 'msg': str(e)[:120], 'matched': None}
    except Exception as e:  # noqa
        return {'load': 'raises:' + type(e).__name__, 'msg': str(e)[:120], 'matched': None}
    try:
        res = eng.match({'description': d, 'amount': 12.5})
    except Exception as e:  # noqa
        return {'load': 'ok', 'nrules': len(eng.rules), 'matched': None, 'match_raises': type(e).__name__ + ': ' + str(e)[:100]}
    mr = getattr(res, 'matched_rule', None)
    return {'load': 'ok', 'nrules': len(eng.rules), 'matched': bool(res.matched), 'category': res.category,
            'matched_expr': getattr(mr, 'match_expr', None)}


def given_category(text):
    out = []
    for line in text.split('\n'):
        if line == 'category: CATEGORY':
            line = 'category: Food'
        elif line == 'subcategory: SUBCATEGORY':
            line = 'subcategory: Coffee'
        out.append(line)
    return '\n'.join(out)


ABSENT = ['QZXJV~NOT~THERE', 'WQ|KJX|ABSENT', 'ZZ9PLURAL']


def existing_rules_with_same_name(name, d, how):
    """A rules text a user may already have: a rule with the very name discover derives for d (possibly in
    another letter case) whose match does not cover d."""
    n2 = {'same': name, 'upper': name.upper(), 'lower': name.lower(), 'swap': name.swapcase()}[how]
    absent = next((a for a in ABSENT if a.upper() not in d.upper()), None)
    if absent is None:
        return None
    return '# rules written earlier\n[%s]\nmatch: contains("%s")\ncategory: Other\nsubcategory: Existing\n' % (n2, absent)


def one(case):
    d = case['d']
    tags = ['refund'] if case.get('neg') else []
    r = {}
    try:
        pattern = D.suggest_pattern(d)
        name = D.suggest_merchant_name(d)
        if hasattr(D, 'suggest_needle'):
            needle = D.suggest_needle(d)
            r['variant'] = 'fixed'
        else:
            needle = pattern
            r['variant'] = 'orig'
        rule = D.suggest_merchants_rule(name, needle, tags=tags)
    except Exception as e:  # noqa
        return {'error': type(e).__name__ + ': ' + str(e)[:200]}
    r.update({'pattern': pattern, 'name': name, 'needle': needle, 'rule': rule})
    r['raw'] = load_and_match(rule, d)
    r['cat'] = load_and_match(given_category(rule), d)
    # the suggestion appended to a rules file that already has a same-named rule not covering d
    ex = existing_rules_with_same_name(name, d, case.get('dup', 'same'))
    if ex is not None:
        text = ex + '\n' + given_category(rule) + '\n'
        r['dup'] = dict(load_and_match(text, d), text=text, existing_alone=load_and_match(ex, d),
                        suggested_expr=rule.split('\n')[1][len('match: '):] if rule.count('\n') >= 1 else None)
    return r


def main():
    payload = json.load(sys.stdin)
    if payload.get('mode') == 'texts':
        res = [load_and_match(t['text'], t['d']) for t in payload['texts']]
    else:
        res = [one(c) for c in payload['cases']]
    json.dump({'results': res, 'variant': 'fixed' if hasattr(D, 'suggest_needle') else 'orig'}, sys.stdout)


main()
