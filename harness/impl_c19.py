"""Runs tally's discover suggestion functions, the rules loader and the matcher on generated
descriptions (executed by /venv/bin/python with PYTHONPATH=<tree>/src).

mode 'cases': for each {'d': description, 'neg': bool} compose the suggestion exactly as
cmd_discover's json branch does, load the suggested text with parse_merchants (as is, and with the
CATEGORY/SUBCATEGORY placeholders given real values) and match the very description.
mode 'texts': for each {'text': rules text, 'd': description}: load + match."""
import json
import sys
import warnings

warnings.simplefilter('ignore')

from tally.commands import discover as D          # noqa: E402
from tally.merchant_engine import parse_merchants, MerchantParseError  # noqa: E402


def load_and_match(text, d):
    try:
        eng = parse_merchants(text)
    except MerchantParseError as e:
        return {'load': 'parse-error', 'msg': str(e)[:120], 'matched': None}
    except Exception as e:  # noqa
        return {'load': 'raises:' + type(e).__name__, 'msg': str(e)[:120], 'matched': None}
    try:
        res = eng.match({'description': d, 'amount': 12.5})
    except Exception as e:  # noqa
        return {'load': 'ok', 'nrules': len(eng.rules), 'matched': None, 'match_raises': type(e).__name__ + ': ' + str(e)[:100]}
    mr = getattr(res, 'matched_rule', None)
    return {'load': 'ok', 'nrules': len(eng.rules), 'matched': bool(res.matched), 'category': res.category,
            'matched_expr': getattr(mr, 'match_expr', None)}


def literal_value(expr):
    """What tally's own expression parser makes of NAME("literal"): the value of the string constant."""
    from tally import expr_parser
    try:
        tree = expr_parser.parse_expression(expr)
        arg = tree.body.args[0]
        return {'value': arg.value} if isinstance(arg.value, str) else {'error': 'not a string constant'}
    except Exception as e:  # noqa
        return {'error': type(e).__name__ + ': ' + str(e)[:100]}


def case_map_sweep():
    """The facts about str.upper that the generic theorem (c19_generic_*) takes as hypotheses, checked on this interpreter
    for every code point: every character of an upper-cased character is itself unchanged by upper() (so any piece of an
    upper-cased text is a fixed point of upper()), upper() works code point by code point, and ''.upper() == ''."""
    bad = []
    if ''.upper() != '':
        bad.append('empty')
    import random
    rnd = random.Random(0)
    specials = []
    for i in range(0x110000):
        if 0xD800 <= i <= 0xDFFF:
            continue
        c = chr(i)
        u = c.upper()
        if u != c:
            specials.append(c)
        if any(x.upper() != x for x in u) and len(bad) < 10:
            bad.append('unstable image: U+%04X' % i)
    ctx = ['', 'a', 'A ', '\u0301', '\u03c3', 'i', '\u0307', ' ']
    for c in specials:
        for a in ctx:
            for b in ctx[:4]:
                if (a + c + b).upper() != a.upper() + c.upper() + b.upper() and len(bad) < 10:
                    bad.append('context-dependent: %r in %r' % (c, a + c + b))
    return {'bad': bad, 'code_points': 0x110000 - 0x800, 'cased': len(specials)}


def given_category(text):
    out = []
    for line in text.split('\n'):
        if line == 'category: CATEGORY':
            line = 'category: Food'
        elif line == 'subcategory: SUBCATEGORY':
            line = 'subcategory: Coffee'
        out.append(line)
    return '\n'.join(out)


ABSENT = ['QZXJV~NOT~THERE', 'WQ|KJX|ABSENT', 'ZZ9PLURAL']


def existing_rules_with_same_name(name, d, how):
    """A rules text a user may already have: a rule with the very name discover derives for d (possibly in
    another letter case) whose match does not cover d."""
    n2 = {'same': name, 'upper': name.upper(), 'lower': name.lower(), 'swap': name.swapcase()}[how]
    absent = next((a for a in ABSENT if a.upper() not in d.upper()), None)
    if absent is None:
        return None
    return '# rules written earlier\n[%s]\nmatch: contains("%s")\ncategory: Other\nsubcategory: Existing\n' % (n2, absent)


def one(case):
    d = case['d']
    tags = ['refund'] if case.get('neg') else []
    r = {}
    try:
        pattern = D.suggest_pattern(d)
        name = D.suggest_merchant_name(d)
        if hasattr(D, 'suggest_needle'):
            needle = D.suggest_needle(d)
            r['variant'] = 'fixed'
        else:
            needle = pattern
            r['variant'] = 'orig'
        rule = D.suggest_merchants_rule(name, needle, tags=tags)
    except Exception as e:  # noqa
        return {'error': type(e).__name__ + ': ' + str(e)[:200]}
    r.update({'pattern': pattern, 'name': name, 'needle': needle, 'rule': rule})
    r['raw'] = load_and_match(rule, d)
    r['cat'] = load_and_match(given_category(rule), d)
    # quoting: the literal discover writes for ANY text (here: the description itself and the needle) must denote that text
    if hasattr(D, 'quote_needle'):
        r['quote_d'] = D.quote_needle(d)
        r['quote_d_value'] = literal_value('contains(' + r['quote_d'] + ')')
        r['needle_literal_value'] = literal_value(rule.split('\n')[1][len('match: '):]) if rule.count('\n') >= 1 else None
    # the suggestion appended to a rules file that already has a same-named rule not covering d
    ex = existing_rules_with_same_name(name, d, case.get('dup', 'same'))
    if ex is not None:
        text = ex + '\n' + given_category(rule) + '\n'
        r['dup'] = dict(load_and_match(text, d), text=text, existing_alone=load_and_match(ex, d),
                        suggested_expr=rule.split('\n')[1][len('match: '):] if rule.count('\n') >= 1 else None)
    return r


def main():
    payload = json.load(sys.stdin)
    if payload.get('mode') == 'sweep':
        json.dump(case_map_sweep(), sys.stdout)
        return
    if payload.get('mode') == 'texts':
        res = [load_and_match(t['text'], t['d']) for t in payload['texts']]
    else:
        res = [one(c) for c in payload['cases']]
    json.dump({'results': res, 'variant': 'fixed' if hasattr(D, 'suggest_needle') else 'orig'}, sys.stdout)


main()
