"""C02 — tags are the union over all matching rules; tag-only rules never categorize.

Proof: C02/Props.v over Engine/Model.v, for all oracles (both modes, cached-engine path and legacy loop).
Tie:   model vs MerchantEngine.match / normalize_merchant inside Coq, oracle tables from the implementation's evaluator.
Search (direct oracles, implementation outputs only):
  union        tag set != union, over the rules whose condition the implementation's evaluator says is true, of their
               tags resolved as the property says (lower-cased, stripped, non-empty; {expr} -> value text, dropped when
               empty / not evaluable) — match() in both modes, normalize_merchant in both modes, legacy loop
  insert       merchant/category/subcategory change after inserting a rule WITHOUT category (more specific than every
               other rule, with and without a subcategory) at any position — both modes, normalize_merchant, legacy rows
  permutation  tag set changes under a permutation of the file
  rows         the tags of a transaction classified after others in one load (normalize_merchant back to back, or as a row of a
               statement through parse_generic_csv: transaction 'tags') differ from its tags when classified alone, or are not
               the union computed for THAT row
(the union oracles take a rule's tags AS WRITTEN by the generator, so the splitting of the `tags:` line is covered too)
"""
import json
import random

from engine_common import *
import c01

COQ_FILES = ENGINE_COQ + ['C01/Proofs.v', 'C09/Proofs.v', 'C02/Proofs.v', 'C02/Props.v']
SIG_F2 = 'C02/most-specific-tag-only-rule-sets-merchant-subcategory'
SIG_BLANK = 'C02/blank-item-of-list-valued-tag-kept'      # status fixed: classified for the report, no longer suppressed
SIG_F1 = 'C02/legacy-csv-pattern-evaluated-as-expression'


def regen_gen():
    return regen_engine_gen()


def gen_cases(seed, tier):
    rnd = random.Random(seed * 15485863 + 2)
    nr, nc = (260, 80) if tier == 'quick' else (5000, 1600)
    cases = []
    for k in range(nr):
        f = gen_rules_file(rnd, nrules=rnd.choice([1, 2, 2, 3, 3, 4, 4, 5, 6, 8]), dup_names_p=0.1)
        ws = file_words(render_rules(f))
        cases.append({'kind': 'rules', 'file': f, 'txns': with_neighbours(rnd, [gen_txn(rnd, ws) for _ in range(2)]),
                      'ds': DS if k % 2 else None})
    for k in range(nc):
        f = gen_csv_file(rnd)
        ws = file_words(render_csv(f))
        cases.append({'kind': 'csv', 'file': f, 'txns': with_neighbours(rnd, [gen_txn(rnd, ws) for _ in range(2)]),
                      'ds': DS if k % 2 else None})
    # corpus 1: static tags containing an apostrophe / a double quote / parentheses, FOLLOWED by further static and dynamic tags
    blk = lambda n, m, c, tags: {'name': n, 'match': m, 'category': c, 'subcategory': '', 'merchant': '', 'tags': tags, 'priority': None,
                                 'lets': [], 'fields': []}
    tx = lambda d, memo, **kw: dict({'d': d, 'a': 51200, 'date': '2025-01-05', 'field': {'memo': memo}, 'source': 'Amex', 'location': None}, **kw)
    for quoted in ("kid's", "O'Hare", 'say "hi', '5" sub', "it's a \"deal", 'fee (atm)', "x (o'clock)", "rock'n'roll"):
        cases.append({'kind': 'rules', 'ds': None, 'file': {'vars': [], 'tfs': [], 'rules': [
            blk('School', 'contains("ACADEMY")', 'Education', [quoted, 'School', '{field.memo}']),
            blk('Tagger', 'contains("ACADEMY")', '', ['first', quoted, '{source}', 'Last'])]},
            'txns': [tx('ACADEMY FEES', 'Wire')]})
    # corpus 1b: dynamic tags whose expression contains braces (regex quantifiers, braces in string literals)
    for dyn in ('{extract(description, "ORDER (\\\\d{4})")}', '{extract("(\\\\d{2,4})")}', '{regex_replace(field.memo, "[a-z]{2,}", "x")}',
                '{lowercase("{A}")}', '{"{big}" if amount > 50 else "small"}', '{ extract(description, "(\\\\d{4})") }'):
        cases.append({'kind': 'rules', 'ds': None, 'file': {'vars': [], 'tfs': [], 'rules': [
            blk('School', 'contains("ACADEMY")', 'Education', ['first', dyn, 'Last']),
            blk('Tagger', 'contains("ORDER")', '', [dyn])]},
            'txns': [tx('ACADEMY ORDER 2025', 'Wire')]})
    # corpus 1c: {field.X} tags over the BUILT-IN pseudo fields (source, location, description, amount, date), next to a captured
    # column of the same kind of name; and top-level variables that are read ONLY from a {..} tag
    for dyn in ('{field.source}', '{field.location}', '{field.description}', '{field.amount}', '{field.date}', '{field.memo}',
                '{ field.Source }', '{field.code}'):
        cases.append({'kind': 'rules', 'ds': None, 'file': {'vars': [], 'tfs': [], 'rules': [
            blk('School', 'contains("ACADEMY")', 'Education', ['first', dyn]), blk('Tagger', 'contains("FEES")', '', [dyn, 'Last'])]},
            'txns': [tx('ACADEMY FEES', 'Wire', location='Seattle, WA'), tx('ACADEMY FEES', '', source=None)]})
    for var, dyn in ((('proj', 'extract(description, "PROJ:(\\\\w+)")'), '{proj}'), (('src', 'lowercase(source)'), '{src + "-card"}'),
                     (('Big', 'amount > 50'), '{"big" if big else "small"}'), (('kind', 'field.memo'), '{kind}')):
        cases.append({'kind': 'rules', 'ds': None, 'file': {'vars': [var, ('used', 'amount > 1')], 'tfs': [], 'rules': [
            blk('School', 'contains("ACADEMY") and used', 'Education', ['first', dyn]), blk('Tagger', 'contains("FEES")', '', [dyn])]},
            'txns': [tx('ACADEMY FEES PROJ:X42', 'Wire')]})
    # corpus 2: statement rows identical in date/description/amount/location that differ only in a captured column, with
    # {field.memo} tags and tag-only rules conditioned on field.memo (.rules and legacy)
    rows = [tx('ACADEMY FEES', 'Wire'), tx('ACADEMY FEES', 'ACH-Batch7'), tx('ACADEMY FEES', 'Check', date='2025-01-06'),
            tx('ACADEMY FEES', 'ACH-Batch9'), tx('ACADEMY FEES', 'Wire'), tx('ACADEMY FEES', 'Wire', location='Seattle, WA')]
    cases.append({'kind': 'rules', 'ds': None, 'file': {'vars': [], 'tfs': [], 'rules': [
        dict(blk('School', 'contains("ACADEMY")', 'Education', ['School']), priority=90),
        blk('Payment kind', 'contains("ACADEMY")', '', ['{field.memo}']),
        blk('Debit', 'startswith(field.memo, "ACH")', '', ['bank-debit', '{extract(field.memo, "ACH-(\\\\w+)")}'])]}, 'txns': rows})
    cases.append({'kind': 'csv', 'ds': None, 'file': {'tfs': [], 'rows': [
        {'pattern': 'ACADEMY', 'merchant': 'School', 'category': 'Education', 'subcategory': '', 'tags': ['School', '{field.memo}']},
        {'pattern': 'ACADEMY', 'merchant': 'Src', 'category': '', 'subcategory': '', 'tags': ['{source}']}]}, 'txns': rows})
    # DESIGN F2 witness
    cases.append({'kind': 'rules', 'file': {'vars': [], 'tfs': [], 'rules': [
        {'name': 'Netflix', 'match': 'contains("NETFLIX")', 'category': 'Subs', 'subcategory': 'Streaming', 'merchant': '', 'tags': [],
         'priority': None, 'lets': [], 'fields': []}]},
        'txns': [{'d': 'NETFLIX.COM 1234', 'a': 8192, 'date': '2025-01-15', 'field': None, 'source': 'Amex', 'location': None}]})
    return cases, rnd


# ---------------------------------------------------------------------------------------------------
def legacy_expected_tags(jr, tr, verdicts, frows=None):
    exp = set()
    src = frows if frows is not None and len(frows) == len(jr['rules']) else jr['rules']     # tags as written in the CSV cell
    for r, v, dyn in zip(src, verdicts, tr['oracle']['dyn']):
        if v:
            exp |= resolved_tags_spec(r, dyn)
    return exp


def judge_base(c, jr, ti):
    tr = jr['txns'][ti]
    out = []
    if 'oracle' not in tr:
        return out
    if c['kind'] == 'rules':
        if any_abort(tr):
            return out
        exp = expected_tags(jr, tr, c['file']['rules'])
        obs = [('match(first_match)', tr['fm']['tags']), ('match(most_specific)', tr['ms']['tags'])]
        for mode, n in (tr.get('norm') or {}).items():
            obs.append((f'normalize_merchant({mode})', (n.get('info') or {}).get('tags', [])))
        for where, tags in obs:
            if set(tags) != exp:
                sig = SIG_BLANK if set(tags) - {''} == exp else None
                out.append(('union', {'why': f'{where}: tag set is not the union of the resolved tags of the matching rules',
                                      'expected': sorted(exp), 'observed': sorted(tags),
                                      'matching_rules': [r['name'] for r, x in zip(jr['rules'], tr['oracle']['cond']) if x == 'T']}, sig))
                break
    else:
        n = tr['norm']
        if 'crash' in n:
            return out
        tags = set((n.get('info') or {}).get('tags', []))
        exp = legacy_expected_tags(jr, tr, legacy_direct(jr, c['txns'][ti], tr), c['file']['rows'])
        if tags != exp:
            v1, _ = c01.legacy_verdicts(jr, tr, c['txns'][ti])
            sig = SIG_F1 if v1 is not None and legacy_expected_tags(jr, tr, v1, c['file']['rows']) == tags else None
            out.append(('union', {'why': 'legacy loop: tag set is not the union of the tags of the rows whose regex matches and modifiers hold',
                                  'expected': sorted(exp), 'observed': sorted(tags),
                                  'matching_rows': [r['pattern'] for r, d in zip(jr['rules'], legacy_direct(jr, c['txns'][ti], tr)) if d]}, sig))
    return out


TAG_ONLY = [
    {'name': 'ZZ Tagger', 'match': 'true', 'category': '', 'subcategory': 'Zed', 'merchant': '', 'tags': ['inserted'], 'priority': 1000,
     'lets': [], 'fields': []},
    {'name': 'ZZ Plain', 'match': 'contains("") and amount == amount', 'category': '', 'subcategory': '', 'merchant': 'ZZ Merchant',
     'tags': ['inserted', '{source}'], 'priority': None, 'lets': [], 'fields': [('note', 'amount')]},
]


def variants(ci, c, jr, rnd, tier):
    reqs = []
    rnd = case_rnd(c)
    f = c['file']
    if c['kind'] == 'rules':
        n = len(f['rules'])
        pos = list(range(n + 1)) if (n <= 4 or tier == 'thorough') else sorted(rnd.sample(range(n + 1), 3))
        for p in pos:
            t = dict(rnd.choice(TAG_ONLY))
            if rnd.random() < 0.3:
                names = [v[0].lower() for v in f['vars'] if v[0] != 'bad']
                t = gen_rule(rnd, 900, names, tag_only_p=1.0)
                t['name'] = 'ZZ Random'
            g = dict(f, rules=f['rules'][:p] + [t] + f['rules'][p:])
            reqs.append({'ci': ci, 'tag': 'insert', 'pos': p, 'inserted': t, 'case': {'kind': 'rules', 'file': g, 'txns': c['txns']}})
        if n >= 2:
            perms = [list(reversed(range(n)))]
            p = list(range(n))
            rnd.shuffle(p)
            if p not in perms and p != list(range(n)):
                perms.append(p)
            for p in perms:
                reqs.append({'ci': ci, 'tag': 'permutation', 'perm': p, 'norm': False,
                             'case': {'kind': 'rules', 'file': dict(f, rules=[f['rules'][i] for i in p]), 'txns': c['txns']}})
    else:
        n = len(f['rows'])
        pos = list(range(n + 1)) if (n <= 3 or tier == 'thorough') else sorted(rnd.sample(range(n + 1), 2))
        for p in pos:
            row = {'pattern': rnd.choice(['.', 'UBER|LYFT|COSTCO|GAS|EATS|HOLIDAY', word(rnd)]), 'merchant': 'ZZ Row', 'category': '',
                   'subcategory': rnd.choice(['Zed', '']), 'tags': ['inserted']}
            g = dict(f, rows=f['rows'][:p] + [row] + f['rows'][p:])
            reqs.append({'ci': ci, 'tag': 'insert', 'pos': p, 'inserted': row, 'case': {'kind': 'csv', 'file': g, 'txns': c['txns']}})
    return reqs


def judge_variant(c, jr, req, vr):
    out = []
    if 'parse_error' in vr or 'harness_error' in vr:
        return [(0, 'harness', {'why': 'variant did not load', 'detail': vr}, None)]
    for ti, (tr, vt) in enumerate(zip(jr['txns'], vr['txns'])):
        if c['kind'] == 'rules':
            if any_abort(tr) or any_abort(vt):
                continue
            if req['tag'] == 'insert':
                ins = req['inserted']
                pairs = [('match', 'first_match', c01.mcs_fm(tr), c01.mcs_fm(vt)),
                         ('match', 'most_specific', [tr['ms'][k] for k in ('matched', 'merchant', 'category', 'subcategory')],
                          [vt['ms'][k] for k in ('matched', 'merchant', 'category', 'subcategory')])]
                for mode in ('first_match', 'most_specific'):
                    pairs.append(('normalize_merchant', mode, [None] + c01.mcs_norm(tr['norm'][mode]), [None] + c01.mcs_norm(vt['norm'][mode])))
                for fn, mode, a, b in pairs:
                    if a != b:
                        sig = None
                        if mode == 'most_specific' and a[0] == b[0] and a[2] == b[2] and \
                                b[1] in (a[1], ins['merchant'] or ins['name']) and b[3] in (a[3], ins['subcategory']):
                            sig = SIG_F2
                        out.append((ti, 'insert', {'why': f'{fn}({mode}): merchant/category/subcategory change after inserting a rule without '
                                                          f'category at position {req["pos"]}', 'inserted_rule': ins,
                                                   'before [matched, m, c, s]': a, 'after': b}, sig))
                        break
            else:
                for k in ('fm', 'ms'):
                    if set(tr[k]['tags']) != set(vt[k]['tags']):
                        out.append((ti, 'permutation', {'why': f'tag set ({k}) changes under a permutation of the rules', 'perm': req['perm'],
                                                        'base': tr[k]['tags'], 'permuted': vt[k]['tags']}, None))
                        break
        else:
            a, b = tr['norm'], vt['norm']
            if 'crash' in a or 'crash' in b:
                continue
            if c01.mcs_norm(a) != c01.mcs_norm(b):
                sig = SIG_F1 if looks_like_expression(req['inserted']['pattern']) else None
                out.append((ti, 'insert', {'why': f'legacy loop: m/c/s change after inserting a row without category at position {req["pos"]}',
                                           'inserted_row': req['inserted'], 'before': c01.mcs_norm(a), 'after': c01.mcs_norm(b)}, sig))
    return out


def evaluate(cases, rnd, tier='quick'):
    base, reqs, vres = run_two_phase(cases, lambda ci, c, jr: variants(ci, c, jr, rnd, tier), oracle=True, norm=True, tag='c02')
    fails = []
    for ci, (c, jr) in enumerate(zip(cases, base)):
        if 'parse_error' in jr or 'harness_error' in jr:
            continue
        for ti in range(len(c['txns'])):
            for name, det, sig in judge_base(c, jr, ti):
                fails.append((ci, ti, name, det, sig))
    for ci, (c, jr) in enumerate(zip(cases, base)):
        if 'parse_error' in jr or 'harness_error' in jr:
            continue
        for ti, mode, what, det in judge_one_load(c, jr):
            if what == 'tags':
                fails.append((ci, 0 if ti is None else ti, 'rows', det, None))
    st = {}
    for req, vr in zip(reqs, vres):
        hist_add(st, req['tag'])
        for ti, name, det, sig in judge_variant(cases[req['ci']], base[req['ci']], req, vr):
            fails.append((req['ci'], ti, name, det, sig))
    return base, fails, st


def still_fails_factory(c, txns, name, sig, seed):
    def still(f):
        try:
            _, fails, _ = evaluate([sub_case(c, f, txns)], random.Random(seed), 'thorough')
        except Exception:  # noqa
            return False
        return any(x[2] == name and x[4] == sig for x in fails)
    return still


def main(tier):
    run = Run('C02', tier)
    run.assumptions = [
        'the expression evaluator is an ORACLE of the model (condition verdicts, values of {expr} tags): theorems hold for every '
        'oracle; the correspondence fills the tables from the implementation\'s own evaluator, rule by rule',
        'tag sets are compared as sets; tag text is ASCII (str.lower/strip modelled for ASCII)',
        'rule files are taken as parsed by the implementation (tag splitting on commas outside parentheses is C17)']
    tfails = regen_engine_gen()
    res = run.proof_step(COQ_FILES, extra_trusted=[
        'tools/engine2coq.py (translator, fail closed)', 'harness/engine_common.py, harness/c02.py, harness/impl_engine.py'])
    broken = []
    if tfails:
        broken.append({'kind': 'translation-failure', 'detail': tfails})
    elif not res['ok']:
        broken.append({'kind': 'broken-obligation', 'detail': first_error(res['log'])})
    if res['hygiene']:
        broken.append({'kind': 'hygiene', 'detail': res['hygiene']})

    cases, rnd = gen_cases(run.seed, tier)
    base, fails, vstats = evaluate(cases, rnd, tier)
    for ci, jr in enumerate(base):
        if 'parse_error' in jr or 'harness_error' in jr:
            broken.append({'kind': 'harness', 'detail': {'why': 'generated file did not load', 'result': jr, 'file': cases[ci]['file']}})
            break
    groups = {}
    for fl in fails:
        groups.setdefault((fl[2], fl[4]), []).append(fl)
    found_unlisted = False
    for (name, sig), fl in sorted(groups.items(), key=lambda kv: str(kv[0])):
        ci, ti, _, det, _ = min(fl, key=lambda x: len(json.dumps(cases[x[0]]['file'])))
        c = cases[ci]
        small, case_out = c['file'], c
        txs = c['txns'] if name == 'rows' else [c['txns'][ti]]       # a statement-row failure needs the earlier rows
        still = still_fails_factory(c, txs, name, sig, run.seed)
        if still(small):
            small = (shrink_rules if c['kind'] == 'rules' else shrink_csv)(small, still)
            i = 0
            while len(txs) > 1 and i < len(txs):
                cand = txs[:i] + txs[i + 1:]
                if still_fails_factory(c, cand, name, sig, run.seed)(small):
                    txs = cand
                else:
                    i += 1
            case_out = sub_case(c, small, txs)
            _, f2, _ = evaluate([case_out], random.Random(run.seed), 'thorough')
            f2 = [x for x in f2 if x[2] == name and x[4] == sig]
            if f2:
                det = f2[0][3]
        obj = {'kind': 'counterexample', 'oracle': name, 'case': case_out,
               'text': render_rules(small) if c['kind'] == 'rules' else render_csv(small), 'detail': det, 'n_failing': len(fl),
               'shrunk_from': len(c['file'].get('rules', c['file'].get('rows', []))), 'seed': run.seed,
               'obligation': 'c02_* on the implementation', 'broken': broken}
        if run.violation(name, obj, signature=sig):
            found_unlisted = True

    n_rows, disc, bad = 0, {}, None
    if not tfails and res['ok']:
        bad, n_rows, disc, err = model_check('C02', cases, base, max_rows=1600 if tier == 'quick' else None)
        if bad is None:
            broken.append({'kind': 'broken-correspondence', 'obligation': 'model_vs_impl(Engine.Model, MerchantEngine.match/normalize_merchant)',
                           'detail': 'cases.v did not evaluate: ' + err})
        elif bad:
            ci, ti, codes = bad[0]
            broken.append({'kind': 'broken-correspondence', 'obligation': 'model_vs_impl: ' + ', '.join(PART[k] for k in codes),
                           'detail': {'case': {'kind': cases[ci]['kind'], 'file': cases[ci]['file'], 'txns': [cases[ci]['txns'][ti]]},
                                      'implementation': base[ci]['txns'][ti], 'n_disagreeing': len(bad)}})
    if broken and not found_unlisted:
        run.violation('broken', {'kind': broken[0]['kind'], 'obligation': broken[0].get('obligation') or
                                 (broken[0]['detail'].get('obligation') if isinstance(broken[0]['detail'], dict) else None),
                                 'broken': broken, 'searched': f'{len(cases)} files x 3 transactions + {sum(vstats.values())} variant files '
                                 'against the C02 oracles; no failing input beyond listed findings'}, found_input=False)

    contrib_hist, dyn_hist, nontrivial, evals, aborted = {}, {}, set(), 0, 0
    for c, jr in zip(cases, base):
        if 'txns' not in jr:
            continue
        for t, tr in zip(c['txns'], jr['txns']):
            evals += 1
            if 'oracle' not in tr:
                continue
            if c['kind'] == 'rules':
                if any_abort(tr):
                    aborted += 1
                    continue
                per = [frozenset(resolved_tags_spec(r, d)) for r, x, d in zip(jr['rules'], tr['oracle']['cond'], tr['oracle']['dyn']) if x == 'T']
                for dl in tr['oracle']['dyn']:
                    for d in dl:
                        k = d[1]
                        if k == 'scalar':
                            k = 'scalar-truthy' if d[2] and d[3].strip() else ('scalar-blank' if d[2] else 'scalar-falsy')
                        hist_add(dyn_hist, k)
            else:
                if 'crash' in tr['norm']:
                    aborted += 1
                    continue
                per = [frozenset(resolved_tags_spec(r, d)) for r, x, d in zip(jr['rules'], legacy_direct(jr, t, tr), tr['oracle']['dyn']) if x]
            per = [p for p in per if p]
            hist_add(contrib_hist, len(per))
            if len(set(per)) >= 2:
                nontrivial.add(json.dumps([c['file'], t], sort_keys=True))
    run.cov.update({
        'evaluations': evals + sum(vstats.values()) * 3 + n_rows, 'distinct_nontrivial': len(nontrivial),
        'rule': 'distinct (rule file, transaction) pairs with >= 2 matching rules contributing different tag sets; .rules files of 1-8 rules '
                '(40% tag-only) with static tags in mixed case and dynamic tags {field.x} {source} {extract(..)} {split(..)} list-valued, '
                'falsy, blank, unevaluable; legacy CSV rows with pipe-separated static/dynamic tags; a tag-only rule (priority 1000, with and '
                'without subcategory / merchant) inserted at every position (<= 4 rules) or 3 positions; reversed and shuffled files',
        'samples': [{'text': render_rules(cases[0]['file']), 'txn': cases[0]['txns'][0]},
                    {'text': render_csv(cases[-2]['file']), 'txn': cases[-2]['txns'][0]}],
        'tag_contributing_rules_histogram': contrib_hist, 'dynamic_tag_outcome_histogram': dyn_hist, 'variant_files': vstats,
        'pairs_with_escaping_exception(reported by C01)': aborted,
        'model_vs_impl_cases_in_coq': n_rows, 'model_vs_impl_disagreements': None if bad is None else len(bad), 'discarded': disc,
        'translation_failures': tfails, 'direct_oracle_failures': {f'{k[0]}|{k[1]}': len(v) for k, v in groups.items()}})
    run.finish()


def replay(path):
    obj = json.load(open(path))
    if obj.get('kind') != 'counterexample':
        main('quick')
        return 1
    c = obj['case']
    _, fails, _ = evaluate([c], random.Random(obj.get('seed', 0)), 'thorough' if len(c['txns']) == 1 else 'quick')
    hit = [x for x in fails if x[2] == obj.get('oracle') and x[4] == obj.get('signature')]
    print(json.dumps({'text': render_rules(c['file']) if c['kind'] == 'rules' else render_csv(c['file']), 'txn': c['txns'][0],
                      'failing_oracles': [[x[2], x[3], x[4]] for x in hit]}, indent=1, default=str))
    if hit:
        print(f'VIOLATION property=C02 replay={path}')
        return 1
    return 0
