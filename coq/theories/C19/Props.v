From Coq Require Import String List Bool.
From Tally Require Import Lib.Str C19.Model C19.Source Gen.C19Patterns C19.Proofs.
Theorem c19_source_is_modelled : source_ok.
Proof. exact source_is_modelled. Qed.
Print Assumptions c19_source_is_modelled.
