(* C19 — every rule that `tally discover` suggests matches the transaction it was suggested for.

   Model: C19/Model.v (hand model of discover.py's suggestion functions, of the part of the rules
   loader and of CPython's string-literal un-escaping a suggestion exercises, and of contains()).
   [observe re v d tags] = what the property observes for description d: the suggested rule text is
   fed to the loader and the resulting rules are matched against d itself:
     ObsLoaded true  — loads and matches;   ObsLoaded false — loads, does not match;
     ObsLoadErr      — the loader rejects the text;   ObsUnm — outside the model (never, for the theorems below).
   v = Fixed is the design /repo has since commit f2d3c2b (literal, verified needle + json quoting);
   v = Orig is the design before that commit (kept below as history).
   regex() is a Section variable (oracle) everywhere: no theorem depends on regex semantics.

   Tie to /repo: Gen/C19Patterns.v (regenerated on every run) must say the source has the repaired design
   and must equal the literal lists of the model and the statement lists in C19/Source.v
   ([c19_source_is_modelled], [c19_source_has_repaired_design]); harness/c19.py compares model and code. *)
From Coq Require Import String List Bool NArith.
From Tally Require Import Lib.Str C19.Model C19.Source Gen.C19Patterns C19.Proofs.
Import ListNotations.
Open Scope string_scope.

(* ======================================================================================= the tie *)
(* the source under test is the one the model was written against (literals + statements) ... *)
Theorem c19_source_is_modelled : source_ok.
Proof. exact source_is_modelled. Qed.
Print Assumptions c19_source_is_modelled.

(* ... and it has the repaired design: a return to the old design breaks this obligation *)
Theorem c19_source_has_repaired_design : C19Src.variant_of_source = Fixed.
Proof. exact source_is_fixed. Qed.
Print Assumptions c19_source_has_repaired_design.

(* ======================================================================================= the property *)
Definition c19_suggestion_loads_statement (v : variant) : Prop :=
  forall (re : string -> string -> option bool) (d : string) (neg : bool),
    exists b, observe re v d (tags_of neg) = ObsLoaded b.
Definition c19_suggestion_matches_statement (v : variant) : Prop :=
  forall (re : string -> string -> option bool) (d : string) (neg : bool),
    observe re v d (tags_of neg) = ObsLoaded true.

(* for EVERY description (all byte strings), with or without the refund tag, the rule text discover
   suggests is accepted by the loader and matches that very description *)
Theorem c19_suggestion_matches : c19_suggestion_matches_statement C19Src.variant_of_source.
Proof. exact matches_source. Qed.
Print Assumptions c19_suggestion_matches.

Theorem c19_suggestion_loads : c19_suggestion_loads_statement C19Src.variant_of_source.
Proof. exact loads_source. Qed.
Print Assumptions c19_suggestion_loads.

Theorem c19_suggestion_matches_fixed : c19_suggestion_matches_statement Fixed.
Proof. exact matches_fixed. Qed.
Print Assumptions c19_suggestion_matches_fixed.

Theorem c19_suggestion_loads_fixed : c19_suggestion_loads_statement Fixed.
Proof. exact loads_fixed. Qed.
Print Assumptions c19_suggestion_loads_fixed.

(* the suggested text loads to exactly one rule, [rule_of d], whose needle the matcher finds in d *)
Theorem c19_suggestion_rule_fixed :
  forall d neg, exists text, suggested_rule Fixed d (tags_of neg) = Some text /\ parse_merchants text = Loaded [rule_of d].
Proof. exact rule_of_loaded. Qed.
Print Assumptions c19_suggestion_rule_fixed.

(* appended (on a new line) to ANY rules text that loads — in particular one that already holds a rule with
   the same name — the suggestion adds exactly its rule after the existing ones: nothing is merged or dropped *)
Theorem c19_suggestion_appended_fixed :
  forall existing rs d neg, parse_merchants existing = Loaded rs ->
    exists text, suggested_rule Fixed d (tags_of neg) = Some text /\
      parse_merchants (existing ++ String LF text) = Loaded (rs ++ [rule_of d]).
Proof. exact appended_fixed. Qed.
Print Assumptions c19_suggestion_appended_fixed.

(* appending the suggestions for the Unknown descriptions ds to any existing rules classifies every one
   of them, so the Unknown list strictly shrinks: the discover-write-rerun loop terminates *)
Theorem c19_unknown_list_shrinks_fixed :
  forall (re : string -> string -> option bool) (existing : list rule) (ds : list string),
    (forall d, In d ds -> matched re existing d = Some false) ->
    (forall d, In d ds -> unknown re (existing ++ map rule_of ds) d = false) /\
    (ds <> [] -> unknown_count re (existing ++ map rule_of ds) ds < unknown_count re existing ds).
Proof. exact unknown_shrinks. Qed.
Print Assumptions c19_unknown_list_shrinks_fixed.

(* ---- the two halves of the repair, each for ALL strings ---- *)
(* the needle discover returns is a contiguous piece of the upper-cased description (so contains() finds it) *)
Theorem c19_needle_is_substring :
  forall d n, suggest_needle d = Some n -> substr n (upper d).
Proof. exact needle_substring. Qed.
Print Assumptions c19_needle_is_substring.

(* quote_needle (json.dumps, ensure_ascii=False): for every string the literal un-escapes (CPython rules) to that
   string, and the whole match expression parses to contains(that string) *)
Theorem c19_quote_roundtrip :
  forall n, (forall rest, unesc UN (cmap json_char n ++ String DQ rest) = UOk n rest) /\
            parse_expr ("contains(" ++ quote_fixed n ++ ")") = POk (ECall "contains" n).
Proof. exact quote_roundtrip. Qed.
Print Assumptions c19_quote_roundtrip.

(* ---- beyond the ASCII case model: the same design for ANY case mapping [up] (Python's Unicode str.upper
   included), ANY cleaning function, ANY word splitter, ANY name function with a loadable header.
   The only facts used: the first word of an upper-cased text, upper-cased again, occurs in that text
   (H_first; for str.upper it follows from "every character of an upper-cased character is a fixed point of
   upper()", swept over all code points on every run) and up "" = "".  Nothing about the regexes, prefixes or
   whitespace classes of clean_description is needed: the run-time check in suggest_needle carries the proof. *)
Theorem c19_generic_needle_matches :
  forall (up : string -> string) (wordsf : string -> list string) (cleanf : string -> string) (take_n : nat),
    (forall s w t, wordsf (up s) = w :: t -> substr (up w) (up s)) -> up "" = "" ->
    forall d, contains_g up (needle_g up wordsf cleanf take_n d) d = true.
Proof. exact needle_generic. Qed.
Print Assumptions c19_generic_needle_matches.

Theorem c19_generic_rule_loads_and_matches :
  forall (up : string -> string) (wordsf : string -> list string) (cleanf namef : string -> string) (take_n : nat),
    (forall s w t, wordsf (up s) = w :: t -> substr (up w) (up s)) -> up "" = "" ->
    (forall d, nm_ok (namef d) = true) ->
    forall d neg,
      parse_merchants (rule_text Fixed (namef d) (needle_g up wordsf cleanf take_n d) (tags_of neg))
        = Loaded [the_rule (namef d) (needle_g up wordsf cleanf take_n d)]
      /\ contains_g up (needle_g up wordsf cleanf take_n d) d = true.
Proof. exact rule_generic. Qed.
Print Assumptions c19_generic_rule_loads_and_matches.

(* the modelled suggest_needle IS the instance up := ASCII upper, wordsf := words, cleanf := the modelled cleaning *)
Theorem c19_model_is_generic_instance :
  forall d, suggest_needle d = Some (needle_g upper words clean_fn pattern_take d).
Proof. exact suggest_needle_is_instance. Qed.
Print Assumptions c19_model_is_generic_instance.

(* ======================================================================================= history
   The design before /repo commit f2d3c2b (v = Orig): suggest_pattern's REGEX text was wrapped in contains(),
   which is a literal substring test. Both full statements were false for it; what did hold is kept as the
   _partial theorems. None of this is claimed of the current tree. *)
Theorem c19_suggestion_matches_refuted : ~ c19_suggestion_matches_statement Orig.
Proof. exact matches_refuted. Qed.
Print Assumptions c19_suggestion_matches_refuted.

Theorem c19_suggestion_loads_refuted : ~ c19_suggestion_loads_statement Orig.
Proof. exact loads_refuted. Qed.
Print Assumptions c19_suggestion_loads_refuted.

(* three ways the old suggestion missed its own description (each loads, none matches): a multi-word
   suggestion (\s* inside contains()), an escaped metacharacter, a store number cut out of a word *)
Theorem c19_orig_failure_witnesses :
  observe no_re Orig "Acme Foo" [] = ObsLoaded false /\
  observe no_re Orig "ACME.COM" [] = ObsLoaded false /\
  observe no_re Orig "STORE #12X" [] = ObsLoaded false.
Proof. exact (conj orig_multiword_fails (conj orig_metachar_fails orig_storeno_fails)). Qed.
Print Assumptions c19_orig_failure_witnesses.

(* old design: no line feed, the store-number substitution (\s+#\d+) did not fire, and the cleaned
   description is one word without regex metacharacters  ==>  the suggestion loaded and matched *)
Theorem c19_suggestion_matches_partial :
  forall (re : string -> string -> option bool) (d : string) (neg : bool),
    plain_guard d = true -> observe re Orig d (tags_of neg) = ObsLoaded true.
Proof. exact matches_partial. Qed.
Print Assumptions c19_suggestion_matches_partial.

(* old design: every suggestion for a description without a NUL byte at least loaded (to one rule) *)
Theorem c19_suggestion_loads_partial :
  forall (re : string -> string -> option bool) (d : string) (neg : bool),
    no_nul d = true -> exists b, observe re Orig d (tags_of neg) = ObsLoaded b.
Proof. exact loads_partial. Qed.
Print Assumptions c19_suggestion_loads_partial.

(* ======================================================================================= non-vacuity *)
Example c19_fixed_examples :
  suggested_rule Fixed "Starbucks Store 12345 Seattle WA" [] =
    Some ("[Starbucks Store]" ++ s1 LF ++ "match: contains(""STARBUCKS STORE"")" ++ s1 LF ++ "category: CATEGORY" ++ s1 LF ++ "subcategory: SUBCATEGORY") /\
  suggest_needle "ACME #12 FOO BAR" = Some "ACME" /\ suggest_needle "STORE #12X" = Some "STORE" /\
  suggest_needle "say ""hi"" a\b" = Some "SAY ""HI"" A\B" /\
  observe no_re Fixed "say ""hi"" a\b" ["refund"] = ObsLoaded true /\
  observe no_re Fixed (String (chr 0) "x y") [] = ObsLoaded true.
Proof. vm_compute. repeat split; reflexivity. Qed.
(* an existing [Amazon] rule that does not cover the description, the same-named suggestion appended *)
Example c19_appended_example :
  let existing := "[AMAZON]" ++ s1 LF ++ "match: contains(""AMZN"")" ++ s1 LF ++ "category: Shopping" ++ s1 LF in
  let d := "AMAZON 00012345 SEATTLE WA" in
  observe_text no_re existing d = ObsLoaded false /\
  match suggested_rule Fixed d [] with
  | Some text => observe_text no_re (existing ++ String LF text) d
  | None => ObsUnm
  end = ObsLoaded true /\
  name (rule_of d) = "Amazon".
Proof. vm_compute. repeat split; reflexivity. Qed.
(* the hypotheses of the generic theorems hold for the ASCII instance (and the conclusion is the concrete one) *)
Example c19_generic_hypotheses_satisfiable :
  (forall s w t, words (upper s) = w :: t -> substr (upper w) (upper s)) /\ upper "" = "" /\
  (forall d, nm_ok (odflt (suggest_merchant_name d)) = true) /\
  needle_g upper words clean_fn pattern_take "Maxi #12 Markt 12345 Koeln DE" = "MAXI" /\
  suggest_needle "STORE #12X" = Some "STORE" /\ quote_fixed ("a""b\" ++ s1 LF) = """a\""b\\\n""".
Proof. split; [exact ascii_first|]. split; [reflexivity|]. split; [exact ascii_name_ok|]. vm_compute. repeat split; reflexivity. Qed.
Example c19_shrinks_hypothesis_satisfiable :
  let existing := [ {| name := "Netflix"; mexpr := ECall "contains" "NETFLIX"; category := "Fun" |} ] in
  matched no_re existing "Acme Foo" = Some false /\ matched no_re existing "ACME.COM" = Some false /\
  unknown_count no_re existing ["Acme Foo"; "ACME.COM"; "netflix 1234"] = 2 /\
  unknown_count no_re (existing ++ map rule_of ["Acme Foo"; "ACME.COM"]) ["Acme Foo"; "ACME.COM"; "netflix 1234"] = 0.
Proof. vm_compute. repeat split; reflexivity. Qed.
Example c19_old_guard_satisfiable :
  plain_guard "Netflix.com 12345 SEATTLE WA" = false /\ plain_guard "NETFLIX 12345 SEATTLE WA" = true /\
  plain_guard "sq *Bakery 98101" = true /\ plain_guard "Acme Foo" = false /\ plain_guard "STORE #12X" = false /\
  suggest_pattern "sq *Bakery 98101" = Some "BAKERY" /\ no_nul "Say ""hi"" (a\b) $5.00 *" = true /\
  observe no_re Orig "Say ""hi"" (a\b) $5.00 *" ["refund"] = ObsLoaded false.
Proof. vm_compute. repeat split; reflexivity. Qed.
