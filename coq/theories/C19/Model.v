(* C19/Model.v — character-level model of `tally discover`'s rule suggestion
   (commands/discover.py: suggest_pattern, suggest_merchant_name, suggest_merchants_rule; for the
   repaired design also clean_description, suggest_needle, quote_needle), of the part of the rules
   loader a suggestion exercises (merchant_engine.MerchantEngine.parse/_add_rule), of the string
   literal un-escaping CPython applies to `contains("...")`, and of the matcher
   (expr_parser._fn_contains: `pattern.upper() in text.upper()` — a LITERAL substring test).

   Strings are byte strings (UTF-8); case mapping / whitespace / digits are modelled for ASCII and
   bytes >= 128 are caseless non-space non-digit characters (the generators stay inside that).

   Every `re.sub` literal of the source is looked up in a table of hand-written scanners
   ([scanner_of]); a literal that is not in the table makes the model answer [None] (fail closed).
   The literal lists below are compared with the lists regenerated from the source
   (Gen/C19Patterns.v) in Proofs.v ([source_is_modelled]). No proofs in this file. *)
From Coq Require Import String Ascii List Bool NArith Arith.
From Tally Require Import Lib.Str.
Import ListNotations.
Open Scope string_scope.

(* ------------------------------------------------------------------ characters *)
Definition cn (c : ascii) : N := N_of_ascii c.
Definition in_range (lo hi : N) (c : ascii) : bool := (N.leb lo (cn c) && N.leb (cn c) hi)%bool.
Definition is_ws (c : ascii) : bool := (in_range 9 13 c || in_range 28 32 c)%bool.   (* str.isspace / \s, ASCII *)
Definition is_digit (c : ascii) : bool := in_range 48 57 c.
Definition is_AZ (c : ascii) : bool := in_range 65 90 c.
Definition is_az (c : ascii) : bool := in_range 97 122 c.
Definition is_alpha (c : ascii) : bool := (is_AZ c || is_az c)%bool.
Definition is_lf (c : ascii) : bool := N.eqb (cn c) 10.
Definition chr (n : N) : ascii := ascii_of_N n.
Definition LF : ascii := chr 10.
Definition BSL : ascii := chr 92.   (* backslash *)
Definition DQ : ascii := chr 34.    (* double quote *)
Definition ceq (a b : ascii) : bool := N.eqb (cn a) (cn b).
Definition s1 (c : ascii) : string := String c "".

(* regex metacharacters escaped by suggest_pattern: the class [.*+?^${}()|[\]\\] *)
Definition is_meta (c : ascii) : bool :=
  existsb (N.eqb (cn c)) [46; 42; 43; 63; 94; 36; 123; 125; 40; 41; 124; 91; 93; 92]%N.

(* ------------------------------------------------------------------ string helpers *)
Fixpoint span (p : ascii -> bool) (s : string) : nat :=
  match s with String c r => if p c then S (span p r) else 0 | "" => 0 end.
Fixpoint drop (n : nat) (s : string) : string :=
  match n, s with S k, String _ r => drop k r | _, _ => s end.
Fixpoint take (n : nat) (s : string) : string :=
  match n, s with S k, String c r => String c (take k r) | _, _ => "" end.
Fixpoint prefixb (a b : string) : bool :=
  match a, b with
  | "", _ => true
  | String x r, String y t => (ceq x y && prefixb r t)%bool
  | _, _ => false
  end.
(* Python `a in b` *)
Fixpoint substrb (a b : string) : bool :=
  (prefixb a b || match b with "" => false | String _ r => substrb a r end)%bool.
Fixpoint allb (p : ascii -> bool) (s : string) : bool :=
  match s with "" => true | String c r => (p c && allb p r)%bool end.
Definition is_empty (s : string) : bool := match s with "" => true | _ => false end.
Fixpoint sconcat (sep : string) (l : list string) : string :=    (* sep.join(l) *)
  match l with [] => "" | [x] => x | x :: r => x ++ sep ++ sconcat sep r end.
Fixpoint cmap (f : ascii -> string) (s : string) : string :=     (* per-character rewriting *)
  match s with "" => "" | String c r => f c ++ cmap f r end.

(* str.strip() *)
Definition lstrip (s : string) : string := drop (span is_ws s) s.
Fixpoint rstrip (s : string) : string :=
  match s with
  | "" => ""
  | String c r => let r' := rstrip r in if (is_ws c && is_empty r')%bool then "" else String c r'
  end.
Definition strip (s : string) : string := rstrip (lstrip s).

(* str.split(): maximal runs of non-whitespace *)
Definition cons_first (c : ascii) (l : list string) : list string :=
  match l with [] => [s1 c] | w :: t => String c w :: t end.
Fixpoint words (s : string) : list string :=
  match s with
  | "" => []
  | String c r =>
      if is_ws c then words r
      else match r with
           | "" => [s1 c]
           | String c' _ => if is_ws c' then s1 c :: words r else cons_first c (words r)
           end
  end.

(* str.title(), ASCII: a letter is upper-cased after an uncased character, lower-cased after a cased one *)
Fixpoint title_go (prev_cased : bool) (s : string) : string :=
  match s with
  | "" => ""
  | String c r =>
      if is_alpha c then String (if prev_cased then lower_char c else upper_char c) (title_go true r)
      else String c (title_go false r)
  end.
Definition title (s : string) : string := title_go false s.

(* str.split('\n') *)
Fixpoint split_lf (s : string) : list string :=
  match s with
  | "" => [""]
  | String c r => if is_lf c then "" :: split_lf r else cons_first c (split_lf r)
  end.

(* ------------------------------------------------------------------ re.sub(pattern, '', s) *)
(* [m s] = length of the match of the pattern anchored at the start of s, if any.
   re.sub deletes the leftmost match, then goes on after it (all patterns here match >= 1 char). *)
Fixpoint sub_go (m : string -> option nat) (skip : nat) (s : string) : string :=
  match s with
  | "" => ""
  | String c r =>
      match skip with
      | S k => sub_go m k r
      | O => match m s with
             | Some (S k) => sub_go m k r
             | _ => String c (sub_go m 0 r)
             end
      end
  end.
Definition resub (m : string -> option nat) (s : string) : string := sub_go m 0 s.

(* `$` without MULTILINE: at the end, or just before a final line feed *)
Definition at_end (s : string) : bool :=
  match s with "" => true | String c "" => is_lf c | _ => false end.
(* `.*$`: everything up to the first line feed, which must be the end in the sense of `$` *)
Definition to_eol (s : string) : option nat :=
  let k := span (fun c => negb (is_lf c)) s in
  if at_end (drop k s) then Some k else None.
(* `\s+` followed by [body]; giving back whitespace never helps because body starts with a non-space *)
Definition ws_then (body : string -> option nat) (s : string) : option nat :=
  let w := span is_ws s in
  match w with
  | O => None
  | _ => match body (drop w s) with Some k => Some (w + k) | None => None end
  end.

(* \s+\d{4,}.*$ *)
Definition m_storeid : string -> option nat :=
  ws_then (fun t => let g := span is_digit t in
                    if Nat.leb 4 g then match to_eol (drop g t) with Some k => Some (g + k) | None => None end
                    else None).
(* \s+[A-Z]{2}$   (ic: re.IGNORECASE) *)
Definition m_state (ic : bool) : string -> option nat :=
  ws_then (fun t => match t with
                    | String a (String b r) =>
                        let cls := if ic then is_alpha else is_AZ in
                        if (cls a && cls b && at_end r)%bool then Some 2 else None
                    | _ => None
                    end).
(* \s+\d{5}$ *)
Definition m_zip : string -> option nat :=
  ws_then (fun t => if (Nat.leb 5 (span is_digit t) && at_end (drop 5 t))%bool then Some 5 else None).
(* \s+#\d+ *)
Definition m_storeno : string -> option nat :=
  ws_then (fun t => match t with
                    | String h r => if ceq h (chr 35) then
                                      match span is_digit r with O => None | g => Some (1 + g) end
                                    else None
                    | _ => None
                    end).
(* \s+LIT.*$ with re.IGNORECASE, LIT an upper-case ASCII literal (DES: / ID:) *)
Definition m_tail (lit : string) : string -> option nat :=
  ws_then (fun t => if prefixb lit (upper (take (String.length lit) t)) then
                      match to_eol (drop (String.length lit) t) with Some k => Some (String.length lit + k) | None => None end
                    else None).

(* the table: pattern literal, IGNORECASE flag |-> scanner *)
Definition scanner_of (pat : string) (ic : bool) : option (string -> option nat) :=
  if String.eqb pat "\s+\d{4,}.*$" then Some m_storeid                 (* flag irrelevant: no letters *)
  else if String.eqb pat "\s+[A-Z]{2}$" then Some (m_state ic)
  else if String.eqb pat "\s+\d{5}$" then Some m_zip
  else if String.eqb pat "\s+#\d+" then Some m_storeno
  else if (String.eqb pat "\s+DES:.*$" && ic)%bool then Some (m_tail "DES:")
  else if (String.eqb pat "\s+ID:.*$" && ic)%bool then Some (m_tail "ID:")
  else None.

Definition sub_spec := (string * string * bool)%type.     (* pattern, replacement, IGNORECASE *)
Definition apply_sub (sp : sub_spec) (s : string) : option string :=
  let '(pat, repl, ic) := sp in
  if is_empty repl then match scanner_of pat ic with Some m => Some (resub m s) | None => None end
  else None.
Fixpoint apply_subs (l : list sub_spec) (s : string) : option string :=
  match l with [] => Some s | sp :: r => match apply_sub sp s with Some s' => apply_subs r s' | None => None end end.

(* re.sub(r'([.*+?^${}()|[\]\\])', r'\\\1', s) *)
Definition escape_meta (s : string) : string :=
  cmap (fun c => if is_meta c then String BSL (s1 c) else s1 c) s.
Definition apply_escape (sp : string * string) (s : string) : option string :=
  if (String.eqb (fst sp) "([.*+?^${}()|[\]\\])" && String.eqb (snd sp) "\\\1")%bool then Some (escape_meta s) else None.

(* for prefix in prefixes: if desc.startswith(prefix): desc = desc[len(prefix):]
   (ci: desc.upper().startswith(prefix.upper())) *)
Fixpoint strip_prefixes (ci : bool) (ps : list string) (s : string) : string :=
  match ps with
  | [] => s
  | p :: r =>
      let hit := if ci then prefixb (upper p) (upper s) else prefixb p s in
      strip_prefixes ci r (if hit then drop (String.length p) s else s)
  end.

(* ------------------------------------------------------------------ literals of the source *)
Definition pattern_subs : list sub_spec :=
  [("\s+\d{4,}.*$", "", false); ("\s+[A-Z]{2}$", "", false); ("\s+\d{5}$", "", false); ("\s+#\d+", "", false)].
Definition pattern_prefixes : list string := ["APLPAY "; "SQ *"; "TST*"; "SP "; "PP*"; "GOOGLE *"].
Definition pattern_escape : string * string := ("([.*+?^${}()|[\]\\])", "\\\1").
Definition pattern_joiner : string := "\s*".
Definition pattern_take : nat := 3.
Definition merchant_prefixes : list string := ["APLPAY "; "SQ *"; "TST*"; "TST* "; "SP "; "PP*"; "GOOGLE *"].
Definition merchant_subs : list sub_spec :=
  [("\s+\d{4,}.*$", "", false); ("\s+[A-Z]{2}$", "", true); ("\s+\d{5}$", "", false); ("\s+#\d+", "", false);
   ("\s+DES:.*$", "", true); ("\s+ID:.*$", "", true)].
Definition merchant_take : nat := 3.

(* ------------------------------------------------------------------ discover.py *)
(* clean_description in the repaired source; the first half of suggest_pattern in the original *)
Definition clean (d : string) : option string :=
  match apply_subs pattern_subs (upper d) with
  | Some s4 => Some (strip (strip_prefixes false pattern_prefixes s4))
  | None => None
  end.

Definition pattern_of_clean (s6 : string) : option string :=
  match apply_escape pattern_escape s6 with
  | Some p => let ws := firstn pattern_take (words p) in
              Some (match ws with [] => p | _ => sconcat pattern_joiner ws end)
  | None => None
  end.

Definition suggest_pattern (d : string) : option string :=
  match clean d with Some s6 => pattern_of_clean s6 | None => None end.

Definition suggest_merchant_name (d : string) : option string :=
  match apply_subs merchant_subs (strip_prefixes true merchant_prefixes d) with
  | Some s =>
      let ws := firstn merchant_take (words s) in
      Some (match ws with [] => "Unknown" | _ => title (sconcat " " ws) end)
  | None => None
  end.

(* _fn_contains: pattern.upper() in text.upper() *)
Definition ci_contains (needle text : string) : bool := substrb (upper needle) (upper text).

(* repaired source — suggest_needle: the longest run of leading cleaned words that the matcher
   finds in the description; else the first word of the upper-cased description; else '' *)
Fixpoint try_words (n : nat) (ws : list string) (d : string) : option string :=
  match n with
  | O => None
  | S k => let cand := sconcat " " (firstn n ws) in
           if ci_contains cand d then Some cand else try_words k ws d
  end.
Definition suggest_needle (d : string) : option string :=
  match clean d with
  | Some s6 =>
      let ws := firstn pattern_take (words s6) in
      Some (match try_words (length ws) ws d with
            | Some n => n
            | None => match words (upper d) with w :: _ => w | [] => "" end
            end)
  | None => None
  end.

(* original: '"' + pattern.replace('"', '\\"') + '"' *)
Definition qo_char (c : ascii) : string := if ceq c DQ then String BSL (s1 DQ) else s1 c.
Definition quote_orig (p : string) : string := String DQ (cmap qo_char p ++ s1 DQ).

(* repaired: json.dumps(needle, ensure_ascii=False) *)
Definition hexdigit (n : N) : ascii := if N.ltb n 10 then chr (48 + n) else chr (87 + n).
Definition json_char (c : ascii) : string :=
  let n := cn c in
  if N.eqb n 34 then String BSL (s1 DQ)
  else if N.eqb n 92 then String BSL (s1 BSL)
  else if N.eqb n 10 then "\n" else if N.eqb n 13 then "\r" else if N.eqb n 9 then "\t"
  else if N.eqb n 8 then "\b" else if N.eqb n 12 then "\f"
  else if N.ltb n 32 then "\u00" ++ String (hexdigit (N.div n 16)) (s1 (hexdigit (N.modulo n 16)))
  else s1 c.
Definition quote_fixed (p : string) : string := String DQ (cmap json_char p ++ s1 DQ).

Inductive variant := Orig | Fixed.
Definition quote (v : variant) (needle : string) : string :=
  match v with Orig => quote_orig needle | Fixed => quote_fixed needle end.

(* suggest_merchants_rule(name, needle, tags): the lines of the f-string, [q] = the quoted needle *)
Definition rule_lines (name q : string) (tags : list string) : list string :=
  [ String (chr 91) (name ++ "]");
    "match: contains(" ++ q ++ ")";
    "category: CATEGORY";
    "subcategory: SUBCATEGORY" ] ++
  (match tags with [] => [] | _ => ["tags: " ++ sconcat ", " tags] end).
Definition rule_text (v : variant) (name needle : string) (tags : list string) : string :=
  sconcat (s1 LF) (rule_lines name (quote v needle) tags).

(* what the json output of cmd_discover passes as the needle *)
Definition needle_of (v : variant) (d : string) : option string :=
  match v with Orig => suggest_pattern d | Fixed => suggest_needle d end.

Definition suggested_rule (v : variant) (d : string) (tags : list string) : option string :=
  match suggest_merchant_name d, needle_of v d with
  | Some name, Some n => Some (rule_text v name n tags)
  | _, _ => None
  end.

(* the text output (cmd_discover, default format) prints the match line itself *)
Definition text_match_line (v : variant) (d : string) : option string :=
  match v, needle_of v d with
  | Orig, Some p => Some ("match: contains(" ++ s1 DQ ++ p ++ s1 DQ ++ ")")     (* quotes NOT escaped *)
  | Fixed, Some n => Some ("match: contains(" ++ quote_fixed n ++ ")")
  | _, None => None
  end.

(* ------------------------------------------------------------------ CPython string literal *)
(* result of scanning a "..." literal body: the value and what follows the closing quote *)
Inductive ures :=
| UOk (v : string) (rest : string)
| UErr          (* SyntaxError: NUL / CR / LF inside the literal, unterminated, truncated \u *)
| UUnm.         (* escape kinds not modelled: octal, \x, \N{..}, \U, \u >= 0x80, line continuation *)
Definition ucons (c : ascii) (r : ures) : ures :=
  match r with UOk v rest => UOk (String c v) rest | e => e end.
Inductive ust := UN | UB | UU (k : nat) (acc : N).

Definition simple_escape (c : ascii) : option ascii :=
  let n := cn c in
  if N.eqb n 92 then Some BSL else if N.eqb n 34 then Some DQ else if N.eqb n 39 then Some (chr 39)
  else if N.eqb n 97 then Some (chr 7) else if N.eqb n 98 then Some (chr 8) else if N.eqb n 102 then Some (chr 12)
  else if N.eqb n 110 then Some (chr 10) else if N.eqb n 114 then Some (chr 13) else if N.eqb n 116 then Some (chr 9)
  else if N.eqb n 118 then Some (chr 11) else None.
Definition hexval (c : ascii) : option N :=
  let n := cn c in
  if is_digit c then Some (n - 48)%N
  else if in_range 97 102 c then Some (n - 87)%N
  else if in_range 65 70 c then Some (n - 55)%N else None.
Definition raw_forbidden (c : ascii) : bool := (N.eqb (cn c) 0 || N.eqb (cn c) 10 || N.eqb (cn c) 13)%bool.

Fixpoint unesc (st : ust) (s : string) : ures :=
  match s with
  | "" => UErr
  | String c r =>
      match st with
      | UN => if ceq c DQ then UOk "" r
              else if ceq c BSL then unesc UB r
              else if raw_forbidden c then UErr
              else ucons c (unesc UN r)
      | UB => match simple_escape c with
              | Some c' => ucons c' (unesc UN r)
              | None =>
                  if ceq c (chr 117) then unesc (UU 4 0) r                                  (* \uXXXX *)
                  else if (ceq c (chr 120) || ceq c (chr 78) || ceq c (chr 85) || in_range 48 55 c)%bool then UUnm
                  else if N.eqb (cn c) 0 then UErr
                  else if (N.eqb (cn c) 10 || N.eqb (cn c) 13)%bool then UUnm
                  else ucons BSL (ucons c (unesc UN r))                                     (* unknown escape: kept *)
              end
      | UU (S k) acc =>
          match hexval c with
          | Some h => let v := (acc * 16 + h)%N in
                      match k with
                      | O => if N.ltb v 128 then ucons (chr v) (unesc UN r) else UUnm
                      | _ => unesc (UU k v) r
                      end
          | None => UErr
          end
      | UU O _ => UUnm
      end
  end.

(* ------------------------------------------------------------------ expressions: NAME("literal") *)
Inductive expr := ECall (f : string) (arg : string).
Inductive pres := POk (e : expr) | PSyntaxErr | PUnm.
Definition is_ident_char (c : ascii) : bool := (is_alpha c || is_digit c || ceq c (chr 95))%bool.
Definition parse_expr (s : string) : pres :=
  let n := span is_ident_char s in
  match s with
  | "" => PUnm
  | String c0 _ =>
      if (is_digit c0 || Nat.eqb n 0)%bool then PUnm
      else match drop n s with
           | String p (String q body) =>
               if (ceq p (chr 40) && ceq q DQ)%bool then
                 match unesc UN body with
                 | UOk v rest => if String.eqb rest ")" then POk (ECall (take n s) v) else PUnm
                 | UErr => PSyntaxErr
                 | UUnm => PUnm
                 end
               else PUnm
           | _ => PUnm
           end
  end.

(* ------------------------------------------------------------------ MerchantEngine.parse *)
Record rdata := { r_name : string; r_match : option string; r_category : option string;
                  r_subcategory : option string; r_merchant : option string; r_tags : option string }.
Record rule := { name : string; mexpr : expr; category : string }.
Inductive lres := Loaded (rs : list rule) | LoadErr | LoadUnm.

Definition new_rule (n : string) : rdata :=
  {| r_name := n; r_match := None; r_category := None; r_subcategory := None; r_merchant := None; r_tags := None |}.

Fixpoint index_of (p : ascii -> bool) (s : string) : option nat :=
  match s with "" => None | String c r => if p c then Some 0 else option_map S (index_of p r) end.
Fixpoint last_char (s : string) : option ascii :=
  match s with "" => None | String c "" => Some c | String _ r => last_char r end.
Definition starts_with_c (n : N) (s : string) : bool := match s with String c _ => N.eqb (cn c) n | _ => false end.
Definition ends_with_c (n : N) (s : string) : bool := match last_char s with Some c => N.eqb (cn c) n | None => false end.

(* _add_rule *)
Inductive ares := AOk (r : rule) | AErr | AUnm.
Definition add_rule (rd : rdata) : ares :=
  match r_match rd with
  | None => AErr
  | Some m =>
      let has_cat := match r_category rd with Some c => negb (is_empty c) | None => false end in
      if negb has_cat then (match r_tags rd with Some _ => AUnm | None => AErr end)
      else match parse_expr m with
           | POk e => AOk {| name := r_name rd; mexpr := e;
                             category := match r_category rd with Some c => c | None => "" end |}
           | PSyntaxErr => AErr
           | PUnm => AUnm
           end
  end.

Inductive sres := SOk (cur : option rdata) (done : list rule) | SErr | SUnm.

Definition flush (cur : option rdata) (done : list rule) (k : list rule -> sres) : sres :=
  match cur with
  | None => k done
  | Some rd => match add_rule rd with AOk r => k (done ++ [r])%list | AErr => SErr | AUnm => SUnm end
  end.

Definition parse_line (cur : option rdata) (done : list rule) (line : string) : sres :=
  let st := strip line in
  if (is_empty st || starts_with_c 35 st)%bool then SOk cur done
  else if (starts_with_c 91 st && ends_with_c 93 st)%bool then
    flush cur done (fun done' =>
      let nm := strip (take (String.length st - 2) (drop 1 st)) in
      if is_empty nm then SErr else SOk (Some (new_rule nm)) done')
  else
    match cur with
    | None => if existsb (fun c => N.eqb c 61) (map cn (list_ascii_of_string st)) then SUnm   (* top-level assignment *)
              else SOk cur done                                                             (* ignored *)
    | Some rd =>
        match index_of (fun c => N.eqb (cn c) 58) st with
        | None => SErr
        | Some i =>
            let key := lower (strip (take i st)) in
            let value := strip (drop (S i) st) in
            if String.eqb key "match" then SOk (Some {| r_name := r_name rd; r_match := Some value; r_category := r_category rd;
                 r_subcategory := r_subcategory rd; r_merchant := r_merchant rd; r_tags := r_tags rd |}) done
            else if String.eqb key "category" then SOk (Some {| r_name := r_name rd; r_match := r_match rd; r_category := Some value;
                 r_subcategory := r_subcategory rd; r_merchant := r_merchant rd; r_tags := r_tags rd |}) done
            else if String.eqb key "subcategory" then SOk (Some {| r_name := r_name rd; r_match := r_match rd; r_category := r_category rd;
                 r_subcategory := Some value; r_merchant := r_merchant rd; r_tags := r_tags rd |}) done
            else if String.eqb key "merchant" then SOk (Some {| r_name := r_name rd; r_match := r_match rd; r_category := r_category rd;
                 r_subcategory := r_subcategory rd; r_merchant := Some value; r_tags := r_tags rd |}) done
            else if String.eqb key "tags" then SOk (Some {| r_name := r_name rd; r_match := r_match rd; r_category := r_category rd;
                 r_subcategory := r_subcategory rd; r_merchant := r_merchant rd; r_tags := Some value |}) done
            else if (String.eqb key "let" || String.eqb key "field" || String.eqb key "priority")%bool then SUnm
            else SErr
        end
    end.

Fixpoint parse_lines (cur : option rdata) (done : list rule) (ls : list string) : lres :=
  match ls with
  | [] => match flush cur done (fun d => SOk None d) with SOk _ d => Loaded d | SErr => LoadErr | SUnm => LoadUnm end
  | l :: r => match parse_line cur done l with
              | SOk cur' done' => parse_lines cur' done' r
              | SErr => LoadErr
              | SUnm => LoadUnm
              end
  end.
Definition parse_merchants (content : string) : lres := parse_lines None [] (split_lf content).

(* ------------------------------------------------------------------ matching *)
Section Match.
  (* re.compile(p, re.IGNORECASE).search(text): oracle; None = re.error (ExpressionError, rule skipped) *)
  Variable re_search : string -> string -> option bool.

  Inductive eres := EVal (b : bool) | EExprErr | EUnm.
  Definition eval_expr (e : expr) (d : string) : eres :=
    match e with
    | ECall f arg =>
        let f' := lower f in
        if String.eqb f' "contains" then EVal (ci_contains arg d)
        else if String.eqb f' "regex" then match re_search arg d with Some b => EVal b | None => EExprErr end
        else EUnm
    end.

  (* MerchantEngine.match(...).matched, first_match mode, no variables: some categorising rule's
     expression is true (rules raising ExpressionError are skipped) *)
  Fixpoint matched (rs : list rule) (d : string) : option bool :=
    match rs with
    | [] => Some false
    | r :: t => match eval_expr (mexpr r) d with
                | EVal true => if is_empty (category r) then matched t d else Some true
                | EVal false | EExprErr => matched t d
                | EUnm => None
                end
    end.

  (* the observable of the property for one description: load the suggested rule text, match *)
  Inductive obs := ObsLoaded (m : bool) | ObsLoadErr | ObsUnm.
  Definition observe_text (text d : string) : obs :=
    match parse_merchants text with
    | Loaded rs => match matched rs d with Some b => ObsLoaded b | None => ObsUnm end
    | LoadErr => ObsLoadErr
    | LoadUnm => ObsUnm
    end.
  Definition observe (v : variant) (d : string) (tags : list string) : obs :=
    match suggested_rule v d tags with Some t => observe_text t d | None => ObsUnm end.
End Match.
