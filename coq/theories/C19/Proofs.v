(* C19/Proofs.v — lemmas behind C19/Props.v. *)
From Coq Require Import String Ascii List Bool NArith Arith Lia.
From Tally Require Import Lib.Str C19.Model C19.Source Gen.C19Patterns.
Import ListNotations.
Open Scope string_scope.

(* ================================================================== the source is the modelled one *)
Definition expected_text (v : variant) := match v with Orig => expected_orig | Fixed => expected_fixed end.
Definition source_ok : Prop :=
  C19Src.pattern_subs = pattern_subs /\ C19Src.pattern_escape = pattern_escape /\
  C19Src.pattern_prefixes = pattern_prefixes /\ C19Src.pattern_joiner = pattern_joiner /\
  C19Src.pattern_take = pattern_take /\ C19Src.merchant_subs = merchant_subs /\
  C19Src.merchant_prefixes = merchant_prefixes /\ C19Src.merchant_take = merchant_take /\
  C19Src.source_text = expected_text C19Src.variant_of_source.
Lemma source_is_modelled : source_ok.
Proof. repeat split; reflexivity. Qed.

(* ================================================================== characters (256 cases each) *)
Ltac all_chars c := destruct c as [[] [] [] [] [] [] [] []]; try reflexivity; try discriminate.

Lemma ceq_eq a b : ceq a b = true -> a = b.
Proof.
  unfold ceq, cn. intros H. apply N.eqb_eq in H.
  rewrite <- (ascii_N_embedding a), <- (ascii_N_embedding b). now rewrite H.
Qed.
Lemma ceq_refl a : ceq a a = true.
Proof. unfold ceq. apply N.eqb_refl. Qed.
Lemma upper_char_idem c : upper_char (upper_char c) = upper_char c.
Proof. all_chars c. Qed.
Lemma ws_not_meta c : is_ws c = true -> is_meta c = false.
Proof. all_chars c. Qed.
Lemma lf_is_ws c : is_lf c = true -> is_ws c = true.
Proof. all_chars c. Qed.
Lemma alpha_case_not_ws c : is_alpha c = true -> is_ws (upper_char c) = false /\ is_ws (lower_char c) = false.
Proof. all_chars c; intros; split; reflexivity. Qed.

(* ================================================================== strings *)
Lemma sapp_assoc (a b c : string) : (a ++ b) ++ c = a ++ (b ++ c).
Proof. induction a as [|x a IH]; simpl; [reflexivity | now rewrite IH]. Qed.
Lemma sapp_nil_r (a : string) : a ++ "" = a.
Proof. induction a as [|x a IH]; simpl; [reflexivity | now rewrite IH]. Qed.
Lemma slen_app (a b : string) : String.length (a ++ b) = String.length a + String.length b.
Proof. induction a as [|x a IH]; simpl; [reflexivity | now rewrite IH]. Qed.
Lemma take_app_exact (a b : string) : take (String.length a) (a ++ b) = a.
Proof. induction a as [|x a IH]; simpl; [now destruct b | now rewrite IH]. Qed.
Lemma drop_app_exact (a b : string) : drop (String.length a) (a ++ b) = b.
Proof. induction a as [|x a IH]; simpl; [now destruct b | exact IH]. Qed.
Lemma drop_suffix n s : exists p, s = p ++ drop n s.
Proof.
  revert s; induction n as [|n IH]; intros s.
  - exists "". now destruct s.
  - destruct s as [|c r]; [now exists ""|]. destruct (IH r) as [p Hp]. exists (String c p). simpl. now rewrite <- Hp.
Qed.
Lemma span_drop p s : s = take (span p s) s ++ drop (span p s) s.
Proof. induction s as [|c r IH]; simpl; [reflexivity|]. destruct (p c); simpl; [now rewrite <- IH | reflexivity]. Qed.
Lemma span_len p s : span p s + String.length (drop (span p s) s) = String.length s.
Proof. induction s as [|c r IH]; simpl; [reflexivity|]. destruct (p c); simpl; [now rewrite IH | reflexivity]. Qed.
Lemma span_all p s : allb p s = true -> span p s = String.length s.
Proof.
  induction s as [|c r IH]; simpl; [reflexivity|]. intros H. apply andb_true_iff in H as [H1 H2].
  rewrite H1. now rewrite IH.
Qed.
Lemma allb_app p a b : allb p (a ++ b) = (allb p a && allb p b)%bool.
Proof. induction a as [|x a IH]; simpl; [reflexivity | now rewrite IH, andb_assoc]. Qed.
Lemma upper_app a b : upper (a ++ b) = upper a ++ upper b.
Proof. unfold upper. induction a as [|x a IH]; simpl; [reflexivity | now rewrite IH]. Qed.
Lemma upper_idem a : upper (upper a) = upper a.
Proof. unfold upper. induction a as [|x a IH]; simpl; [reflexivity | now rewrite IH, upper_char_idem]. Qed.

(* substring relation and its decision procedure (Python `in`) *)
Definition substr (a b : string) : Prop := exists p q, b = p ++ a ++ q.
Lemma substr_refl a : substr a a.
Proof. exists "", "". simpl. now rewrite sapp_nil_r. Qed.
Lemma substr_trans a b c : substr a b -> substr b c -> substr a c.
Proof.
  intros [p [q H]] [p' [q' H']]. exists (p' ++ p), (q ++ q'). subst.
  now rewrite !sapp_assoc.
Qed.
Lemma substr_suffix p s : substr s (p ++ s).
Proof. exists p, "". now rewrite sapp_nil_r. Qed.
Lemma substr_prefix s q : substr s (s ++ q).
Proof. now exists "", q. Qed.
Lemma substr_cons a c b : substr a b -> substr a (String c b).
Proof. intros [p [q H]]. exists (String c p), q. simpl. now rewrite H. Qed.
Lemma substr_upper a b : substr a b -> substr (upper a) (upper b).
Proof. intros [p [q H]]. exists (upper p), (upper q). subst. now rewrite !upper_app. Qed.

Lemma prefixb_app a q : prefixb a (a ++ q) = true.
Proof. induction a as [|x a IH]; simpl; [reflexivity | now rewrite ceq_refl, IH]. Qed.
Lemma prefixb_spec a b : prefixb a b = true -> exists q, b = a ++ q.
Proof.
  revert b; induction a as [|x a IH]; intros b H; simpl in *.
  - now exists b.
  - destruct b as [|y b]; [discriminate|]. apply andb_true_iff in H as [H1 H2].
    apply ceq_eq in H1. subst. destruct (IH _ H2) as [q Hq]. exists q. now rewrite Hq.
Qed.
Lemma substrb_complete a b : substr a b -> substrb a b = true.
Proof.
  intros [p [q H]]. subst b. induction p as [|c p IH]; simpl.
  - destruct (a ++ q) eqn:E; simpl; rewrite <- ?E; rewrite prefixb_app; reflexivity.
  - rewrite IH. apply orb_true_r.
Qed.
Lemma substrb_sound a b : substrb a b = true -> substr a b.
Proof.
  induction b as [|c b IH]; simpl; intros H.
  - rewrite orb_false_r in H. apply prefixb_spec in H as [q Hq]. exists "", q. exact Hq.
  - apply orb_true_iff in H as [H|H].
    + apply prefixb_spec in H as [q Hq]. exists "", q. exact Hq.
    + apply substr_cons. now apply IH.
Qed.

Lemma ci_contains_of_substr_upper w d : substr w (upper d) -> ci_contains w d = true.
Proof.
  intros H. unfold ci_contains. apply substrb_complete.
  apply substr_upper in H. now rewrite upper_idem in H.
Qed.

(* ================================================================== words *)
Definition nonws (c : ascii) : bool := negb (is_ws c).
Definition good_word (w : string) : Prop := w <> "" /\ allb nonws w = true.

Lemma words_head_prefix r c r' :
  r = String c r' -> is_ws c = false -> exists w t q, words r = w :: t /\ r = w ++ q /\ w <> "".
Proof.
  revert c r'. induction r as [|x r IH]; intros c r' E Hc; [discriminate|].
  inversion E; subst x r'. simpl. rewrite Hc. destruct r as [|y r2].
  - exists (s1 c), [], "". repeat split; discriminate.
  - destruct (is_ws y) eqn:Hy.
    + exists (s1 c), (words (String y r2)), (String y r2). repeat split; discriminate.
    + destruct (IH y r2 eq_refl Hy) as [w [t [q [Hw [Hr Hne]]]]]. rewrite Hw. simpl.
      exists (String c w), t, q. repeat split; [now rewrite Hr at 1 | discriminate].
Qed.

Lemma words_hd_substr s w t : words s = w :: t -> substr w s.
Proof.
  revert w t. induction s as [|c r IH]; intros w t H; simpl in H; [discriminate|].
  destruct (is_ws c) eqn:Hc.
  - apply substr_cons. eapply IH; eauto.
  - destruct r as [|y r2].
    + inversion H; subst. apply substr_refl.
    + destruct (is_ws y) eqn:Hy.
      * inversion H; subst. exists "", (String y r2). reflexivity.
      * destruct (words_head_prefix (String y r2) y r2 eq_refl Hy) as [w0 [t0 [q [Hw [Hr _]]]]].
        rewrite Hw in H. simpl in H. inversion H; subst. exists "", q. simpl. now rewrite Hr at 1.
Qed.

Lemma cons_first_good c l : is_ws c = false -> Forall good_word l -> Forall good_word (cons_first c l).
Proof.
  intros Hc Hl. destruct l as [|w t]; simpl.
  - constructor; [|constructor]. split; [discriminate|]. simpl. unfold nonws. now rewrite Hc.
  - inversion Hl; subst. constructor; [|assumption]. destruct H1 as [_ H1]. split; [discriminate|].
    simpl. unfold nonws at 1. now rewrite Hc, H1.
Qed.
Lemma words_good s : Forall good_word (words s).
Proof.
  induction s as [|c r IH]; simpl; [constructor|].
  destruct (is_ws c) eqn:Hc; [exact IH|].
  destruct r as [|y r2].
  - constructor; [|constructor]. split; [discriminate|]. simpl. unfold nonws. now rewrite Hc.
  - destruct (is_ws y) eqn:Hy.
    + constructor; [|exact IH]. split; [discriminate|]. simpl. unfold nonws. now rewrite Hc.
    + now apply cons_first_good.
Qed.
Lemma words_single s : s <> "" -> allb nonws s = true -> words s = [s].
Proof.
  induction s as [|c r IH]; intros Hne H; [congruence|]. simpl in H. apply andb_true_iff in H as [H1 H2].
  unfold nonws in H1. apply negb_true_iff in H1. simpl. rewrite H1. destruct r as [|y r2]; [reflexivity|].
  simpl in H2. apply andb_true_iff in H2 as [H2 H3]. unfold nonws in H2. apply negb_true_iff in H2. rewrite H2.
  rewrite IH; [reflexivity | discriminate | simpl; unfold nonws at 1; now rewrite H2, H3].
Qed.
Lemma firstn_Forall {A} (P : A -> Prop) n l : Forall P l -> Forall P (firstn n l).
Proof. revert l; induction n; intros l H; simpl; [constructor|]. destruct l; [constructor|]. inversion H; subst. constructor; auto. Qed.

(* ================================================================== strip *)
Definition has_nonws (s : string) : bool := negb (allb is_ws s).
Lemma rstrip_app_nonws s c : is_ws c = false -> rstrip (s ++ s1 c) = s ++ s1 c.
Proof.
  intros Hc. induction s as [|x s IH]; simpl.
  - now rewrite Hc.
  - rewrite IH. destruct (s ++ s1 c) eqn:E; [destruct s; discriminate|]. simpl. now rewrite andb_false_r.
Qed.
Lemma rstrip_prefix s : exists q, s = rstrip s ++ q.
Proof.
  induction s as [|c r [q IH]]; simpl; [now exists ""|].
  destruct (is_ws c && is_empty (rstrip r))%bool; [now exists (String c r)|]. exists q. simpl. now rewrite <- IH.
Qed.
Lemma rstrip_nonempty c r : is_ws c = false -> is_empty (rstrip (String c r)) = false.
Proof. intros H. simpl. now rewrite H. Qed.
Lemma strip_substr s : substr (strip s) s.
Proof.
  unfold strip, lstrip. destruct (drop_suffix (span is_ws s) s) as [p Hp].
  destruct (rstrip_prefix (drop (span is_ws s) s)) as [q Hq].
  exists p, q. rewrite <- Hq. exact Hp.
Qed.
Lemma lstrip_nonws_head s : has_nonws s = true -> exists c r, lstrip s = String c r /\ is_ws c = false.
Proof.
  unfold has_nonws, lstrip. induction s as [|x s IH]; simpl; [discriminate|].
  destruct (is_ws x) eqn:Hx; simpl.
  - exact IH.
  - intros _. now exists x, s.
Qed.
Lemma strip_nonempty s : has_nonws s = true -> is_empty (strip s) = false.
Proof.
  intros H. unfold strip. destruct (lstrip_nonws_head s H) as [c [r [E Hc]]]. rewrite E. now apply rstrip_nonempty.
Qed.
Lemma strip_id c s d : is_ws c = false -> is_ws d = false -> strip (String c (s ++ s1 d)) = String c (s ++ s1 d).
Proof.
  intros Hc Hd. unfold strip, lstrip. simpl span. rewrite Hc. simpl drop.
  change (String c (s ++ s1 d)) with (String c s ++ s1 d). now apply rstrip_app_nonws.
Qed.

(* ================================================================== lines *)
Definition no_lf (s : string) : bool := allb (fun c => negb (is_lf c)) s.
Lemma split_lf_no_lf s : no_lf s = true -> split_lf s = [s].
Proof.
  induction s as [|c r IH]; simpl; [reflexivity|]. intros H. apply andb_true_iff in H as [H1 H2].
  apply negb_true_iff in H1. rewrite H1, (IH H2). reflexivity.
Qed.
Lemma split_lf_app a b : no_lf a = true -> split_lf (a ++ String LF b) = a :: split_lf b.
Proof.
  induction a as [|c r IH]; simpl; [reflexivity|]. intros H. apply andb_true_iff in H as [H1 H2].
  apply negb_true_iff in H1. rewrite H1, (IH H2). reflexivity.
Qed.
Lemma split_lf_sconcat ls : ls <> [] -> forallb no_lf ls = true -> split_lf (sconcat (s1 LF) ls) = ls.
Proof.
  induction ls as [|a ls IH]; [congruence|]. intros _ H. simpl in H. apply andb_true_iff in H as [H1 H2].
  destruct ls as [|b ls].
  - simpl. now apply split_lf_no_lf.
  - change (sconcat (s1 LF) (a :: b :: ls)) with (a ++ s1 LF ++ sconcat (s1 LF) (b :: ls)).
    change (s1 LF ++ sconcat (s1 LF) (b :: ls)) with (String LF (sconcat (s1 LF) (b :: ls))).
    rewrite split_lf_app by assumption. f_equal. apply IH; [discriminate | assumption].
Qed.

Lemma last_char_app s c : last_char (s ++ s1 c) = Some c.
Proof.
  induction s as [|x s IH]; simpl; [reflexivity|]. rewrite IH. destruct (s ++ s1 c) eqn:E; [destruct s; discriminate|reflexivity].
Qed.

Definition nm_ok (nm : string) : bool := (no_lf nm && has_nonws nm)%bool.

Lemma parse_header nm :
  has_nonws nm = true ->
  parse_line None [] (String (chr 91) (nm ++ "]")) = SOk (Some (new_rule (strip nm))) [].
Proof.
  intros H. unfold parse_line.
  change "]" with (s1 (chr 93)).
  rewrite (strip_id (chr 91) nm (chr 93)) by reflexivity.
  cbn [is_empty starts_with_c orb andb].
  change (N.eqb (cn (chr 91)) 35) with false. change (N.eqb (cn (chr 91)) 91) with true.
  cbn [orb andb]. unfold ends_with_c.
  change (String (chr 91) (nm ++ s1 (chr 93))) with (String (chr 91) nm ++ s1 (chr 93)).
  rewrite last_char_app. change (N.eqb (cn (chr 93)) 93) with true. cbn [flush].
  rewrite slen_app. cbn [String.length s1 drop]. 
  replace (S (String.length nm) + 1 - 2) with (String.length nm) by lia.
  change (String (chr 91) nm ++ s1 (chr 93)) with (String (chr 91) (nm ++ s1 (chr 93))). cbv iota. rewrite take_app_exact. now rewrite (strip_nonempty nm H).
Qed.

Lemma strip_lead_sp a s d : is_ws a = false -> is_ws d = false ->
  strip (String " " (String a (s ++ s1 d))) = String a (s ++ s1 d).
Proof.
  intros Ha Hd. unfold strip, lstrip. cbn [span]. change (is_ws " ") with true. rewrite Ha. cbn [drop].
  change (String a (s ++ s1 d)) with (String a s ++ s1 d). now apply rstrip_app_nonws.
Qed.

Definition set_match (rd : rdata) (v : string) : rdata :=
  {| r_name := r_name rd; r_match := Some v; r_category := r_category rd; r_subcategory := r_subcategory rd;
     r_merchant := r_merchant rd; r_tags := r_tags rd |}.

Definition is_colon (c : ascii) : bool := N.eqb (cn c) 58.
Definition dispatch (rd : rdata) (done : list rule) (key value : string) : sres :=
  if String.eqb key "match" then SOk (Some {| r_name := r_name rd; r_match := Some value; r_category := r_category rd;
       r_subcategory := r_subcategory rd; r_merchant := r_merchant rd; r_tags := r_tags rd |}) done
  else if String.eqb key "category" then SOk (Some {| r_name := r_name rd; r_match := r_match rd; r_category := Some value;
       r_subcategory := r_subcategory rd; r_merchant := r_merchant rd; r_tags := r_tags rd |}) done
  else if String.eqb key "subcategory" then SOk (Some {| r_name := r_name rd; r_match := r_match rd; r_category := r_category rd;
       r_subcategory := Some value; r_merchant := r_merchant rd; r_tags := r_tags rd |}) done
  else if String.eqb key "merchant" then SOk (Some {| r_name := r_name rd; r_match := r_match rd; r_category := r_category rd;
       r_subcategory := r_subcategory rd; r_merchant := Some value; r_tags := r_tags rd |}) done
  else if String.eqb key "tags" then SOk (Some {| r_name := r_name rd; r_match := r_match rd; r_category := r_category rd;
       r_subcategory := r_subcategory rd; r_merchant := r_merchant rd; r_tags := Some value |}) done
  else if (String.eqb key "let" || String.eqb key "field" || String.eqb key "priority")%bool then SUnm
  else SErr.

Lemma parse_line_key rd done line st i key value :
  strip line = st -> is_empty st = false -> starts_with_c 35 st = false -> starts_with_c 91 st = false ->
  index_of is_colon st = Some i ->
  lower (strip (take i st)) = key -> strip (drop (S i) st) = value ->
  parse_line (Some rd) done line = dispatch rd done key value.
Proof.
  intros H1 H2 H3 H4 H5 H6 H7. unfold parse_line. rewrite H1. cbv zeta. rewrite H2, H3, H4.
  cbn [orb andb]. fold is_colon. rewrite H5, H6, H7. reflexivity.
Qed.

Lemma parse_match_line rd done q :
  parse_line (Some rd) done ("match: contains(" ++ q ++ ")") = SOk (Some (set_match rd ("contains(" ++ q ++ ")"))) done.
Proof.
  rewrite (parse_line_key rd done _ ("match: contains(" ++ q ++ ")") 5 "match" ("contains(" ++ q ++ ")")); try reflexivity.
  - change ("match: contains(" ++ q ++ ")") with (String "m" (("atch: contains(" ++ q) ++ s1 ")")).
    now rewrite strip_id by reflexivity.
  - change (drop 6 ("match: contains(" ++ q ++ ")")) with (String " " (String "c" (("ontains(" ++ q) ++ s1 ")"))).
    now rewrite strip_lead_sp by reflexivity.
Qed.

Lemma parse_const_line rd done line key value :
  strip line = line -> is_empty line = false -> starts_with_c 35 line = false -> starts_with_c 91 line = false ->
  forall i, index_of is_colon line = Some i -> lower (strip (take i line)) = key -> strip (drop (S i) line) = value ->
  parse_line (Some rd) done line = dispatch rd done key value.
Proof. intros. eapply parse_line_key; eauto. Qed.

Lemma parse_expr_contains body n :
  unesc UN (body ++ String DQ ")") = UOk n ")" ->
  parse_expr ("contains(" ++ String DQ (body ++ s1 DQ) ++ ")") = POk (ECall "contains" n).
Proof.
  intros H.
  assert (E : "contains(" ++ String DQ (body ++ s1 DQ) ++ ")" = "contains" ++ String "(" (String DQ (body ++ String DQ ")"))).
  { cbn [append]. now rewrite sapp_assoc. }
  rewrite E. unfold parse_expr. cbn -[unesc]. cbn -[unesc] in H. rewrite H. reflexivity.
Qed.

Definition the_rule (nm n : string) : rule := {| name := strip nm; mexpr := ECall "contains" n; category := "CATEGORY" |}.

Lemma load_rule_lines nm body n tags :
  nm_ok nm = true -> no_lf body = true -> (tags = [] \/ tags = ["refund"]) ->
  unesc UN (body ++ String DQ ")") = UOk n ")" ->
  parse_merchants (sconcat (s1 LF) (rule_lines nm (String DQ (body ++ s1 DQ)) tags)) = Loaded [the_rule nm n].
Proof.
  intros Hnm Hb Ht Hu. unfold nm_ok in Hnm. apply andb_true_iff in Hnm as [Hn1 Hn2].
  unfold parse_merchants. rewrite split_lf_sconcat.
  2:{ unfold rule_lines. destruct tags; discriminate. }
  2:{ assert (L1 : no_lf (String (chr 91) (nm ++ "]")) = true).
      { unfold no_lf in *. cbn [allb]. rewrite allb_app, Hn1. reflexivity. }
      assert (L2 : no_lf ("match: contains(" ++ String DQ (body ++ s1 DQ) ++ ")") = true).
      { unfold no_lf in *. rewrite !allb_app. cbn [allb]. rewrite !allb_app, Hb. reflexivity. }
      unfold rule_lines. destruct Ht as [-> | ->]; cbn [app forallb]; rewrite L1, L2; reflexivity. }
  unfold rule_lines. cbn [app].
  assert (P : forall tl, parse_lines None []
     (String (chr 91) (nm ++ "]") :: ("match: contains(" ++ String DQ (body ++ s1 DQ) ++ ")") :: "category: CATEGORY" :: "subcategory: SUBCATEGORY" :: tl)
     = parse_lines (Some {| r_name := strip nm; r_match := Some ("contains(" ++ String DQ (body ++ s1 DQ) ++ ")");
                           r_category := Some "CATEGORY"; r_subcategory := Some "SUBCATEGORY"; r_merchant := None; r_tags := None |}) [] tl).
  { intros tl. cbn [parse_lines]. rewrite (parse_header nm Hn2). cbv beta iota. rewrite parse_match_line. cbv beta iota.
    rewrite (parse_const_line _ _ "category: CATEGORY" "category" "CATEGORY") with (i := 8) by reflexivity.
    unfold dispatch at 1. cbn [String.eqb Ascii.eqb Bool.eqb]. cbv beta iota.
    rewrite (parse_const_line _ _ "subcategory: SUBCATEGORY" "subcategory" "SUBCATEGORY") with (i := 11) by reflexivity.
    unfold dispatch at 1. cbn [String.eqb Ascii.eqb Bool.eqb]. cbv beta iota.
    reflexivity. }
  destruct Ht as [-> | ->].
  - cbn [app]. rewrite P. cbn [parse_lines flush]. unfold add_rule. cbn [r_match r_category is_empty negb r_tags].
    rewrite (parse_expr_contains body n Hu). reflexivity.
  - cbn [app]. rewrite P. cbn [parse_lines].
    rewrite (parse_const_line _ _ ("tags: " ++ sconcat ", " ["refund"]) "tags" "refund") with (i := 4) by reflexivity.
    unfold dispatch at 1. cbn [String.eqb Ascii.eqb Bool.eqb]. cbv beta iota. cbn [parse_lines flush]. unfold add_rule. cbn [r_match r_category is_empty negb r_tags].
    rewrite (parse_expr_contains body n Hu). reflexivity.
Qed.

(* ================================================================== quoting round trips *)
Lemma json_char_roundtrip c r : unesc UN (json_char c ++ r) = ucons c (unesc UN r).
Proof. all_chars c. Qed.
Lemma json_char_no_lf c : no_lf (json_char c) = true.
Proof. all_chars c. Qed.
Lemma json_roundtrip n rest : unesc UN (cmap json_char n ++ String DQ rest) = UOk n rest.
Proof.
  induction n as [|c n IH]; [reflexivity|].
  cbn [cmap]. rewrite sapp_assoc, json_char_roundtrip, IH. reflexivity.
Qed.
Lemma json_no_lf n : no_lf (cmap json_char n) = true.
Proof.
  induction n as [|c n IH]; [reflexivity|]. cbn [cmap]. unfold no_lf in *. rewrite allb_app.
  fold (no_lf (json_char c)). now rewrite json_char_no_lf, IH.
Qed.

(* original quoting, for a needle without backslash / NUL / CR / LF *)
Definition lit_plain_char (c : ascii) : bool := negb (ceq c BSL || raw_forbidden c).
Lemma qo_char_roundtrip c r : lit_plain_char c = true -> unesc UN (qo_char c ++ r) = ucons c (unesc UN r).
Proof. all_chars c. Qed.
Lemma qo_char_no_lf c : lit_plain_char c = true -> no_lf (qo_char c) = true.
Proof. all_chars c. Qed.
Lemma qo_roundtrip n rest : allb lit_plain_char n = true -> unesc UN (cmap qo_char n ++ String DQ rest) = UOk n rest.
Proof.
  induction n as [|c n IH]; [reflexivity|]. cbn [allb cmap]. intros H. apply andb_true_iff in H as [H1 H2].
  rewrite sapp_assoc, qo_char_roundtrip, IH by assumption. reflexivity.
Qed.
Lemma qo_no_lf n : allb lit_plain_char n = true -> no_lf (cmap qo_char n) = true.
Proof.
  induction n as [|c n IH]; [reflexivity|]. cbn [allb cmap]. intros H. apply andb_true_iff in H as [H1 H2].
  unfold no_lf in *. rewrite allb_app. fold (no_lf (qo_char c)). now rewrite qo_char_no_lf, IH.
Qed.

(* ================================================================== the merchant name is a loadable header *)
Lemma title_char_ws c (b : bool) : is_ws (if b then lower_char c else upper_char c) = is_ws c \/ is_alpha c = false.
Proof. destruct b; all_chars c; auto. Qed.
Lemma title_char_lf c (b : bool) : is_lf (if b then lower_char c else upper_char c) = is_lf c \/ is_alpha c = false.
Proof. destruct b; all_chars c; auto. Qed.
Lemma title_go_ws b s : allb is_ws (title_go b s) = allb is_ws s.
Proof.
  revert b; induction s as [|c r IH]; intros b; [reflexivity|]. cbn [title_go].
  destruct (is_alpha c) eqn:Ha; cbn [allb]; rewrite IH; [|reflexivity].
  destruct (title_char_ws c b) as [E|E]; [now rewrite E | congruence].
Qed.
Lemma title_go_no_lf b s : no_lf (title_go b s) = no_lf s.
Proof.
  unfold no_lf. revert b; induction s as [|c r IH]; intros b; [reflexivity|]. cbn [title_go].
  destruct (is_alpha c) eqn:Ha; cbn [allb]; rewrite IH; [|reflexivity].
  destruct (title_char_lf c b) as [E|E]; [now rewrite E | congruence].
Qed.
Lemma nonws_no_lf w : allb nonws w = true -> no_lf w = true.
Proof.
  unfold no_lf. induction w as [|c w IH]; [reflexivity|]. cbn [allb]. intros H. apply andb_true_iff in H as [H1 H2].
  rewrite (IH H2), andb_true_r. unfold nonws in H1. destruct (is_lf c) eqn:E; [|reflexivity].
  apply lf_is_ws in E. now rewrite E in H1.
Qed.
Lemma sconcat_sp_no_lf ws : Forall good_word ws -> no_lf (sconcat " " ws) = true.
Proof.
  induction 1 as [|w t [_ Hw] Ht IH]; [reflexivity|]. destruct t as [|w2 t]; cbn [sconcat].
  - now apply nonws_no_lf.
  - unfold no_lf in *. rewrite !allb_app. fold (no_lf w). rewrite (nonws_no_lf w Hw). cbn [allb]. 
    change (negb (is_lf " ")) with true. cbn [andb]. exact IH.
Qed.
Lemma sconcat_sp_has_nonws w t : good_word w -> has_nonws (sconcat " " (w :: t)) = true.
Proof.
  intros [Hne Hw]. destruct w as [|c w]; [congruence|]. cbn [allb] in Hw. apply andb_true_iff in Hw as [Hc _].
  unfold nonws in Hc. apply negb_true_iff in Hc. unfold has_nonws.
  destruct t; cbn [sconcat append allb]; now rewrite Hc.
Qed.

Lemma merchant_name_ok d : exists nm, suggest_merchant_name d = Some nm /\ nm_ok nm = true.
Proof.
  unfold suggest_merchant_name.
  assert (T : exists s, apply_subs merchant_subs (strip_prefixes true merchant_prefixes d) = Some s) by (eexists; reflexivity).
  destruct T as [s ->].
  pose proof (firstn_Forall good_word merchant_take _ (words_good s)) as G.
  destruct (firstn merchant_take (words s)) as [|w t] eqn:E.
  - eexists; split; [reflexivity | reflexivity].
  - eexists; split; [reflexivity|]. unfold nm_ok, title.
    rewrite title_go_no_lf. unfold has_nonws. rewrite title_go_ws. fold (has_nonws (sconcat " " (w :: t))).
    rewrite (sconcat_sp_no_lf _ G). inversion G; subst. now rewrite sconcat_sp_has_nonws.
Qed.

(* ================================================================== repaired design: the needle *)
Lemma clean_total d : exists s, clean d = Some s.
Proof. unfold clean. eexists. reflexivity. Qed.

Lemma try_words_sound n ws d c : try_words n ws d = Some c -> ci_contains c d = true.
Proof.
  induction n as [|k IH]; cbn [try_words]; [discriminate|].
  destruct (ci_contains (sconcat " " (firstn (S k) ws)) d) eqn:E; [|exact IH].
  intros H; inversion H; subst. exact E.
Qed.
Lemma needle_fixed_ok d : exists n, suggest_needle d = Some n /\ ci_contains n d = true.
Proof.
  unfold suggest_needle. destruct (clean_total d) as [s6 ->].
  set (ws := firstn pattern_take (words s6)).
  destruct (try_words (length ws) ws d) as [c|] eqn:E.
  - exists c. split; [reflexivity|]. eapply try_words_sound; eauto.
  - destruct (words (upper d)) as [|w t] eqn:W.
    + exists "". split; [reflexivity|]. unfold ci_contains. now destruct (upper d).
    + exists w. split; [reflexivity|]. apply ci_contains_of_substr_upper. eapply words_hd_substr; eauto.
Qed.

Definition tags_of (neg : bool) : list string := if neg then ["refund"] else [].
Lemma tags_of_cases neg : tags_of neg = [] \/ tags_of neg = ["refund"].
Proof. destruct neg; auto. Qed.

Section WithRegex.
  Variable re_search : string -> string -> option bool.

  Lemma observe_loaded text nm n d :
    parse_merchants text = Loaded [the_rule nm n] -> observe_text re_search text d = ObsLoaded (ci_contains n d).
  Proof.
    intros H. unfold observe_text. rewrite H. cbn [matched the_rule mexpr category eval_expr].
    change (lower "contains") with "contains". cbn [String.eqb Ascii.eqb Bool.eqb is_empty].
    now destruct (ci_contains n d).
  Qed.

  Theorem matches_fixed d neg : observe re_search Fixed d (tags_of neg) = ObsLoaded true.
  Proof.
    unfold observe, suggested_rule, needle_of.
    destruct (merchant_name_ok d) as [nm [-> Hnm]]. destruct (needle_fixed_ok d) as [n [-> Hn]].
    unfold rule_text, quote, quote_fixed.
    rewrite (observe_loaded _ nm n).
    - now rewrite Hn.
    - apply load_rule_lines; [assumption | apply json_no_lf | apply tags_of_cases | apply json_roundtrip].
  Qed.
End WithRegex.

(* ================================================================== original design: the cleaning steps *)
Definition anchored (m : string -> option nat) : Prop :=
  forall t k, no_lf t = true -> m t = Some k -> k = String.length t.

Lemma sub_go_skip m k r : String.length r <= k -> sub_go m k r = "".
Proof.
  revert k; induction r as [|c r IH]; intros k H; [reflexivity|]. cbn [String.length] in H.
  destruct k as [|k]; [lia|]. cbn [sub_go]. apply IH. lia.
Qed.
Lemma no_lf_app a b : no_lf (a ++ b) = (no_lf a && no_lf b)%bool.
Proof. apply allb_app. Qed.
Lemma resub_anchored_prefix m s : anchored m -> no_lf s = true -> exists q, s = resub m s ++ q.
Proof.
  intros Hm. unfold resub. induction s as [|c r IH]; intros Hs; [now exists ""|].
  cbn [sub_go]. destruct (m (String c r)) as [[|k]|] eqn:E.
  - assert (Hr : no_lf r = true) by (unfold no_lf in *; cbn [allb] in Hs; now apply andb_true_iff in Hs as [_ ?]).
    destruct (IH Hr) as [q Hq]. exists q. cbn [append]. now rewrite <- Hq.
  - apply Hm in E; [|assumption]. cbn [String.length] in E. rewrite sub_go_skip by lia. now exists (String c r).
  - assert (Hr : no_lf r = true) by (unfold no_lf in *; cbn [allb] in Hs; now apply andb_true_iff in Hs as [_ ?]).
    destruct (IH Hr) as [q Hq]. exists q. cbn [append]. now rewrite <- Hq.
Qed.
Lemma no_lf_drop n s : no_lf s = true -> no_lf (drop n s) = true.
Proof.
  intros H. destruct (drop_suffix n s) as [p Hp]. rewrite Hp in H. rewrite no_lf_app in H.
  now apply andb_true_iff in H as [_ ?].
Qed.
Lemma ws_then_anchored body :
  (forall t k, no_lf t = true -> body t = Some k -> k = String.length t) -> anchored (ws_then body).
Proof.
  intros Hb t k Ht. unfold ws_then. destruct (span is_ws t) as [|w] eqn:W; [discriminate|].
  destruct (body (drop (S w) t)) as [k'|] eqn:B; [|discriminate]. intros H; inversion H; subst k.
  apply Hb in B; [|now apply no_lf_drop]. subst k'. pose proof (span_len is_ws t) as L. rewrite W in L. exact L.
Qed.
Lemma to_eol_no_lf x k : no_lf x = true -> to_eol x = Some k -> k = String.length x.
Proof.
  intros Hx. unfold to_eol. rewrite (span_all _ x Hx). destruct (at_end _); [|discriminate]. now intros H; inversion H.
Qed.
Lemma at_end_no_lf r : no_lf r = true -> at_end r = true -> r = "".
Proof.
  destruct r as [|c [|c2 r]]; cbn; try reflexivity; try discriminate.
  intros H E. rewrite E in H. discriminate.
Qed.
Lemma drop_nil_len n s : drop n s = "" -> String.length s <= n.
Proof.
  revert s; induction n as [|n IH]; intros s H; cbn in H.
  - destruct s; [cbn; lia | discriminate].
  - destruct s as [|c r]; [cbn; lia|]. cbn. apply IH in H. lia.
Qed.
Lemma span_le p s : span p s <= String.length s.
Proof. pose proof (span_len p s). lia. Qed.

Lemma storeid_anchored : anchored m_storeid.
Proof.
  apply ws_then_anchored. intros t k Ht. cbv beta zeta.
  destruct (Nat.leb 4 (span is_digit t)); [|discriminate].
  destruct (to_eol (drop (span is_digit t) t)) as [k'|] eqn:E; [|discriminate].
  intros H; inversion H; subst k. apply to_eol_no_lf in E; [|now apply no_lf_drop]. subst k'. apply span_len.
Qed.
Lemma state_anchored ic : anchored (m_state ic).
Proof.
  apply ws_then_anchored. intros t k Ht. cbv beta. destruct t as [|a [|b r]]; try discriminate. cbv beta iota zeta.
  match goal with |- context [if ?c then Some 2 else None] => destruct c eqn:E end; [|discriminate]. intros H; inversion H; subst k.
  apply andb_true_iff in E as [_ E]. apply at_end_no_lf in E; [now subst|].
  unfold no_lf in *. cbn [allb] in Ht. apply andb_true_iff in Ht as [_ Ht]. now apply andb_true_iff in Ht as [_ ?].
Qed.
Lemma zip_anchored : anchored m_zip.
Proof.
  apply ws_then_anchored. intros t k Ht. cbv beta.
  destruct (Nat.leb 5 (span is_digit t) && at_end (drop 5 t))%bool eqn:E; [|discriminate].
  intros H; inversion H; subst k. apply andb_true_iff in E as [E1 E2]. apply Nat.leb_le in E1.
  apply at_end_no_lf in E2; [|now apply no_lf_drop]. apply drop_nil_len in E2. pose proof (span_le is_digit t). lia.
Qed.

Lemma upper_no_lf s : no_lf (upper s) = no_lf s.
Proof.
  unfold no_lf, upper. induction s as [|c r IH]; [reflexivity|]. cbn [smap allb]. rewrite IH. f_equal.
  clear. all_chars c.
Qed.
Lemma prefix_no_lf a q : no_lf (a ++ q) = true -> no_lf a = true.
Proof. rewrite no_lf_app. intros H. now apply andb_true_iff in H as [? _]. Qed.

Definition clean3 (d : string) : string := resub m_zip (resub (m_state false) (resub m_storeid (upper d))).
Lemma clean3_prefix d : no_lf d = true -> exists q, upper d = clean3 d ++ q.
Proof.
  intros Hd. unfold clean3. rewrite <- upper_no_lf in Hd.
  destruct (resub_anchored_prefix _ _ storeid_anchored Hd) as [q1 H1].
  assert (N1 : no_lf (resub m_storeid (upper d)) = true) by (rewrite H1 in Hd; now apply prefix_no_lf in Hd).
  destruct (resub_anchored_prefix _ _ (state_anchored false) N1) as [q2 H2].
  assert (N2 : no_lf (resub (m_state false) (resub m_storeid (upper d))) = true) by (rewrite H2 in N1; now apply prefix_no_lf in N1).
  destruct (resub_anchored_prefix _ _ zip_anchored N2) as [q3 H3].
  exists (q3 ++ q2 ++ q1). rewrite H1 at 1. rewrite H2 at 1. rewrite H3 at 1. now rewrite !sapp_assoc.
Qed.

Lemma strip_prefixes_suffix ci ps s : exists p, s = p ++ strip_prefixes ci ps s.
Proof.
  revert s; induction ps as [|x ps IH]; intros s; cbn [strip_prefixes]; [now exists ""|].
  match goal with |- context [strip_prefixes ci ps ?X] => destruct (IH X) as [p Hp]; set (Y := X) in * end.
  assert (S : exists p0, s = p0 ++ Y).
  { subst Y. destruct (if ci then _ else _); [apply drop_suffix | now exists ""]. }
  destruct S as [p0 Hp0]. exists (p0 ++ p). rewrite sapp_assoc, <- Hp. exact Hp0.
Qed.

Lemma clean_eq d : clean d = Some (strip (strip_prefixes false pattern_prefixes (resub m_storeno (clean3 d)))).
Proof. reflexivity. Qed.

Definition plain_char (c : ascii) : bool := negb (is_meta c || is_ws c || raw_forbidden c).
Definition storeno_noop (d : string) : bool := String.eqb (resub m_storeno (clean3 d)) (clean3 d).
Definition plain_guard (d : string) : bool :=
  (no_lf d && storeno_noop d && match clean d with Some s6 => allb plain_char s6 | None => false end)%bool.

Lemma strip_prefixes_substr ci ps s3 u q : u = s3 ++ q -> substr (strip (strip_prefixes ci ps s3)) u.
Proof.
  intros Hq. destruct (strip_prefixes_suffix ci ps s3) as [p Hp].
  revert Hp. generalize (strip_prefixes ci ps s3). intros X Hp.
  eapply substr_trans; [apply strip_substr|].
  rewrite Hq. eapply substr_trans; [|apply substr_prefix].
  rewrite Hp. apply substr_suffix.
Qed.
Lemma clean_substr d s6 : no_lf d = true -> storeno_noop d = true -> clean d = Some s6 -> substr s6 (upper d).
Proof.
  intros Hd Hs Hc. rewrite clean_eq in Hc. unfold storeno_noop in Hs. apply String.eqb_eq in Hs. rewrite Hs in Hc.
  destruct (clean3_prefix d Hd) as [q Hq].
  pose proof (strip_prefixes_substr false pattern_prefixes (clean3 d) (upper d) q Hq) as S.
  revert Hc S. generalize (strip (strip_prefixes false pattern_prefixes (clean3 d))). intros Y Hc S.
  injection Hc as <-. exact S.
Qed.

Lemma escape_plain s : allb plain_char s = true -> escape_meta s = s.
Proof.
  unfold escape_meta. induction s as [|c r IH]; [reflexivity|]. cbn [allb cmap]. intros H. apply andb_true_iff in H as [H1 H2].
  rewrite (IH H2). unfold plain_char in H1. apply negb_true_iff in H1. apply orb_false_iff in H1 as [H1 _].
  apply orb_false_iff in H1 as [H1 _]. now rewrite H1.
Qed.
Lemma plain_nonws s : allb plain_char s = true -> allb nonws s = true.
Proof.
  induction s as [|c r IH]; [reflexivity|]. cbn [allb]. intros H. apply andb_true_iff in H as [H1 H2].
  rewrite (IH H2), andb_true_r. clear -H1. revert H1. all_chars c.
Qed.
Lemma plain_lit s : allb plain_char s = true -> allb lit_plain_char s = true.
Proof.
  induction s as [|c r IH]; [reflexivity|]. cbn [allb]. intros H. apply andb_true_iff in H as [H1 H2].
  rewrite (IH H2), andb_true_r. clear -H1. revert H1. all_chars c.
Qed.
Lemma pattern_of_plain s6 : allb plain_char s6 = true -> pattern_of_clean s6 = Some s6.
Proof.
  intros H. unfold pattern_of_clean. change (apply_escape pattern_escape s6) with (Some (escape_meta s6)).
  rewrite (escape_plain s6 H). destruct s6 as [|c r] eqn:E; [reflexivity|]. rewrite <- E in *.
  rewrite words_single; [reflexivity | subst; discriminate | now apply plain_nonws].
Qed.

Section WithRegex.
  Variable re_search : string -> string -> option bool.
  Theorem matches_partial d neg : plain_guard d = true -> observe re_search Orig d (tags_of neg) = ObsLoaded true.
  Proof.
    unfold plain_guard. intros G. apply andb_true_iff in G as [G G3]. apply andb_true_iff in G as [G1 G2].
    destruct (clean d) as [s6|] eqn:C; [|discriminate].
    unfold observe, suggested_rule, needle_of, suggest_pattern. rewrite C, (pattern_of_plain s6 G3).
    destruct (merchant_name_ok d) as [nm [-> Hnm]].
    unfold rule_text, quote, quote_orig.
    rewrite (observe_loaded re_search _ nm s6).
    - f_equal. apply ci_contains_of_substr_upper. now apply clean_substr.
    - apply load_rule_lines; [assumption | apply qo_no_lf, plain_lit, G3 | apply tags_of_cases | apply qo_roundtrip, plain_lit, G3].
  Qed.
End WithRegex.

Definition odflt (o : option string) : string := match o with Some s => s | None => "" end.
(* the rule the loader produces from the repaired suggestion for d *)
Definition rule_of (d : string) : rule := the_rule (odflt (suggest_merchant_name d)) (odflt (suggest_needle d)).

Lemma rule_of_loaded d neg :
  exists text, suggested_rule Fixed d (tags_of neg) = Some text /\ parse_merchants text = Loaded [rule_of d].
Proof.
  unfold suggested_rule, needle_of, rule_of.
  destruct (merchant_name_ok d) as [nm [-> Hnm]]. destruct (needle_fixed_ok d) as [n [-> Hn]].
  eexists; split; [reflexivity|]. unfold rule_text, quote, quote_fixed. cbn [odflt].
  apply load_rule_lines; [assumption | apply json_no_lf | apply tags_of_cases | apply json_roundtrip].
Qed.
Lemma rule_of_matches d : ci_contains (odflt (suggest_needle d)) d = true.
Proof. destruct (needle_fixed_ok d) as [n [-> Hn]]. exact Hn. Qed.

Section WithRegex.
  Variable re_search : string -> string -> option bool.
  Notation matched := (matched re_search).

  Lemma matched_app rs1 rs2 d : matched rs1 d = Some false -> matched (rs1 ++ rs2) d = matched rs2 d.
  Proof.
    induction rs1 as [|r rs1 IH]; [reflexivity|]. cbn [matched app].
    destruct (eval_expr re_search (mexpr r) d) as [[|]| |]; try exact IH; try discriminate.
    destruct (is_empty (category r)); [exact IH | discriminate].
  Qed.
  Lemma matched_suggested ds d : In d ds -> matched (map rule_of ds) d = Some true.
  Proof.
    induction ds as [|x ds IH]; [intros []|]. intros H. cbn [map matched].
    unfold rule_of at 1. cbn [the_rule mexpr category eval_expr]. change (lower "contains") with "contains".
    cbn [String.eqb Ascii.eqb Bool.eqb is_empty].
    destruct (ci_contains (odflt (suggest_needle x)) d) eqn:E; [reflexivity|].
    destruct H as [->|H]; [now rewrite rule_of_matches in E | now apply IH].
  Qed.

  Definition unknown (rs : list rule) (d : string) : bool :=
    match matched rs d with Some true => false | _ => true end.
  Definition unknown_count (rs : list rule) (ds : list string) : nat := length (filter (unknown rs) ds).

  (* appending the suggestions for the unknown descriptions [ds] classifies every one of them;
     so the Unknown list shrinks strictly whenever at least one suggestion was made *)
  Theorem unknown_shrinks existing ds :
    (forall d, In d ds -> matched existing d = Some false) ->
    (forall d, In d ds -> unknown (existing ++ map rule_of ds) d = false) /\
    (ds <> [] -> unknown_count (existing ++ map rule_of ds) ds < unknown_count existing ds).
  Proof.
    intros H.
    assert (A : forall d, In d ds -> unknown (existing ++ map rule_of ds) d = false).
    { intros d Hd. unfold unknown. rewrite matched_app by now apply H. now rewrite matched_suggested. }
    split; [exact A|]. intros Hne. unfold unknown_count.
    assert (B : forall l, (forall d, In d l -> In d ds) -> filter (unknown (existing ++ map rule_of ds)) l = []).
    { induction l as [|x l IH]; [reflexivity|]. intros Hl. cbn [filter]. rewrite A by (apply Hl; now left).
      apply IH. intros; apply Hl; now right. }
    rewrite (B ds) by auto. cbn [length].
    destruct ds as [|x l]; [congruence|]. cbn [filter]. unfold unknown at 1. rewrite (H x) by now left. cbn. lia.
  Qed.
End WithRegex.

(* ================================================================== refutations of the full statements for the original design *)
Definition no_re (p t : string) : option bool := None.
Lemma orig_multiword_fails : observe no_re Orig "Acme Foo" [] = ObsLoaded false.
Proof. vm_compute. reflexivity. Qed.
Lemma orig_metachar_fails : observe no_re Orig "ACME.COM" [] = ObsLoaded false.
Proof. vm_compute. reflexivity. Qed.
Lemma orig_storeno_fails : observe no_re Orig "STORE #12X" [] = ObsLoaded false.
Proof. vm_compute. reflexivity. Qed.
Lemma orig_nul_fails : observe no_re Orig (String (chr 0) "") [] = ObsLoadErr.
Proof. vm_compute. reflexivity. Qed.

(* ================================================================== statements and the small wrappers used by Props.v *)
Definition loads_statement (v : variant) : Prop :=
  forall (re : string -> string -> option bool) (d : string) (neg : bool),
    exists b, observe re v d (tags_of neg) = ObsLoaded b.
Definition matches_statement (v : variant) : Prop :=
  forall (re : string -> string -> option bool) (d : string) (neg : bool),
    observe re v d (tags_of neg) = ObsLoaded true.
Lemma matches_refuted : ~ matches_statement Orig.
Proof. intros H. specialize (H no_re "Acme Foo" false). cbn [tags_of] in H. rewrite orig_multiword_fails in H. discriminate. Qed.
Lemma loads_refuted : ~ loads_statement Orig.
Proof. intros H. destruct (H no_re (String (chr 0) "") false) as [b Hb]. cbn [tags_of] in Hb. rewrite orig_nul_fails in Hb. discriminate. Qed.
Lemma loads_fixed : loads_statement Fixed.
Proof. intros re d neg. exists true. apply matches_fixed. Qed.
Lemma matches_of_source : C19Src.variant_of_source = Fixed -> matches_statement C19Src.variant_of_source.
Proof. intros ->. exact matches_fixed. Qed.
Lemma loads_of_source : C19Src.variant_of_source = Fixed -> loads_statement C19Src.variant_of_source.
Proof. intros ->. exact loads_fixed. Qed.

(* ================================================================== original design: every NUL-free suggestion loads *)
Definition starts_nonws (r : string) : bool := match r with String c _ => negb (is_ws c) | "" => false end.
Lemma words_cons_nonws c r : is_ws c = false ->
  words (String c r) = if starts_nonws r then cons_first c (words r) else s1 c :: words r.
Proof. intros H. cbn [words]. rewrite H. destruct r as [|c' r']; [reflexivity|]. cbn [starts_nonws]. now destruct (is_ws c'). Qed.
Lemma words_starts_nonws r : starts_nonws r = true -> exists w t, words r = w :: t.
Proof.
  destruct r as [|c r']; [discriminate|]. cbn [starts_nonws]. intros H. apply negb_true_iff in H.
  destruct (words_head_prefix (String c r') c r' eq_refl H) as [w [t [_ [Hw _]]]]. now exists w, t.
Qed.
Definition glue (x : string) (l : list string) : list string := match l with w :: t => (x ++ w) :: t | [] => [x] end.
Lemma words_prepend_nonws x r : x <> "" -> allb nonws x = true ->
  words (x ++ r) = if starts_nonws r then glue x (words r) else x :: words r.
Proof.
  induction x as [|a x IH]; [congruence|]. intros _ H. cbn [allb] in H. apply andb_true_iff in H as [Ha Hx].
  unfold nonws in Ha. apply negb_true_iff in Ha. cbn [append]. rewrite (words_cons_nonws a _ Ha).
  destruct x as [|b x].
  - cbn [append]. destruct (starts_nonws r) eqn:S; [|reflexivity].
    destruct (words_starts_nonws r S) as [w [t ->]]. reflexivity.
  - assert (S2 : starts_nonws (String b x ++ r) = true).
    { cbn [append starts_nonws]. cbn [allb] in Hx. now apply andb_true_iff in Hx as [? _]. }
    rewrite S2, IH by (discriminate || assumption).
    destruct (starts_nonws r) eqn:S; [|reflexivity].
    destruct (words_starts_nonws r S) as [w [t ->]]. reflexivity.
Qed.

Definition esc_char (c : ascii) : string := if is_meta c then String BSL (s1 c) else s1 c.
Lemma escape_cons c r : escape_meta (String c r) = esc_char c ++ escape_meta r.
Proof. reflexivity. Qed.
Lemma esc_char_nonws c : is_ws c = false -> esc_char c <> "" /\ allb nonws (esc_char c) = true.
Proof. revert c. intros c. all_chars c; intros; split; (discriminate || reflexivity). Qed.
Lemma starts_nonws_esc r : starts_nonws (escape_meta r) = starts_nonws r.
Proof. destruct r as [|c r]; [reflexivity|]. change (escape_meta (String c r)) with (esc_char c ++ escape_meta r). generalize (escape_meta r). intros e. all_chars c. Qed.

Lemma words_escape s : words (escape_meta s) = map escape_meta (words s).
Proof.
  induction s as [|c r IH]; [reflexivity|]. rewrite escape_cons.
  destruct (is_ws c) eqn:W.
  - unfold esc_char. rewrite (ws_not_meta c W). cbn [append s1 words]. rewrite W. exact IH.
  - destruct (esc_char_nonws c W) as [N1 N2].
    rewrite (words_prepend_nonws _ _ N1 N2), starts_nonws_esc, IH, (words_cons_nonws c r W).
    destruct (starts_nonws r) eqn:S.
    + destruct (words_starts_nonws r S) as [w [t ->]]. cbn [map glue cons_first]. now rewrite escape_cons.
    + cbn [map]. f_equal. change (escape_meta (s1 c)) with (esc_char c ++ ""). now rewrite sapp_nil_r.
Qed.

(* un-escaping the quoted pattern *)
Fixpoint prepend (pre : string) (r : ures) : ures :=
  match pre with "" => r | String c p => ucons c (prepend p r) end.
Lemma prepend_app a b r : prepend (a ++ b) r = prepend a (prepend b r).
Proof. induction a as [|c a IH]; [reflexivity|]. cbn [append prepend]. now rewrite IH. Qed.
Lemma prepend_ok pre v rest : prepend pre (UOk v rest) = UOk (pre ++ v) rest.
Proof. induction pre as [|c p IH]; [reflexivity|]. cbn [append prepend]. now rewrite IH. Qed.
Lemma cmap_app f a b : cmap f (a ++ b) = cmap f a ++ cmap f b.
Proof. induction a as [|c a IH]; [reflexivity|]. cbn [append cmap]. now rewrite IH, sapp_assoc. Qed.

Definition lit_char_ok (c : ascii) : bool := negb (raw_forbidden c).
(* what the literal "…" denotes for one escaped-and-quoted description character *)
Definition lit_val (c : ascii) : string :=
  if ceq c BSL then s1 BSL else if ceq c DQ then s1 DQ else if is_meta c then String BSL (s1 c) else s1 c.
Lemma qchar_unesc c r : lit_char_ok c = true ->
  unesc UN (cmap qo_char (esc_char c) ++ r) = prepend (lit_val c) (unesc UN r).
Proof. all_chars c. Qed.
Lemma qchar_no_lf c : lit_char_ok c = true -> no_lf (cmap qo_char (esc_char c)) = true.
Proof. all_chars c. Qed.
Lemma qword_unesc w r : allb lit_char_ok w = true ->
  unesc UN (cmap qo_char (escape_meta w) ++ r) = prepend (cmap lit_val w) (unesc UN r).
Proof.
  induction w as [|c w IH]; [reflexivity|]. cbn [allb]. intros H. apply andb_true_iff in H as [H1 H2].
  rewrite escape_cons, cmap_app, sapp_assoc, (qchar_unesc c _ H1), (IH H2). cbn [cmap]. now rewrite prepend_app.
Qed.
Lemma qword_no_lf w : allb lit_char_ok w = true -> no_lf (cmap qo_char (escape_meta w)) = true.
Proof.
  induction w as [|c w IH]; [reflexivity|]. cbn [allb]. intros H. apply andb_true_iff in H as [H1 H2].
  rewrite escape_cons, cmap_app. unfold no_lf in *. rewrite allb_app. fold (no_lf (cmap qo_char (esc_char c))).
  now rewrite (qchar_no_lf c H1), (IH H2).
Qed.
Lemma joiner_unesc r : unesc UN (cmap qo_char pattern_joiner ++ r) = prepend pattern_joiner (unesc UN r).
Proof. reflexivity. Qed.

Lemma qpattern ws : Forall (fun w => allb lit_char_ok w = true) ws ->
  no_lf (cmap qo_char (sconcat pattern_joiner (map escape_meta ws))) = true /\
  exists n, forall r, unesc UN (cmap qo_char (sconcat pattern_joiner (map escape_meta ws)) ++ r) = prepend n (unesc UN r).
Proof.
  induction 1 as [|w t Hw Ht [IH1 [n IH2]]].
  - split; [reflexivity|]. now exists "".
  - destruct t as [|w2 t].
    + cbn [map sconcat]. split; [now apply qword_no_lf|]. eexists. intros r. now apply qword_unesc.
    + change (sconcat pattern_joiner (map escape_meta (w :: w2 :: t)))
        with (escape_meta w ++ pattern_joiner ++ sconcat pattern_joiner (map escape_meta (w2 :: t))).
      rewrite !cmap_app. split.
      * unfold no_lf in *. rewrite !allb_app. fold (no_lf (cmap qo_char (escape_meta w))). rewrite (qword_no_lf w Hw), IH1. reflexivity.
      * exists (cmap lit_val w ++ pattern_joiner ++ n). intros r.
        rewrite !sapp_assoc, (qword_unesc w _ Hw), joiner_unesc, IH2, !prepend_app. reflexivity.
Qed.

(* NUL-freeness survives the cleaning *)
Definition nonnul (c : ascii) : bool := negb (N.eqb (cn c) 0).
Lemma allb_drop p n s : allb p s = true -> allb p (drop n s) = true.
Proof.
  intros H. destruct (drop_suffix n s) as [q Hq]. rewrite Hq, allb_app in H. now apply andb_true_iff in H as [_ ?].
Qed.
Lemma allb_sub_go p m k s : allb p s = true -> allb p (sub_go m k s) = true.
Proof.
  revert k; induction s as [|c r IH]; intros k H; [reflexivity|]. cbn [allb] in H. apply andb_true_iff in H as [H1 H2].
  cbn [sub_go]. destruct k; [|now apply IH]. destruct (m (String c r)) as [[|j]|]; cbn [allb]; rewrite ?H1; cbn [andb]; now apply IH.
Qed.
Lemma allb_rstrip p s : allb p s = true -> allb p (rstrip s) = true.
Proof.
  intros H. destruct (rstrip_prefix s) as [q Hq]. rewrite Hq, allb_app in H. now apply andb_true_iff in H as [? _].
Qed.
Lemma allb_strip_prefixes p ci ps s : allb p s = true -> allb p (strip_prefixes ci ps s) = true.
Proof.
  revert s; induction ps as [|x ps IH]; intros s H; [exact H|]. cbn [strip_prefixes]. apply IH.
  destruct (if ci then _ else _); [now apply allb_drop | exact H].
Qed.
Lemma allb_cons_first p c l : p c = true -> Forall (fun w => allb p w = true) l -> Forall (fun w => allb p w = true) (cons_first c l).
Proof.
  intros Hc Hl. destruct l as [|w t]; cbn [cons_first].
  - constructor; [cbn; now rewrite Hc | constructor].
  - inversion Hl; subst. constructor; [cbn [allb]; now rewrite Hc | assumption].
Qed.
Lemma allb_words p s : allb p s = true -> Forall (fun w => allb p w = true) (words s).
Proof.
  induction s as [|c r IH]; [constructor|]. cbn [allb]. intros H. apply andb_true_iff in H as [H1 H2].
  cbn [words]. destruct (is_ws c); [now apply IH|]. destruct r as [|y r2].
  - constructor; [cbn; now rewrite H1 | constructor].
  - destruct (is_ws y).
    + constructor; [cbn; now rewrite H1 | now apply IH].
    + apply allb_cons_first; [assumption | now apply IH].
Qed.
Lemma upper_nonnul s : allb nonnul (upper s) = allb nonnul s.
Proof. unfold upper. induction s as [|c r IH]; [reflexivity|]. cbn [smap allb]. rewrite IH. f_equal. clear. all_chars c. Qed.
Lemma nonws_nonnul_ok w : allb nonws w = true -> allb nonnul w = true -> allb lit_char_ok w = true.
Proof.
  induction w as [|c w IH]; [reflexivity|]. cbn [allb]. intros A B. apply andb_true_iff in A as [A1 A2]. apply andb_true_iff in B as [B1 B2].
  rewrite (IH A2 B2), andb_true_r. clear -A1 B1. revert A1 B1. all_chars c.
Qed.

Lemma clean_form_nonnul u : allb nonnul u = true ->
  allb nonnul (strip (strip_prefixes false pattern_prefixes (resub m_storeno (resub m_zip (resub (m_state false) (resub m_storeid u)))))) = true.
Proof.
  intros H. unfold strip, lstrip, resub. apply allb_rstrip, allb_drop, allb_strip_prefixes. repeat apply allb_sub_go. exact H.
Qed.
Lemma clean_nonnul d s6 : allb nonnul d = true -> clean d = Some s6 -> allb nonnul s6 = true.
Proof.
  intros H C. rewrite clean_eq in C. rewrite <- upper_nonnul in H. pose proof (clean_form_nonnul (upper d) H) as S.
  unfold clean3 in C. revert C S.
  generalize (strip (strip_prefixes false pattern_prefixes (resub m_storeno (resub m_zip (resub (m_state false) (resub m_storeid (upper d))))))).
  intros Y C S. injection C as <-. exact S.
Qed.

(* no words: the stripped text is empty *)
Lemma words_nil s : words s = [] -> allb is_ws s = true.
Proof.
  induction s as [|c r IH]; [reflexivity|]. destruct (is_ws c) eqn:W.
  - cbn [words allb]. rewrite W. exact IH.
  - rewrite (words_cons_nonws c r W). destruct (starts_nonws r); [|discriminate]. destruct (words r); discriminate.
Qed.
Lemma drop_span_all p s : allb p s = true -> drop (span p s) s = "".
Proof. induction s as [|c r IH]; [reflexivity|]. cbn [allb]. intros H. apply andb_true_iff in H as [H1 H2]. cbn [span]. rewrite H1. cbn [drop]. auto. Qed.
Lemma strip_all_ws s : allb is_ws (strip s) = true -> strip s = "".
Proof.
  intros H. destruct (has_nonws s) eqn:N.
  - destruct (lstrip_nonws_head s N) as [c [r [E Hc]]]. unfold strip in H. rewrite E in H. cbn [rstrip] in H. rewrite Hc in H.
    cbn [andb allb] in H. rewrite Hc in H. discriminate.
  - unfold has_nonws in N. apply negb_false_iff in N. unfold strip, lstrip. now rewrite (drop_span_all _ _ N).
Qed.

Definition no_nul (d : string) : bool := allb nonnul d.

Lemma pattern_loads d : no_nul d = true ->
  exists p n, suggest_pattern d = Some p /\ no_lf (cmap qo_char p) = true /\ unesc UN (cmap qo_char p ++ String DQ ")") = UOk n ")".
Proof.
  intros Hd. unfold suggest_pattern. destruct (clean_total d) as [s6 C]. rewrite C.
  pose proof (clean_nonnul d s6 Hd C) as N6.
  unfold pattern_of_clean. change (apply_escape pattern_escape s6) with (Some (escape_meta s6)).
  cbv beta iota zeta. rewrite words_escape, firstn_map.
  destruct (firstn pattern_take (words s6)) as [|w t] eqn:F.
  - (* no words: s6 is empty *)
    assert (W : words s6 = []). { destruct (words s6); [reflexivity | discriminate]. }
    assert (E : s6 = "").
    { rewrite clean_eq in C. injection C as <-. apply strip_all_ws. now apply words_nil. }
    subst s6. exists "", "". repeat split; reflexivity.
  - assert (G : Forall (fun w => allb lit_char_ok w = true) (w :: t)).
    { rewrite <- F. apply firstn_Forall. pose proof (words_good s6) as G1. pose proof (allb_words nonnul s6 N6) as G2.
      clear -G1 G2. induction G1 as [|x l [_ Hx] Hl IH]; [constructor|]. inversion G2; subst. constructor; [now apply nonws_nonnul_ok | now apply IH]. }
    destruct (qpattern (w :: t) G) as [L [n U]].
    exists (sconcat pattern_joiner (map escape_meta (w :: t))), n. cbn [map] in *. repeat split; [exact L|]. rewrite U. change (unesc UN (String DQ ")")) with (UOk "" ")"). now rewrite prepend_ok, sapp_nil_r.
Qed.

Section WithRegex.
  Variable re_search : string -> string -> option bool.
  Theorem loads_partial d neg : no_nul d = true -> exists b, observe re_search Orig d (tags_of neg) = ObsLoaded b.
  Proof.
    intros Hd. destruct (pattern_loads d Hd) as [p [n [P [L U]]]].
    unfold observe, suggested_rule, needle_of. rewrite P. destruct (merchant_name_ok d) as [nm [-> Hnm]].
    unfold rule_text, quote, quote_orig. exists (ci_contains n d).
    apply (observe_loaded re_search _ nm n). apply load_rule_lines; [assumption | exact L | apply tags_of_cases | exact U].
  Qed.
End WithRegex.

(* ================================================================== the suggestion appended to an existing rules file *)
Lemma parse_header_gen cur done nm :
  has_nonws nm = true ->
  parse_line cur done (String (chr 91) (nm ++ "]")) = flush cur done (fun done' => SOk (Some (new_rule (strip nm))) done').
Proof.
  intros H. unfold parse_line.
  change "]" with (s1 (chr 93)).
  rewrite (strip_id (chr 91) nm (chr 93)) by reflexivity.
  cbn [is_empty starts_with_c orb andb].
  change (N.eqb (cn (chr 91)) 35) with false. change (N.eqb (cn (chr 91)) 91) with true.
  cbn [orb andb]. unfold ends_with_c.
  change (String (chr 91) (nm ++ s1 (chr 93))) with (String (chr 91) nm ++ s1 (chr 93)).
  rewrite last_char_app. change (N.eqb (cn (chr 93)) 93) with true. cbv iota.
  rewrite slen_app. cbn [String.length s1 drop].
  replace (S (String.length nm) + 1 - 2) with (String.length nm) by lia.
  change (String (chr 91) nm ++ s1 (chr 93)) with (String (chr 91) (nm ++ s1 (chr 93))). cbv iota. rewrite take_app_exact.
  now rewrite (strip_nonempty nm H).
Qed.

Lemma rule_tail done nm body n tags :
  (tags = [] \/ tags = ["refund"]) -> unesc UN (body ++ String DQ ")") = UOk n ")" ->
  parse_lines (Some (new_rule (strip nm))) done
    (("match: contains(" ++ String DQ (body ++ s1 DQ) ++ ")") :: "category: CATEGORY" :: "subcategory: SUBCATEGORY" ::
     match tags with [] => [] | _ => ["tags: " ++ sconcat ", " tags] end)
  = Loaded (done ++ [the_rule nm n])%list.
Proof.
  intros Ht Hu.
  assert (P : forall tl, parse_lines (Some (new_rule (strip nm))) done
     (("match: contains(" ++ String DQ (body ++ s1 DQ) ++ ")") :: "category: CATEGORY" :: "subcategory: SUBCATEGORY" :: tl)
     = parse_lines (Some {| r_name := strip nm; r_match := Some ("contains(" ++ String DQ (body ++ s1 DQ) ++ ")");
                           r_category := Some "CATEGORY"; r_subcategory := Some "SUBCATEGORY"; r_merchant := None; r_tags := None |}) done tl).
  { intros tl. cbn [parse_lines]. rewrite parse_match_line. cbv beta iota.
    rewrite (parse_const_line _ _ "category: CATEGORY" "category" "CATEGORY") with (i := 8) by reflexivity.
    unfold dispatch at 1. cbn [String.eqb Ascii.eqb Bool.eqb]. cbv beta iota.
    rewrite (parse_const_line _ _ "subcategory: SUBCATEGORY" "subcategory" "SUBCATEGORY") with (i := 11) by reflexivity.
    unfold dispatch at 1. cbn [String.eqb Ascii.eqb Bool.eqb]. cbv beta iota.
    reflexivity. }
  destruct Ht as [-> | ->].
  - rewrite P. cbn [parse_lines flush]. unfold add_rule. cbn [r_match r_category is_empty negb r_tags].
    rewrite (parse_expr_contains body n Hu). reflexivity.
  - rewrite P. cbn [parse_lines].
    rewrite (parse_const_line _ _ ("tags: " ++ sconcat ", " ["refund"]) "tags" "refund") with (i := 4) by reflexivity.
    unfold dispatch at 1. cbn [String.eqb Ascii.eqb Bool.eqb]. cbv beta iota. cbn [parse_lines flush]. unfold add_rule. cbn [r_match r_category is_empty negb r_tags].
    rewrite (parse_expr_contains body n Hu). reflexivity.
Qed.

Lemma cons_first_app c (l m : list string) : l <> [] -> cons_first c (l ++ m)%list = (cons_first c l ++ m)%list.
Proof. destruct l; [congruence | reflexivity]. Qed.
Lemma split_lf_nonnil s : split_lf s <> [].
Proof. destruct s as [|c r]; cbn [split_lf]; [discriminate|]. destruct (is_lf c); [discriminate|]. destruct (split_lf r); discriminate. Qed.
Lemma split_lf_app_gen a b : split_lf (a ++ String LF b) = (split_lf a ++ split_lf b)%list.
Proof.
  induction a as [|c r IH]; [reflexivity|]. cbn [append split_lf]. rewrite IH.
  destruct (is_lf c); [reflexivity|]. apply cons_first_app, split_lf_nonnil.
Qed.

Lemma parse_lines_app ls1 : forall cur done rs1 nm tl,
  parse_lines cur done ls1 = Loaded rs1 -> has_nonws nm = true ->
  parse_lines cur done (ls1 ++ String (chr 91) (nm ++ "]") :: tl)%list = parse_lines (Some (new_rule (strip nm))) rs1 tl.
Proof.
  induction ls1 as [|l ls1 IH]; intros cur done rs1 nm tl H Hn.
  - cbn [app parse_lines] in *. rewrite (parse_header_gen cur done nm Hn).
    destruct cur as [rd|]; cbn [flush] in *.
    + destruct (add_rule rd); try discriminate. now injection H as <-.
    + now injection H as <-.
  - cbn [app parse_lines] in *. destruct (parse_line cur done l) as [c' d'| |]; try discriminate. now apply IH.
Qed.

Theorem appended_fixed existing rs d neg :
  parse_merchants existing = Loaded rs ->
  exists text, suggested_rule Fixed d (tags_of neg) = Some text /\
    parse_merchants (existing ++ String LF text) = Loaded (rs ++ [rule_of d])%list.
Proof.
  intros He. unfold suggested_rule, needle_of, rule_of.
  destruct (merchant_name_ok d) as [nm [-> Hnm]]. destruct (needle_fixed_ok d) as [n [-> Hn]].
  eexists; split; [reflexivity|]. cbn [odflt]. unfold nm_ok in Hnm. apply andb_true_iff in Hnm as [Hn1 Hn2].
  unfold parse_merchants in *. rewrite split_lf_app_gen.
  unfold rule_text, quote, quote_fixed. rewrite split_lf_sconcat.
  2:{ unfold rule_lines. destruct (tags_of neg); discriminate. }
  2:{ assert (L1 : no_lf (String (chr 91) (nm ++ "]")) = true).
      { unfold no_lf in *. cbn [allb]. rewrite allb_app, Hn1. reflexivity. }
      assert (L2 : no_lf ("match: contains(" ++ String DQ (cmap json_char n ++ s1 DQ) ++ ")") = true).
      { unfold no_lf. rewrite !allb_app. cbn [allb]. rewrite !allb_app. fold (no_lf (cmap json_char n)). rewrite json_no_lf. reflexivity. }
      unfold rule_lines. destruct neg; cbn [tags_of app forallb]; rewrite L1, L2; reflexivity. }
  unfold rule_lines. cbn [app]. rewrite (parse_lines_app _ None [] rs nm _ He Hn2).
  apply rule_tail; [apply tags_of_cases | apply json_roundtrip].
Qed.

(* ================================================================== the repaired design, generically:
   ANY case mapping [up] (Python's full Unicode str.upper included), ANY description cleaning [cleanf],
   ANY word splitter [wordsf], ANY merchant-name function [namef] yielding a loadable header.
   What the property needs from them is one fact about the case mapping (H_first) — nothing about the
   regexes, prefixes or whitespace classes of clean_description. *)
Section Generic.
  Variable up : string -> string.
  Variable wordsf : string -> list string.
  Variable cleanf : string -> string.
  Variable namef : string -> string.
  Variable take_n : nat.

  Definition contains_g (needle text : string) : bool := substrb (up needle) (up text).     (* _fn_contains *)

  Fixpoint try_words_g (n : nat) (ws : list string) (d : string) : option string :=
    match n with
    | O => None
    | S k => let cand := sconcat " " (firstn n ws) in
             if contains_g cand d then Some cand else try_words_g k ws d
    end.
  Definition needle_g (d : string) : string :=
    let ws := firstn take_n (wordsf (cleanf d)) in
    match try_words_g (length ws) ws d with
    | Some n => n
    | None => match wordsf (up d) with w :: _ => w | [] => "" end
    end.

  (* the first word of an upper-cased text, upper-cased again, occurs in that upper-cased text; and up "" = "" *)
  Hypothesis H_first : forall s w t, wordsf (up s) = w :: t -> substr (up w) (up s).
  Hypothesis H_empty : up "" = "".
  Hypothesis H_name : forall d, nm_ok (namef d) = true.

  Lemma try_words_g_sound n ws d c : try_words_g n ws d = Some c -> contains_g c d = true.
  Proof.
    induction n as [|k IH]; cbn [try_words_g]; [discriminate|].
    destruct (contains_g (sconcat " " (firstn (S k) ws)) d) eqn:E; [|exact IH].
    intros H; inversion H; subst. exact E.
  Qed.

  Theorem needle_generic d : contains_g (needle_g d) d = true.
  Proof.
    unfold needle_g. cbv zeta.
    destruct (try_words_g _ _ d) as [c|] eqn:E; [eapply try_words_g_sound; eauto|].
    destruct (wordsf (up d)) as [|w t] eqn:W.
    - unfold contains_g. rewrite H_empty. now destruct (up d).
    - unfold contains_g. apply substrb_complete. eapply H_first; eauto.
  Qed.

  Theorem rule_generic d neg :
    parse_merchants (rule_text Fixed (namef d) (needle_g d) (tags_of neg)) = Loaded [the_rule (namef d) (needle_g d)]
    /\ contains_g (needle_g d) d = true.
  Proof.
    split; [|apply needle_generic]. unfold rule_text, quote, quote_fixed.
    apply load_rule_lines; [apply H_name | apply json_no_lf | apply tags_of_cases | apply json_roundtrip].
  Qed.
End Generic.

(* the concrete model is the instance up := ASCII upper, wordsf := words, cleanf := clean *)
Definition clean_fn (d : string) : string :=
  strip (strip_prefixes false pattern_prefixes (resub m_storeno (clean3 d))).
Lemma suggest_needle_is_instance d : suggest_needle d = Some (needle_g upper words clean_fn pattern_take d).
Proof. reflexivity. Qed.
Lemma ascii_first s w t : words (upper s) = w :: t -> substr (upper w) (upper s).
Proof. intros H. apply words_hd_substr in H. apply substr_upper in H. now rewrite upper_idem in H. Qed.

(* the needle itself (not only its upper-casing) occurs in the upper-cased description *)
Definition not_lower (c : ascii) : bool := negb (is_lower_ascii c).
Lemma upper_not_lower s : allb not_lower (upper s) = true.
Proof. unfold upper. induction s as [|c r IH]; [reflexivity|]. cbn [smap allb]. rewrite IH, andb_true_r. clear. all_chars c. Qed.
Lemma upper_fix s : allb not_lower s = true -> upper s = s.
Proof.
  unfold upper. induction s as [|c r IH]; [reflexivity|]. cbn [allb smap]. intros H. apply andb_true_iff in H as [H1 H2].
  rewrite (IH H2). f_equal. clear -H1. revert H1. all_chars c.
Qed.
Lemma clean_form_allb p u : allb p u = true ->
  allb p (strip (strip_prefixes false pattern_prefixes (resub m_storeno (resub m_zip (resub (m_state false) (resub m_storeid u)))))) = true.
Proof.
  intros H. unfold strip, lstrip, resub. apply allb_rstrip, allb_drop, allb_strip_prefixes. repeat apply allb_sub_go. exact H.
Qed.
Lemma sconcat_sp_allb p ws : p " "%char = true -> Forall (fun w => allb p w = true) ws -> allb p (sconcat " " ws) = true.
Proof.
  intros Hs. induction 1 as [|w t Hw Ht IH]; [reflexivity|]. destruct t as [|w2 t]; cbn [sconcat]; [exact Hw|].
  rewrite !allb_app, Hw. cbn [allb]. rewrite Hs. exact IH.
Qed.
Lemma try_words_allb p n ws d c : p " "%char = true -> Forall (fun w => allb p w = true) ws ->
  try_words n ws d = Some c -> allb p c = true.
Proof.
  intros Hs Hw. induction n as [|k IH]; cbn [try_words]; [discriminate|].
  destruct (ci_contains _ d); [|exact IH]. intros H. clear IH. injection H as <-.
  apply sconcat_sp_allb; [exact Hs | now apply (firstn_Forall _ (S k))].
Qed.
Lemma needle_not_lower d n : suggest_needle d = Some n -> allb not_lower n = true.
Proof.
  unfold suggest_needle. rewrite clean_eq. unfold clean3. intros H.
  pose proof (clean_form_allb not_lower (upper d) (upper_not_lower d)) as C. revert H C.
  generalize (strip (strip_prefixes false pattern_prefixes (resub m_storeno (resub m_zip (resub (m_state false) (resub m_storeid (upper d))))))).
  intros s6 H C. cbv zeta in H.
  destruct (try_words _ _ d) as [c|] eqn:E.
  - injection H as <-. eapply try_words_allb; [reflexivity | | exact E]. apply firstn_Forall, allb_words, C.
  - destruct (words (upper d)) as [|w t] eqn:W; injection H as <-; [reflexivity|].
    pose proof (allb_words not_lower (upper d) (upper_not_lower d)) as F. rewrite W in F. now inversion F.
Qed.
Theorem needle_substring d n : suggest_needle d = Some n -> substr n (upper d).
Proof.
  intros H. pose proof (needle_not_lower d n H) as L.
  destruct (needle_fixed_ok d) as [n' [E C]]. rewrite H in E. injection E as <-.
  unfold ci_contains in C. apply substrb_sound in C. now rewrite (upper_fix n L) in C.
Qed.

(* quoting: for every string, the literal discover writes un-escapes to that string, and the match line parses to contains(it) *)
Theorem quote_roundtrip n :
  (forall rest, unesc UN (cmap json_char n ++ String DQ rest) = UOk n rest) /\
  parse_expr ("contains(" ++ quote_fixed n ++ ")") = POk (ECall "contains" n).
Proof. split; [intros; apply json_roundtrip|]. unfold quote_fixed. apply parse_expr_contains, json_roundtrip. Qed.

(* the hypotheses of the generic theorems are satisfiable: the ASCII model is an instance *)
Lemma ascii_name_ok d : nm_ok (odflt (suggest_merchant_name d)) = true.
Proof. destruct (merchant_name_ok d) as [nm [-> H]]. exact H. Qed.
Lemma generic_ascii_instance d neg :
  parse_merchants (rule_text Fixed (odflt (suggest_merchant_name d)) (needle_g upper words clean_fn pattern_take d) (tags_of neg))
    = Loaded [the_rule (odflt (suggest_merchant_name d)) (needle_g upper words clean_fn pattern_take d)]
  /\ contains_g upper (needle_g upper words clean_fn pattern_take d) d = true.
Proof. exact (rule_generic upper words clean_fn (fun d => odflt (suggest_merchant_name d)) pattern_take ascii_first eq_refl ascii_name_ok d neg). Qed.

(* ================================================================== the tree under test has the repaired design (since /repo f2d3c2b) *)
Lemma source_is_fixed : C19Src.variant_of_source = Fixed.
Proof. reflexivity. Qed.
Lemma matches_source : matches_statement C19Src.variant_of_source.
Proof. rewrite source_is_fixed. exact matches_fixed. Qed.
Lemma loads_source : loads_statement C19Src.variant_of_source.
Proof. rewrite source_is_fixed. exact loads_fixed. Qed.
