(* C19/Proofs.v — lemmas behind C19/Props.v. *)
From Coq Require Import String Ascii List Bool NArith Arith Lia.
From Tally Require Import Lib.Str C19.Model C19.Source Gen.C19Patterns.
Import ListNotations.
Open Scope string_scope.

(* ================================================================== the source is the modelled one *)
Definition expected_text (v : variant) := match v with Orig => expected_orig | Fixed => expected_fixed end.
Definition source_ok : Prop :=
  C19Src.pattern_subs = pattern_subs /\ C19Src.pattern_escape = pattern_escape /\
  C19Src.pattern_prefixes = pattern_prefixes /\ C19Src.pattern_joiner = pattern_joiner /\
  C19Src.pattern_take = pattern_take /\ C19Src.merchant_subs = merchant_subs /\
  C19Src.merchant_prefixes = merchant_prefixes /\ C19Src.merchant_take = merchant_take /\
  C19Src.source_text = expected_text C19Src.variant_of_source.
Lemma source_is_modelled : source_ok.
Proof. repeat split; reflexivity. Qed.

(* ================================================================== characters (256 cases each) *)
Ltac all_chars c := destruct c as [[] [] [] [] [] [] [] []]; try reflexivity; try discriminate.

Lemma ceq_eq a b : ceq a b = true -> a = b.
Proof.
  unfold ceq, cn. intros H. apply N.eqb_eq in H.
  rewrite <- (ascii_N_embedding a), <- (ascii_N_embedding b). now rewrite H.
Qed.
Lemma ceq_refl a : ceq a a = true.
Proof. unfold ceq. apply N.eqb_refl. Qed.
Lemma upper_char_idem c : upper_char (upper_char c) = upper_char c.
Proof. all_chars c. Qed.
Lemma ws_not_meta c : is_ws c = true -> is_meta c = false.
Proof. all_chars c. Qed.
Lemma lf_is_ws c : is_lf c = true -> is_ws c = true.
Proof. all_chars c. Qed.
Lemma alpha_case_not_ws c : is_alpha c = true -> is_ws (upper_char c) = false /\ is_ws (lower_char c) = false.
Proof. all_chars c; intros; split; reflexivity. Qed.

(* ================================================================== strings *)
Lemma sapp_assoc (a b c : string) : (a ++ b) ++ c = a ++ (b ++ c).
Proof. induction a as [|x a IH]; simpl; [reflexivity | now rewrite IH]. Qed.
Lemma sapp_nil_r (a : string) : a ++ "" = a.
Proof. induction a as [|x a IH]; simpl; [reflexivity | now rewrite IH]. Qed.
Lemma slen_app (a b : string) : String.length (a ++ b) = String.length a + String.length b.
Proof. induction a as [|x a IH]; simpl; [reflexivity | now rewrite IH]. Qed.
Lemma take_app_exact (a b : string) : take (String.length a) (a ++ b) = a.
Proof. induction a as [|x a IH]; simpl; [now destruct b | now rewrite IH]. Qed.
Lemma drop_app_exact (a b : string) : drop (String.length a) (a ++ b) = b.
Proof. induction a as [|x a IH]; simpl; [now destruct b | exact IH]. Qed.
Lemma drop_suffix n s : exists p, s = p ++ drop n s.
Proof.
  revert s; induction n as [|n IH]; intros s.
  - exists "". now destruct s.
  - destruct s as [|c r]; [now exists ""|]. destruct (IH r) as [p Hp]. exists (String c p). simpl. now rewrite <- Hp.
Qed.
Lemma span_drop p s : s = take (span p s) s ++ drop (span p s) s.
Proof. induction s as [|c r IH]; simpl; [reflexivity|]. destruct (p c); simpl; [now rewrite <- IH | reflexivity]. Qed.
Lemma span_len p s : span p s + String.length (drop (span p s) s) = String.length s.
Proof. induction s as [|c r IH]; simpl; [reflexivity|]. destruct (p c); simpl; [now rewrite IH | reflexivity]. Qed.
Lemma span_all p s : allb p s = true -> span p s = String.length s.
Proof.
  induction s as [|c r IH]; simpl; [reflexivity|]. intros H. apply andb_true_iff in H as [H1 H2].
  rewrite H1. now rewrite IH.
Qed.
Lemma allb_app p a b : allb p (a ++ b) = (allb p a && allb p b)%bool.
Proof. induction a as [|x a IH]; simpl; [reflexivity | now rewrite IH, andb_assoc]. Qed.
Lemma upper_app a b : upper (a ++ b) = upper a ++ upper b.
Proof. unfold upper. induction a as [|x a IH]; simpl; [reflexivity | now rewrite IH]. Qed.
Lemma upper_idem a : upper (upper a) = upper a.
Proof. unfold upper. induction a as [|x a IH]; simpl; [reflexivity | now rewrite IH, upper_char_idem]. Qed.

(* substring relation and its decision procedure (Python `in`) *)
Definition substr (a b : string) : Prop := exists p q, b = p ++ a ++ q.
Lemma substr_refl a : substr a a.
Proof. exists "", "". simpl. now rewrite sapp_nil_r. Qed.
Lemma substr_trans a b c : substr a b -> substr b c -> substr a c.
Proof.
  intros [p [q H]] [p' [q' H']]. exists (p' ++ p), (q ++ q'). subst.
  now rewrite !sapp_assoc.
Qed.
Lemma substr_suffix p s : substr s (p ++ s).
Proof. exists p, "". now rewrite sapp_nil_r. Qed.
Lemma substr_prefix s q : substr s (s ++ q).
Proof. now exists "", q. Qed.
Lemma substr_cons a c b : substr a b -> substr a (String c b).
Proof. intros [p [q H]]. exists (String c p), q. simpl. now rewrite H. Qed.
Lemma substr_upper a b : substr a b -> substr (upper a) (upper b).
Proof. intros [p [q H]]. exists (upper p), (upper q). subst. now rewrite !upper_app. Qed.

Lemma prefixb_app a q : prefixb a (a ++ q) = true.
Proof. induction a as [|x a IH]; simpl; [reflexivity | now rewrite ceq_refl, IH]. Qed.
Lemma prefixb_spec a b : prefixb a b = true -> exists q, b = a ++ q.
Proof.
  revert b; induction a as [|x a IH]; intros b H; simpl in *.
  - now exists b.
  - destruct b as [|y b]; [discriminate|]. apply andb_true_iff in H as [H1 H2].
    apply ceq_eq in H1. subst. destruct (IH _ H2) as [q Hq]. exists q. now rewrite Hq.
Qed.
Lemma substrb_complete a b : substr a b -> substrb a b = true.
Proof.
  intros [p [q H]]. subst b. induction p as [|c p IH]; simpl.
  - destruct (a ++ q) eqn:E; simpl; rewrite <- ?E; rewrite prefixb_app; reflexivity.
  - rewrite IH. apply orb_true_r.
Qed.
Lemma substrb_sound a b : substrb a b = true -> substr a b.
Proof.
  induction b as [|c b IH]; simpl; intros H.
  - rewrite orb_false_r in H. apply prefixb_spec in H as [q Hq]. exists "", q. exact Hq.
  - apply orb_true_iff in H as [H|H].
    + apply prefixb_spec in H as [q Hq]. exists "", q. exact Hq.
    + apply substr_cons. now apply IH.
Qed.

Lemma ci_contains_of_substr_upper w d : substr w (upper d) -> ci_contains w d = true.
Proof.
  intros H. unfold ci_contains. apply substrb_complete.
  apply substr_upper in H. now rewrite upper_idem in H.
Qed.
