From Coq Require Import String Ascii List Bool NArith Arith Lia.
From Tally Require Import Lib.Str C19.Model C19.Source Gen.C19Patterns.
Import ListNotations.
Open Scope string_scope.

Definition expected_text (v : variant) := match v with Orig => expected_orig | Fixed => expected_fixed end.
Definition source_ok : Prop :=
  C19Src.pattern_subs = pattern_subs /\ C19Src.pattern_escape = pattern_escape /\
  C19Src.pattern_prefixes = pattern_prefixes /\ C19Src.pattern_joiner = pattern_joiner /\
  C19Src.pattern_take = pattern_take /\ C19Src.merchant_subs = merchant_subs /\
  C19Src.merchant_prefixes = merchant_prefixes /\ C19Src.merchant_take = merchant_take /\
  C19Src.source_text = expected_text C19Src.variant_of_source.
Lemma source_is_modelled : source_ok.
Proof. repeat split; reflexivity. Qed.
