(* C19/Source.v — the normalised statements (ast.unparse) of the discover.py code that C19/Model.v was
   written against: [expected_orig] = the unchanged tree, [expected_fixed] = the tree with
   proposed_fixes/C19-literal-needle.diff applied.  Hand-maintained (produced once with
   `python3 tools/c19_patterns.py <tree> --expected`); Gen/C19Patterns.v is regenerated on every
   run and Proofs.v [source_is_modelled] demands that it equals the entry for its variant. *)
From Coq Require Import String List.
Import ListNotations.
Open Scope string_scope.
Definition expected_orig : list (string * list string) := [
  ("cmd_discover.emit",
   ["suggest_pattern(raw_desc)";
    "suggest_merchant_name(raw_desc)";
    "suggest_pattern(raw_desc)";
    "suggest_merchant_name(raw_desc)";
    "suggest_merchants_rule(merchant, pattern, tags=suggested_tags)";
    "suggest_pattern(raw_desc)";
    "suggest_merchant_name(raw_desc)";
    "print(f'   match: contains(""{pattern}"")')"]);
  ("suggest_merchant_name",
   ["import re";
    "desc = description";
    "prefixes = ['APLPAY ', 'SQ *', 'TST*', 'TST* ', 'SP ', 'PP*', 'GOOGLE *']";
    "for prefix in prefixes:
    if desc.upper().startswith(prefix.upper()):
        desc = desc[len(prefix):]";
    "desc = re.sub('\\s+\\d{4,}.*$', '', desc)";
    "desc = re.sub('\\s+[A-Z]{2}$', '', desc, flags=re.IGNORECASE)";
    "desc = re.sub('\\s+\\d{5}$', '', desc)";
    "desc = re.sub('\\s+#\\d+', '', desc)";
    "desc = re.sub('\\s+DES:.*$', '', desc, flags=re.IGNORECASE)";
    "desc = re.sub('\\s+ID:.*$', '', desc, flags=re.IGNORECASE)";
    "words = desc.split()[:3]";
    "if words:
    return ' '.join(words).title()";
    "return 'Unknown'"]);
  ("suggest_merchants_rule",
   ["escaped_pattern = pattern.replace('""', '\\""')";
    "rule = f'[{merchant_name}]\nmatch: contains(""{escaped_pattern}"")\ncategory: CATEGORY\nsubcategory: SUBCATEGORY'";
    "if tags:
    rule += f""\ntags: {', '.join(tags)}""";
    "return rule"]);
  ("suggest_pattern",
   ["import re";
    "desc = description.upper()";
    "desc = re.sub('\\s+\\d{4,}.*$', '', desc)";
    "desc = re.sub('\\s+[A-Z]{2}$', '', desc)";
    "desc = re.sub('\\s+\\d{5}$', '', desc)";
    "desc = re.sub('\\s+#\\d+', '', desc)";
    "prefixes = ['APLPAY ', 'SQ *', 'TST*', 'SP ', 'PP*', 'GOOGLE *']";
    "for prefix in prefixes:
    if desc.startswith(prefix):
        desc = desc[len(prefix):]";
    "desc = desc.strip()";
    "pattern = re.sub('([.*+?^${}()|[\\]\\\\])', '\\\\\\1', desc)";
    "words = pattern.split()[:3]";
    "if words:
    pattern = '\\s*'.join(words)";
    "return pattern"])
].

Definition expected_fixed : list (string * list string) := [
  ("clean_description",
   ["import re";
    "desc = description.upper()";
    "desc = re.sub('\\s+\\d{4,}.*$', '', desc)";
    "desc = re.sub('\\s+[A-Z]{2}$', '', desc)";
    "desc = re.sub('\\s+\\d{5}$', '', desc)";
    "desc = re.sub('\\s+#\\d+', '', desc)";
    "prefixes = ['APLPAY ', 'SQ *', 'TST*', 'SP ', 'PP*', 'GOOGLE *']";
    "for prefix in prefixes:
    if desc.startswith(prefix):
        desc = desc[len(prefix):]";
    "desc = desc.strip()";
    "return desc"]);
  ("cmd_discover.emit",
   ["suggest_pattern(raw_desc)";
    "suggest_merchant_name(raw_desc)";
    "suggest_pattern(raw_desc)";
    "suggest_merchant_name(raw_desc)";
    "suggest_merchants_rule(merchant, suggest_needle(raw_desc), tags=suggested_tags)";
    "suggest_needle(raw_desc)";
    "suggest_pattern(raw_desc)";
    "suggest_merchant_name(raw_desc)";
    "print(f'   match: contains({quote_needle(suggest_needle(raw_desc))})')";
    "quote_needle(suggest_needle(raw_desc))";
    "suggest_needle(raw_desc)"]);
  ("quote_needle",
   ["import json";
    "return json.dumps(needle, ensure_ascii=False)"]);
  ("suggest_merchant_name",
   ["import re";
    "desc = description";
    "prefixes = ['APLPAY ', 'SQ *', 'TST*', 'TST* ', 'SP ', 'PP*', 'GOOGLE *']";
    "for prefix in prefixes:
    if desc.upper().startswith(prefix.upper()):
        desc = desc[len(prefix):]";
    "desc = re.sub('\\s+\\d{4,}.*$', '', desc)";
    "desc = re.sub('\\s+[A-Z]{2}$', '', desc, flags=re.IGNORECASE)";
    "desc = re.sub('\\s+\\d{5}$', '', desc)";
    "desc = re.sub('\\s+#\\d+', '', desc)";
    "desc = re.sub('\\s+DES:.*$', '', desc, flags=re.IGNORECASE)";
    "desc = re.sub('\\s+ID:.*$', '', desc, flags=re.IGNORECASE)";
    "words = desc.split()[:3]";
    "if words:
    return ' '.join(words).title()";
    "return 'Unknown'"]);
  ("suggest_merchants_rule",
   ["rule = f'[{merchant_name}]\nmatch: contains({quote_needle(needle)})\ncategory: CATEGORY\nsubcategory: SUBCATEGORY'";
    "if tags:
    rule += f""\ntags: {', '.join(tags)}""";
    "return rule"]);
  ("suggest_needle",
   ["upper = description.upper()";
    "words = clean_description(description).split()[:3]";
    "while words:
    needle = ' '.join(words)
    if needle.upper() in upper:
        return needle
    words.pop()";
    "first = upper.split()[:1]";
    "return first[0] if first else ''"]);
  ("suggest_pattern",
   ["import re";
    "desc = clean_description(description)";
    "pattern = re.sub('([.*+?^${}()|[\\]\\\\])', '\\\\\\1', desc)";
    "words = pattern.split()[:3]";
    "if words:
    pattern = '\\s*'.join(words)";
    "return pattern"])
].

