(* C05/Cases.v — glue for the correspondence check (harness/c05.py): decoding of the generated cases
   and the comparison of the model's result with what the implementation returned.  No theorem depends
   on this file.  Each case is the byte string (packed, see the end of the file) of a forest of  tree ::= '(' tree* ')' | escaped-bytes ';'  with '~hh' hex escapes. *)
From Coq Require Import String Ascii.
From Coq Require Import List Bool ZArith NArith Arith Uint63.
From Tally Require Import C05.Model C05.Csv.
Import ListNotations.
Open Scope N_scope.

Inductive tree := Leaf (s : bs) | Node (l : list tree).

Definition hexv (c : N) : N := if c <? 58 then c - 48 else c - 87.   (* 0-9 a-f *)

Fixpoint ptree (l cur : bs) (top : list tree) (stk : list (list tree)) : option (list tree) :=
  match l with
  | [] => match stk with [] => Some (rev top) | _ => None end
  | c :: r =>
    if c =? 40 then ptree r [] [] (top :: stk)
    else if c =? 41 then match stk with up :: stk' => ptree r [] (Node (rev top) :: up) stk' | [] => None end
    else if c =? 59 then ptree r [] (Leaf (rev cur) :: top) stk
    else if c =? 126 then match r with
                          | h1 :: h2 :: r' => ptree r' ((hexv h1 * 16 + hexv h2) :: cur) top stk
                          | _ => None
                          end
    else ptree r (c :: cur) top stk
  end.
Definition forest (s : string) : option (list tree) := ptree (bytes s) [] [] [].

(* ---- option monad helpers *)
Definition obind {A B} (o : option A) (f : A -> option B) : option B := match o with Some a => f a | None => None end.
Notation "x <~ o ;; k" := (obind o (fun x => k)) (at level 61, o at next level, right associativity).
Fixpoint omap {A B} (f : A -> option B) (l : list A) : option (list B) :=
  match l with [] => Some [] | x :: r => y <~ f x ;; ys <~ omap f r ;; Some (y :: ys) end.

Definition d_bs (t : tree) : option bs := match t with Leaf s => Some s | _ => None end.
Fixpoint nat_of_digits (l : bs) (acc : nat) : nat :=
  match l with [] => acc | c :: r => nat_of_digits r (acc * 10 + N.to_nat (c - 48))%nat end.
Fixpoint Z_of_digits (l : bs) (acc : Z) : Z :=
  match l with [] => acc | c :: r => Z_of_digits r (acc * 10 + Z.of_N (c - 48))%Z end.
Definition d_nat (t : tree) : option nat := match t with Leaf s => Some (nat_of_digits s 0) | _ => None end.
Definition d_Z (t : tree) : option Z :=
  match t with
  | Leaf (c :: r) => if c =? 45 then Some (- Z_of_digits r 0)%Z else Some (Z_of_digits (c :: r) 0)
  | _ => None
  end.
Definition d_bool (t : tree) : option bool :=
  match t with Leaf [c] => Some (c =? 49) | _ => None end.
Definition d_opt {A} (f : tree -> option A) (t : tree) : option (option A) :=
  match t with Node [] => Some None | Node [x] => y <~ f x ;; Some (Some y) | _ => None end.
Definition d_list {A} (f : tree -> option A) (t : tree) : option (list A) :=
  match t with Node l => omap f l | _ => None end.
Definition d_pair {A B} (f : tree -> option A) (g : tree -> option B) (t : tree) : option (A * B) :=
  match t with Node [x; y] => a <~ f x ;; b <~ g y ;; Some (a, b) | _ => None end.
Definition tag (t : tree) : N := match t with Leaf [c] => c | _ => 0 end.

Definition d_piece (t : tree) : option piece :=
  match t with
  | Node [k; s] => x <~ d_bs s ;; if tag k =? 76 then Some (Lit x) else if tag k =? 82 then Some (Ref x) else None
  | _ => None
  end.
Definition d_desc (t : tree) : option desc_mode :=
  match t with
  | Node [k; a; b] =>
    if tag k =? 68 (* D *) then c <~ d_nat a ;; ex <~ d_list (d_pair d_bs d_nat) b ;; Some (DescCol c ex)
    else if tag k =? 84 (* T *) then cs <~ d_list (d_pair d_bs d_nat) a ;; ps <~ d_list d_piece b ;; Some (Template cs ps)
    else None
  | _ => None
  end.
Definition d_spec (t : tree) : option spec :=
  match t with
  | Node [dc; fmt; ac; de; lc; hh; ng; ab; ss; sn; ds] =>
    dc <~ d_nat dc ;; fmt <~ d_bs fmt ;; ac <~ d_nat ac ;; de <~ d_desc de ;; lc <~ d_opt d_nat lc ;;
    hh <~ d_bool hh ;; ng <~ d_bool ng ;; ab <~ d_bool ab ;; ss <~ d_opt d_bs ss ;; sn <~ d_bs sn ;; ds <~ d_bs ds ;;
    Some {| date_col := dc; date_fmt := fmt; amount_col := ac; desc := de; loc_col := lc; has_header := hh;
            negate := ng; absolute := ab; spec_source := ss; source_name := sn; dec_sep := ds |}
  | _ => None
  end.
Definition d_rline (t : tree) : option rline :=
  match t with
  | Node [r; g] => r <~ d_bs r ;; g <~ d_opt (d_list (d_opt d_bs)) g ;; Some {| raw := r; groups := g |}
  | _ => None
  end.
Fixpoint recs_eqb (a b : list (list bs)) : bool :=
  match a, b with
  | [], [] => true
  | x :: r, y :: s => (fix leq (u v : list bs) : bool :=
                         match u, v with [], [] => true | p :: u', q :: v' => bs_eqb p q && leq u' v' | _, _ => false end) x y
                      && recs_eqb r s
  | _, _ => false
  end.
Definition d_input (t : tree) : option input :=
  match t with
  | Node [k; a] =>
    if tag k =? 67 (* C *) then recs <~ d_list (d_list d_bs) a ;; Some (CsvIn recs)
    else if tag k =? 82 (* R *) then ls <~ d_list d_rline a ;; Some (RegexIn ls)
    else None
  | Node [k; dl; tx; lib] =>
    (* F: the delimiter setting, the TEXT of the file and the records CPython's csv.reader made of it: the model
       reads the text itself (C05/Csv.v) and must find the same records *)
    if tag k =? 70 then
      dl <~ d_opt d_bs dl ;; tx <~ d_bs tx ;; lib <~ d_list (d_list d_bs) lib ;;
      match reader_of dl with
      | RCsv d => match csv_records d tx with
                  | Some recs => if recs_eqb recs lib then Some (CsvIn recs) else None
                  | None => None
                  end
      | _ => None
      end
    else None
  | _ => None
  end.

(* what the implementation returned.  A finite amount is a double x; it is given by the two ends
   lo = ln * 2^le, hi = hn * 2^he of the set of reals that round to x, and whether the ends belong to it *)
Inductive eamount := EFin (ln le hn he : Z) (closed : bool) | EInf (neg : bool) | ENaN.
Record etxn := { e_date : bs; e_desc : bs; e_amount : eamount; e_source : bs; e_field : option (list (bs * bs));
                 e_loc : option bs; e_credit : bool }.
Inductive expected := ERows (l : list etxn) | ECrashed.

Definition d_amount (t : tree) : option eamount :=
  match t with
  | Node [k] => if tag k =? 78 then Some ENaN else None
  | Node [k; n] => if tag k =? 73 then b <~ d_bool n ;; Some (EInf b) else None
  | Node [k; a; b; c; d; e] =>
    if tag k =? 70 then a <~ d_Z a ;; b <~ d_Z b ;; c <~ d_Z c ;; d <~ d_Z d ;; e <~ d_bool e ;; Some (EFin a b c d e) else None
  | _ => None
  end.
Definition d_etxn (t : tree) : option etxn :=
  match t with
  | Node [d; de; a; s; f; l; c] =>
    d <~ d_bs d ;; de <~ d_bs de ;; a <~ d_amount a ;; s <~ d_bs s ;; f <~ d_opt (d_list (d_pair d_bs d_bs)) f ;;
    l <~ d_opt d_bs l ;; c <~ d_bool c ;;
    Some {| e_date := d; e_desc := de; e_amount := a; e_source := s; e_field := f; e_loc := l; e_credit := c |}
  | _ => None
  end.
Definition d_expected (t : tree) : option expected :=
  match t with
  | Node [k] => if tag k =? 88 then Some ECrashed else None
  | Node [k; l] => if tag k =? 69 then l <~ d_list d_etxn l ;; Some (ERows l) else None
  | _ => None
  end.

(* ---- comparison *)
(* compare m * 10^e with n * 2^k *)
Definition q_cmp (m e n k : Z) : comparison :=
  let l := (if 0 <=? e then m * 10 ^ e else m)%Z in
  let r := (if 0 <=? e then n else n * 10 ^ (- e))%Z in
  if (0 <=? k)%Z then Z.compare l (r * 2 ^ k) else Z.compare (l * 2 ^ (- k)) r.
Definition amount_ok (a : fl) (x : eamount) : bool :=
  match a, x with
  | Fin m e, EFin ln le hn he closed =>
    match q_cmp m e ln le, q_cmp m e hn he with
    | Gt, Lt => true
    | Eq, Lt | Gt, Eq | Eq, Eq => closed
    | _, _ => false
    end
  | Inf n, EInf n' => Bool.eqb n n'
  | NaN, ENaN => true
  | _, _ => false
  end.
Definition obs_eqb (a b : option bs) : bool :=
  match a, b with Some x, Some y => bs_eqb x y | None, None => true | _, _ => false end.
Fixpoint fields_eqb (a b : list (bs * bs)) : bool :=
  match a, b with
  | [], [] => true
  | (k, v) :: r, (k', v') :: s => bs_eqb k k' && bs_eqb v v' && fields_eqb r s
  | _, _ => false
  end.
Definition txn_ok (t : txn) (e : etxn) : bool :=
  bs_eqb (t_date t) (e_date e) && bs_eqb (t_desc t) (e_desc e) && amount_ok (t_amount t) (e_amount e)
  && bs_eqb (t_source t) (e_source e)
  && match t_field t, e_field e with Some x, Some y => fields_eqb x y | None, None => true | _, _ => false end
  && obs_eqb (t_loc t) (e_loc e) && Bool.eqb (t_credit t) (e_credit e).
Fixpoint txns_ok (a : list txn) (b : list etxn) : bool :=
  match a, b with [], [] => true | t :: r, e :: s => txn_ok t e && txns_ok r s | _, _ => false end.

(* strptime oracle: the table datetime.strptime produced for this case; a text that is not in the table
   yields a marker date, so a wrong key can only show up as a disagreement *)
Fixpoint lookup (t : list (bs * option bs)) (k : bs) : option bs :=
  match t with [] => Some (bytes "?not-in-oracle-table") | (k', v) :: r => if bs_eqb k k' then v else lookup r k end.

Definition ok_case (t : tree) : bool :=
  match t with
  | Node [sp; tbl; inp; ex] =>
    match d_spec sp, d_list (d_pair d_bs (d_opt d_bs)) tbl, d_input inp, d_expected ex with
    | Some sp, Some tbl, Some inp, Some ex =>
      match parse (fun _ k => lookup tbl k) tree_variant sp inp, ex with
      | Rows l, ERows e => txns_ok l e
      | Crashed, ECrashed => true
      | _, _ => false
      end
    | _, _, _, _ => false          (* undecodable: reported as a failing case *)
    end
  | _ => false
  end.
(* Transport.  coqc reads string / number literals at ~100 microseconds per byte, primitive integers much
   faster: a case is its byte length and its bytes packed 7 per primitive integer (big-endian). *)
Definition byte_at (x i : int) : N := Z.to_N (Uint63.to_Z (Uint63.land (Uint63.lsr x i) 255%uint63)).
Definition unpack7 (x : int) : bs :=
  [byte_at x 48%uint63; byte_at x 40%uint63; byte_at x 32%uint63; byte_at x 24%uint63; byte_at x 16%uint63;
   byte_at x 8%uint63; byte_at x 0%uint63].
Definition unpack (c : nat * list int) : bs := firstn (fst c) (flat_map unpack7 (snd c)).
Definition ok_packed (c : nat * list int) : bool :=
  match ptree (unpack c) [] [] [] with Some [t] => ok_case t | _ => false end.   (* undecodable: reported as failing *)
Fixpoint failing (i : nat) (l : list (nat * list int)) : list nat :=
  match l with [] => [] | c :: r => if ok_packed c then failing (S i) r else i :: failing (S i) r end.
(* the numbers of the cases on which model and implementation disagree *)
Definition check (l : list (nat * list int)) : list nat := failing 0 l.
