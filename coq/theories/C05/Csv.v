(* C05/Csv.v — the CSV record reader the code uses, inside the model.

   parsers._iter_rows_with_delimiter opens the file in text mode (universal newlines) and hands it to
   csv.reader(f) / csv.reader(f, delimiter=d): the excel dialect — quotechar = the double quote (34), doublequote, no escapechar,
   skipinitialspace off, non-strict.  This file models
     * the delimiter dispatch of _iter_rows_with_delimiter (None / '' / several chars -> comma, 'tab', one char, 'regex:'),
     * universal-newline translation and the line iteration of the text file,
     * the state machine of CPython's Modules/_csv.c (parse_process_char) for that dialect, record by record,
       including the end-of-input rule for an unterminated quoted field,
     * the header skip as one RECORD (next(reader, None)),
   and defines the class of texts a csv writer produces (cells raw when plain, otherwise quoted with doubled
   quotes; any cell may be quoted).  C05/CsvProofs.v proves that every table written in that class is read back
   cell for cell.  Text is UTF-8 bytes; the delimiter is one ASCII character. *)
From Coq Require Import String Ascii.
From Coq Require Import List Bool ZArith NArith Arith.
From Tally Require Import C05.Model.
Import ListNotations.
Open Scope N_scope.

(* ---- which reader a delimiter setting selects *)
Inductive reader_kind := RCsv (d : N) | RRegex (pattern : bs) | RUnmodelled.
Definition s_tab : bs := [116; 97; 98].
Definition s_regex : bs := [114; 101; 103; 101; 120; 58].
Definition reader_of (delimiter : option bs) : reader_kind :=
  match delimiter with
  | None | Some [] => RCsv 44
  | Some s =>
    let s := if bs_eqb s s_tab then [9] else s in
    if prefix s_regex s then RRegex (skipn 6 s)
    else match s with
         | [c] => if c <? 128 then RCsv c else RUnmodelled      (* one non-ASCII character: one code point, several bytes *)
         | c :: _ => if existsb (fun x => 128 <=? x) s then RUnmodelled else RCsv 44   (* len(delimiter) > 1: plain csv.reader(f) *)
         | [] => RCsv 44
         end
  end.

(* ---- text mode: '\r\n' and '\r' become '\n' *)
Fixpoint unl (l : bs) : bs :=
  match l with
  | [] => []
  | c :: r =>
    if c =? 13
    then 10 :: match r with d :: r' => if d =? 10 then unl r' else unl r | [] => [] end
    else c :: unl r
  end.

(* ---- the reader is fed line by line; after the characters of each line it sees the end-of-line mark.
   Event stream: Some c = a character, None = end of a line (after each '\n', and after a last line without one) *)
Fixpoint events (l : bs) (pending : bool) : list (option N) :=
  match l with
  | [] => if pending then [None] else []
  | c :: r => Some c :: (if c =? 10 then None :: events r false else events r true)
  end.

Inductive cstate := SR (* START_RECORD *) | SF (* START_FIELD *) | IFd (* IN_FIELD *) | IQ (* IN_QUOTED_FIELD *)
                  | QQ (* QUOTE_IN_QUOTED_FIELD *) | EC (* EAT_CRNL *).
Record cm := { cs : cstate; cf : bs (* field so far, reversed *); cfs : list bs (* fields so far, reversed *) }.
Definition cinit : cm := {| cs := SR; cf := []; cfs := [] |}.
Definition add (m : cm) (c : N) (s : cstate) : cm := {| cs := s; cf := c :: cf m; cfs := cfs m |}.
Definition save (m : cm) (s : cstate) : cm := {| cs := s; cf := []; cfs := rev (cf m) :: cfs m |}.
Definition goto (m : cm) (s : cstate) : cm := {| cs := s; cf := cf m; cfs := cfs m |}.
Definition is_nl (c : N) : bool := (c =? 10) || (c =? 13).

(* parse_process_char; None = csv.Error *)
Definition start_field (d : N) (m : cm) (e : option N) : option cm :=
  match e with
  | None => Some (save m SR)
  | Some c =>
    if is_nl c then Some (save m EC)
    else if c =? 34 then Some (goto m IQ)
    else if c =? d then Some (save m SF)
    else Some (add m c IFd)
  end.
Definition cstep (d : N) (m : cm) (e : option N) : option cm :=
  match cs m with
  | SR => match e with
          | None => Some m                                   (* empty line: the record [] *)
          | Some c => if is_nl c then Some (goto m EC) else start_field d m e
          end
  | SF => start_field d m e
  | IFd => match e with
           | None => Some (save m SR)
           | Some c => if is_nl c then Some (save m EC) else if c =? d then Some (save m SF) else Some (add m c IFd)
           end
  | IQ => match e with
          | None => Some m
          | Some c => if c =? 34 then Some (goto m QQ) else Some (add m c IQ)
          end
  | QQ => match e with
          | None => Some (save m SR)
          | Some c => if c =? 34 then Some (add m c IQ)
                      else if c =? d then Some (save m SF)
                      else if is_nl c then Some (save m EC)
                      else Some (add m c IFd)               (* not strict *)
          end
  | EC => match e with
          | None => Some (goto m SR)
          | Some c => if is_nl c then Some m else None       (* new-line character seen in unquoted field *)
          end
  end.

Definition is_SR (s : cstate) : bool := match s with SR => true | _ => false end.
Definition is_IQ (s : cstate) : bool := match s with IQ => true | _ => false end.

(* records are returned when an end-of-line leaves the machine in START_RECORD; at the end of the input an
   unterminated quoted field (or pending text) is returned as a last record *)
Fixpoint crun (d : N) (evs : list (option N)) (m : cm) (acc : list (list bs)) : option (list (list bs)) :=
  match evs with
  | [] => Some (rev (if negb (is_nil (cf m)) || is_IQ (cs m) then rev (cfs (save m SR)) :: acc else acc))
  | e :: r =>
    match cstep d m e with
    | None => None
    | Some m' =>
      match e with
      | None => if is_SR (cs m') then crun d r cinit (rev (cfs m') :: acc) else crun d r m' acc
      | Some _ => crun d r m' acc
      end
    end
  end.

(* list(csv.reader(open(path, 'r'), delimiter=d)) *)
Definition csv_records (d : N) (text : bs) : option (list (list bs)) := crun d (events (unl text) false) cinit [].

Section WithStrptime.
  Variable strptime : bs -> bs -> option bs.
  (* parse_generic_csv on the TEXT of a comma / one-character / tab delimited file; csv.Error escapes the row loop *)
  Definition parse_text (v : variant) (sp : spec) (delimiter : option bs) (text : bs) : option outcome :=
    match reader_of delimiter with
    | RCsv d => Some (match csv_records d text with
                      | Some recs => parse strptime v sp (CsvIn recs)
                      | None => Crashed
                      end)
    | _ => None
    end.
End WithStrptime.

(* ---- what a csv writer produces *)
Record wcell := { quoted : bool; content : bs }.
Fixpoint esc (l : bs) : bs := match l with [] => [] | c :: r => if c =? 34 then 34 :: 34 :: esc r else c :: esc r end.
Definition render_cell (w : wcell) : bs := if quoted w then 34 :: esc (content w) ++ [34] else content w.
Fixpoint joinc (d : N) (l : list bs) : bs :=
  match l with [] => [] | x :: r => match r with [] => x | _ => x ++ d :: joinc d r end end.
Definition render_row (d : N) (row : list wcell) : bs := joinc d (map render_cell row) ++ [10].
Definition render_file (d : N) (rows : list (list wcell)) : bs := concat (map (render_row d) rows).

Definition plainb (d : N) (c : bs) : bool :=
  forallb (fun x => negb (x =? d) && negb (x =? 34) && negb (x =? 10) && negb (x =? 13)) c.
Definition no_cr (c : bs) : bool := forallb (fun x => negb (x =? 13)) c.
(* a cell may be left unquoted only when it has no delimiter, quote or line break *)
Definition wcell_ok (d : N) (w : wcell) : bool := no_cr (content w) && (quoted w || plainb d (content w)).
(* ... and a row made of one empty cell must quote it (otherwise it is an empty line) *)
Definition wrow_ok (d : N) (row : list wcell) : bool :=
  forallb (wcell_ok d) row && match row with [w] => quoted w || negb (is_nil (content w)) | _ => true end.
Definition delim_ok (d : N) : bool := negb (d =? 34) && negb (d =? 10) && negb (d =? 13).
