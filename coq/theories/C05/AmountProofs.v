(* C05/AmountProofs.v — parse_amount reads every written amount (C05/Amount.v) back exactly:
   amount_value, plus the two facts about the binary64 classification it is used with
   (to_double_id, to_double_fneg).  Plain Coq, no axioms. *)
From Coq Require Import String Ascii.
From Coq Require Import List Bool ZArith NArith Arith Lia.
From Tally Require Import Gen.C05Amount C05.Model C05.Amount.
Import ListNotations.
Open Scope N_scope.

(* ================================================================ to_double *)
Lemma to_double_fneg_aux : forall x, to_double (fneg x) = fneg (to_double x).
Proof.
  intros [m e| n |]; [| reflexivity | reflexivity].
  unfold fneg at 1. unfold to_double, ndigits. rewrite Z.abs_opp.
  destruct (Z.eqb_spec m 0) as [->|Hm].
  - reflexivity.
  - destruct (Z.eqb_spec (- m) 0) as [H0|_]; [lia|].
    assert (Hs : (- m <? 0)%Z = negb (m <? 0)%Z).
    { destruct (Z.ltb_spec m 0), (Z.ltb_spec (- m) 0); simpl; try reflexivity; lia. }
    rewrite Hs.
    repeat match goal with |- context [if ?b then _ else _] => destruct b end; reflexivity.
Qed.

Lemma to_double_id_aux :
  forall m e : Z, m <> 0%Z -> (Z.abs m < 10 ^ 300)%Z -> (-300 <= e <= 0)%Z ->
    to_double (Fin m e) = Fin m e.
Proof.
  intros m e Hm Habs He.
  assert (Hb1 : (10 ^ 300 < overflow_bound)%Z) by (vm_compute; reflexivity).
  assert (Hb2 : (10 ^ 300 < 2 ^ 1075)%Z) by (vm_compute; reflexivity).
  assert (Hb3 : (10 ^ 300 < 2 ^ 997)%Z) by (vm_compute; reflexivity).
  assert (HT : (0 < 10 ^ 300)%Z) by (vm_compute; reflexivity).
  assert (Hlog : (0 <= Z.log2 (Z.abs m) < 997)%Z).
  { split; [apply Z.log2_nonneg|]. apply Z.log2_lt_pow2; lia. }
  assert (Hnd : (0 <= ndigits m <= 300)%Z).
  { unfold ndigits. split.
    - apply Z.div_pos; lia.
    - apply Z.div_le_upper_bound; lia. }
  unfold to_double. cbv zeta.
  set (nd := ndigits m) in *.
  set (T := (10 ^ 300)%Z) in *. set (OB := overflow_bound) in *. set (P := (2 ^ 1075)%Z) in *.
  destruct (Z.eqb_spec m 0) as [|_]; [contradiction|].
  destruct (Z.ltb_spec 400 (e + nd)); [lia|].
  destruct (Z.ltb_spec (e + nd) (-400)); [lia|].
  destruct (Z.leb_spec 0 e).
  - assert (e = 0%Z) by lia. subst e. rewrite Z.pow_0_r, Z.mul_1_r.
    destruct (Z.leb_spec OB (Z.abs m)); [lia | reflexivity].
  - assert (Hd1 : (0 < 10 ^ (- e))%Z) by (apply Z.pow_pos_nonneg; lia).
    assert (Hd2 : (10 ^ (- e) <= T)%Z) by (apply Z.pow_le_mono_r; lia).
    set (d := (10 ^ (- e))%Z) in *.
    destruct (Z.leb_spec (OB * d) (Z.abs m)); [nia|].
    destruct (Z.leb_spec (Z.abs m * P) d); [nia|]. reflexivity.
Qed.

(* ================================================================ strip *)
Ltac b2p H := repeat (rewrite ?orb_true_iff, ?andb_true_iff, ?N.eqb_eq, ?N.leb_le in H).

Lemma eqb_false : forall x y : N, x <> y -> (x =? y) = false.
Proof. intros. apply N.eqb_neq. assumption. Qed.

(* ------------------------------------------------------------ strip *)
Lemma strip_f_pad (hd : bs -> option bs) (P : N -> Prop) :
  (forall b r, P b -> hd (b :: r) = Some r) ->
  forall pad x n, Forall P pad -> (length pad <= n)%nat -> hd x = None ->
    strip_f hd n (pad ++ x) = x.
Proof.
  intros Hhd pad. induction pad as [|b pad IH]; intros x n HF Hn Hx.
  - destruct n; simpl; [reflexivity | rewrite Hx; reflexivity].
  - inversion HF; subst. destruct n; [simpl in Hn; lia|].
    change ((b :: pad) ++ x) with (b :: (pad ++ x)).
    change (strip_f hd (S n) (b :: pad ++ x))
      with (match hd (b :: pad ++ x) with Some r => strip_f hd n r | None => b :: pad ++ x end).
    rewrite Hhd by assumption. apply IH; [assumption | simpl in Hn; lia | assumption].
Qed.

Lemma ws_head_true : forall a b r, a b = true -> ws_head_gen a (b :: r) = Some r.
Proof. intros. unfold ws_head_gen. rewrite H. reflexivity. Qed.
Lemma ws_last_true : forall a b r, a b = true -> ws_last_gen a (b :: r) = Some r.
Proof. intros. unfold ws_last_gen. rewrite H. reflexivity. Qed.

Lemma strip_core : forall a lpad x rpad,
  Forall (fun b => a b = true) lpad -> Forall (fun b => a b = true) rpad ->
  (forall r, ws_head_gen a (x ++ r) = None) -> (forall r, ws_last_gen a (rev x ++ r) = None) ->
  strip_gen a (lpad ++ x ++ rpad) = x.
Proof.
  intros a lpad x rpad Hl Hr Hh Ht. unfold strip_gen.
  assert (E : lstrip_gen a (lpad ++ x ++ rpad) = x ++ rpad).
  { unfold lstrip_gen. apply strip_f_pad with (P := fun b => a b = true).
    - intros; apply ws_head_true; assumption.
    - assumption.
    - rewrite app_length. lia.
    - apply Hh. }
  rewrite E. unfold rstrip_gen. rewrite rev_app_distr.
  rewrite strip_f_pad with (P := fun b => a b = true).
  - apply rev_involutive.
  - intros; apply ws_last_true; assumption.
  - apply Forall_rev; assumption.
  - rewrite app_length, !rev_length. lia.
  - specialize (Ht []). rewrite app_nil_r in Ht. exact Ht.
Qed.

Lemma head_plain : forall a c r, a c = false -> c <> 194 -> c <> 225 -> c <> 226 -> c <> 227 ->
  ws_head_gen a (c :: r) = None.
Proof.
  intros a c r Ha H1 H2 H3 H4. unfold ws_head_gen. rewrite Ha.
  destruct r as [|d r2]; [reflexivity|].
  assert (E2 : ws2 c d = false) by (unfold ws2; rewrite (eqb_false c 194) by assumption; reflexivity).
  rewrite E2. destruct r2 as [|e r3]; [reflexivity|].
  assert (E3 : ws3 c d e = false).
  { unfold ws3. rewrite (eqb_false c 225), (eqb_false c 226), (eqb_false c 227) by assumption. reflexivity. }
  rewrite E3. reflexivity.
Qed.

Definition lastok (e : N) : Prop :=
  e < 128 \/ 139 <= e <= 158 \/ 161 <= e <= 167 \/ 170 <= e <= 174 \/ 176 <= e.

Lemma last_plain : forall a e r, a e = false -> lastok e -> ws_last_gen a (e :: r) = None.
Proof.
  intros a e r Ha He. unfold lastok in He. unfold ws_last_gen. rewrite Ha.
  destruct r as [|d r2]; [reflexivity|].
  assert (E2 : ws2 d e = false).
  { destruct (ws2 d e) eqn:E; [|reflexivity]. unfold ws2 in E. b2p E. lia. }
  rewrite E2. destruct r2 as [|c r3]; [reflexivity|].
  assert (E3 : ws3 c d e = false).
  { destruct (ws3 c d e) eqn:E; [|reflexivity]. unfold ws3 in E. b2p E. lia. }
  rewrite E3. reflexivity.
Qed.

Lemma ascii_ws_false : forall c, 32 < c -> ascii_ws c = false.
Proof. intros c H. destruct (ascii_ws c) eqn:E; [|reflexivity]. unfold ascii_ws in E. b2p E. lia. Qed.
Lemma ascii_ws_float_false : forall c, 32 < c -> ascii_ws_float c = false.
Proof. intros c H. destruct (ascii_ws_float c) eqn:E; [|reflexivity]. unfold ascii_ws_float in E. b2p E. lia. Qed.

Lemma strip_f_none : forall hd n l, hd l = None -> strip_f hd n l = l.
Proof. intros hd n l H. destruct n; simpl; [reflexivity | rewrite H; reflexivity]. Qed.

Lemma strip_noop : forall a l, ws_head_gen a l = None -> ws_last_gen a (rev l) = None -> strip_gen a l = l.
Proof.
  intros a l H1 H2. unfold strip_gen, lstrip_gen. rewrite strip_f_none by assumption.
  unfold rstrip_gen. rewrite strip_f_none by assumption. apply rev_involutive.
Qed.

(* currency symbols *)
Lemma sym_facts : forall s, In s currency_symbols -> forall r,
  ws_head (s ++ r) = None /\ prefix paren_open (s ++ r) = false
  /\ remove_any currency_symbols 0 (s ++ r) = remove_any currency_symbols 0 r
  /\ ws_last (rev s ++ r) = None.
Proof.
  intros s Hs r. unfold currency_symbols in Hs. simpl in Hs.
  destruct Hs as [<-|[<-|[<-|[<-|[]]]]]; (split; [|split; [|split]]); try reflexivity.
  - apply head_plain; [reflexivity | lia..].
  - apply last_plain; [reflexivity | unfold lastok; lia].
  - destruct r; reflexivity.
  - apply last_plain; [reflexivity | unfold lastok; lia].
  - destruct r; reflexivity.
  - apply last_plain; [reflexivity | unfold lastok; lia].
Qed.

(* ================================================================ currency symbols, the cell text between the blanks *)
Lemma prefix_cons : forall x p y l, prefix (x :: p) (y :: l) = (x =? y) && prefix p l.
Proof. reflexivity. Qed.

(* bytes that are neither blank-like multi-byte leaders nor currency bytes *)
Definition low_byte (b : N) : Prop := b = 32 \/ 41 <= b <= 57.
Definition vis_byte (b : N) : Prop := 41 <= b <= 57.

Lemma head_vis : forall b r, vis_byte b -> ws_head (b :: r) = None /\ prefix paren_open (b :: r) = false.
Proof.
  intros b r H. unfold vis_byte in H. split.
  - apply head_plain; [apply ascii_ws_false; lia | lia..].
  - unfold paren_open. rewrite prefix_cons, (eqb_false 40 b) by lia. reflexivity.
Qed.
Lemma last_vis : forall b r, vis_byte b -> ws_last (b :: r) = None.
Proof.
  intros b r H. unfold vis_byte in H. apply last_plain; [apply ascii_ws_false; lia | unfold lastok; lia].
Qed.

Lemma find_none : forall c t, low_byte c -> find (fun p => prefix p (c :: t)) currency_symbols = None.
Proof.
  intros c t H. unfold low_byte in H. unfold currency_symbols. cbn [find]. rewrite !prefix_cons.
  rewrite (eqb_false 36 c), (eqb_false 226 c), (eqb_false 194 c) by lia. reflexivity.
Qed.

Lemma rm_step : forall syms c t, remove_any syms 0 (c :: t) =
  match find (fun p => prefix p (c :: t)) syms with
  | Some p => remove_any syms (length p - 1) t
  | None => c :: remove_any syms 0 t end.
Proof. reflexivity. Qed.

Lemma rm_plain : forall l r, Forall low_byte l ->
  remove_any currency_symbols 0 (l ++ r) = l ++ remove_any currency_symbols 0 r.
Proof.
  induction l as [|c l IH]; intros r H; [reflexivity|]. inversion H; subst.
  change ((c :: l) ++ r) with (c :: (l ++ r)). rewrite rm_step, find_none by assumption.
  rewrite IH by assumption. reflexivity.
Qed.

Definition is_cur (o : option bs) : Prop := match o with Some s => In s currency_symbols | None => True end.
Definition cur3_bytes (o : option (bool * bs)) : bs :=
  match o with Some (sp, s) => (if sp then [32] else []) ++ s | None => [] end.
Definition cur3_space (o : option (bool * bs)) : bs :=
  match o with Some (true, _) => [32] | _ => [] end.
Definition midf (c1 : option bs) (sg : sign) (c2 : option bs) (B : bs) (c3 : option (bool * bs)) : bs :=
  obs c1 ++ sign_bytes sg ++ obs c2 ++ B ++ cur3_bytes c3.

Section Mid.
  Variables (c1 c2 : option bs) (sg : sign) (B : bs) (c3 : option (bool * bs)).
  Hypothesis H1 : is_cur c1.
  Hypothesis H2 : is_cur c2.
  Hypothesis H3 : is_cur (option_map snd c3).
  Hypothesis Bfirst : exists b t, B = b :: t /\ vis_byte b.
  Hypothesis Blast : exists t e, B = t ++ [e] /\ vis_byte e.
  Hypothesis Blow : Forall low_byte B.

  Lemma mid_head : forall r,
    ws_head (midf c1 sg c2 B c3 ++ r) = None /\ prefix paren_open (midf c1 sg c2 B c3 ++ r) = false.
  Proof using H1 H2 Bfirst.
    clear Blast Blow H3. intros r. unfold midf. destruct c1 as [s|]; cbn [obs].
    { rewrite <- app_assoc. destruct (sym_facts s H1 ((sign_bytes sg ++ obs c2 ++ B ++ cur3_bytes c3) ++ r)) as (A1 & A2 & _).
      split; assumption. }
    cbn [app].
    destruct sg; cbn [sign_bytes app]; try (apply head_vis; unfold vis_byte; lia).
    destruct c2 as [s|]; cbn [obs].
    { rewrite <- app_assoc. destruct (sym_facts s H2 ((B ++ cur3_bytes c3) ++ r)) as (A1 & A2 & _).
      split; assumption. }
    cbn [app]. destruct Bfirst as (b & t & -> & Hb). cbn [app]. apply head_vis. assumption.
  Qed.

  Lemma mid_last : forall r, ws_last (rev (midf c1 sg c2 B c3) ++ r) = None.
  Proof using H3 Blast.
    clear Bfirst Blow H1 H2. intros r. unfold midf. rewrite !app_assoc.
    set (x := (obs c1 ++ sign_bytes sg) ++ obs c2).
    destruct c3 as [[sp s]|]; cbn [cur3_bytes].
    - rewrite app_assoc, rev_app_distr, <- app_assoc. apply (sym_facts s H3).
    - rewrite app_nil_r. destruct Blast as (t & e & -> & He).
      rewrite app_assoc, rev_app_distr. cbn [rev app]. apply last_vis. assumption.
  Qed.

  Lemma mid_rm : remove_any currency_symbols 0 (midf c1 sg c2 B c3) = sign_bytes sg ++ B ++ cur3_space c3.
  Proof using H1 H2 H3 Blow.
    clear Bfirst Blast. unfold midf.
    assert (R : forall o r, is_cur o -> remove_any currency_symbols 0 (obs o ++ r) = remove_any currency_symbols 0 r).
    { intros [s|] r H; [apply (sym_facts s H) | reflexivity]. }
    rewrite R by assumption.
    rewrite rm_plain by (destruct sg; repeat constructor; unfold low_byte; lia).
    rewrite R by assumption. rewrite rm_plain by assumption.
    destruct c3 as [[[|] s]|]; cbn [cur3_bytes cur3_space].
    - rewrite rm_plain by (repeat constructor; unfold low_byte; lia).
      rewrite <- (app_nil_r s). rewrite (proj1 (proj2 (proj2 (sym_facts s H3 [])))). reflexivity.
    - cbn [app]. rewrite <- (app_nil_r s). rewrite (proj1 (proj2 (proj2 (sym_facts s H3 [])))). reflexivity.
    - reflexivity.
  Qed.
End Mid.

Lemma body_strip : forall sg B sp, (exists b t, B = b :: t /\ vis_byte b) -> (exists t e, B = t ++ [e] /\ vis_byte e) ->
  (sp = [32] \/ sp = []) -> strip (sign_bytes sg ++ B ++ sp) = sign_bytes sg ++ B.
Proof.
  intros sg B sp Hf Hl Hsp.
  pose proof (mid_head None None sg B None I I Hf) as Hh.
  pose proof (mid_last None None sg B None I Hl) as Ht.
  unfold midf in Hh, Ht. cbn [obs cur3_bytes app] in Hh, Ht. rewrite app_nil_r in Hh, Ht.
  pose proof (strip_core ascii_ws [] (sign_bytes sg ++ B) sp) as S.
  cbn [app] in S. rewrite <- app_assoc in S. apply S.
  - constructor.
  - destruct Hsp as [-> | ->]; repeat constructor.
  - intros r. apply Hh.
  - exact Ht.
Qed.

(* ================================================================ digits, str.replace, digit groups *)
(* ------------------------------------------------------------ digits *)
Lemma dig_range : forall d, (d < 10)%nat -> 48 <= dig d <= 57.
Proof. intros d H. unfold dig. lia. Qed.
Lemma digs_range : forall D, Forall (fun d => (d < 10)%nat) D -> Forall (fun x => 48 <= x <= 57) (digs D).
Proof.
  induction D as [|d D IH]; intros H; [constructor|]. inversion H; subst.
  cbn [digs map]. constructor; [apply dig_range; assumption | apply IH; assumption].
Qed.
Lemma digs_app : forall a b, digs (a ++ b) = digs a ++ digs b.
Proof. intros. unfold digs. apply map_app. Qed.

Lemma filter_id : forall (P : N -> bool) l, Forall (fun x => P x = true) l -> filter P l = l.
Proof.
  induction l as [|c l IH]; intros H; [reflexivity|]. inversion H; subst.
  cbn [filter]. rewrite H2, IH by assumption. reflexivity.
Qed.
Lemma map_id' : forall (M : N -> N) l, Forall (fun x => M x = x) l -> map M l = l.
Proof.
  induction l as [|c l IH]; intros H; [reflexivity|]. inversion H; subst.
  cbn [map]. rewrite H2, IH by assumption. reflexivity.
Qed.
Lemma filter_filter : forall (p q : N -> bool) l, filter q (filter p l) = filter (fun x => p x && q x) l.
Proof.
  induction l as [|c l IH]; [reflexivity|]. cbn [filter]. destruct (p c); cbn [andb filter].
  - rewrite IH. reflexivity.
  - exact IH.
Qed.

(* ------------------------------------------------------------ str.replace with one-byte patterns *)
Lemma repl_step : forall pat rep c r, repl pat rep 0 (c :: r) =
  if prefix pat (c :: r) then rep ++ repl pat rep (length pat - 1) r else c :: repl pat rep 0 r.
Proof. reflexivity. Qed.

Lemma replace_del : forall a l, replace [a] [] l = filter (fun c => negb (c =? a)) l.
Proof.
  intros a. unfold replace. induction l as [|c l IH]; [reflexivity|].
  rewrite repl_step, prefix_cons. cbn [prefix length Nat.sub app filter]. rewrite andb_true_r, IH.
  rewrite (N.eqb_sym c a). destruct (a =? c); reflexivity.
Qed.
Lemma replace_sub : forall a b l, replace [a] [b] l = map (fun c => if c =? a then b else c) l.
Proof.
  intros a b. unfold replace. induction l as [|c l IH]; [reflexivity|].
  rewrite repl_step, prefix_cons. cbn [prefix length Nat.sub app map]. rewrite andb_true_r, IH.
  rewrite (N.eqb_sym c a). destruct (a =? c); reflexivity.
Qed.

Definition us_keep (x : N) : bool := negb (x =? 44).
Definition eu_keep (x : N) : bool := negb (x =? 46) && negb (x =? 32).
Definition eu_swap (x : N) : N := if x =? 44 then 46 else x.

Lemma replaces_eq : forall c s,
  (if bs_eqb (conv_dec c) european_separator then apply_replaces european_replaces s
   else apply_replaces us_replaces s)
  = match c with US => filter us_keep s | EU _ => map eu_swap (filter eu_keep s) end.
Proof.
  intros [|b] s.
  - change (bs_eqb (conv_dec US) european_separator) with false. cbv iota.
    unfold apply_replaces, us_replaces. cbn [fold_left fst snd]. apply replace_del.
  - change (bs_eqb (conv_dec (EU b)) european_separator) with true. cbv iota.
    unfold apply_replaces, european_replaces. cbn [fold_left fst snd].
    rewrite replace_sub, !replace_del, filter_filter. reflexivity.
Qed.

(* ------------------------------------------------------------ the digit groups *)
Definition grp_bytes (g : group) : bs := digs (gdigits g).
Definition int_bytes (c : conv) (gs : list group) : bs := join (conv_sep c) (map grp_bytes gs).
Definition frac_bytes (c : conv) (fr : option (list nat)) : bs :=
  match fr with Some f => conv_point c ++ digs f | None => [] end.
Definition fdigits (fr : option (list nat)) : list nat := match fr with Some f => f | None => [] end.
Definition fnorm (fr : option (list nat)) : bs := match fr with Some f => [46] ++ digs f | None => [] end.

Lemma int_digits_cons : forall g gs, int_digits (g :: gs) = gdigits g ++ int_digits gs.
Proof. reflexivity. Qed.
Lemma join_cons2 : forall sep a b r, join sep (a :: b :: r) = a ++ sep ++ join sep (b :: r).
Proof. reflexivity. Qed.

Lemma filter_join : forall (P : N -> bool) x gs, P x = false -> (forall y, 48 <= y <= 57 -> P y = true) ->
  Forall (fun d => (d < 10)%nat) (int_digits gs) ->
  filter P (join [x] (map grp_bytes gs)) = digs (int_digits gs).
Proof.
  intros P x gs Hx Hd. induction gs as [|g gs IH]; intros H; [reflexivity|].
  rewrite int_digits_cons in H. apply Forall_app in H. destruct H as [Hg Hgs].
  assert (Eg : filter P (grp_bytes g) = grp_bytes g).
  { apply filter_id. unfold grp_bytes. eapply Forall_impl; [|apply digs_range; exact Hg]. exact Hd. }
  rewrite int_digits_cons, digs_app. destruct gs as [|g' gs'].
  - cbn [map join int_digits concat]. rewrite app_nil_r. exact Eg.
  - cbn [map]. rewrite join_cons2, !filter_app, Eg. cbn [filter]. rewrite Hx. cbn [app].
    cbn [map] in IH. rewrite IH by assumption. reflexivity.
Qed.

Lemma join_low : forall x gs, low_byte x -> Forall (fun d => (d < 10)%nat) (int_digits gs) ->
  Forall low_byte (join [x] (map grp_bytes gs)).
Proof.
  intros x gs Hx. induction gs as [|g gs IH]; intros H; [constructor|].
  rewrite int_digits_cons in H. apply Forall_app in H. destruct H as [Hg Hgs].
  assert (Eg : Forall low_byte (grp_bytes g)).
  { unfold grp_bytes. eapply Forall_impl; [|apply digs_range; exact Hg]. unfold low_byte. intros; lia. }
  destruct gs as [|g' gs'].
  - exact Eg.
  - cbn [map]. rewrite join_cons2. apply Forall_app. split; [exact Eg|].
    apply Forall_app. split; [constructor; [exact Hx | constructor] | apply IH; assumption].
Qed.

Lemma join_last : forall sep gs, gs <> [] -> Forall (fun d => (d < 10)%nat) (int_digits gs) ->
  exists t e, join sep (map grp_bytes gs) = t ++ [e] /\ 48 <= e <= 57.
Proof.
  intros sep. induction gs as [|g gs IH]; intros Hne H; [congruence|].
  rewrite int_digits_cons in H. apply Forall_app in H. destruct H as [Hg Hgs].
  destruct gs as [|g' gs'].
  - cbn [map join]. unfold grp_bytes. destruct (exists_last (l := gdigits g)) as (l' & a & E).
    { unfold gdigits. discriminate. }
    rewrite E in *. apply Forall_app in Hg. destruct Hg as [_ Ha]. inversion Ha; subst.
    rewrite digs_app. exists (digs l'), (dig a). split; [reflexivity | apply dig_range; assumption].
  - destruct IH as (t & e & Et & He); [discriminate | assumption |].
    cbn [map]. rewrite join_cons2. cbn [map] in Et. rewrite Et.
    exists (grp_bytes g ++ sep ++ t), e. split; [|assumption]. rewrite <- !app_assoc. reflexivity.
Qed.

Section Body.
  Variables (c : conv) (gs : list group) (fr : option (list nat)).
  Hypothesis Hd : Forall (fun d => (d < 10)%nat) (int_digits gs ++ fdigits fr).
  Hypothesis Hne : int_digits gs ++ fdigits fr <> [].
  Let B := int_bytes c gs ++ frac_bytes c fr.

  Lemma sep1 : exists x, conv_sep c = [x] /\ low_byte x /\ vis_byte (hd 0 (conv_point c)) /\ conv_point c = [hd 0 (conv_point c)].
  Proof using. clear. destruct c as [|[|]]; eexists; (split; [reflexivity|]); unfold low_byte, vis_byte; cbn; repeat split; lia. Qed.

  Lemma body_low : Forall low_byte B.
  Proof using Hd.
    clear Hne. apply Forall_app in Hd. destruct Hd as [Hi Hf]. unfold B. apply Forall_app. split.
    - unfold int_bytes. destruct sep1 as (x & -> & Hx & _). apply join_low; assumption.
    - destruct fr as [f|]; cbn [frac_bytes fdigits] in *; [|constructor].
      apply Forall_app. split.
      + destruct c as [|[|]]; repeat constructor; unfold low_byte; cbn; lia.
      + eapply Forall_impl; [|apply digs_range; exact Hf]. unfold low_byte. intros; lia.
  Qed.

  Lemma body_first : exists b t, B = b :: t /\ vis_byte b.
  Proof using Hd Hne.
    unfold B, int_bytes. destruct gs as [|[d ds] gs'].
    - destruct fr as [f|]; cbn [fdigits int_digits map concat app] in *; [|congruence].
      cbn [map join frac_bytes app]. destruct sep1 as (_ & _ & _ & Hv & E). rewrite E. cbn [app].
      eexists _, _. split; [reflexivity | assumption].
    - assert (Hd0 : (d < 10)%nat). { inversion Hd; assumption. }
      exists (dig d). cbn [map]. destruct (map grp_bytes gs') as [|g2 r].
      + cbn [join]. unfold grp_bytes, gdigits. cbn [fst snd digs map app]. eexists. split; [reflexivity|].
        pose proof (dig_range d Hd0). unfold vis_byte. lia.
      + rewrite join_cons2. unfold grp_bytes at 1. unfold gdigits. cbn [fst snd digs map app]. eexists. split; [reflexivity|].
        pose proof (dig_range d Hd0). unfold vis_byte. lia.
  Qed.

  Lemma body_last : exists t e, B = t ++ [e] /\ vis_byte e.
  Proof using Hd Hne.
    apply Forall_app in Hd. destruct Hd as [Hi Hf]. unfold B.
    destruct fr as [f|]; cbn [frac_bytes fdigits] in *.
    - destruct sep1 as (_ & _ & _ & Hv & E). rewrite E.
      destruct f as [|f0 f'].
      + cbn [digs map]. exists (int_bytes c gs), (hd 0 (conv_point c)). rewrite app_nil_r. split; [reflexivity | assumption].
      + destruct (exists_last (l := f0 :: f')) as (l' & a & E'); [discriminate|]. rewrite E' in *.
        apply Forall_app in Hf. destruct Hf as [_ Ha]. inversion Ha; subst.
        rewrite digs_app. exists (int_bytes c gs ++ [hd 0 (conv_point c)] ++ digs l'), (dig a).
        split; [rewrite <- !app_assoc; reflexivity|]. pose proof (dig_range a H1). unfold vis_byte. lia.
    - rewrite app_nil_r in *. unfold int_bytes. destruct (join_last (conv_sep c) gs) as (t & e & E & He).
      + intros ->. apply Hne. reflexivity.
      + assumption.
      + exists t, e. split; [assumption | unfold vis_byte; lia].
  Qed.
End Body.

(* ------------------------------------------------------------ the replace chains on the cleaned text *)
Lemma normalise : forall c sg gs fr, Forall (fun d => (d < 10)%nat) (int_digits gs ++ fdigits fr) ->
  (if bs_eqb (conv_dec c) european_separator
   then apply_replaces european_replaces (sign_bytes sg ++ int_bytes c gs ++ frac_bytes c fr)
   else apply_replaces us_replaces (sign_bytes sg ++ int_bytes c gs ++ frac_bytes c fr))
  = sign_bytes sg ++ digs (int_digits gs) ++ fnorm fr.
Proof.
  intros c sg gs fr Hd. apply Forall_app in Hd. destruct Hd as [Hi Hf].
  rewrite replaces_eq.
  assert (Ku : forall y, 48 <= y <= 57 -> us_keep y = true).
  { intros y Hy. unfold us_keep. rewrite eqb_false by lia. reflexivity. }
  assert (Ke : forall y, 48 <= y <= 57 -> eu_keep y = true).
  { intros y Hy. unfold eu_keep. rewrite !eqb_false by lia. reflexivity. }
  assert (Se : forall y, 48 <= y <= 57 -> eu_swap y = y).
  { intros y Hy. unfold eu_swap. rewrite eqb_false by lia. reflexivity. }
  destruct c as [|b].
  - rewrite !filter_app. f_equal; [destruct sg; reflexivity|]. f_equal.
    + unfold int_bytes. apply filter_join; [reflexivity | assumption | assumption].
    + destruct fr as [f|]; cbn [frac_bytes fnorm fdigits] in *; [|reflexivity].
      rewrite filter_app. f_equal. apply filter_id. eapply Forall_impl; [|apply digs_range; exact Hf]. exact Ku.
  - rewrite !filter_app, !map_app. f_equal; [destruct sg; reflexivity|]. f_equal.
    + unfold int_bytes. destruct b; cbn [conv_sep]; (rewrite filter_join; [| reflexivity | assumption | assumption]);
      (apply map_id'; eapply Forall_impl; [|apply digs_range; exact Hi]; exact Se).
    + destruct fr as [f|]; cbn [frac_bytes fnorm fdigits] in *; [|reflexivity].
      rewrite filter_app, map_app. f_equal. rewrite filter_id.
      * apply map_id'. eapply Forall_impl; [|apply digs_range; exact Hf]. exact Se.
      * eapply Forall_impl; [|apply digs_range; exact Hf]. exact Ke.
Qed.

(* ================================================================ float() on the normalised text *)
Opaque to_double.

Definition num_byte (b : N) : Prop := 43 <= b <= 57.
Definition dstep (a : Z) (d : nat) : Z := (a * 10 + Z.of_nat d)%Z.
Definition is_minus (s : sign) : bool := match s with Minus => true | _ => false end.

Lemma fstrip_id : forall l, Forall num_byte l -> fstrip l = l.
Proof.
  intros l H. unfold fstrip. apply strip_noop.
  - destruct l as [|c l]; [reflexivity|]. inversion H; subst. unfold num_byte in *.
    apply head_plain; [apply ascii_ws_float_false; lia | lia..].
  - apply Forall_rev in H. destruct (rev l) as [|e r]; [reflexivity|]. inversion H; subst. unfold num_byte in *.
    apply last_plain; [apply ascii_ws_float_false; lia | unfold lastok; lia].
Qed.

Lemma no_underscore : forall l, Forall num_byte l -> existsb (fun c => c =? 95) l = false.
Proof.
  induction l as [|c l IH]; intros H; [reflexivity|]. inversion H; subst. unfold num_byte in *.
  cbn [existsb]. rewrite eqb_false by lia. apply IH. assumption.
Qed.

Lemma td_step : forall c r acc n, take_digits (c :: r) acc n =
  if is_digit c then take_digits r (acc * 10 + dval c)%Z (S n) else (acc, n, c :: r).
Proof. reflexivity. Qed.

Lemma is_digit_dig : forall d, (d < 10)%nat -> is_digit (dig d) = true.
Proof.
  intros d H. pose proof (dig_range d H). unfold is_digit.
  rewrite (proj2 (N.leb_le _ _)), (proj2 (N.leb_le _ _)) by lia. reflexivity.
Qed.
Lemma dval_dig : forall d, dval (dig d) = Z.of_nat d.
Proof. intros. unfold dval, dig. lia. Qed.

Lemma td_digs : forall ds rest acc n, Forall (fun d => (d < 10)%nat) ds ->
  take_digits (digs ds ++ rest) acc n = take_digits rest (fold_left dstep ds acc) (length ds + n).
Proof.
  induction ds as [|d ds IH]; intros rest acc n H; [reflexivity|]. inversion H; subst.
  cbn [digs map app]. rewrite td_step, is_digit_dig, dval_dig by assumption.
  fold (digs ds). rewrite IH by assumption. cbn [fold_left length]. unfold dstep at 3.
  f_equal. lia.
Qed.

Lemma td_stop : forall r acc n, take_digits (46 :: r) acc n = (acc, n, 46 :: r).
Proof. reflexivity. Qed.

Lemma not_special : forall c r, 46 <= c <= 57 ->
  bs_eqb (map lowb (c :: r)) s_inf || bs_eqb (map lowb (c :: r)) s_infinity = false
  /\ bs_eqb (map lowb (c :: r)) s_nan = false.
Proof.
  intros c r H. assert (E : lowb c = c).
  { unfold lowb. destruct (N.leb_spec 65 c); [lia | reflexivity]. }
  cbn [map]. rewrite E. unfold s_inf, s_infinity, s_nan. cbn [bs_eqb].
  rewrite (eqb_false c 105), (eqb_false c 110) by lia. split; reflexivity.
Qed.

Lemma dvalue_app : forall a b, dvalue (a ++ b) = fold_left dstep b (fold_left dstep a 0%Z).
Proof. intros. unfold dvalue. apply fold_left_app. Qed.

Lemma parse_norm : forall sg D1 fr,
  Forall (fun d => (d < 10)%nat) (D1 ++ fdigits fr) -> D1 ++ fdigits fr <> [] ->
  parse_num (sign_bytes sg ++ digs D1 ++ fnorm fr)
  = Some (Fin (sgn (is_minus sg) (dvalue (D1 ++ fdigits fr))) (- Z.of_nat (length (fdigits fr)))).
Proof.
  intros sg D1 fr Hd Hne. apply Forall_app in Hd. destruct Hd as [H1 H2].
  set (rest := digs D1 ++ fnorm fr).
  assert (Hrest : exists h t, rest = h :: t /\ 46 <= h <= 57).
  { unfold rest. destruct D1 as [|d D1'].
    - destruct fr as [f|]; cbn [fdigits app] in Hne; [|congruence]. cbn [digs map fnorm app].
      eexists _, _. split; [reflexivity | lia].
    - inversion H1; subst. cbn [digs map app]. eexists _, _. split; [reflexivity|].
      pose proof (dig_range d H3). lia. }
  assert (Hts : take_sign (sign_bytes sg ++ rest) = (is_minus sg, rest)).
  { destruct sg; try reflexivity. cbn [sign_bytes app is_minus].
    destruct Hrest as (h & t & -> & Hh). unfold take_sign. rewrite !eqb_false by lia. reflexivity. }
  unfold parse_num. rewrite Hts. cbv beta iota zeta.
  destruct Hrest as (h & t & Er & Hh). destruct (not_special h t Hh) as [E1 E2].
  rewrite <- Er in E1, E2. rewrite E1, E2. cbv iota.
  unfold rest. rewrite td_digs by assumption.
  rewrite dvalue_app.
  assert (Hlen : (length D1 + 0 + (length (fdigits fr) + 0) =? 0)%nat = false).
  { apply Nat.eqb_neq. destruct D1; [|cbn [length]; lia]. destruct (fdigits fr); [cbn [app] in Hne; congruence | cbn [length]; lia]. }
  destruct fr as [f|]; cbn [fnorm fdigits] in *.
  - cbn [app]. rewrite td_stop. cbv beta iota zeta. change (46 =? 46) with true. cbv iota.
    rewrite <- (app_nil_r (digs f)). rewrite td_digs by assumption. cbn [take_digits].
    rewrite Hlen. rewrite Nat.add_0_r. reflexivity.
  - cbn [take_digits]. cbn [length] in Hlen. rewrite (Nat.add_0_r 0) in Hlen. rewrite Hlen. reflexivity.
Qed.

Lemma float_norm : forall sg D1 fr,
  Forall (fun d => (d < 10)%nat) (D1 ++ fdigits fr) -> D1 ++ fdigits fr <> [] ->
  float_of_string (sign_bytes sg ++ digs D1 ++ fnorm fr)
  = Some (to_double (Fin (sgn (is_minus sg) (dvalue (D1 ++ fdigits fr))) (- Z.of_nat (length (fdigits fr))))).
Proof.
  intros sg D1 fr Hd Hne.
  assert (Hall : Forall num_byte (sign_bytes sg ++ digs D1 ++ fnorm fr)).
  { apply Forall_app in Hd. destruct Hd as [H1 H2]. apply Forall_app. split.
    - destruct sg; repeat constructor; unfold num_byte; lia.
    - apply Forall_app. split.
      + eapply Forall_impl; [|apply digs_range; exact H1]. unfold num_byte. intros; lia.
      + destruct fr as [f|]; cbn [fnorm fdigits] in *; [|constructor].
        constructor; [unfold num_byte; lia|].
        eapply Forall_impl; [|apply digs_range; exact H2]. unfold num_byte. intros; lia. }
  unfold float_of_string. rewrite fstrip_id by assumption.
  rewrite no_underscore by assumption. rewrite parse_norm by assumption. reflexivity.
Qed.

(* ================================================================ parse_amount *)
Lemma render_shape : forall c w, render c w =
  w_lpad w ++ ((if w_paren w then [40] else [])
               ++ midf (w_cur1 w) (w_sign w) (w_cur2 w)
                       (int_bytes c (w_int w) ++ frac_bytes c (w_frac w)) (w_cur3 w)
               ++ (if w_paren w then [41] else [])) ++ w_rpad w.
Proof.
  intros. unfold render, midf, cur3_bytes, int_bytes, frac_bytes, grp_bytes. rewrite <- !app_assoc. reflexivity.
Qed.

Section Inner.
  Variables (c : conv) (c1 c2 : option bs) (sg : sign) (gs : list group) (fr : option (list nat))
            (c3 : option (bool * bs)).
  Hypothesis H1 : is_cur c1.
  Hypothesis H2 : is_cur c2.
  Hypothesis H3 : is_cur (option_map snd c3).
  Hypothesis Hd : Forall (fun d => (d < 10)%nat) (int_digits gs ++ fdigits fr).
  Hypothesis Hne : int_digits gs ++ fdigits fr <> [].
  Let B := int_bytes c gs ++ frac_bytes c fr.
  Let mid := midf c1 sg c2 B c3.

  Lemma inner :
    float_of_string
      (if bs_eqb (conv_dec c) european_separator
       then apply_replaces european_replaces (strip (remove_any currency_symbols 0 mid))
       else apply_replaces us_replaces (strip (remove_any currency_symbols 0 mid)))
    = Some (to_double (Fin (sgn (is_minus sg) (dvalue (int_digits gs ++ fdigits fr)))
                           (- Z.of_nat (length (fdigits fr))))).
  Proof using H1 H2 H3 Hd Hne.
    pose proof (body_first c gs fr Hd Hne) as Bf. pose proof (body_last c gs fr Hd Hne) as Bl.
    pose proof (body_low c gs fr Hd) as Bw. fold B in Bf, Bl, Bw.
    unfold mid. rewrite mid_rm by assumption.
    rewrite body_strip; [| assumption | assumption | destruct c3 as [[[|] s]|]; cbn [cur3_space]; auto].
    unfold B. rewrite normalise by assumption. apply float_norm; assumption.
  Qed.

  Lemma strip_mid : forall lp rp, Forall (fun b => ascii_ws b = true) lp -> Forall (fun b => ascii_ws b = true) rp ->
    strip (lp ++ mid ++ rp) = mid.
  Proof using H1 H2 H3 Hd Hne.
    intros lp rp Hl Hr.
    pose proof (body_first c gs fr Hd Hne) as Bf. pose proof (body_last c gs fr Hd Hne) as Bl. fold B in Bf, Bl.
    apply strip_core; try assumption.
    - intros r. apply mid_head; assumption.
    - intros r. apply mid_last; assumption.
  Qed.

  Lemma mid_noparen : prefix paren_open mid = false.
  Proof using H1 H2 Hd Hne.
    pose proof (body_first c gs fr Hd Hne) as Bf. fold B in Bf.
    pose proof (mid_head c1 c2 sg B c3 H1 H2 Bf []) as [_ E]. rewrite app_nil_r in E. exact E.
  Qed.
End Inner.

Lemma amount_value_aux :
  forall (c : conv) (w : written), well_written w ->
    parse_amount (conv_dec c) (render c w) = Some (to_double (written_value w)).
Proof.
  intros c w (Hl & Hr & Hc1 & Hc2 & Hc3 & Hd & Hne).
  rewrite render_shape. unfold written_value, written_mantissa, all_digits, frac_digits in *.
  destruct w as [lp rp par c1 sg c2 gs fr c3].
  cbn [w_lpad w_rpad w_paren w_cur1 w_sign w_cur2 w_int w_frac w_cur3] in *.
  change (match fr with Some f => f | None => [] end) with (fdigits fr) in *.
  change (is_currency c1) with (is_cur c1) in Hc1. change (is_currency c2) with (is_cur c2) in Hc2.
  change (is_currency (option_map snd c3)) with (is_cur (option_map snd c3)) in Hc3.
  pose proof (inner c c1 c2 sg gs fr c3 Hc1 Hc2 Hc3 Hd Hne) as HI.
  pose proof (strip_mid c c1 c2 sg gs fr c3 Hc1 Hc2 Hc3 Hd Hne) as HS.
  pose proof (mid_noparen c c1 c2 sg gs fr c3 Hc1 Hc2 Hd Hne) as HP.
  set (mid := midf c1 sg c2 (int_bytes c gs ++ frac_bytes c fr) c3) in *.
  set (V := dvalue (int_digits gs ++ fdigits fr)) in *.
  unfold parse_amount. cbv zeta.
  destruct par.
  - assert (S1 : strip (lp ++ ([40] ++ mid ++ [41]) ++ rp) = [40] ++ mid ++ [41]).
    { apply strip_core; try assumption.
      - intros r. cbn [app]. apply head_plain; [reflexivity | lia..].
      - intros r. change ([40] ++ mid ++ [41]) with (40 :: (mid ++ [41])).
        cbn [rev]. rewrite rev_app_distr. cbn [rev app]. apply last_vis. unfold vis_byte. lia. }
    rewrite S1.
    assert (N1 : prefix paren_open ([40] ++ mid ++ [41]) && ends_with paren_close ([40] ++ mid ++ [41]) = true).
    { apply andb_true_intro. split; [reflexivity|]. unfold ends_with.
      change ([40] ++ mid ++ [41]) with (40 :: (mid ++ [41])). cbn [rev]. rewrite rev_app_distr. reflexivity. }
    rewrite N1. cbv iota.
    change (tl ([40] ++ mid ++ [41])) with (mid ++ [41]). rewrite removelast_last.
    rewrite HI. rewrite <- to_double_fneg_aux. unfold fneg. do 2 f_equal.
    destruct sg; cbn [is_minus sgn]; f_equal; lia.
  - cbn [app]. rewrite app_nil_r. rewrite HS by assumption. rewrite HP. cbn [andb]. cbv iota.
    rewrite HI. do 2 f_equal. destruct sg; cbn [is_minus sgn]; f_equal; lia.
Qed.

Transparent to_double.

(* ================================================================ the statements *)
Theorem amount_value :
  forall (c : conv) (w : written), well_written w ->
    parse_amount (conv_dec c) (render c w) = Some (to_double (written_value w)).
Proof. exact amount_value_aux. Qed.

Lemma to_double_id :
  forall m e : Z, m <> 0%Z -> (Z.abs m < 10 ^ 300)%Z -> (-300 <= e <= 0)%Z ->
    to_double (Fin m e) = Fin m e.
Proof. exact to_double_id_aux. Qed.

Lemma to_double_fneg : forall x, to_double (fneg x) = fneg (to_double x).
Proof. exact to_double_fneg_aux. Qed.
