(* C05/Amount.v — how an amount is *written* in a statement cell (sign, digit groups, thousands
   separators, decimal point, currency symbols, parentheses, surrounding blanks) and the number it
   denotes.  Definitions only; the theorem that parse_amount reads every written amount back exactly
   is C05/AmountProofs.v. *)
From Coq Require Import String Ascii.
From Coq Require Import List Bool ZArith NArith Arith.
From Tally Require Import Gen.C05Amount C05.Model.
Import ListNotations.
Open Scope N_scope.

Definition dig (d : nat) : N := 48 + N.of_nat d.
Definition digs (l : list nat) : bs := map dig l.
(* value of a digit string, most significant digit first *)
Definition dvalue (l : list nat) : Z := fold_left (fun a d => (a * 10 + Z.of_nat d)%Z) l 0%Z.

(* the two decimal conventions; the European thousands separator is '.' or ' ' *)
Inductive conv := US | EU (space_groups : bool).
Definition conv_dec (c : conv) : bs := match c with US => [46] | EU _ => [44] end.     (* decimal_separator= *)
Definition conv_sep (c : conv) : bs := match c with US => [44] | EU false => [46] | EU true => [32] end.
Definition conv_point (c : conv) : bs := match c with US => [46] | EU _ => [44] end.

Fixpoint join (sep : bs) (gs : list bs) : bs :=
  match gs with
  | [] => []
  | g :: r => match r with [] => g | _ => g ++ sep ++ join sep r end
  end.
Definition group := (nat * list nat)%type.             (* a non-empty group of digits *)
Definition gdigits (g : group) : list nat := fst g :: snd g.
Definition int_digits (gs : list group) : list nat := concat (map gdigits gs).

Inductive sign := Plus | Minus | NoSign.
Definition sign_bytes (s : sign) : bs := match s with Plus => [43] | Minus => [45] | NoSign => [] end.
Definition obs (o : option bs) : bs := match o with Some s => s | None => [] end.

Record written := {
  w_lpad : bs; w_rpad : bs;          (* blanks around the cell text *)
  w_paren : bool;                     (* ( ... ) : negative *)
  w_cur1 : option bs;                 (* currency symbol before the sign *)
  w_sign : sign;
  w_cur2 : option bs;                 (* currency symbol between the sign and the digits *)
  w_int : list group;                 (* groups of digits, joined by the thousands separator (any group sizes) *)
  w_frac : option (list nat);         (* decimal point followed by digits (possibly none) *)
  w_cur3 : option (bool * bs) }.      (* currency symbol after the number, optionally after one space *)

Definition render (c : conv) (w : written) : bs :=
  w_lpad w
  ++ (if w_paren w then [40] else [])
  ++ obs (w_cur1 w) ++ sign_bytes (w_sign w) ++ obs (w_cur2 w)
  ++ join (conv_sep c) (map (fun g => digs (gdigits g)) (w_int w))
  ++ match w_frac w with Some f => conv_point c ++ digs f | None => [] end
  ++ match w_cur3 w with Some (sp, s) => (if sp then [32] else []) ++ s | None => [] end
  ++ (if w_paren w then [41] else [])
  ++ w_rpad w.

Definition is_currency (o : option bs) : Prop :=
  match o with Some s => In s C05Amount.currency_symbols | None => True end.
Definition frac_digits (w : written) : list nat := match w_frac w with Some f => f | None => [] end.
Definition all_digits (w : written) : list nat := int_digits (w_int w) ++ frac_digits w.

Definition well_written (w : written) : Prop :=
  Forall (fun b => ascii_ws b = true) (w_lpad w) /\ Forall (fun b => ascii_ws b = true) (w_rpad w)
  /\ is_currency (w_cur1 w) /\ is_currency (w_cur2 w) /\ is_currency (option_map snd (w_cur3 w))
  /\ Forall (fun d => (d < 10)%nat) (all_digits w)
  /\ all_digits w <> [].

(* the number written: sign and parentheses each flip it *)
Definition written_mantissa (w : written) : Z :=
  ((if w_paren w then -1 else 1) * (match w_sign w with Minus => -1 | _ => 1 end) * dvalue (all_digits w))%Z.
Definition written_value (w : written) : fl := Fin (written_mantissa w) (- Z.of_nat (length (frac_digits w))).
