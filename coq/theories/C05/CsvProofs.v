(* C05/CsvProofs.v — every table written in the csv writer's class is read back, record for record and cell
   for cell, by the reader model of C05/Csv.v (whatever the cells contain: delimiters, quotes, line breaks). *)
From Coq Require Import String Ascii.
From Coq Require Import List Bool ZArith NArith Arith Lia.
From Tally Require Import C05.Model C05.Csv C05.Proofs.
Import ListNotations.
Open Scope N_scope.

Definition evc (l : bs) : list (option N) := flat_map (fun c => if c =? 10 then [Some c; None] else [Some c]) l.

Lemma evc_app a b : evc (a ++ b) = evc a ++ evc b.
Proof. unfold evc. apply flat_map_app. Qed.
Lemma evc_cons c l : c <> 10 -> evc (c :: l) = Some c :: evc l.
Proof. intros H. unfold evc. cbn. destruct (N.eqb_spec c 10); [contradiction|reflexivity]. Qed.

Lemma events_app_nl l b p : events (l ++ 10 :: b) p = evc l ++ Some 10 :: None :: events b false.
Proof.
  revert p. induction l as [|c l IH]; intros p; [reflexivity|].
  cbn [app events]. unfold evc. cbn [flat_map]. fold (evc l).
  destruct (N.eqb_spec c 10) as [->|Hc]; cbn [app]; now rewrite IH.
Qed.

Lemma unl_id l : no_cr l = true -> unl l = l.
Proof.
  induction l as [|c l IH]; [reflexivity|]. cbn. intros H. apply andb_true_iff in H as [H1 H2].
  destruct (N.eqb_spec c 13); [discriminate|]. now rewrite IH.
Qed.

Lemma crun_char d c r m acc :
  crun d (Some c :: r) m acc = match cstep d m (Some c) with None => None | Some m' => crun d r m' acc end.
Proof. cbn. destruct (cstep d m (Some c)); reflexivity. Qed.

Ltac stepc := rewrite crun_char; unfold cstep, start_field, goto, add, save, is_nl; cbn [cs cf cfs N.eqb Pos.eqb orb andb].

Section RoundTrip.
  Variable d : N.
  Hypothesis Hd : delim_ok d = true.

  Lemma d_facts : d <> 34 /\ d <> 10 /\ d <> 13.
  Proof.
    unfold delim_ok in Hd. apply andb_true_iff in Hd as [H H3]. apply andb_true_iff in H as [H1 H2].
    repeat split; intros ->; discriminate.
  Qed.

  Lemma quoted_content x : forall rest f fs acc,
    crun d (evc (esc x) ++ rest) {| cs := IQ; cf := f; cfs := fs |} acc
    = crun d rest {| cs := IQ; cf := rev x ++ f; cfs := fs |} acc.
  Proof.
    induction x as [|c x IH]; intros rest f fs acc; [reflexivity|].
    assert (Hesc : esc (c :: x) = if c =? 34 then 34 :: 34 :: esc x else c :: esc x) by reflexivity.
    rewrite Hesc. clear Hesc. destruct (N.eqb_spec c 34) as [->|Hq].
    - rewrite !evc_cons by discriminate. cbn [app]. stepc. stepc.
      rewrite IH. cbn [rev]. now rewrite <- app_assoc.
    - destruct (N.eqb_spec c 10) as [->|Hn].
      + unfold evc at 1. cbn [flat_map N.eqb Pos.eqb]. fold (evc (esc x)). cbn [app].
        stepc. cbn [crun cstep cs is_SR]. rewrite IH. cbn [rev]. now rewrite <- app_assoc.
      + rewrite evc_cons by assumption. cbn [app]. rewrite crun_char. unfold cstep. cbn [cs].
        destruct (N.eqb_spec c 34); [contradiction|]. unfold add. cbn [cf cfs]. rewrite IH. cbn [rev]. now rewrite <- app_assoc.
  Qed.

  Lemma plain_content x : forall rest f fs acc, plainb d x = true ->
    crun d (evc x ++ rest) {| cs := IFd; cf := f; cfs := fs |} acc
    = crun d rest {| cs := IFd; cf := rev x ++ f; cfs := fs |} acc.
  Proof.
    induction x as [|c x IH]; intros rest f fs acc H; [reflexivity|].
    cbn in H. apply andb_true_iff in H as [Hc Hx].
    repeat (apply andb_true_iff in Hc as [Hc ?]).
    destruct (N.eqb_spec c d); [discriminate|]. destruct (N.eqb_spec c 34); [discriminate|].
    destruct (N.eqb_spec c 10); [discriminate|]. destruct (N.eqb_spec c 13); [discriminate|].
    rewrite evc_cons by assumption. cbn [app]. rewrite crun_char. unfold cstep, is_nl. cbn [cs].
    destruct (N.eqb_spec c 10); [contradiction|]. destruct (N.eqb_spec c 13); [contradiction|].
    destruct (N.eqb_spec c d); [contradiction|]. cbn. unfold add. cbn. rewrite IH by assumption.
    cbn [rev]. now rewrite <- app_assoc.
  Qed.

  Definition fresh (m : cm) : Prop := (cs m = SR \/ cs m = SF) /\ cf m = [].

  (* a cell followed by what ends it: the machine right after the cell's last character, described by the state
     in which the terminator is processed and the text of the field *)
  Lemma cell_then (w : wcell) m rest acc :
    wcell_ok d w = true -> fresh m ->
    (quoted w = true \/ content w <> []) ->
    exists s, (s = QQ \/ s = IFd) /\
      crun d (evc (render_cell w) ++ rest) m acc = crun d rest {| cs := s; cf := rev (content w); cfs := cfs m |} acc.
  Proof.
    intros Hok [Hs Hf] Hne. destruct d_facts as [Hd1 [Hd2 Hd3]].
    destruct m as [s0 f0 fs0]. cbn in Hs, Hf. subst f0. cbn [cfs].
    unfold wcell_ok in Hok. apply andb_true_iff in Hok as [Hcr Hq].
    unfold render_cell. destruct (quoted w) eqn:Eq.
    - exists QQ. split; [now left|].
      rewrite evc_cons by discriminate. rewrite evc_app. cbn [app]. rewrite <- app_assoc.
      rewrite crun_char.
      assert (E : cstep d {| cs := s0; cf := []; cfs := fs0 |} (Some 34) = Some {| cs := IQ; cf := []; cfs := fs0 |}).
      { destruct Hs as [-> | ->]; reflexivity. }
      rewrite E. rewrite quoted_content. rewrite app_nil_r.
      rewrite evc_cons by discriminate. cbn [evc flat_map app]. rewrite crun_char. reflexivity.
    - exists IFd. split; [now right|]. cbn in Hq.
      destruct (content w) as [|c x] eqn:Ec; [destruct Hne as [H|H]; [discriminate|contradiction]|].
      assert (Hp := Hq). cbn in Hq. apply andb_true_iff in Hq as [Hc Hx].
      repeat (apply andb_true_iff in Hc as [Hc ?]).
      destruct (N.eqb_spec c d); [discriminate|]. destruct (N.eqb_spec c 34); [discriminate|].
      destruct (N.eqb_spec c 10); [discriminate|]. destruct (N.eqb_spec c 13); [discriminate|].
      rewrite evc_cons by assumption. cbn [app]. rewrite crun_char.
      assert (E : cstep d {| cs := s0; cf := []; cfs := fs0 |} (Some c) = Some {| cs := IFd; cf := [c]; cfs := fs0 |}).
      { destruct Hs as [-> | ->]; unfold cstep, start_field, is_nl; cbn [cs];
          destruct (N.eqb_spec c 10); try contradiction; destruct (N.eqb_spec c 13); try contradiction;
          destruct (N.eqb_spec c 34); try contradiction; destruct (N.eqb_spec c d); try contradiction; reflexivity. }
      rewrite E. rewrite plain_content by assumption. reflexivity.
  Qed.

  Lemma end_delim s f fs rest acc : s = QQ \/ s = IFd ->
    crun d (Some d :: rest) {| cs := s; cf := f; cfs := fs |} acc = crun d rest {| cs := SF; cf := []; cfs := rev f :: fs |} acc.
  Proof.
    destruct d_facts as [Hd1 [Hd2 Hd3]].
    intros [-> | ->]; rewrite crun_char; unfold cstep, is_nl; cbn [cs].
    - destruct (N.eqb_spec d 34); [contradiction|]. rewrite N.eqb_refl. reflexivity.
    - destruct (N.eqb_spec d 10); [contradiction|]. destruct (N.eqb_spec d 13); [contradiction|].
      rewrite N.eqb_refl. reflexivity.
  Qed.

  Lemma end_line s f fs rest acc : s = QQ \/ s = IFd ->
    crun d (Some 10 :: None :: rest) {| cs := s; cf := f; cfs := fs |} acc = crun d rest cinit (rev (rev f :: fs) :: acc).
  Proof.
    destruct d_facts as [Hd1 [Hd2 Hd3]].
    intros [-> | ->]; rewrite crun_char; unfold cstep, is_nl; cbn [cs].
    - destruct (N.eqb_spec 10 d); [congruence|]. reflexivity.
    - reflexivity.
  Qed.

  Lemma empty_then_delim m rest acc : fresh m ->
    crun d (Some d :: rest) m acc = crun d rest {| cs := SF; cf := []; cfs := [] :: cfs m |} acc.
  Proof.
    destruct d_facts as [Hd1 [Hd2 Hd3]].
    intros [Hs Hf]. destruct m as [s0 f0 fs0]. cbn in Hs, Hf. subst f0. rewrite crun_char.
    destruct Hs as [-> | ->]; unfold cstep, start_field, is_nl; cbn [cs];
      destruct (N.eqb_spec d 10); try contradiction; destruct (N.eqb_spec d 13); try contradiction;
      destruct (N.eqb_spec d 34); try contradiction; rewrite N.eqb_refl; reflexivity.
  Qed.

  Lemma empty_then_line fs rest acc :
    crun d (Some 10 :: None :: rest) {| cs := SF; cf := []; cfs := fs |} acc = crun d rest cinit (rev ([] :: fs) :: acc).
  Proof. reflexivity. Qed.

  Lemma cell_delim w m rest acc :
    wcell_ok d w = true -> fresh m ->
    crun d (evc (render_cell w) ++ Some d :: rest) m acc = crun d rest {| cs := SF; cf := []; cfs := content w :: cfs m |} acc.
  Proof.
    intros Hok Hm.
    destruct (quoted w) eqn:Eq; [|destruct (content w) as [|c x] eqn:Ec].
    - destruct (cell_then w m (Some d :: rest) acc Hok Hm (or_introl Eq)) as [s [Hs ->]].
      rewrite end_delim by assumption. now rewrite rev_involutive.
    - unfold render_cell. rewrite Eq, Ec. cbn [evc flat_map app]. now apply empty_then_delim.
    - destruct (cell_then w m (Some d :: rest) acc Hok Hm) as [s [Hs ->]]; [right; rewrite Ec; discriminate|].
      rewrite end_delim by assumption. now rewrite rev_involutive, Ec.
  Qed.

  Lemma cell_line w m rest acc :
    wcell_ok d w = true -> fresh m ->
    (cs m = SF \/ quoted w = true \/ content w <> []) ->
    crun d (evc (render_cell w) ++ Some 10 :: None :: rest) m acc = crun d rest cinit (rev (content w :: cfs m) :: acc).
  Proof.
    intros Hok Hm Hc.
    destruct (quoted w) eqn:Eq; [|destruct (content w) as [|c x] eqn:Ec].
    - destruct (cell_then w m (Some 10 :: None :: rest) acc Hok Hm (or_introl Eq)) as [s [Hs ->]].
      rewrite end_line by assumption. now rewrite rev_involutive.
    - destruct Hc as [Hc|[Hc|Hc]]; [|discriminate|contradiction].
      unfold render_cell. rewrite Eq, Ec. cbn [evc flat_map app].
      destruct m as [s0 f0 fs0]. destruct Hm as [_ Hf]. cbn in Hc, Hf. subst. apply empty_then_line.
    - destruct (cell_then w m (Some 10 :: None :: rest) acc Hok Hm) as [s [Hs ->]]; [right; rewrite Ec; discriminate|].
      rewrite end_line by assumption. now rewrite rev_involutive, Ec.
  Qed.

  Definition sole_ok (row : list wcell) : bool :=
    match row with [w] => quoted w || negb (is_nil (content w)) | _ => true end.

  Lemma row_line : forall row m rest acc,
    row <> [] -> forallb (wcell_ok d) row = true -> fresh m -> (cs m = SF \/ sole_ok row = true) ->
    crun d (evc (joinc d (map render_cell row)) ++ Some 10 :: None :: rest) m acc
    = crun d rest cinit (rev (rev (map content row) ++ cfs m) :: acc).
  Proof.
    destruct d_facts as [Hd1 [Hd2 Hd3]].
    induction row as [|w row IH]; intros m rest acc Hne Hok Hm Hs; [contradiction|].
    cbn in Hok. apply andb_true_iff in Hok as [Hw Hrow].
    destruct row as [|w2 row].
    - cbn [map joinc]. rewrite cell_line; try assumption; [reflexivity|].
      destruct Hs as [Hs|Hs]; [now left|]. cbn in Hs. apply orb_true_iff in Hs as [Hs|Hs]; [right; now left|].
      right. right. destruct (content w); [discriminate|discriminate].
    - change (joinc d (map render_cell (w :: w2 :: row)))
        with (render_cell w ++ d :: joinc d (map render_cell (w2 :: row))).
      rewrite evc_app, evc_cons by assumption. rewrite <- app_assoc. cbn [app].
      rewrite cell_delim by assumption.
      rewrite IH; [|discriminate|assumption|split; [now right|reflexivity]|now left].
      cbn [cfs]. do 3 f_equal. cbn [map rev]. now rewrite <- !app_assoc.
  Qed.

  Lemma file_read : forall rows acc, forallb (wrow_ok d) rows = true ->
    crun d (events (render_file d rows) false) cinit acc = Some (rev acc ++ map (map content) rows).
  Proof.
    induction rows as [|row rows IH]; intros acc Hok.
    - cbn. now rewrite app_nil_r.
    - cbn in Hok. apply andb_true_iff in Hok as [Hrow Hrows].
      unfold wrow_ok in Hrow. apply andb_true_iff in Hrow as [Hcells Hsole].
      cbn [render_file map concat]. unfold render_row at 1. rewrite <- app_assoc. cbn [app].
      rewrite events_app_nl.
      destruct row as [|w row].
      + cbn [map joinc evc flat_map app]. cbn. fold (render_file d rows). rewrite IH by assumption.
        cbn [rev]. now rewrite <- app_assoc.
      + rewrite row_line; [|discriminate|assumption|split; [now left|reflexivity]|right; exact Hsole].
        fold (render_file d rows). rewrite IH by assumption. cbn [cfs cinit]. rewrite app_nil_r, rev_involutive.
        cbn [rev map]. now rewrite <- app_assoc.
  Qed.

  Lemma no_cr_esc x : no_cr x = true -> no_cr (esc x) = true.
  Proof.
    unfold no_cr. induction x as [|c x IH]; [reflexivity|]. cbn [forallb esc]. intros H.
    apply andb_true_iff in H as [H1 H2].
    destruct (N.eqb_spec c 34) as [->|]; cbn [forallb]; [cbn; now apply IH|now rewrite H1, IH].
  Qed.
  Lemma no_cr_app a b : no_cr (a ++ b) = no_cr a && no_cr b.
  Proof. unfold no_cr. apply forallb_app. Qed.
  Lemma no_cr_cell w : wcell_ok d w = true -> no_cr (render_cell w) = true.
  Proof.
    unfold wcell_ok, render_cell. intros H. apply andb_true_iff in H as [H _].
    destruct (quoted w); [|exact H]. change (34 :: esc (content w) ++ [34]) with ([34] ++ esc (content w) ++ [34]).
    rewrite !no_cr_app, no_cr_esc by assumption. reflexivity.
  Qed.
  Lemma no_cr_join row : forallb (wcell_ok d) row = true -> no_cr (joinc d (map render_cell row)) = true.
  Proof.
    destruct d_facts as [_ [_ Hd3]].
    induction row as [|w row IH]; [reflexivity|]. intros H. cbn [forallb] in H. apply andb_true_iff in H as [Hw Hr].
    destruct row as [|w2 row]; [now apply no_cr_cell|].
    assert (E : joinc d (map render_cell (w :: w2 :: row)) = render_cell w ++ [d] ++ joinc d (map render_cell (w2 :: row)))
      by reflexivity.
    rewrite E, !no_cr_app, no_cr_cell, IH by assumption.
    unfold no_cr. cbn [forallb]. destruct (N.eqb_spec d 13); [contradiction|]. reflexivity.
  Qed.
  Lemma no_cr_file rows : forallb (wrow_ok d) rows = true -> no_cr (render_file d rows) = true.
  Proof.
    induction rows as [|row rows IH]; [reflexivity|]. cbn [forallb]. intros H. apply andb_true_iff in H as [Hr Hrs].
    unfold wrow_ok in Hr. apply andb_true_iff in Hr as [Hc _].
    cbn [render_file map concat]. fold (render_file d rows). unfold render_row.
    rewrite !no_cr_app, no_cr_join, IH by assumption. reflexivity.
  Qed.

  Theorem csv_roundtrip rows :
    forallb (wrow_ok d) rows = true -> csv_records d (render_file d rows) = Some (map (map content) rows).
  Proof.
    intros H. unfold csv_records. rewrite unl_id by now apply no_cr_file. now rewrite file_read.
  Qed.
End RoundTrip.

(* ---- from the TEXT of a delimited file to transactions: the header is dropped as one record (even when its
   cells contain line breaks), and the transactions are those of the table's rows, row by row, in order *)
Lemma text_rows (strptime : bs -> bs -> option bs) v sp delimiter d (hdr rows : list (list wcell)) :
  reader_of delimiter = RCsv d -> delim_ok d = true -> spec_wfb sp = true ->
  forallb (wrow_ok d) (hdr ++ rows) = true ->
  length hdr = (if has_header sp then 1 else 0)%nat ->
  parse_text strptime v sp delimiter (render_file d (hdr ++ rows))
  = Some (Rows (flat_map (accepted strptime v sp) (map (fun r => map (fun w => Some (content w)) r) rows))).
Proof.
  intros Hr Hd Hwf Hok Hh. unfold parse_text. rewrite Hr, (csv_roundtrip d Hd _ Hok). f_equal.
  rewrite rows_independent by (auto; right; exact I). f_equal. f_equal.
  cbn [iter_rows]. rewrite map_app.
  assert (E : (if has_header sp then tl (map (map content) hdr ++ map (map content) rows)
               else map (map content) hdr ++ map (map content) rows) = map (map content) rows).
  { destruct (has_header sp); destruct hdr as [|h [|h2 hs]]; cbn in Hh; try discriminate; reflexivity. }
  rewrite E, map_map. apply map_ext. intros r. now rewrite map_map.
Qed.

(* the delimiter settings of _iter_rows_with_delimiter *)
Lemma reader_of_table :
  (reader_of None = RCsv 44) /\ (reader_of (Some []) = RCsv 44) /\ (reader_of (Some s_tab) = RCsv 9) /\
  (forall c, c <? 128 = true -> reader_of (Some [c]) = RCsv c) /\
  (forall p, reader_of (Some (s_regex ++ p)) = RRegex p).
Proof.
  split; [reflexivity|]. split; [reflexivity|]. split; [reflexivity|]. split.
  - intros c Hc. unfold reader_of. cbn [bs_eqb s_tab]. rewrite andb_false_r. cbn [prefix s_regex].
    rewrite andb_false_r. now rewrite Hc.
  - intros p. reflexivity.
Qed.
