(* C05/Model.v — executable model of tally's statement-row reader
   (parsers.parse_amount, parsers._iter_rows_with_delimiter, parsers.parse_generic_csv) over
   *tokenised* rows: a row is the list of cells CPython's csv.reader (or re.match(...).groups())
   produced; the tokeniser itself is a library outside the model.

   Text is a list of UTF-8 bytes ([bs = list N]).  Python's whitespace set (29 code points, measured
   on CPython 3.12) is matched on its UTF-8 encodings, which is exact on valid UTF-8 because UTF-8 is
   self-synchronising.  float(text) is modelled exactly for ASCII text (sign, digits with '_' grouping,
   fraction, exponent, inf/infinity/nan) and returns the *exact* decimal value m * 10^e; only the
   overflow / underflow classification of binary64 is modelled, rounding is not.
   datetime.strptime is a parameter (oracle) of every definition that needs it.

   [variant] selects the behaviour of the tree under test:
     as_code = the unchanged /repo  (non-finite amounts are kept; an unmatched regex group crashes)
     fixed   = /repo + proposed_fixes/C05-*.diff
   The literals of parse_amount (currency symbols, separators) come from Gen/C05Amount.v, which is
   regenerated from /repo/src/tally/parsers.py on every run. *)
From Coq Require Import String Ascii.
From Coq Require Import List Bool ZArith NArith Arith.
From Tally Require Import Gen.C05Amount.
Import ListNotations.
Open Scope N_scope.

Definition bs := list N.
Definition bytes (s : string) : bs := map N_of_ascii (list_ascii_of_string s).

Fixpoint bs_eqb (a b : bs) : bool :=
  match a, b with
  | [], [] => true
  | x :: r, y :: s => (x =? y) && bs_eqb r s
  | _, _ => false
  end.
Definition is_nil {A} (l : list A) : bool := match l with [] => true | _ => false end.

(* ---------------------------------------------------------------- whitespace, strip, split()[0] *)
Definition ascii_ws (n : N) : bool := ((9 <=? n) && (n <=? 13)) || ((28 <=? n) && (n <=? 32)).
(* the ASCII whitespace float() itself strips: Py_ISSPACE, i.e. without FS GS RS US *)
Definition ascii_ws_float (n : N) : bool := ((9 <=? n) && (n <=? 13)) || (n =? 32).

(* U+0085 U+00A0 | U+1680 | U+2000-200A U+2028 U+2029 U+202F | U+205F | U+3000 *)
Definition ws3 (c d e : N) : bool :=
  ((c =? 225) && (d =? 154) && (e =? 128))
  || ((c =? 226) && (d =? 128) && (((128 <=? e) && (e <=? 138)) || (e =? 168) || (e =? 169) || (e =? 175)))
  || ((c =? 226) && (d =? 129) && (e =? 159))
  || ((c =? 227) && (d =? 128) && (e =? 128)).
Definition ws2 (c d : N) : bool := (c =? 194) && ((d =? 133) || (d =? 160)).

(* one whitespace code point at the head: the rest after it *)
Definition ws_head_gen (a : N -> bool) (l : bs) : option bs :=
  match l with
  | [] => None
  | c :: r =>
    if a c then Some r else
    match r with
    | [] => None
    | d :: r2 =>
      if ws2 c d then Some r2 else
      match r2 with
      | [] => None
      | e :: r3 => if ws3 c d e then Some r3 else None
      end
    end
  end.
(* the same on a reversed byte list *)
Definition ws_last_gen (a : N -> bool) (l : bs) : option bs :=
  match l with
  | [] => None
  | e :: r =>
    if a e then Some r else
    match r with
    | [] => None
    | d :: r2 =>
      if ws2 d e then Some r2 else
      match r2 with
      | [] => None
      | c :: r3 => if ws3 c d e then Some r3 else None
      end
    end
  end.
Definition ws_head := ws_head_gen ascii_ws.
Definition ws_last := ws_last_gen ascii_ws.

Fixpoint strip_f (hd : bs -> option bs) (fuel : nat) (l : bs) : bs :=
  match fuel with
  | O => l
  | S f => match hd l with Some r => strip_f hd f r | None => l end
  end.
Definition lstrip_gen a (l : bs) : bs := strip_f (ws_head_gen a) (length l) l.
Definition rstrip_gen a (l : bs) : bs := rev (strip_f (ws_last_gen a) (length l) (rev l)).
Definition strip_gen a (l : bs) : bs := rstrip_gen a (lstrip_gen a l).
Definition lstrip := lstrip_gen ascii_ws.
Definition rstrip := rstrip_gen ascii_ws.
Definition strip := strip_gen ascii_ws.            (* str.strip() *)
Definition fstrip := strip_gen ascii_ws_float.      (* the stripping float() does itself *)

(* s.split()[0] of a stripped non-empty s *)
Fixpoint first_token (l : bs) : bs :=
  match l with
  | [] => []
  | c :: r => match ws_head l with Some _ => [] | None => c :: first_token r end
  end.

(* ---------------------------------------------------------------- str.replace / re.sub('[...]','') *)
Fixpoint prefix (p l : bs) : bool :=
  match p, l with
  | [], _ => true
  | x :: p', y :: l' => (x =? y) && prefix p' l'
  | _ :: _, [] => false
  end.
(* s.replace(pat, rep), pat non-empty: leftmost, non-overlapping; [skip] bytes of a match still to drop *)
Fixpoint repl (pat rep : bs) (skip : nat) (l : bs) : bs :=
  match l with
  | [] => []
  | c :: r =>
    match skip with
    | S k => repl pat rep k r
    | O => if prefix pat l then rep ++ repl pat rep (length pat - 1) r else c :: repl pat rep 0 r
    end
  end.
Definition replace (pat rep l : bs) : bs := repl pat rep 0 l.
(* re.sub('[abc]', '', s): every code point of the class (given by its UTF-8 encodings) is removed *)
Fixpoint remove_any (syms : list bs) (skip : nat) (l : bs) : bs :=
  match l with
  | [] => []
  | c :: r =>
    match skip with
    | S k => remove_any syms k r
    | O => match find (fun p => prefix p l) syms with
           | Some p => remove_any syms (length p - 1) r
           | None => c :: remove_any syms 0 r
           end
    end
  end.

(* ---------------------------------------------------------------- float(text) *)
Inductive fl := Fin (m e : Z) (* exactly m * 10^e *) | Inf (neg : bool) | NaN.

Definition is_digit (n : N) : bool := (48 <=? n) && (n <=? 57).
Definition dval (n : N) : Z := Z.of_N (n - 48).
Definition lowb (n : N) : N := if (65 <=? n) && (n <=? 90) then n + 32 else n.

(* _Py_string_to_number_with_underscores: '_' only between two digits *)
Fixpoint us_ok (prev : N) (l : bs) : bool :=
  match l with
  | [] => negb (prev =? 95)
  | c :: r => if c =? 95 then is_digit prev && us_ok c r
              else if prev =? 95 then is_digit c && us_ok c r
              else us_ok c r
  end.
Definition drop_us (l : bs) : bs := filter (fun c => negb (c =? 95)) l.

(* digits* : accumulated value, number of digits read, rest *)
Fixpoint take_digits (l : bs) (acc : Z) (cnt : nat) : Z * nat * bs :=
  match l with
  | c :: r => if is_digit c then take_digits r (acc * 10 + dval c)%Z (S cnt) else (acc, cnt, l)
  | [] => (acc, cnt, [])
  end.
Definition take_sign (l : bs) : bool * bs :=
  match l with
  | c :: r => if c =? 45 then (true, r) else if c =? 43 then (false, r) else (false, l)
  | [] => (false, [])
  end.
Definition sgn (neg : bool) (m : Z) : Z := if neg then (- m)%Z else m.

Definition s_inf : bs := [105; 110; 102].
Definition s_infinity : bs := [105; 110; 102; 105; 110; 105; 116; 121].
Definition s_nan : bs := [110; 97; 110].

(* the grammar of PyOS_string_to_double on stripped text without underscores *)
Definition parse_num (l : bs) : option fl :=
  let '(neg, l1) := take_sign l in
  let low := map lowb l1 in
  if bs_eqb low s_inf || bs_eqb low s_infinity then Some (Inf neg)
  else if bs_eqb low s_nan then Some NaN
  else
    let '(ip, ni, l2) := take_digits l1 0%Z O in
    let '(m, nf, l3) := match l2 with
                        | c :: r => if c =? 46 then take_digits r ip O else (ip, O, l2)
                        | [] => (ip, O, l2)
                        end in
    if (ni + nf =? 0)%nat then None else
    match l3 with
    | [] => Some (Fin (sgn neg m) (- Z.of_nat nf))
    | c :: r =>
      if (c =? 101) || (c =? 69) then
        let '(eneg, r1) := take_sign r in
        let '(ev, ne, r2) := take_digits r1 0%Z O in
        if (ne =? 0)%nat then None
        else match r2 with [] => Some (Fin (sgn neg m) (sgn eneg ev - Z.of_nat nf)) | _ => None end
      else None
    end.

(* binary64 classification of the exact value: >= 2^1024 - 2^970 rounds to infinity,
   <= 2^-1075 rounds to zero (ties to even); nothing else about rounding is modelled *)
Definition ndigits (m : Z) : Z := Z.log2 (Z.abs m) * 30103 / 100000.   (* floor(log10 |m|) or one less *)
Definition overflow_bound : Z := (2 ^ 1024 - 2 ^ 970)%Z.
Definition to_double (x : fl) : fl :=
  match x with
  | Fin m e =>
    if (m =? 0)%Z then Fin 0 0
    else if (400 <? e + ndigits m)%Z then Inf (m <? 0)%Z
    else if (e + ndigits m <? -400)%Z then Fin 0 0
    else if (0 <=? e)%Z then
      (if (overflow_bound <=? Z.abs m * 10 ^ e)%Z then Inf (m <? 0)%Z else x)
    else
      let d := (10 ^ (- e))%Z in
      if (overflow_bound * d <=? Z.abs m)%Z then Inf (m <? 0)%Z
      else if (Z.abs m * 2 ^ 1075 <=? d)%Z then Fin 0 0 else x
  | _ => x
  end.

Definition float_of_string (l : bs) : option fl :=
  let l := fstrip l in
  if existsb (fun c => c =? 95) l
  then (if us_ok 0 l then option_map to_double (parse_num (drop_us l)) else None)
  else option_map to_double (parse_num l).

Definition fneg (x : fl) : fl :=
  match x with Fin m e => Fin (- m) e | Inf n => Inf (negb n) | NaN => NaN end.
Definition fabs (x : fl) : fl :=
  match x with Fin m e => Fin (Z.abs m) e | Inf _ => Inf false | NaN => NaN end.
Definition fl_is_zero (x : fl) : bool := match x with Fin m _ => (m =? 0)%Z | _ => false end.   (* x == 0 *)
Definition fl_is_fin (x : fl) : bool := match x with Fin _ _ => true | _ => false end.          (* math.isfinite *)
Definition fl_is_neg (x : fl) : bool :=                                                       (* x < 0 *)
  match x with Fin m _ => (m <? 0)%Z | Inf n => n | NaN => false end.

(* ---------------------------------------------------------------- parsers.parse_amount *)
Definition ends_with (p l : bs) : bool := prefix (rev p) (rev l).
Definition apply_replaces (ops : list (bs * bs)) (l : bs) : bs :=
  fold_left (fun s o => replace (fst o) (snd o) s) ops l.

Definition parse_amount (dec : bs) (s0 : bs) : option fl :=
  let s1 := strip s0 in
  let negative := prefix C05Amount.paren_open s1 && ends_with C05Amount.paren_close s1 in
  let s2 := if negative then removelast (tl s1) else s1 in          (* amount_str[1:-1] *)
  let s3 := strip (remove_any C05Amount.currency_symbols 0 s2) in
  let s4 := if bs_eqb dec C05Amount.european_separator
            then apply_replaces C05Amount.european_replaces s3
            else apply_replaces C05Amount.us_replaces s3 in
  match float_of_string s4 with
  | None => None                                                       (* ValueError *)
  | Some x => Some (if negative then fneg x else x)
  end.

(* ---------------------------------------------------------------- parsers.extract_location
   re.search(r'\s+([A-Z]{2})\s*$', description) *)
Definition is_upper (n : N) : bool := (65 <=? n) && (n <=? 90).
Definition extract_location (d : bs) : option bs :=
  match rev (rstrip d) with
  | b2 :: b1 :: rest =>
    if is_upper b1 && is_upper b2
    then match ws_last rest with Some _ => Some [b1; b2] | None => None end
    else None
  | _ => None
  end.

(* ---------------------------------------------------------------- FormatSpec + source settings *)
Inductive piece := Lit (s : bs) | Ref (name : bs).      (* string.Formatter().parse(template) *)
Inductive desc_mode :=
| DescCol (c : nat) (extras : list (bs * nat))          (* {description} (+ extra_fields) *)
| Template (caps : list (bs * nat)) (tmpl : list piece). (* custom_captures + description_template *)

Record spec := {
  date_col : nat; date_fmt : bs; amount_col : nat; desc : desc_mode; loc_col : option nat;
  has_header : bool; negate : bool; absolute : bool;
  spec_source : option bs;       (* FormatSpec.source_name *)
  source_name : bs;              (* source_name= argument (the data source's name) *)
  dec_sep : bs }.                (* decimal_separator= argument *)

Record variant := { reject_nonfinite : bool; none_as_blank : bool }.
Definition as_code : variant := {| reject_nonfinite := false; none_as_blank := false |}.
Definition fixed : variant := {| reject_nonfinite := true; none_as_blank := true |}.
(* The behaviour of the tree under test.  Flip to [fixed] once proposed_fixes/C05-*.diff are applied. *)
Definition tree_variant : variant := fixed.   (* /repo has fix: 111bcb5 (non-finite) and 61b1f62 (regex None group) *)

Record txn := {
  t_date : bs;                   (* the datetime strptime returned (as the oracle renders it) *)
  t_desc : bs; t_amount : fl; t_source : bs;
  t_field : option (list (bs * bs)); t_loc : option bs; t_credit : bool }.

Inductive reason := Short | IndexErr | Blank | BadDate | BadAmount | Zero | NonFinite.
Inductive res := Txn (t : txn) | Skip (w : reason) | Crash.   (* Crash: an exception the row loop does not catch *)

Definition M (A : Type) : Type := (A + res)%type.
Definition bind {A B} (m : M A) (k : A -> M B) : M B := match m with inl a => k a | inr r => inr r end.
Notation "x <- m ;; k" := (bind m (fun x => k)) (at level 61, m at next level, right associativity).
Definition run (m : M txn) : res := match m with inl t => Txn t | inr r => r end.

Definition cells := list (option bs).     (* None: a regex group that did not take part in the match *)

(* row[i].strip() *)
Definition get (row : cells) (i : nat) : M bs :=
  match nth_error row i with
  | None => inr (Skip IndexErr)
  | Some None => inr Crash               (* AttributeError: 'NoneType' object has no attribute 'strip' *)
  | Some (Some s) => inl (strip s)
  end.
(* row[i].strip() if i < len(row) else '' *)
Definition get_or_empty (row : cells) (i : nat) : M bs :=
  match nth_error row i with
  | None => inl []
  | Some None => inr Crash
  | Some (Some s) => inl (strip s)
  end.
Fixpoint captures (row : cells) (l : list (bs * nat)) : M (list (bs * bs)) :=
  match l with
  | [] => inl []
  | (n, c) :: r => v <- get_or_empty row c ;; vs <- captures row r ;; inl ((n, v) :: vs)
  end.
Fixpoint assoc (k : bs) (l : list (bs * bs)) : option bs :=
  match l with [] => None | (k', v) :: r => if bs_eqb k k' then Some v else assoc k r end.
(* template.format with the captures as keyword arguments, for templates made of literal text and {name} *)
Fixpoint fill (t : list piece) (caps : list (bs * bs)) : M bs :=
  match t with
  | [] => inl []
  | Lit s :: r => x <- fill r caps ;; inl (s ++ x)
  | Ref n :: r => match assoc n caps with
                  | Some v => x <- fill r caps ;; inl (v ++ x)
                  | None => inr Crash          (* KeyError *)
                  end
  end.

Definition required_cols (sp : spec) : list nat :=
  date_col sp :: amount_col sp ::
  (match desc sp with DescCol c ex => c :: map snd ex | Template caps _ => map snd caps end)
  ++ (match loc_col sp with Some c => [c] | None => [] end).
Definition max_col (sp : spec) : nat := fold_right Nat.max O (required_cols sp).

Definition desc_and_caps (sp : spec) (row : cells) : M (bs * list (bs * bs)) :=
  match desc sp with
  | DescCol c ex => d <- get row c ;; cs <- captures row ex ;; inl (d, cs)
  | Template caps t => cs <- captures row caps ;; d <- fill t cs ;; inl (d, cs)
  end.
Definition apply_mode (sp : spec) (a : fl) : fl :=
  if absolute sp then fabs a else if negate sp then fneg a else a.
Definition source_of (sp : spec) : bs :=
  match spec_source sp with Some (c :: r) => c :: r | _ => source_name sp end.
Definition has_space (f : bs) : bool := existsb (fun c => c =? 32) f.
(* the text handed to strptime *)
Definition date_text (sp : spec) (d0 : bs) : bs := if has_space (date_fmt sp) then d0 else first_token d0.
Definition location_of (sp : spec) (row : cells) (de : bs) : M (option bs) :=
  lc <- match loc_col sp with None => inl [] | Some c => get row c end ;;
  inl (if is_nil lc then extract_location de else Some lc).

Section WithStrptime.
  (* datetime.strptime(text, format): None = ValueError; Some d = the datetime, rendered *)
  Variable strptime : bs -> bs -> option bs.

  Definition row_to_txn (v : variant) (sp : spec) (row : cells) : res :=
    if (length row <=? max_col sp)%nat then Skip Short else
    run (
      d0 <- get row (date_col sp) ;;
      a0 <- get row (amount_col sp) ;;
      dc <- desc_and_caps sp row ;;
      if is_nil d0 || is_nil (fst dc) || is_nil a0 then inr (Skip Blank) else
      match strptime (date_fmt sp) (date_text sp d0) with
      | None => inr (Skip BadDate)
      | Some dt =>
        match parse_amount (dec_sep sp) a0 with
        | None => inr (Skip BadAmount)
        | Some am0 =>
          let am := apply_mode sp am0 in
          if reject_nonfinite v && negb (fl_is_fin am) then inr (Skip NonFinite) else
          if fl_is_zero am then inr (Skip Zero) else
          lc <- location_of sp row (fst dc) ;;
          inl {| t_date := dt; t_desc := fst dc; t_amount := am; t_source := source_of sp;
                 t_field := if is_nil (snd dc) then None else Some (snd dc);
                 t_loc := lc; t_credit := fl_is_neg am |}
        end
      end).

  (* ------------------------------------------------------------- _iter_rows_with_delimiter *)
  Record rline := { raw : bs;                        (* the physical line as the text file yields it *)
                    groups : option cells }.         (* pattern.match(line.strip()): None = no match *)
  Inductive input :=
  | CsvIn (records : list (list bs))                 (* csv.reader's records (comma, one char, tab) *)
  | RegexIn (lines : list rline).

  Definition norm_row (v : variant) (g : cells) : cells :=
    if none_as_blank v then map (fun c => match c with None => Some [] | x => x end) g else g.
  Definition iter_rows (v : variant) (hdr : bool) (inp : input) : list cells :=
    match inp with
    | CsvIn recs => map (map Some) (if hdr then tl recs else recs)
    | RegexIn lines =>
      flat_map (fun ln => if is_nil (strip (raw ln)) then []
                          else match groups ln with None => [] | Some g => [norm_row v g] end)
               (if hdr then tl lines else lines)
    end.

  Inductive outcome := Rows (l : list txn) | Crashed.
  Fixpoint run_rows (v : variant) (sp : spec) (rows : list cells) : outcome :=
    match rows with
    | [] => Rows []
    | r :: rest =>
      match row_to_txn v sp r with
      | Crash => Crashed
      | Skip _ => run_rows v sp rest
      | Txn t => match run_rows v sp rest with Rows l => Rows (t :: l) | Crashed => Crashed end
      end
    end.

  Definition parse (v : variant) (sp : spec) (inp : input) : outcome :=
    run_rows v sp (iter_rows v (has_header sp) inp).
End WithStrptime.
