(* C05 — every well-formed statement row becomes exactly one transaction, faithfully.

   Model: C05/Model.v (hand model of parsers.parse_generic_csv / _iter_rows_with_delimiter / extract_location
   over tokenised rows; float(text) modelled exactly; the literals of parse_amount regenerated from
   /repo/src/tally/parsers.py into Gen/C05Amount.v on every run).  datetime.strptime is a parameter of
   every statement (it holds for every date parser).  The tie to the code is the correspondence check of
   harness/c05.py (model evaluated by vm_compute against parse_generic_csv on generated files).

   STATUS: both fixes are applied in /repo (111bcb5, 61b1f62); tree_variant = fixed, so
   c05_accept_iff_wellformed and c05_rows_independent below are the statements about the tree.

   THE TREE UNDER TEST (history).  [tree_variant] (Model.v) says which behaviour the correspondence check
   compares the implementation with.  It is [as_code] for the unchanged /repo, which does NOT satisfy two
   of the full statements: see the two [_refuted] theorems (their witnesses replayed on the code are the
   known findings C05/non-finite-amount-accepted and C05/regex-unmatched-group-crash).
   Once proposed_fixes/C05-nonfinite.diff and C05-regex-none-group.diff are applied:
     1. Model.v:  Definition tree_variant : variant := fixed.
     2. this file: delete the two theorems c05_accept_iff_wellformed_refuted and c05_rows_independent_refuted
        (they no longer compile: they are false for [fixed]); c05_accept_iff_wellformed_fixed and
        c05_rows_independent_fixed are then the statements about the tree.
     3. known_findings.d/C05.jsonl: status "finding" -> "fixed".                                              *)
From Coq Require Import String Ascii.
From Coq Require Import List Bool ZArith NArith Arith Lia.
From Tally Require Import Gen.C05Amount C05.Model C05.Amount C05.Proofs C05.AmountProofs C05.Csv C05.CsvProofs.
Import ListNotations.
Open Scope N_scope.

(* ================================================================================ rows are independent *)
(* full statement: the transactions read are the concatenation, in file order, of what each row yields
   on its own (at most one transaction per row) — whatever the other rows contain *)
Definition c05_rows_independent_statement (v : variant) : Prop :=
  forall (strptime : bs -> bs -> option bs) (sp : spec) (inp : input),
    spec_wfb sp = true ->
    parse strptime v sp inp = Rows (flat_map (accepted strptime v sp) (iter_rows v (has_header sp) inp)).

(* history: before fix 61b1f62 the code (variant as_code) refuted this — one line whose optional regex group
   did not match lost the whole file *)
Theorem c05_rows_independent_refuted_before_fix : ~ c05_rows_independent_statement as_code.
Proof.
  intros H.
  specialize (H (fun _ _ => Some [])
                {| date_col := 0; date_fmt := bytes "%Y-%m-%d"; amount_col := 2; desc := DescCol 1 [];
                   loc_col := Some 3%nat; has_header := false; negate := false; absolute := false;
                   spec_source := None; source_name := bytes "Bank"; dec_sep := bytes "." |}
                (RegexIn [ {| raw := bytes "2024-01-05|TEA HOUSE|4.50|CA";
                              groups := Some [Some (bytes "2024-01-05"); Some (bytes "TEA HOUSE"); Some (bytes "4.50"); Some (bytes "CA")] |};
                           {| raw := bytes "2024-01-06|NO LOCATION|5.00";
                              groups := Some [Some (bytes "2024-01-06"); Some (bytes "NO LOCATION"); Some (bytes "5.00"); None] |} ])
                eq_refl).
  vm_compute in H. discriminate H.
Qed.
Print Assumptions c05_rows_independent_refuted_before_fix.

(* unchanged code: holds for every comma / one-character / tab delimited file, and for regex-delimited
   files in which every group of every matching line took part *)
Theorem c05_rows_independent_partial :
  forall (v : variant) (strptime : bs -> bs -> option bs) (sp : spec) (inp : input),
    spec_wfb sp = true -> input_total inp ->
    parse strptime v sp inp = Rows (flat_map (accepted strptime v sp) (iter_rows v (has_header sp) inp)).
Proof. intros v st sp inp Hwf Hin. apply rows_independent; [exact Hwf|now right]. Qed.
Print Assumptions c05_rows_independent_partial.

(* with proposed_fixes/C05-regex-none-group.diff: the full statement *)
Theorem c05_rows_independent_fixed : c05_rows_independent_statement fixed.
Proof. intros st sp inp Hwf. apply rows_independent; [exact Hwf|now left]. Qed.
Print Assumptions c05_rows_independent_fixed.

Theorem c05_one_transaction_per_row :
  forall strptime v sp row, (length (accepted strptime v sp row) <= 1)%nat.
Proof. exact accepted_at_most_one. Qed.
Print Assumptions c05_one_transaction_per_row.

(* a row that is skipped on its own is skipped in any file, and the rows around it are read as if it
   were not there: parse (a ++ bad :: b) = parse (a ++ b) = parse a ++ parse b *)
Theorem c05_malformed_row_skipped :
  forall strptime v sp (hdr : list (list bs)) a bad b w,
    spec_wfb sp = true -> length hdr = (if has_header sp then 1 else 0)%nat ->
    row_to_txn strptime v sp (map Some bad) = Skip w ->
    parse strptime v sp (CsvIn (hdr ++ a ++ bad :: b)) = parse strptime v sp (CsvIn (hdr ++ a ++ b)) /\
    parse strptime v sp (CsvIn (hdr ++ a ++ b)) =
      Rows (flat_map (accepted strptime v sp) (map (map Some) a) ++ flat_map (accepted strptime v sp) (map (map Some) b)).
Proof. exact csv_file_split. Qed.
Print Assumptions c05_malformed_row_skipped.

(* ================================================================================ accepted <-> well-formed *)
(* full statement: a row (all of whose cells exist) becomes a transaction exactly when it has enough
   columns, its date cell parses, its description is not blank and its amount cell denotes a finite,
   non-zero number ([wellformed _ true]) *)
Definition c05_accept_iff_wellformed_statement (v : variant) : Prop :=
  forall (strptime : bs -> bs -> option bs) (sp : spec) (row : cells),
    spec_wfb sp = true -> all_some row ->
    ((exists t, row_to_txn strptime v sp row = Txn t) <-> wellformed strptime true sp row).

(* history: before fix 111bcb5 the code (variant as_code) refuted this — the amount cell 'nan' gave a transaction *)
Theorem c05_accept_iff_wellformed_refuted_before_fix : ~ c05_accept_iff_wellformed_statement as_code.
Proof.
  intros H.
  specialize (H (fun _ _ => Some (bytes "2024-01-02T00:00:00"))
                {| date_col := 0; date_fmt := bytes "%Y-%m-%d"; amount_col := 2; desc := DescCol 1 [];
                   loc_col := None; has_header := true; negate := false; absolute := false;
                   spec_source := None; source_name := bytes "Bank"; dec_sep := bytes "." |}
                [Some (bytes "2024-01-02"); Some (bytes "COFFEE"); Some (bytes "nan")]
                eq_refl).
  destruct H as [H _]; [repeat constructor; discriminate|].
  destruct H as [_ [_ [_ [a [Ha [_ Hf]]]]]]; [eexists; vm_compute; reflexivity|].
  vm_compute in Ha. injection Ha as <-. specialize (Hf eq_refl). discriminate Hf.
Qed.
Print Assumptions c05_accept_iff_wellformed_refuted_before_fix.

(* any variant: accepted <-> enough columns, date parses, description present, amount a non-zero float
   that is finite if the variant rejects non-finite amounts.  For the unchanged code this is the
   strongest true statement: "finite" is missing *)
Theorem c05_accept_iff_wellformed_partial :
  forall (v : variant) (strptime : bs -> bs -> option bs) (sp : spec) (row : cells),
    spec_wfb sp = true -> all_some row ->
    ((exists t, row_to_txn strptime v sp row = Txn t) <-> wellformed strptime (reject_nonfinite v) sp row).
Proof. intros v st sp row. apply accept_iff. Qed.
Print Assumptions c05_accept_iff_wellformed_partial.

(* with proposed_fixes/C05-nonfinite.diff: the full statement *)
Theorem c05_accept_iff_wellformed_fixed : c05_accept_iff_wellformed_statement fixed.
Proof. intros st sp row. apply (accept_iff st fixed). Qed.
Print Assumptions c05_accept_iff_wellformed_fixed.

(* the statements about the tree under test (tree_variant = fixed) *)
Theorem c05_accept_iff_wellformed : c05_accept_iff_wellformed_statement tree_variant.
Proof. exact c05_accept_iff_wellformed_fixed. Qed.
Print Assumptions c05_accept_iff_wellformed.

Theorem c05_rows_independent : c05_rows_independent_statement tree_variant.
Proof. exact c05_rows_independent_fixed. Qed.
Print Assumptions c05_rows_independent.

(* a row with too few columns is skipped, whatever its cells are (even unmatched groups) *)
Theorem c05_short_row_skipped :
  forall strptime v sp row, (length row <= max_col sp)%nat -> row_to_txn strptime v sp row = Skip Short.
Proof. exact short_row_skipped. Qed.
Print Assumptions c05_short_row_skipped.

(* ================================================================================ fields are the row's *)
Theorem c05_fields_faithful :
  forall strptime v sp row t,
    row_to_txn strptime v sp row = Txn t ->
    exists de am0,
      description_of sp row = inl de /\
      parse_amount (dec_sep sp) (cell row (amount_col sp)) = Some am0 /\
      strptime (date_fmt sp) (date_text sp (cell row (date_col sp))) = Some (t_date t) /\
      t_desc t = de /\
      t_amount t = apply_mode sp am0 /\
      t_source t = source_of sp /\
      t_field t = (if is_nil (fields_of sp row) then None else Some (fields_of sp row)) /\
      t_loc t = (if is_nil (loc_text sp row) then extract_location de else Some (loc_text sp row)) /\
      t_credit t = fl_is_neg (t_amount t).
Proof. exact fields_faithful. Qed.
Print Assumptions c05_fields_faithful.

(* the description is the cell text without surrounding blanks, or the filled template *)
Theorem c05_description :
  forall sp row,
    (forall c ex, desc sp = DescCol c ex -> description_of sp row = inl (cell row c)) /\
    (forall caps t, desc sp = Template caps t -> description_of sp row = fill t (caps_of row caps)).
Proof. intros sp row. split; intros; [eapply description_mode1|eapply description_mode2]; eassumption. Qed.
Print Assumptions c05_description.

(* ================================================================================ the amount is the number written *)
(* for every sign, digit string, grouping, fraction, currency symbol position, parentheses and
   surrounding blanks, under both decimal conventions: parse_amount reads back exactly the number written
   (to_double only classifies binary64 overflow / underflow; it is the identity below 10^300) *)
Theorem c05_amount_value :
  forall (c : conv) (w : written), well_written w ->
    parse_amount (conv_dec c) (render c w) = Some (to_double (written_value w)).
Proof. exact amount_value. Qed.
Print Assumptions c05_amount_value.

Theorem c05_amount_value_exact :
  forall (c : conv) (w : written), well_written w ->
    written_mantissa w <> 0%Z -> (Z.abs (written_mantissa w) < 10 ^ 300)%Z -> (length (frac_digits w) <= 300)%nat ->
    parse_amount (conv_dec c) (render c w) = Some (written_value w).
Proof.
  intros c w Hw Hnz Hlt Hfr. rewrite (amount_value c w Hw). f_equal. unfold written_value.
  apply to_double_id; [exact Hnz|exact Hlt|]. lia.
Qed.
Print Assumptions c05_amount_value_exact.

(* ================================================================================ sign modes *)
(* {-amount} flips the sign, {+amount} takes the absolute value (and wins over negate_amount);
   which rows are read, and every other field, do not depend on the sign mode *)
Theorem c05_sign_modes :
  forall strptime v sp row ng ab,
    row_to_txn strptime v (with_mode sp ng ab) row
    = map_res (mode_fn ng ab) (row_to_txn strptime v (with_mode sp false false) row).
Proof. exact sign_modes. Qed.
Print Assumptions c05_sign_modes.

Theorem c05_sign_mode_table :
  forall a, mode_fn false false a = a /\ mode_fn true false a = fneg a /\
            mode_fn false true a = fabs a /\ mode_fn true true a = fabs a.
Proof. intros a. repeat split; reflexivity. Qed.
Print Assumptions c05_sign_mode_table.

(* ================================================================================ the CSV record reader *)
(* C05/Csv.v models what _iter_rows_with_delimiter does with a comma / one-character / tab delimited file:
   text mode (universal newlines), csv.reader's state machine for the excel dialect, the header dropped as one
   RECORD.  Every table written the way a csv writer writes (a cell is quoted, with doubled quotes, whenever it
   contains the delimiter, a quote or a line break; any cell may be quoted; a row that is one empty cell quotes it)
   is read back as exactly one row per record with exactly the cells written, whatever the cells contain. *)
Theorem c05_csv_roundtrip :
  forall (d : N) (rows : list (list wcell)),
    delim_ok d = true -> forallb (wrow_ok d) rows = true ->
    csv_records d (render_file d rows) = Some (map (map content) rows).
Proof. intros d rows Hd. exact (csv_roundtrip d Hd rows). Qed.
Print Assumptions c05_csv_roundtrip.

(* from the TEXT of the file to the transactions: the header record is dropped (also when its cells contain line
   breaks), and the transactions are those of the table's rows, one by one, in order *)
Theorem c05_text_rows :
  forall (strptime : bs -> bs -> option bs) v sp delimiter d (hdr rows : list (list wcell)),
    reader_of delimiter = RCsv d -> delim_ok d = true -> spec_wfb sp = true ->
    forallb (wrow_ok d) (hdr ++ rows) = true ->
    length hdr = (if has_header sp then 1 else 0)%nat ->
    parse_text strptime v sp delimiter (render_file d (hdr ++ rows))
    = Some (Rows (flat_map (accepted strptime v sp) (map (fun r => map (fun w => Some (content w)) r) rows))).
Proof. exact text_rows. Qed.
Print Assumptions c05_text_rows.

(* which reader a delimiter setting selects *)
Theorem c05_delimiter_settings :
  (reader_of None = RCsv 44) /\ (reader_of (Some []) = RCsv 44) /\ (reader_of (Some s_tab) = RCsv 9) /\
  (forall c, c <? 128 = true -> reader_of (Some [c]) = RCsv c) /\
  (forall p, reader_of (Some (s_regex ++ p)) = RRegex p).
Proof. exact reader_of_table. Qed.
Print Assumptions c05_delimiter_settings.

(* ================================================================================ non-vacuity *)
Definition ex_spec : spec :=
  {| date_col := 0; date_fmt := bytes "%m/%d/%Y"; amount_col := 3;
     desc := Template [(bytes "merchant", 1%nat); (bytes "type", 2%nat)] [Ref (bytes "merchant"); Lit (bytes " ("); Ref (bytes "type"); Lit (bytes ")")];
     loc_col := Some 4%nat; has_header := true; negate := true; absolute := false;
     spec_source := None; source_name := bytes "Bank"; dec_sep := bytes "," |}.
Definition ex_strptime (f t : bs) : option bs :=
  if bs_eqb t (bytes "01/02/2024") then Some (bytes "2024-01-02T00:00:00") else None.
Definition ex_file : input :=
  CsvIn [ [bytes "Date"; bytes "Merchant"; bytes "Type"; bytes "Amount"; bytes "Where"];
          [bytes " 01/02/2024  Tue"; bytes " ACME, Inc. "; bytes "card"; bytes "(1.234,56 €)"; bytes ""];
          [bytes "01/02/2024"; bytes "short row"];
          [];
          [bytes "31/31/2024"; bytes "BAD DATE"; bytes "x"; bytes "5,00"; bytes "CA"];
          [bytes "01/02/2024"; bytes "ZERO"; bytes "x"; bytes "-0,00"; bytes "CA"];
          [bytes "01/02/2024"; bytes "TEA HOUSE WA"; bytes "pos"; bytes "4,5"; bytes " "] ].

(* two of the six rows are read, in order, with the fields of their own rows *)
Example c05_example :
  spec_wfb ex_spec = true /\
  parse ex_strptime tree_variant ex_spec ex_file =
    Rows [ {| t_date := bytes "2024-01-02T00:00:00"; t_desc := bytes "ACME, Inc. (card)"; t_amount := Fin 123456 (-2);
              t_source := bytes "Bank"; t_field := Some [(bytes "merchant", bytes "ACME, Inc."); (bytes "type", bytes "card")];
              t_loc := None; t_credit := false |};
           {| t_date := bytes "2024-01-02T00:00:00"; t_desc := bytes "TEA HOUSE WA (pos)"; t_amount := Fin (-45) (-1);
              t_source := bytes "Bank"; t_field := Some [(bytes "merchant", bytes "TEA HOUSE WA"); (bytes "type", bytes "pos")];
              t_loc := None; t_credit := true |} ].
Proof. vm_compute. split; reflexivity. Qed.

(* the hypotheses of c05_accept_iff_wellformed_* are satisfiable: a well-formed row with all cells present *)
Example c05_example_wellformed :
  let row := [Some (bytes "01/02/2024"); Some (bytes "ACME"); Some (bytes "card"); Some (bytes "12,50"); Some (bytes "")] in
  all_some row /\ wellformed ex_strptime true ex_spec row.
Proof.
  cbv zeta. split; [repeat constructor; discriminate|].
  split; [vm_compute; repeat constructor|]. split; [split; vm_compute; discriminate|].
  split; [eexists; split; [vm_compute; reflexivity|discriminate]|].
  eexists. split; [vm_compute; reflexivity|]. split; [reflexivity|reflexivity].
Qed.

(* the hypothesis of c05_amount_value is satisfiable: " ($1,234,567.89)\t" *)
Example c05_example_written :
  let w := {| w_lpad := [32]; w_rpad := [9]; w_paren := true; w_cur1 := Some [36]; w_sign := NoSign; w_cur2 := None;
              w_int := [(1%nat, []); (2%nat, [3%nat; 4%nat]); (5%nat, [6%nat; 7%nat])]; w_frac := Some [8%nat; 9%nat];
              w_cur3 := None |} in
  well_written w /\ render US w = bytes " ($1,234,567.89)	" /\ written_value w = Fin (-123456789) (-2)
  /\ parse_amount (conv_dec US) (render US w) = Some (Fin (-123456789) (-2)).
Proof.
  cbv zeta. split.
  - unfold well_written. cbn. repeat split; try (repeat constructor); try (left; reflexivity); discriminate.
  - vm_compute. repeat split; reflexivity.
Qed.

(* the hypotheses of c05_csv_roundtrip / c05_text_rows are satisfiable: a ';'-delimited file whose header cell ends
   in a line break, with cells containing the delimiter, quotes and a line break *)
Definition qc (s : string) : wcell := {| quoted := true; content := bytes s |}.
Definition rc (s : string) : wcell := {| quoted := false; content := bytes s |}.
Definition nl : string := String (Ascii.ascii_of_N 10) EmptyString.
Example c05_example_csv :
  let hdr := [[rc "Date"; qc "Description"; qc (append "Amount" nl)]] in
  let rows := [[rc "2024-01-02"; qc "He said ""hi""; x"; rc "4,50"]; []; [qc ""];
               [rc "2024-01-03"; qc (append "two" (append nl "lines")); rc ""]] in
  forallb (wrow_ok 59) (hdr ++ rows) = true
  /\ csv_records 59 (render_file 59 (hdr ++ rows))
     = Some [[bytes "Date"; bytes "Description"; bytes (append "Amount" nl)];
             [bytes "2024-01-02"; bytes "He said ""hi""; x"; bytes "4,50"]; []; [[]];
             [bytes "2024-01-03"; bytes (append "two" (append nl "lines")); []]].
Proof. vm_compute. split; reflexivity. Qed.
