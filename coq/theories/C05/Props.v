From Coq Require Import String Ascii.
From Coq Require Import List Bool ZArith NArith Arith.
From Tally Require Import Gen.C05Amount C05.Model C05.Proofs.
Import ListNotations.
