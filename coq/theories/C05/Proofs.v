(* C05/Proofs.v — lemmas about the row reader (C05/Model.v).  The theorems exported for the property are
   in C05/Props.v; the amount-value theorem is in C05/AmountProofs.v. *)
From Coq Require Import String Ascii.
From Coq Require Import List Bool ZArith NArith Arith Lia.
From Tally Require Import Gen.C05Amount C05.Model.
Import ListNotations.
Open Scope N_scope.

(* ------------------------------------------------------------------------------------------------ basics *)
Lemma bs_eqb_refl (a : bs) : bs_eqb a a = true.
Proof. induction a as [|x r IH]; cbn; [reflexivity|]. now rewrite N.eqb_refl, IH. Qed.

Lemma bs_eqb_eq (a b : bs) : bs_eqb a b = true <-> a = b.
Proof.
  split; [|intros ->; apply bs_eqb_refl].
  revert b; induction a as [|x r IH]; intros [|y s]; cbn; try discriminate; [reflexivity|].
  rewrite andb_true_iff, N.eqb_eq. intros [-> H]. f_equal. now apply IH.
Qed.

Lemma is_nil_true {A} (l : list A) : is_nil l = true <-> l = [].
Proof. destruct l; cbn; split; congruence. Qed.
Lemma is_nil_false {A} (l : list A) : is_nil l = false <-> l <> [].
Proof. destruct l; cbn; split; congruence. Qed.

Definition all_some (row : cells) : Prop := Forall (fun c => c <> None) row.

(* the stripped text of a cell; '' when the cell is missing or is an unmatched group *)
Definition cell (row : cells) (i : nat) : bs :=
  match nth_error row i with Some (Some s) => strip s | _ => [] end.
Definition caps_of (row : cells) (l : list (bs * nat)) : list (bs * bs) :=
  map (fun nc => (fst nc, cell row (snd nc))) l.

(* ---- inversion: what a successful read returned *)
Lemma get_inl row i s : get row i = inl s -> s = cell row i /\ (i < length row)%nat.
Proof.
  unfold get, cell. destruct (nth_error row i) as [[x|]|] eqn:E; try discriminate.
  intros [= <-]. split; [reflexivity|]. apply nth_error_Some. congruence.
Qed.
Lemma get_or_empty_inl row i s : get_or_empty row i = inl s -> s = cell row i.
Proof. unfold get_or_empty, cell. destruct (nth_error row i) as [[x|]|]; try discriminate; now intros [= <-]. Qed.
Lemma captures_inl row l cs : captures row l = inl cs -> cs = caps_of row l.
Proof.
  revert cs; induction l as [|[n c] r IH]; cbn; intros cs.
  - now intros [= <-].
  - destruct (get_or_empty row c) as [v|] eqn:E; cbn; [|discriminate].
    destruct (captures row r) as [vs|] eqn:E2; cbn; [|discriminate].
    intros [= <-]. apply get_or_empty_inl in E. now rewrite (IH vs eq_refl), E.
Qed.

(* ---- a failed read never yields a transaction *)
Definition not_txn (r : res) : Prop := match r with Txn _ => False | _ => True end.
Lemma get_inr row i r : get row i = inr r -> not_txn r.
Proof. unfold get. destruct (nth_error row i) as [[x|]|]; intros [= <-]; exact I. Qed.
Lemma get_or_empty_inr row i r : get_or_empty row i = inr r -> not_txn r.
Proof. unfold get_or_empty. destruct (nth_error row i) as [[x|]|]; intros [= <-]; exact I. Qed.
Lemma captures_inr row l r : captures row l = inr r -> not_txn r.
Proof.
  induction l as [|[n c] rest IH]; cbn; [discriminate|].
  destruct (get_or_empty row c) as [v|r'] eqn:E; cbn.
  - destruct (captures row rest) as [vs|r'']; cbn; [discriminate|]. intros [= <-]. now apply IH.
  - intros [= <-]. now apply get_or_empty_inr in E.
Qed.
Lemma fill_inr t cs r : fill t cs = inr r -> not_txn r.
Proof.
  induction t as [|[s|n] rest IH]; cbn; [discriminate| |].
  - destruct (fill rest cs) as [x|r']; cbn; [discriminate|]. intros [= <-]. now apply IH.
  - destruct (assoc n cs); [|intros [= <-]; exact I].
    destruct (fill rest cs) as [x|r']; cbn; [discriminate|]. intros [= <-]. now apply IH.
Qed.
Lemma desc_and_caps_inr sp row r : desc_and_caps sp row = inr r -> not_txn r.
Proof.
  unfold desc_and_caps. destruct (desc sp) as [c ex|caps t].
  - destruct (get row c) as [d|r'] eqn:E; cbn; [|intros [= <-]; now apply get_inr in E].
    destruct (captures row ex) as [x|r'] eqn:E2; cbn; [discriminate|]. intros [= <-]. now apply captures_inr in E2.
  - destruct (captures row caps) as [x|r'] eqn:E2; cbn; [|intros [= <-]; now apply captures_inr in E2].
    destruct (fill t x) as [d|r'] eqn:E3; cbn; [discriminate|]. intros [= <-]. now apply fill_inr in E3.
Qed.

(* ---- totality: a row whose cells are all present never crashes *)
Lemma get_total row i : all_some row -> (i < length row)%nat -> get row i = inl (cell row i).
Proof.
  intros Hs Hi. unfold get, cell. destruct (nth_error row i) as [[x|]|] eqn:E; [reflexivity| |].
  - exfalso. apply nth_error_In in E. unfold all_some in Hs. rewrite Forall_forall in Hs. now apply (Hs None).
  - apply nth_error_None in E. lia.
Qed.
Lemma get_or_empty_total row i : all_some row -> get_or_empty row i = inl (cell row i).
Proof.
  intros Hs. unfold get_or_empty, cell. destruct (nth_error row i) as [[x|]|] eqn:E; try reflexivity.
  exfalso. apply nth_error_In in E. unfold all_some in Hs. rewrite Forall_forall in Hs. now apply (Hs None).
Qed.
Lemma captures_total row l : all_some row -> captures row l = inl (caps_of row l).
Proof.
  intros Hs. induction l as [|[n c] r IH]; cbn; [reflexivity|].
  now rewrite (get_or_empty_total _ _ Hs), IH.
Qed.

(* templates refer to captured names only (what parse_format_string enforces) *)
Fixpoint refs (t : list piece) : list bs :=
  match t with [] => [] | Lit _ :: r => refs r | Ref n :: r => n :: refs r end.
Definition memb (k : bs) (l : list bs) : bool := existsb (bs_eqb k) l.
Definition spec_wfb (sp : spec) : bool :=
  match desc sp with
  | DescCol _ _ => true
  | Template caps t => forallb (fun n => memb n (map fst caps)) (refs t)
  end.

Lemma assoc_some k (l : list (bs * bs)) : memb k (map fst l) = true -> exists v, assoc k l = Some v.
Proof.
  induction l as [|[k' v] r IH]; cbn; [discriminate|].
  destruct (bs_eqb k k'); cbn; [now exists v|]. exact IH.
Qed.
Lemma fill_total t cs : forallb (fun n => memb n (map fst cs)) (refs t) = true -> exists d, fill t cs = inl d.
Proof.
  induction t as [|[s|n] r IH]; cbn; intros H.
  - now exists [].
  - destruct (IH H) as [d ->]. cbn. now eexists.
  - apply andb_true_iff in H as [H1 H2]. destruct (assoc_some _ _ H1) as [v ->].
    destruct (IH H2) as [d ->]. cbn. now eexists.
Qed.
Lemma caps_of_names row l : map fst (caps_of row l) = map fst l.
Proof. unfold caps_of. rewrite map_map. reflexivity. Qed.

(* ---- the column guard covers every column that is read *)
Lemma le_fold_max (l : list nat) c : In c l -> (c <= fold_right Nat.max O l)%nat.
Proof. induction l as [|x r IH]; cbn; [tauto|]. intros [->|H]; [lia|]. specialize (IH H). lia. Qed.
Lemma required_le_max sp c : In c (required_cols sp) -> (c <= max_col sp)%nat.
Proof. apply le_fold_max. Qed.
Lemma date_col_req sp : In (date_col sp) (required_cols sp).
Proof. unfold required_cols. cbn. tauto. Qed.
Lemma amount_col_req sp : In (amount_col sp) (required_cols sp).
Proof. unfold required_cols. cbn. tauto. Qed.
Lemma desc_col_req sp c ex : desc sp = DescCol c ex -> In c (required_cols sp).
Proof. intros H. unfold required_cols. rewrite H. cbn. tauto. Qed.
Lemma loc_col_req sp c : loc_col sp = Some c -> In c (required_cols sp).
Proof. intros H. unfold required_cols. rewrite H. cbn. right. right. apply in_or_app. right. cbn. tauto. Qed.

(* ---- float sign modes do not change zero-ness / finiteness *)
Lemma zero_fabs a : fl_is_zero (fabs a) = fl_is_zero a.
Proof. destruct a as [m e| |]; cbn; try reflexivity. destruct (Z.eqb_spec m 0), (Z.eqb_spec (Z.abs m) 0); try reflexivity; lia. Qed.
Lemma zero_fneg a : fl_is_zero (fneg a) = fl_is_zero a.
Proof. destruct a as [m e| |]; cbn; try reflexivity. destruct (Z.eqb_spec m 0), (Z.eqb_spec (- m) 0); try reflexivity; lia. Qed.
Lemma fin_fabs a : fl_is_fin (fabs a) = fl_is_fin a. Proof. now destruct a. Qed.
Lemma fin_fneg a : fl_is_fin (fneg a) = fl_is_fin a. Proof. now destruct a. Qed.
Lemma zero_mode sp a : fl_is_zero (apply_mode sp a) = fl_is_zero a.
Proof. unfold apply_mode. destruct (absolute sp); [apply zero_fabs|]. destruct (negate sp); [apply zero_fneg|reflexivity]. Qed.
Lemma fin_mode sp a : fl_is_fin (apply_mode sp a) = fl_is_fin a.
Proof. unfold apply_mode. destruct (absolute sp); [apply fin_fabs|]. destruct (negate sp); [apply fin_fneg|reflexivity]. Qed.

Lemma parse_amount_nil dec : parse_amount dec [] = None.
Proof. unfold parse_amount. cbn. destruct (bs_eqb dec european_separator); vm_compute; reflexivity. Qed.

Section Rows.
  Variable strptime : bs -> bs -> option bs.
  Notation row_to_txn := (row_to_txn strptime).
  Notation run_rows := (run_rows strptime).
  Notation parse := (parse strptime).

  (* ------------------------------------------------------------------------------------ the pure reading of a row *)
  Definition description_of (sp : spec) (row : cells) : M bs :=
    match desc sp with
    | DescCol c _ => inl (cell row c)
    | Template caps t => fill t (caps_of row caps)
    end.
  Definition fields_of (sp : spec) (row : cells) : list (bs * bs) :=
    match desc sp with DescCol _ ex => caps_of row ex | Template caps _ => caps_of row caps end.
  Definition loc_text (sp : spec) (row : cells) : bs :=
    match loc_col sp with Some c => cell row c | None => [] end.

  (* what row_to_txn computes once every read has succeeded *)
  Definition row_pure (v : variant) (sp : spec) (row : cells) (de : bs) : res :=
    let d0 := cell row (date_col sp) in
    let a0 := cell row (amount_col sp) in
    if is_nil d0 || is_nil de || is_nil a0 then Skip Blank else
    match strptime (date_fmt sp) (date_text sp d0) with
    | None => Skip BadDate
    | Some dt =>
      match parse_amount (dec_sep sp) a0 with
      | None => Skip BadAmount
      | Some am0 =>
        let am := apply_mode sp am0 in
        if reject_nonfinite v && negb (fl_is_fin am) then Skip NonFinite else
        if fl_is_zero am then Skip Zero else
        Txn {| t_date := dt; t_desc := de; t_amount := am; t_source := source_of sp;
               t_field := if is_nil (fields_of sp row) then None else Some (fields_of sp row);
               t_loc := if is_nil (loc_text sp row) then extract_location de else Some (loc_text sp row);
               t_credit := fl_is_neg am |}
      end
    end.

  Lemma desc_and_caps_inl sp row de cs :
    desc_and_caps sp row = inl (de, cs) -> description_of sp row = inl de /\ cs = fields_of sp row.
  Proof.
    unfold desc_and_caps, description_of, fields_of. destruct (desc sp) as [c ex|caps t].
    - destruct (get row c) as [d|] eqn:E; cbn; [|discriminate].
      destruct (captures row ex) as [x|] eqn:E2; cbn; [|discriminate].
      intros [= <- <-]. apply get_inl in E as [-> _]. apply captures_inl in E2. now subst.
    - destruct (captures row caps) as [x|] eqn:E2; cbn; [|discriminate].
      apply captures_inl in E2; subst x.
      destruct (fill t (caps_of row caps)) as [d|] eqn:E3; cbn; [|discriminate].
      now intros [= <- <-].
  Qed.

  (* inversion: an accepted row was read the pure way *)
  Lemma row_to_txn_Txn v sp row t :
    row_to_txn v sp row = Txn t ->
    (max_col sp < length row)%nat /\ exists de, description_of sp row = inl de /\ row_pure v sp row de = Txn t.
  Proof.
    unfold Model.row_to_txn. destruct (Nat.leb_spec (length row) (max_col sp)) as [|Hlen]; cbv iota; [discriminate|].
    intros H. split; [exact Hlen|].
    destruct (get row (date_col sp)) as [d0|r0] eqn:Ed; cbn in H; [|apply get_inr in Ed; now subst r0].
    destruct (get row (amount_col sp)) as [a0|r0] eqn:Ea; cbn in H; [|apply get_inr in Ea; now subst r0].
    destruct (desc_and_caps sp row) as [[de cs]|r0] eqn:Edc; cbn in H; [|apply desc_and_caps_inr in Edc; now subst r0].
    apply get_inl in Ed as [-> _]. apply get_inl in Ea as [-> _].
    apply desc_and_caps_inl in Edc as [Hde ->].
    exists de. split; [exact Hde|]. unfold row_pure.
    destruct (is_nil _ || is_nil de || is_nil _); [discriminate|].
    destruct (strptime _ _) as [dt|]; [|discriminate].
    destruct (parse_amount _ _) as [am0|]; [|discriminate].
    destruct (reject_nonfinite v && _); [discriminate|].
    destruct (fl_is_zero _); [discriminate|].
    unfold location_of in H. unfold loc_text.
    destruct (loc_col sp) as [c|] eqn:El.
    - destruct (get row c) as [lc|r0] eqn:Eg; cbn in H; [|apply get_inr in Eg; now subst r0]. apply get_inl in Eg as [-> _]. exact H.
    - cbn in H. exact H.
  Qed.

  (* totality: with every cell present and a well-formed template, the row is read the pure way *)
  Lemma row_to_txn_total v sp row :
    all_some row -> spec_wfb sp = true -> (max_col sp < length row)%nat ->
    exists de, description_of sp row = inl de /\ row_to_txn v sp row = row_pure v sp row de.
  Proof.
    intros Hs Hwf Hlen.
    assert (Hreq : forall c, In c (required_cols sp) -> get row c = inl (cell row c)).
    { intros c Hc. apply get_total; [exact Hs|]. apply required_le_max in Hc. lia. }
    assert (Hde : exists de, description_of sp row = inl de /\ desc_and_caps sp row = inl (de, fields_of sp row)).
    { unfold description_of, desc_and_caps, fields_of, spec_wfb in *. destruct (desc sp) as [c ex|caps t] eqn:Ed.
      - exists (cell row c). split; [reflexivity|].
        rewrite (Hreq c (desc_col_req _ _ _ Ed)), (captures_total _ _ Hs). reflexivity.
      - rewrite (captures_total _ _ Hs). cbn.
        destruct (fill_total t (caps_of row caps)) as [d Hd]; [now rewrite caps_of_names|].
        exists d. rewrite Hd. split; reflexivity. }
    destruct Hde as [de [Hde Hdc]]. exists de. split; [exact Hde|].
    unfold Model.row_to_txn. destruct (Nat.leb_spec (length row) (max_col sp)) as [|_]; cbv iota; [lia|].
    rewrite (Hreq _ (date_col_req sp)), (Hreq _ (amount_col_req sp)), Hdc. cbn.
    unfold row_pure.
    destruct (is_nil _ || is_nil de || is_nil _); [reflexivity|].
    destruct (strptime _ _) as [dt|]; [|reflexivity].
    destruct (parse_amount _ _) as [am0|]; [|reflexivity].
    destruct (reject_nonfinite v && _); [reflexivity|].
    destruct (fl_is_zero _); [reflexivity|].
    unfold location_of, loc_text. destruct (loc_col sp) as [c|] eqn:El.
    - rewrite (Hreq c (loc_col_req _ _ El)). reflexivity.
    - reflexivity.
  Qed.

  Lemma short_row_skipped v sp row : (length row <= max_col sp)%nat -> row_to_txn v sp row = Skip Short.
  Proof. intros H. unfold Model.row_to_txn. destruct (Nat.leb_spec (length row) (max_col sp)); [reflexivity|lia]. Qed.

  Lemma no_crash_row v sp row : all_some row -> spec_wfb sp = true -> row_to_txn v sp row <> Crash.
  Proof.
    intros Hs Hwf. destruct (Nat.leb_spec (length row) (max_col sp)) as [H|H].
    - rewrite (short_row_skipped _ _ _ H). discriminate.
    - destruct (row_to_txn_total v sp row Hs Hwf H) as [de [_ ->]]. unfold row_pure.
      destruct (_ || _ || _); [discriminate|]. destruct (strptime _ _); [|discriminate].
      destruct (parse_amount _ _); [|discriminate]. destruct (_ && _); [discriminate|].
      destruct (fl_is_zero _); discriminate.
  Qed.

  (* ------------------------------------------------------------------------------------ C05: rows are independent *)
  Definition accepted (v : variant) (sp : spec) (row : cells) : list txn :=
    match row_to_txn v sp row with Txn t => [t] | _ => [] end.

  Lemma accepted_at_most_one v sp row : (length (accepted v sp row) <= 1)%nat.
  Proof. unfold accepted. destruct (row_to_txn v sp row); cbn; lia. Qed.

  Lemma run_rows_flat v sp rows :
    (forall r, In r rows -> row_to_txn v sp r <> Crash) ->
    run_rows v sp rows = Rows (flat_map (accepted v sp) rows).
  Proof.
    induction rows as [|r rest IH]; intros H; cbn; [reflexivity|].
    assert (Hr := H r (or_introl eq_refl)).
    rewrite IH by (intros x Hx; apply H; now right).
    unfold accepted. destruct (row_to_txn v sp r); cbn; [reflexivity|reflexivity|congruence].
  Qed.

  Lemma run_rows_crash v sp rows :
    (exists r, In r rows /\ row_to_txn v sp r = Crash) -> run_rows v sp rows = Crashed.
  Proof.
    induction rows as [|r rest IH]; intros [x [Hin Hx]]; [destruct Hin|]. cbn.
    destruct Hin as [->|Hin]; [now rewrite Hx|].
    rewrite IH by (now exists x). destruct (row_to_txn v sp r); reflexivity.
  Qed.

  (* which inputs carry only present cells *)
  Definition input_total (inp : input) : Prop :=
    match inp with
    | CsvIn _ => True
    | RegexIn ls => forall ln g, In ln ls -> groups ln = Some g -> all_some g
    end.

  Lemma all_some_map_Some (r : list bs) : all_some (map Some r).
  Proof. unfold all_some. apply Forall_forall. intros c Hc. apply in_map_iff in Hc as [x [<- _]]. discriminate. Qed.
  Lemma norm_row_all_some v g : none_as_blank v = true -> all_some (norm_row v g).
  Proof.
    intros H. unfold norm_row. rewrite H. unfold all_some. apply Forall_forall. intros c Hc.
    apply in_map_iff in Hc as [[x|] [<- _]]; discriminate.
  Qed.
  Lemma norm_row_id v g : all_some g -> norm_row v g = g.
  Proof.
    intros H. unfold norm_row. destruct (none_as_blank v); [|reflexivity].
    induction g as [|[x|] r IH]; cbn; [reflexivity| |].
    - f_equal. apply IH. now inversion H.
    - inversion H; congruence.
  Qed.

  Lemma In_tl {A} (x : A) l : In x (tl l) -> In x l.
  Proof. destruct l; cbn; tauto. Qed.

  Lemma iter_rows_all_some v hdr inp :
    none_as_blank v = true \/ input_total inp -> forall r, In r (iter_rows v hdr inp) -> all_some r.
  Proof.
    intros Hv r Hr. destruct inp as [recs|ls]; cbn in Hr.
    - apply in_map_iff in Hr as [x [<- _]]. apply all_some_map_Some.
    - apply in_flat_map in Hr as [ln [Hln Hr]].
      destruct (is_nil (strip (raw ln))); [destruct Hr|].
      destruct (groups ln) as [g|] eqn:Eg; [|destruct Hr]. destruct Hr as [<-|[]].
      destruct Hv as [Hv|Hv]; [now apply norm_row_all_some|].
      assert (Hin : In ln ls) by (destruct hdr; [now apply In_tl|assumption]).
      cbn in Hv. rewrite norm_row_id; now apply (Hv ln g).
  Qed.

  Lemma rows_independent v sp inp :
    spec_wfb sp = true -> none_as_blank v = true \/ input_total inp ->
    parse v sp inp = Rows (flat_map (accepted v sp) (iter_rows v (has_header sp) inp)).
  Proof.
    intros Hwf Hv. unfold Model.parse. apply run_rows_flat. intros r Hr.
    apply no_crash_row; [|exact Hwf]. now apply (iter_rows_all_some v (has_header sp) inp).
  Qed.

  (* concatenation; a skipped row leaves the others as they are *)
  Lemma run_rows_app v sp a b :
    run_rows v sp (a ++ b) =
    match run_rows v sp a, run_rows v sp b with Rows x, Rows y => Rows (x ++ y) | _, _ => Crashed end.
  Proof.
    induction a as [|r rest IH]; cbn.
    - destruct (run_rows v sp b); reflexivity.
    - destruct (row_to_txn v sp r); [|exact IH|reflexivity].
      rewrite IH. destruct (run_rows v sp rest), (run_rows v sp b); reflexivity.
  Qed.

  Lemma malformed_row_skipped v sp a bad b w :
    row_to_txn v sp bad = Skip w -> run_rows v sp (a ++ bad :: b) = run_rows v sp (a ++ b).
  Proof.
    intros H. rewrite !run_rows_app. cbn. now rewrite H.
  Qed.

  Lemma csv_file_split v sp (hdr : list (list bs)) a bad b w :
    spec_wfb sp = true -> length hdr = (if has_header sp then 1 else 0)%nat ->
    row_to_txn v sp (map Some bad) = Skip w ->
    parse v sp (CsvIn (hdr ++ a ++ bad :: b)) = parse v sp (CsvIn (hdr ++ a ++ b)) /\
    parse v sp (CsvIn (hdr ++ a ++ b)) =
      Rows (flat_map (accepted v sp) (map (map Some) a) ++ flat_map (accepted v sp) (map (map Some) b)).
  Proof.
    intros Hwf Hh Hbad.
    assert (Hit : forall rest, iter_rows v (has_header sp) (CsvIn (hdr ++ rest)) = map (map Some) rest).
    { intros rest. cbn. destruct (has_header sp); destruct hdr as [|h [|h2 hs]]; cbn in Hh; try discriminate; reflexivity. }
    split.
    - unfold Model.parse. rewrite !Hit, !map_app. cbn. now apply malformed_row_skipped with (w := w).
    - rewrite rows_independent by (auto; right; exact I). rewrite Hit, map_app, flat_map_app. reflexivity.
  Qed.

  (* ------------------------------------------------------------------------------------ C05: accepted <-> well-formed *)
  Definition enough_columns (sp : spec) (row : cells) : Prop := (max_col sp < length row)%nat.
  Definition date_parses (sp : spec) (row : cells) : Prop :=
    cell row (date_col sp) <> [] /\ strptime (date_fmt sp) (date_text sp (cell row (date_col sp))) <> None.
  Definition description_present (sp : spec) (row : cells) : Prop :=
    exists de, description_of sp row = inl de /\ de <> [].
  (* the amount cell denotes a number a; [fin] says whether it has to be finite *)
  Definition amount_nonzero (fin : bool) (sp : spec) (row : cells) : Prop :=
    exists a, parse_amount (dec_sep sp) (cell row (amount_col sp)) = Some a /\ fl_is_zero a = false
              /\ (fin = true -> fl_is_fin a = true).
  Definition wellformed (fin : bool) (sp : spec) (row : cells) : Prop :=
    enough_columns sp row /\ date_parses sp row /\ description_present sp row /\ amount_nonzero fin sp row.

  Lemma pure_Txn_iff v sp row de :
    (exists t, row_pure v sp row de = Txn t) <->
    (de <> [] /\ date_parses sp row /\ amount_nonzero (reject_nonfinite v) sp row).
  Proof.
    unfold row_pure, date_parses, amount_nonzero. split.
    - intros [t H].
      destruct (is_nil (cell row (date_col sp))) eqn:E1; [discriminate|].
      destruct (is_nil de) eqn:E2; [discriminate|].
      destruct (is_nil (cell row (amount_col sp))) eqn:E3; [discriminate|]. cbn in H.
      destruct (strptime _ _) as [dt|] eqn:E4; [|discriminate].
      destruct (parse_amount _ _) as [am0|] eqn:E5; [|discriminate].
      destruct (reject_nonfinite v && _) eqn:E6; [discriminate|].
      destruct (fl_is_zero _) eqn:E7; [discriminate|].
      rewrite zero_mode in E7. rewrite fin_mode in E6.
      apply is_nil_false in E1, E2. repeat split; try assumption; try congruence.
      exists am0. repeat split; try assumption. intros Hv. rewrite Hv in E6. cbn in E6. now destruct (fl_is_fin am0).
    - intros [Hde [[Hd Hs] [a [Ha [Hz Hf]]]]].
      apply is_nil_false in Hde, Hd. rewrite Hde, Hd.
      destruct (is_nil (cell row (amount_col sp))) eqn:E3.
      { apply is_nil_true in E3. rewrite E3, parse_amount_nil in Ha. discriminate. }
      cbn. destruct (strptime _ _) as [dt|]; [|congruence]. rewrite Ha.
      rewrite zero_mode, fin_mode, Hz.
      destruct (reject_nonfinite v) eqn:Ev; cbn; [rewrite (Hf eq_refl); cbn|]; eexists; reflexivity.
  Qed.

  Lemma accept_iff v sp row :
    spec_wfb sp = true -> all_some row ->
    ((exists t, row_to_txn v sp row = Txn t) <-> wellformed (reject_nonfinite v) sp row).
  Proof.
    intros Hwf Hs. unfold wellformed, enough_columns, description_present. split.
    - intros [t H]. apply row_to_txn_Txn in H as [Hlen [de [Hde Hp]]].
      assert (Hex : exists t, row_pure v sp row de = Txn t) by (now exists t).
      apply pure_Txn_iff in Hex as [Hne [Hd Ha]].
      split; [exact Hlen|]. split; [exact Hd|]. split; [now exists de|exact Ha].
    - intros [Hlen [Hd [[de [Hde Hne]] Ha]]].
      destruct (row_to_txn_total v sp row Hs Hwf Hlen) as [de' [Hde' ->]].
      rewrite Hde in Hde'. injection Hde' as <-. apply pure_Txn_iff. tauto.
  Qed.

  (* ------------------------------------------------------------------------------------ C05: fields are the row's *)
  Lemma fields_faithful v sp row t :
    row_to_txn v sp row = Txn t ->
    exists de am0,
      description_of sp row = inl de /\
      parse_amount (dec_sep sp) (cell row (amount_col sp)) = Some am0 /\
      strptime (date_fmt sp) (date_text sp (cell row (date_col sp))) = Some (t_date t) /\
      t_desc t = de /\
      t_amount t = apply_mode sp am0 /\
      t_source t = source_of sp /\
      t_field t = (if is_nil (fields_of sp row) then None else Some (fields_of sp row)) /\
      t_loc t = (if is_nil (loc_text sp row) then extract_location de else Some (loc_text sp row)) /\
      t_credit t = fl_is_neg (t_amount t).
  Proof.
    intros H. apply row_to_txn_Txn in H as [_ [de [Hde Hp]]]. unfold row_pure in Hp.
    destruct (_ || _ || _); [discriminate|].
    destruct (strptime _ _) as [dt|] eqn:E4; [|discriminate].
    destruct (parse_amount _ _) as [am0|] eqn:E5; [|discriminate].
    destruct (_ && _); [discriminate|]. destruct (fl_is_zero _); [discriminate|].
    injection Hp as <-. exists de, am0. cbn. repeat split; try assumption; reflexivity.
  Qed.

  (* in {description} mode the description is the cell's text without surrounding blanks *)
  Lemma description_mode1 sp row c ex : desc sp = DescCol c ex -> description_of sp row = inl (cell row c).
  Proof. intros H. unfold description_of. now rewrite H. Qed.
  Lemma description_mode2 sp row caps t :
    desc sp = Template caps t -> description_of sp row = fill t (caps_of row caps).
  Proof. intros H. unfold description_of. now rewrite H. Qed.

  (* ------------------------------------------------------------------------------------ C05: sign modes *)
  Definition with_mode (sp : spec) (ng ab : bool) : spec :=
    {| date_col := date_col sp; date_fmt := date_fmt sp; amount_col := amount_col sp; desc := desc sp;
       loc_col := loc_col sp; has_header := has_header sp; negate := ng; absolute := ab;
       spec_source := spec_source sp; source_name := source_name sp; dec_sep := dec_sep sp |}.
  Definition mode_fn (ng ab : bool) (a : fl) : fl := if ab then fabs a else if ng then fneg a else a.
  Definition retag (f : fl -> fl) (t : txn) : txn :=
    {| t_date := t_date t; t_desc := t_desc t; t_amount := f (t_amount t); t_source := t_source t;
       t_field := t_field t; t_loc := t_loc t; t_credit := fl_is_neg (f (t_amount t)) |}.
  Definition map_res (f : fl -> fl) (r : res) : res := match r with Txn t => Txn (retag f t) | x => x end.

  Lemma zero_mode_fn ng ab a : fl_is_zero (mode_fn ng ab a) = fl_is_zero a.
  Proof. unfold mode_fn. destruct ab; [apply zero_fabs|]. destruct ng; [apply zero_fneg|reflexivity]. Qed.
  Lemma fin_mode_fn ng ab a : fl_is_fin (mode_fn ng ab a) = fl_is_fin a.
  Proof. unfold mode_fn. destruct ab; [apply fin_fabs|]. destruct ng; [apply fin_fneg|reflexivity]. Qed.

  Lemma sign_modes v sp row ng ab :
    row_to_txn v (with_mode sp ng ab) row = map_res (mode_fn ng ab) (row_to_txn v (with_mode sp false false) row).
  Proof.
    unfold Model.row_to_txn.
    change (max_col (with_mode sp ng ab)) with (max_col (with_mode sp false false)).
    destruct (Nat.leb (length row) (max_col (with_mode sp false false))); [reflexivity|].
    change (date_col (with_mode sp ng ab)) with (date_col sp). change (date_col (with_mode sp false false)) with (date_col sp).
    change (amount_col (with_mode sp ng ab)) with (amount_col sp). change (amount_col (with_mode sp false false)) with (amount_col sp).
    destruct (get row (date_col sp)) as [d0|r0] eqn:E0; cbn; [|apply get_inr in E0; destruct r0; [contradiction|reflexivity|reflexivity]].
    destruct (get row (amount_col sp)) as [a0|r0] eqn:E1; cbn; [|apply get_inr in E1; destruct r0; [contradiction|reflexivity|reflexivity]].
    change (desc_and_caps (with_mode sp ng ab) row) with (desc_and_caps sp row).
    change (desc_and_caps (with_mode sp false false) row) with (desc_and_caps sp row).
    destruct (desc_and_caps sp row) as [[de cs]|r0] eqn:E2; cbn; [|apply desc_and_caps_inr in E2; destruct r0; [contradiction|reflexivity|reflexivity]].
    destruct (is_nil d0 || is_nil de || is_nil a0); [reflexivity|].
    change (date_text (with_mode sp ng ab) d0) with (date_text sp d0).
    change (date_text (with_mode sp false false) d0) with (date_text sp d0).
    destruct (strptime (date_fmt sp) (date_text sp d0)) as [dt|]; [|reflexivity].
    destruct (parse_amount (dec_sep sp) a0) as [am0|]; [|reflexivity].
    change (apply_mode (with_mode sp ng ab) am0) with (mode_fn ng ab am0).
    change (apply_mode (with_mode sp false false) am0) with am0.
    rewrite fin_mode_fn, zero_mode_fn.
    destruct (reject_nonfinite v && negb (fl_is_fin am0)); [reflexivity|].
    destruct (fl_is_zero am0); [reflexivity|].
    change (location_of (with_mode sp ng ab) row de) with (location_of sp row de).
    change (location_of (with_mode sp false false) row de) with (location_of sp row de).
    destruct (location_of sp row de) as [lc|r0] eqn:E3; cbn; [reflexivity|].
    unfold location_of in E3. destruct (loc_col sp) as [c|]; cbn in E3; [|discriminate].
    destruct (get row c) as [x|r1] eqn:E4; cbn in E3; [discriminate|]. injection E3 as <-.
    apply get_inr in E4. destruct r1; [contradiction|reflexivity|reflexivity].
  Qed.
End Rows.
