(* Expr/Syntax.v — the expression AST (mirrors CPython's `ast` node classes for mode='eval'),
   run-time values, outcomes, environments and the whitelist validation of
   tally/expr_parser.py (ALLOWED_NODES / validate_ast).  Shared by C03, C04, C08. *)
From Coq Require Import String Ascii List Bool ZArith QArith.
From Tally Require Import Lib.Str.
Import ListNotations.
Open Scope string_scope.

(* ---------- AST ---------- *)
Inductive boolop := And | Or.
Inductive binop := Add | Sub | Mult | Div | Mod | BinOther (kind : string).   (* Pow FloorDiv MatMult BitOr ... *)
Inductive unop := Not | USub | UnOther (kind : string).                       (* UAdd Invert *)
Inductive cmpop := Eq | NotEq | Lt | LtE | Gt | GtE | In | NotIn | CmpOther (kind : string).  (* Is IsNot *)
Inductive compkind := ListComp | GeneratorExp | SetComp.

Inductive const :=
| CNone | CBool (b : bool) | CInt (z : Z) | CFloat (q : Q) | CStr (s : string)
| COther (kind : string).       (* bytes, complex, Ellipsis, non-finite float literal: not modelled as values *)

Inductive pyast :=
| EConst (c : const)
| EName (id : string)
| EBoolOp (op : boolop) (vals : list pyast)
| EBinOp (l : pyast) (op : binop) (r : pyast)
| EUnaryOp (op : unop) (e : pyast)
| ECompare (l : pyast) (rest : list (cmpop * pyast))
| EIfExp (test body orelse : pyast)
| ECall (func : pyast) (args : list pyast) (keywords : list pyast)
| EAttribute (v : pyast) (attr : string)
| ESubscript (v : pyast) (slice : pyast)
| EComp (k : compkind) (elt : pyast) (gens : list (pyast * pyast * list pyast))  (* (target, iter, ifs) *)
| ENamedExpr (target : pyast) (value : pyast)
| EList (elts : list pyast) | ETuple (elts : list pyast) | ESet (elts : list pyast)
| EOther (kind : string) (children : list pyast).   (* Lambda Dict DictComp JoinedStr Starred Slice Await Yield ... *)

Definition comp := (pyast * pyast * list pyast)%type.

(* ---------- values ---------- *)
Inductive value :=
| VNone
| VBool (b : bool)
| VInt (z : Z)
| VFloat (q : Q)            (* exact value of a binary64; evaluation flags results that are not binary64 *)
| VStr (s : string)
| VDate (ord : Z)           (* datetime.date, proleptic Gregorian ordinal *)
| VTd (days : Z)            (* datetime.timedelta of whole days (date - date) *)
| VList (l : list value)
| VDict (d : list (string * value))     (* a supplemental row / the custom-field dict: string keys *)
| VGen.                     (* a generator object (opaque: consumed only where it is created) *)

Inductive pyerr :=
| TypeError | AttributeError | ValueError | KeyError | IndexError | StopIteration
| ZeroDivisionError | OverflowError | RuntimeError | ReError | OtherError.

Inductive outcome :=
| Val (v : value)
| ExprErr                   (* tally's ExpressionError (incl. UnsafeNodeError) *)
| PyErr (k : pyerr)         (* another Python exception *)
| Unmodelled (reason : string).

Definition scope := list (string * value).

(* ---------- environment ---------- *)
Inductive re_result :=
| ReBad                                   (* re.error *)
| ReNoMatch
| ReMatch (ngroups : nat) (g1 : option string).   (* match.groups() length, match.group(1) (None = did not participate) *)

Record txn := {
  t_description : string;
  t_amount : value;
  t_date : option Z;                      (* None: no date *)
  t_field : option (list (string * value));   (* None: no custom captures *)
  t_source : string;                      (* source or "" *)
  t_location : string }.

Record env := {
  e_txn : txn;
  e_vars : list (string * value);         (* user variables: keys as given *)
  e_ds : list (string * value);           (* data sources: name -> VList of VDict rows *)
  (* oracles (CPython libraries, outside the model): None = not supplied for this query *)
  re_search : string -> string -> option re_result;          (* re.search(pattern, text, IGNORECASE) *)
  re_sub : string -> string -> string -> option (option string);  (* re.sub(pattern, repl, text, IGNORECASE); Some None = re.error *)
  fuzzy_ratio : string -> string -> option Q }.              (* SequenceMatcher(None, a, b).ratio() *)

(* ---------- node kinds, whitelist ---------- *)
Definition boolop_kind (o : boolop) := match o with And => "And" | Or => "Or" end.
Definition binop_kind (o : binop) :=
  match o with Add => "Add" | Sub => "Sub" | Mult => "Mult" | Div => "Div" | Mod => "Mod" | BinOther k => k end.
Definition unop_kind (o : unop) := match o with Not => "Not" | USub => "USub" | UnOther k => k end.
Definition cmpop_kind (o : cmpop) :=
  match o with Eq => "Eq" | NotEq => "NotEq" | Lt => "Lt" | LtE => "LtE" | Gt => "Gt" | GtE => "GtE"
             | In => "In" | NotIn => "NotIn" | CmpOther k => k end.
Definition compkind_kind (k : compkind) :=
  match k with ListComp => "ListComp" | GeneratorExp => "GeneratorExp" | SetComp => "SetComp" end.

Definition node_kind (e : pyast) : string :=
  match e with
  | EConst _ => "Constant" | EName _ => "Name" | EBoolOp _ _ => "BoolOp" | EBinOp _ _ _ => "BinOp"
  | EUnaryOp _ _ => "UnaryOp" | ECompare _ _ => "Compare" | EIfExp _ _ _ => "IfExp" | ECall _ _ _ => "Call"
  | EAttribute _ _ => "Attribute" | ESubscript _ _ => "Subscript" | EComp k _ _ => compkind_kind k
  | ENamedExpr _ _ => "NamedExpr" | EList _ => "List" | ETuple _ => "Tuple" | ESet _ => "Set" | EOther k _ => k
  end.

(* ALLOWED_NODES of expr_parser.py (C03 proves this list equal to the one regenerated from the source) *)
Definition allowed_nodes : list string :=
  ["Expression"; "BoolOp"; "BinOp"; "UnaryOp"; "Compare"; "Call"; "IfExp";
   "And"; "Or"; "Not"; "Add"; "Sub"; "Mult"; "Div"; "Mod"; "USub";
   "Eq"; "NotEq"; "Lt"; "LtE"; "Gt"; "GtE"; "In"; "NotIn";
   "Constant"; "Name"; "Load"; "Store"; "Attribute";
   "ListComp"; "comprehension"; "GeneratorExp"; "Subscript"; "Index"; "NamedExpr"].

Section Validate.
  Variable allowed : list string.
  Definition ok (k : string) : bool := mem k allowed.
  Definition all_ok (f : pyast -> bool) := fix go (l : list pyast) : bool :=
    match l with [] => true | x :: r => f x && go r end.
  (* validate_ast: every node class met by ast.iter_child_nodes is allowed.  Expression contexts
     (Load/Store) occur under Name/Attribute/Subscript/List/Tuple; `keyword` under Call. *)
  Fixpoint validate (e : pyast) : bool :=
    ok (node_kind e) &&
    match e with
    | EConst _ => true
    | EName _ => ok "Load"
    | EBoolOp op vals => ok (boolop_kind op) && all_ok validate vals
    | EBinOp l op r => validate l && ok (binop_kind op) && validate r
    | EUnaryOp op x => ok (unop_kind op) && validate x
    | ECompare l rest =>
        validate l &&
        (fix go (r : list (cmpop * pyast)) : bool :=
           match r with [] => true | (o, x) :: r' => ok (cmpop_kind o) && validate x && go r' end) rest
    | EIfExp a b c => validate a && validate b && validate c
    | ECall f args kws =>
        validate f && all_ok validate args && (match kws with [] => true | _ => ok "keyword" && all_ok validate kws end)
    | EAttribute v _ => validate v && ok "Load"
    | ESubscript v s => validate v && validate s && ok "Load"
    | EComp _ elt gens =>
        validate elt &&
        (fix go (g : list comp) : bool :=
           match g with
           | [] => true
           | (t, it, ifs) :: g' => ok "comprehension" && (match t with EName _ => ok "Name" && ok "Store" | _ => validate t end) && validate it && all_ok validate ifs && go g'
           end) gens
    | ENamedExpr t v => (match t with EName _ => ok "Name" && ok "Store" | _ => validate t end) && validate v
    | EList l | ETuple l | ESet l => all_ok validate l
    | EOther _ ch => all_ok validate ch
    end.
End Validate.

(* what CPython's parser hands back for an expression string *)
Inductive parsed := PSyntaxError | PTree (e : pyast) | PRaises (k : pyerr).   (* e.g. ValueError: null byte *)
