(* Expr/Eval.v — hand model of tally.expr_parser.TransactionEvaluator (evaluate_transaction).
   `eval E e sc` evaluates AST `e` in environment `E` with the evaluator's mutable scope `sc`
   (loop variables and := bindings) threaded as state; it is defined by structural recursion on `e`
   (the per-node helpers below take the recursive call as parameter `ev`, List.map style).
   Every node goes through TransactionEvaluator.evaluate, which since /repo 58dcdc1 turns any
   non-ExpressionError exception raised while evaluating that node into ExpressionError: [wrap]. *)
From Coq Require Import String Ascii List Bool ZArith QArith.
From Tally Require Import Lib.Str Expr.StrOps Expr.Date Expr.Syntax Expr.Funcs.
Import ListNotations.
Open Scope string_scope.

Definition res := (outcome * scope)%type.
Definition wrap (o : outcome) : outcome := match o with PyErr _ => ExprErr | _ => o end.

(* ---------- the scope dict ---------- *)
Fixpoint sget (sc : scope) (k : string) : option value :=
  match sc with [] => None | (k', v) :: r => if String.eqb k k' then Some v else sget r k end.
Fixpoint sset (sc : scope) (k : string) (v : value) : scope :=
  match sc with
  | [] => [(k, v)]
  | (k', v') :: r => if String.eqb k k' then (k', v) :: r else (k', v') :: sset r k v
  end.
Fixpoint sdel (sc : scope) (k : string) : scope :=
  match sc with [] => [] | (k', v') :: r => if String.eqb k k' then r else (k', v') :: sdel r k end.
(* "old_value = scope.get(var) ... if old_value is None: pop else: restore" *)
Definition restore (var : string) (old : option value) (sc : scope) : scope :=
  match old with
  | None | Some VNone => sdel sc var
  | Some v => sset sc var v
  end.

Definition const_outcome (c : const) : outcome :=
  match c with
  | CNone => Val VNone
  | CBool b => Val (VBool b)
  | CInt z => Val (VInt z)
  | CFloat q => Val (VFloat (Qred q))
  | CStr s => Val (VStr s)
  | COther k => Unmodelled ("constant-" ++ k)
  end.

Section Eval.
  Variable E : env.
  Let T := e_txn E.

  Definition date_value : value := match t_date T with Some n => VDate n | None => VNone end.
  Definition date_part (f : Z -> Z) : value := match t_date T with Some n => VInt (f n) | None => VInt 0 end.

  (* _eval_Name, name already lower-cased: scope, user variables, primitives, data sources *)
  Definition lookup_name (name : string) (sc : scope) : outcome :=
    match sget sc name with
    | Some v => Val v
    | None =>
        match sget (e_vars E) name with
        | Some v => Val v
        | None =>
            if String.eqb name "description" then Val (VStr (t_description T))
            else if String.eqb name "amount" then Val (t_amount T)
            else if String.eqb name "date" then Val date_value
            else if String.eqb name "month" then Val (date_part month_of)
            else if String.eqb name "year" then Val (date_part year_of)
            else if String.eqb name "day" then Val (date_part day_of)
            else if String.eqb name "weekday" then Val (date_part weekday_of)
            else if String.eqb name "source" then Val (VStr (t_source T))
            else if String.eqb name "true" then Val (VBool true)
            else if String.eqb name "false" then Val (VBool false)
            else match sget (e_ds E) name with Some v => Val v | None => ExprErr end
        end
    end.

  Definition txn_attr (a : string) : outcome :=
    if String.eqb a "description" then Val (VStr (t_description T))
    else if String.eqb a "amount" then Val (t_amount T)
    else if String.eqb a "date" then Val date_value
    else if String.eqb a "source" then Val (VStr (t_source T))
    else if String.eqb a "location" then Val (VStr (t_location T))
    else if String.eqb a "month" then Val (date_part month_of)
    else if String.eqb a "year" then Val (date_part year_of)
    else if String.eqb a "day" then Val (date_part day_of)
    else if String.eqb a "weekday" then Val (date_part weekday_of)
    else ExprErr.

  Definition field_attr (a : string) : outcome :=
    if String.eqb a "description" then Val (VStr (t_description T))
    else if String.eqb a "amount" then Val (t_amount T)
    else if String.eqb a "date" then Val date_value
    else if String.eqb a "source" then Val (VStr (t_source T))
    else if String.eqb a "location" then Val (VStr (t_location T))
    else match t_field T with
         | Some d => match dict_get d a with Some v => Val v | None => ExprErr end
         | None => ExprErr
         end.

  (* exists(): "bool(arg_value and str(arg_value).strip())" *)
  Definition exists_test (v : value) : bool :=
    truthy v && match v with VStr s => negb (String.eqb (strip s) "") | _ => true end.

  (* ---------- per-node semantics, open in the recursive call ---------- *)
  Section Open.
    Variable ev : pyast -> scope -> res.

    (* arguments left to right; stops at the first failure *)
    Definition eval_list := fix go (l : list pyast) (sc : scope) : (list value + outcome) * scope :=
      match l with
      | [] => (inl [], sc)
      | x :: r =>
          match ev x sc with
          | (Val v, sc1) => match go r sc1 with (inl vs, sc2) => (inl (v :: vs), sc2) | bad => bad end
          | (o, sc1) => (inr o, sc1)
          end
      end.

    (* and: False at the first falsy operand, else True; or: True at the first truthy, else False *)
    Definition eval_boolop (op : boolop) := fix go (l : list pyast) (sc : scope) : res :=
      match l with
      | [] => (Val (VBool (match op with And => true | Or => false end)), sc)
      | x :: r =>
          match ev x sc with
          | (Val v, sc1) =>
              match op with
              | And => if truthy v then go r sc1 else (Val (VBool false), sc1)
              | Or => if truthy v then (Val (VBool true), sc1) else go r sc1
              end
          | bad => bad
          end
      end.

    (* one link: date-coerce the two operands for this link only, then compare *)
    Definition compare_link (op : cmpop) (lv rv : value) : outcome :=
      match coerce_dates lv rv with
      | (Val l', Val r') => cmp_apply op l' r'
      | (Val _, o) => o
      | (o, _) => o
      end.

    (* the next link compares against the right operand as written (not its date-parsed form) *)
    Definition eval_compare := fix go (rest : list (cmpop * pyast)) (lv : value) (sc : scope) : res :=
      match rest with
      | [] => (Val (VBool true), sc)
      | (op, c) :: more =>
          match ev c sc with
          | (Val rv, sc1) =>
              match compare_link op lv rv with
              | Val v => if truthy v then go more rv sc1 else (Val (VBool false), sc1)
              | o => (o, sc1)
              end
          | bad => bad
          end
      end.

    (* all(self.evaluate(c) for c in comp.ifs) *)
    Definition eval_ifs := fix go (ifs : list pyast) (sc : scope) : (bool + outcome) * scope :=
      match ifs with
      | [] => (inl true, sc)
      | c :: r =>
          match ev c sc with
          | (Val v, sc1) => if truthy v then go r sc1 else (inl false, sc1)
          | (o, sc1) => (inr o, sc1)
          end
      end.

    (* _eval_comprehension_loop / _generator_helper with the consumer `step` run at the yield point.
       SCont: all loops ran to completion (scope restored); SStop: the consumer stopped pulling —
       the generator stays suspended and nothing is restored; SFail: an exception left the loops,
       nothing is restored either. *)
    Definition run_loop {A} (elt : pyast) (step : A -> value -> sres A) :=
      fix loop (gens : list comp) (acc : A) (sc : scope) : sres A * scope :=
        match gens with
        | [] =>
            match ev elt sc with
            | (Val v, sc1) => (step acc v, sc1)
            | (o, sc1) => (SFail o, sc1)
            end
        | (tgt, iter, ifs) :: rest =>
            match ev iter sc with
            | (Val itv, sc1) =>
                match tgt with
                | EName id =>
                    let var := lower id in
                    match iter_items itv with
                    | ItNot => (SFail (PyErr TypeError), sc1)
                    | ItGen => (SFail (Unmodelled "iterate-stored-generator"), sc1)
                    | ItItems items =>
                        (fix each (items : list value) (acc : A) (sc : scope) : sres A * scope :=
                           match items with
                           | [] => (SCont acc, sc)
                           | it :: more =>
                               let old := sget sc var in
                               match eval_ifs ifs (sset sc var it) with
                               | (inl true, sc3) =>
                                   match loop rest acc sc3 with
                                   | (SCont acc', sc4) => each more acc' (restore var old sc4)
                                   | stopped => stopped
                                   end
                               | (inl false, sc3) => each more acc (restore var old sc3)
                               | (inr o, sc3) => (SFail o, sc3)
                               end
                           end) items acc sc1
                    end
                | _ => (SFail ExprErr, sc1)          (* only simple loop variables *)
                end
            | (o, sc1) => (SFail o, sc1)
            end
        end.

    (* an argument consumed as an iterable: a generator expression written in place is run lazily
       against the consumer, any other expression is evaluated to a value first *)
    Definition consume {A} (step : A -> value -> sres A) (acc : A) (arg : pyast) (sc : scope) : sres A * scope :=
      match arg with
      | EComp GeneratorExp elt gens => run_loop elt step gens acc sc
      | _ =>
          match ev arg sc with
          | (Val v, sc1) =>
              match iter_items v with
              | ItItems items => (feed step acc items, sc1)
              | ItGen => (SFail (Unmodelled "consume-stored-generator"), sc1)
              | ItNot => (SFail (PyErr TypeError), sc1)
              end
          | (o, sc1) => (SFail o, sc1)
          end
      end.

    Definition finish_bool (r : sres bool * scope) : res :=
      match r with
      | (SCont b, sc) | (SStop b, sc) => (Val (VBool b), sc)
      | (SFail o, sc) => (o, sc)
      end.
    Definition finish_minmax (r : sres (option value) * scope) : res :=
      match r with
      | (SCont (Some v), sc) | (SStop (Some v), sc) => (Val v, sc)
      | (SCont None, sc) | (SStop None, sc) => (PyErr ValueError, sc)      (* empty sequence *)
      | (SFail o, sc) => (o, sc)
      end.

    (* min(a, b, ...) / max(a, b, ...): arguments are evaluated lazily, interleaved with the comparisons *)
    Definition eval_minmax_args (is_max : bool) :=
      fix go (args : list pyast) (acc : option value) (sc : scope) : sres (option value) * scope :=
        match args with
        | [] => (SCont acc, sc)
        | a :: r =>
            match ev a sc with
            | (Val v, sc1) =>
                match step_minmax is_max acc v with
                | SCont acc' => go r acc' sc1
                | other => (other, sc1)
                end
            | (o, sc1) => (SFail o, sc1)
            end
        end.

    Definition eval_call (func : pyast) (args : list pyast) (sc : scope) : res :=
      match func with
      | EAttribute obj attr =>
          (* method call on a string value *)
          match ev obj sc with
          | (Val (VStr s), sc1) =>
              let m := lower attr in
              match str_method_arity m with
              | None => (ExprErr, sc1)
              | Some O => (str_method m s [], sc1)
              | Some n =>
                  if Nat.eqb (length args) n
                  then match eval_list args sc1 with
                       | (inl vs, sc2) => (str_method m s vs, sc2)
                       | (inr o, sc2) => (o, sc2)
                       end
                  else (ExprErr, sc1)
              end
          | (Val _, sc1) => (ExprErr, sc1)
          | bad => bad
          end
      | EName id =>
          let f := lower id in
          if String.eqb f "exists" then
            match args with
            | [a] =>
                match ev a sc with
                | (Val v, sc1) => (Val (VBool (exists_test v)), sc1)
                | (ExprErr, sc1) => (Val (VBool false), sc1)
                | bad => bad
                end
            | _ => (ExprErr, sc)
            end
          else if String.eqb f "len" then
            match args with
            | [a] => match ev a sc with (Val v, sc1) => (py_len v, sc1) | bad => bad end
            | _ => (ExprErr, sc)
            end
          else if String.eqb f "sum" then
            let with_start (rest : list pyast) (sc : scope) (k : value -> scope -> res) : res :=
              match rest with
              | [] => k (VInt 0) sc
              | [s] => match ev s sc with (Val v, sc1) => k v sc1 | bad => bad end
              | _ => (ExprErr, sc)
              end in
            let finish (start : value) (r : sres value * scope) : res :=
              match r with
              | (SCont v, sc') | (SStop v, sc') => (Val v, sc')
              | (SFail o, sc') => (o, sc')
              end in
            match args with
            | [] => (ExprErr, sc)
            | _ :: _ :: _ :: _ => (ExprErr, sc)
            | EComp GeneratorExp elt gens :: rest =>
                with_start rest sc (fun start sc1 =>
                  if is_str start then (PyErr TypeError, sc1)
                  else finish start (run_loop elt step_sum gens start sc1))
            | a :: rest =>
                match ev a sc with
                | (Val v, sc1) =>
                    with_start rest sc1 (fun start sc2 =>
                      match iter_items v with
                      | ItNot => (PyErr TypeError, sc2)
                      | ItGen => (Unmodelled "consume-stored-generator", sc2)
                      | ItItems items =>
                          if is_str start then (PyErr TypeError, sc2)
                          else finish start (feed step_sum start items, sc2)
                      end)
                | bad => bad
                end
            end
          else if String.eqb f "any" then
            match args with [a] => finish_bool (consume step_any false a sc) | _ => (ExprErr, sc) end
          else if String.eqb f "all" then
            match args with [a] => finish_bool (consume step_all true a sc) | _ => (ExprErr, sc) end
          else if String.eqb f "next" then
            let with_default (rest : list pyast) (sc : scope) (k : option value -> scope -> res) : res :=
              match rest with
              | [] => k None sc
              | [d] => match ev d sc with (Val v, sc1) => k (Some v) sc1 | bad => bad end
              | _ => (ExprErr, sc)
              end in
            match args with
            | [] => (ExprErr, sc)
            | _ :: _ :: _ :: _ => (ExprErr, sc)
            | EComp GeneratorExp elt gens :: rest =>
                with_default rest sc (fun dflt sc1 =>
                  match run_loop elt step_next gens None sc1 with
                  | (SStop (Some v), sc2) | (SCont (Some v), sc2) => (Val v, sc2)
                  | (SStop None, sc2) | (SCont None, sc2) =>
                      match dflt with Some d => (Val d, sc2) | None => (PyErr StopIteration, sc2) end
                  | (SFail o, sc2) => (o, sc2)
                  end)
            | a :: rest =>
                match ev a sc with
                | (Val v, sc1) =>
                    with_default rest sc1 (fun _ sc2 =>
                      match v with
                      | VGen => (Unmodelled "consume-stored-generator", sc2)
                      | _ => (PyErr TypeError, sc2)               (* not an iterator *)
                      end)
                | bad => bad
                end
            end
          else if String.eqb f "min" then
            match args with
            | [a] => finish_minmax (consume (step_minmax false) None a sc)
            | _ => finish_minmax (eval_minmax_args false args None sc)
            end
          else if String.eqb f "max" then
            match args with
            | [a] => finish_minmax (consume (step_minmax true) None a sc)
            | _ => finish_minmax (eval_minmax_args true args None sc)
            end
          else
            match ctx_function E f with
            | None => (ExprErr, sc)
            | Some fn =>
                match eval_list args sc with
                | (inl vs, sc1) => (fn vs, sc1)
                | (inr o, sc1) => (o, sc1)
                end
            end
      | _ => (ExprErr, sc)                   (* only simple function calls *)
      end.

    Definition eval_attribute (v : pyast) (attr : string) (sc : scope) : res :=
      let generic :=
        match ev v sc with
        | (Val (VDict d), sc1) => (match dict_get d (lower attr) with Some x => Val x | None => ExprErr end, sc1)
        | (Val _, sc1) => (ExprErr, sc1)
        | bad => bad
        end in
      match v with
      | EName id =>
          if String.eqb (lower id) "txn" then (txn_attr (lower attr), sc)
          else if String.eqb (lower id) "field" then (field_attr (lower attr), sc)
          else generic
      | _ => generic
      end.
  End Open.

  Fixpoint eval (e : pyast) (sc : scope) {struct e} : res :=
    let r : res :=
      match e with
      | EConst c => (const_outcome c, sc)
      | EName id => (lookup_name (lower id) sc, sc)
      | EBoolOp op vals => eval_boolop eval op vals sc
      | EBinOp l op r =>
          match eval l sc with
          | (Val lv, sc1) => match eval r sc1 with (Val rv, sc2) => (binop_apply op lv rv, sc2) | bad => bad end
          | bad => bad
          end
      | EUnaryOp op x => match eval x sc with (Val v, sc1) => (unop_apply op v, sc1) | bad => bad end
      | ECompare l rest => match eval l sc with (Val lv, sc1) => eval_compare eval rest lv sc1 | bad => bad end
      | EIfExp t b o =>
          match eval t sc with
          | (Val v, sc1) => if truthy v then eval b sc1 else eval o sc1
          | bad => bad
          end
      | ECall f args _ => eval_call eval f args sc
      | EAttribute v attr => eval_attribute eval v attr sc
      | ESubscript v s =>
          match eval v sc with
          | (Val vv, sc1) => match eval s sc1 with (Val iv, sc2) => (py_subscript vv iv, sc2) | bad => bad end
          | bad => bad
          end
      | EComp ListComp elt gens =>
          match run_loop eval elt step_list gens [] sc with
          | (SCont acc, sc1) | (SStop acc, sc1) => (Val (VList (rev acc)), sc1)
          | (SFail o, sc1) => (o, sc1)
          end
      | EComp GeneratorExp _ _ => (Val VGen, sc)      (* created, not started *)
      | EComp SetComp _ _ => (ExprErr, sc)            (* no _eval_SetComp *)
      | ENamedExpr t v =>
          match eval v sc with
          | (Val x, sc1) => match t with EName id => (Val x, sset sc1 (lower id) x) | _ => (PyErr AttributeError, sc1) end
          | bad => bad
          end
      | EList _ | ETuple _ | ESet _ | EOther _ _ => (ExprErr, sc)   (* "Cannot evaluate node type" *)
      end in
    (wrap (fst r), snd r).

  (* parse_expression + TransactionEvaluator(ctx).evaluate(tree) with a fresh scope *)
  Definition eval_top (p : parsed) : outcome :=
    match p with
    | PSyntaxError => ExprErr
    | PRaises k => PyErr k
    | PTree t => if validate allowed_nodes t then fst (eval t []) else ExprErr
    end.

  (* matches_transaction = bool(evaluate_transaction(...)) *)
  Definition matches_top (p : parsed) : outcome :=
    match eval_top p with Val v => Val (VBool (truthy v)) | o => o end.
End Eval.
