(* Expr/Date.v — datetime.date as a proleptic Gregorian ordinal (date.toordinal(): 0001-01-01 = 1),
   with CPython's _ymd2ord / _ord2ymd, weekday, isoformat and the two calendar forms of
   date.fromisoformat (YYYY-MM-DD, YYYYMMDD; ISO week forms are flagged, not modelled).
   Library model, not tally code. *)
From Coq Require Import String Ascii List Bool ZArith Lia.
From Tally Require Import Lib.Str Expr.StrOps.
Import ListNotations.
Open Scope Z_scope.

Definition is_leap (y : Z) : bool := (y mod 4 =? 0) && (negb (y mod 100 =? 0) || (y mod 400 =? 0)).
Definition days_in_month (y m : Z) : Z :=
  if m =? 2 then (if is_leap y then 29 else 28)
  else if (m =? 4) || (m =? 6) || (m =? 9) || (m =? 11) then 30 else 31.
Definition days_before_year (y : Z) : Z := let p := y - 1 in p * 365 + p / 4 - p / 100 + p / 400.
Definition dbm_common (m : Z) : Z :=
  match m with
  | 1 => 0 | 2 => 31 | 3 => 59 | 4 => 90 | 5 => 120 | 6 => 151 | 7 => 181 | 8 => 212 | 9 => 243
  | 10 => 273 | 11 => 304 | 12 => 334 | _ => 0
  end.
Definition days_before_month (y m : Z) : Z := dbm_common m + (if (2 <? m) && is_leap y then 1 else 0).
Definition valid_ymd (y m d : Z) : bool :=
  (1 <=? y) && (y <=? 9999) && (1 <=? m) && (m <=? 12) && (1 <=? d) && (d <=? days_in_month y m).
Definition ordinal_of_ymd (y m d : Z) : Z := days_before_year y + days_before_month y m + d.
Definition max_ordinal : Z := 3652059.   (* date.max.toordinal() *)

(* CPython datetime._ord2ymd *)
Definition ymd_of_ordinal (n0 : Z) : Z * Z * Z :=
  let n := n0 - 1 in
  let n400 := n / 146097 in let n := n mod 146097 in
  let n100 := n / 36524 in let n := n mod 36524 in
  let n4 := n / 1461 in let n := n mod 1461 in
  let n1 := n / 365 in let n := n mod 365 in
  let year := n400 * 400 + 1 + n100 * 100 + n4 * 4 + n1 in
  if (n1 =? 4) || (n100 =? 4) then (year - 1, 12, 31)
  else
    let leap := (n1 =? 3) && (negb (n4 =? 24) || (n100 =? 3)) in
    let month := (n + 50) / 32 in
    let preceding := dbm_common month + (if (2 <? month) && leap then 1 else 0) in
    if n <? preceding
    then let month' := month - 1 in
         let dim := if month' =? 2 then (if leap then 29 else 28)
                    else if (month' =? 4) || (month' =? 6) || (month' =? 9) || (month' =? 11) then 30 else 31 in
         (year, month', n - (preceding - dim) + 1)
    else (year, month, n - preceding + 1).

Definition year_of (n : Z) : Z := fst (fst (ymd_of_ordinal n)).
Definition month_of (n : Z) : Z := snd (fst (ymd_of_ordinal n)).
Definition day_of (n : Z) : Z := snd (ymd_of_ordinal n).
Definition weekday_of (n : Z) : Z := (n + 6) mod 7.          (* Monday = 0 *)

Definition iso_of_ordinal (n : Z) : string :=
  let '(y, m, d) := ymd_of_ordinal n in
  (pad_digits 4 y EmptyString ++ "-" ++ pad_digits 2 m EmptyString ++ "-" ++ pad_digits 2 d EmptyString)%string.

Inductive iso_result := IsoOk (ord : Z) | IsoBad | IsoUnmodelled.

Definition ymd_checked (y m d : Z) : iso_result :=
  if valid_ymd y m d then IsoOk (ordinal_of_ymd y m d) else IsoBad.

Fixpoint has_W (s : string) : bool :=
  match s with EmptyString => false | String c r => (Ascii.eqb c "W"%char) || has_W r end.

(* date.fromisoformat (3.11+).  Strings that contain 'W' may be ISO week dates: not modelled. *)
Definition parse_iso (s : string) : iso_result :=
  let n := String.length s in
  if has_W s && (Nat.eqb n 7 || Nat.eqb n 8 || Nat.eqb n 10) then IsoUnmodelled
  else
    match n with
    | 10%nat =>
        let y := stake 4 s in let s1 := sdrop 4 s in
        let m := stake 2 (sdrop 1 s1) in let s2 := sdrop 3 s1 in
        let d := stake 2 (sdrop 1 s2) in
        if all_digits y && all_digits m && all_digits d && is_prefix "-" s1 && is_prefix "-" s2
        then ymd_checked (digits_val y 0) (digits_val m 0) (digits_val d 0) else IsoBad
    | 8%nat =>
        if all_digits s
        then ymd_checked (digits_val (stake 4 s) 0) (digits_val (stake 2 (sdrop 4 s)) 0) (digits_val (sdrop 6 s) 0)
        else IsoBad
    | _ => IsoBad
    end.

(* ------------------------------------------------------------------------------------------ *)
(* Facts.  Round trip on the first 400-year cycle by computation, extended by periodicity.       *)

Lemma ymd_of_ordinal_shift n k : 0 <= k ->
  ymd_of_ordinal (n + 146097 * k) =
  let '(y, m, d) := ymd_of_ordinal n in (y + 400 * k, m, d).
Proof.
  intros Hk. unfold ymd_of_ordinal.
  replace (n + 146097 * k - 1) with ((n - 1) + k * 146097) by lia.
  rewrite Z.div_add, Z.mod_add by lia.
  set (r := (n - 1) mod 146097). set (q := (n - 1) / 146097).
  replace ((q + k) * 400 + 1) with (q * 400 + 1 + 400 * k) by lia.
  destruct ((r mod 36524 mod 1461 / 365 =? 4) || (r / 36524 =? 4)).
  - f_equal. f_equal. lia.
  - match goal with |- context [if ?c then _ else _] => destruct c end; f_equal; f_equal; lia.
Qed.

Lemma is_leap_shift y k : is_leap (y + 400 * k) = is_leap y.
Proof.
  unfold is_leap.
  replace (y + 400 * k) with (y + (100 * k) * 4) at 1 by lia. rewrite Z.mod_add by lia.
  replace (y + 400 * k) with (y + (4 * k) * 100) at 1 by lia. rewrite Z.mod_add by lia.
  replace (y + 400 * k) with (y + k * 400) by lia. rewrite Z.mod_add by lia. reflexivity.
Qed.

Lemma days_before_year_shift y k : days_before_year (y + 400 * k) = days_before_year y + 146097 * k.
Proof.
  unfold days_before_year. cbv zeta.
  replace (y + 400 * k - 1) with ((y - 1) + (100 * k) * 4) at 2 by lia. rewrite Z.div_add by lia.
  replace (y + 400 * k - 1) with ((y - 1) + (4 * k) * 100) at 2 by lia. rewrite Z.div_add by lia.
  replace (y + 400 * k - 1) with ((y - 1) + k * 400) at 2 by lia. rewrite Z.div_add by lia.
  lia.
Qed.

Lemma ordinal_of_ymd_shift y m d k : ordinal_of_ymd (y + 400 * k) m d = ordinal_of_ymd y m d + 146097 * k.
Proof.
  unfold ordinal_of_ymd, days_before_month. rewrite days_before_year_shift, is_leap_shift. lia.
Qed.

Lemma days_in_month_shift y m k : days_in_month (y + 400 * k) m = days_in_month y m.
Proof. unfold days_in_month. now rewrite is_leap_shift. Qed.

(* one cycle, checked by computation: the date of ordinal n is a calendar date whose ordinal is n *)
Definition cycle_ok (n : Z) : bool :=
  let '(y, m, d) := ymd_of_ordinal n in
  (1 <=? y) && (y <=? 400) && (1 <=? m) && (m <=? 12) && (1 <=? d) && (d <=? days_in_month y m)
  && (ordinal_of_ymd y m d =? n).

Fixpoint all_upto (f : Z -> bool) (k : nat) (i : Z) : bool :=
  match k with O => true | S j => f i && all_upto f j (i + 1) end.

Lemma all_upto_spec f k i0 : all_upto f k i0 = true ->
  forall i, i0 <= i < i0 + Z.of_nat k -> f i = true.
Proof.
  revert i0. induction k as [|k IH]; intros i0 H i Hi; [lia|].
  cbn [all_upto] in H. apply andb_true_iff in H. destruct H as [H1 H2].
  destruct (Z.eq_dec i i0) as [->|Hne]; [exact H1|].
  apply (IH (i0 + 1)); [exact H2|lia].
Qed.

Lemma cycle_checked : all_upto cycle_ok (Z.to_nat 146097) 1 = true.
Proof. vm_cast_no_check (eq_refl true). Qed.

Lemma cycle_ok_all n : 1 <= n <= 146097 -> cycle_ok n = true.
Proof.
  intros Hn. apply (all_upto_spec cycle_ok (Z.to_nat 146097) 1 cycle_checked). lia.
Qed.

(* every ordinal n >= 1 denotes a calendar date (y, m, d) with 1 <= m <= 12, 1 <= d <= days_in_month,
   and that date's ordinal is n *)
Theorem ymd_of_ordinal_sound n : 1 <= n ->
  let '(y, m, d) := ymd_of_ordinal n in
  1 <= y /\ 1 <= m <= 12 /\ 1 <= d <= days_in_month y m /\ ordinal_of_ymd y m d = n.
Proof.
  intros Hn.
  set (k := (n - 1) / 146097). set (r := (n - 1) mod 146097 + 1).
  assert (Hk : 0 <= k) by (apply Z.div_pos; lia).
  assert (Hr : 1 <= r <= 146097) by (unfold r; pose proof (Z.mod_pos_bound (n - 1) 146097); lia).
  assert (En : n = r + 146097 * k).
  { unfold r, k. pose proof (Z.div_mod (n - 1) 146097). lia. }
  rewrite En, ymd_of_ordinal_shift by exact Hk.
  pose proof (cycle_ok_all r Hr) as Hc. unfold cycle_ok in Hc.
  destruct (ymd_of_ordinal r) as [[y m] d].
  repeat (apply andb_true_iff in Hc; destruct Hc as [Hc ?]).
  rewrite days_in_month_shift, ordinal_of_ymd_shift. lia.
Qed.

(* the ordinal of a calendar date determines the date: ordinal_of_ymd is strictly increasing in the
   calendar (lexicographic) order.  Shown through day-successor steps. *)
Lemma leap_div y : 1 <= y ->
  days_before_year (y + 1) = days_before_year y + 365 + (if is_leap y then 1 else 0).
Proof.
  intros Hy. unfold days_before_year, is_leap. cbv zeta.
  replace (y + 1 - 1) with y by lia.
  pose proof (Z.div_mod y 4). pose proof (Z.mod_pos_bound y 4).
  pose proof (Z.div_mod y 100). pose proof (Z.mod_pos_bound y 100).
  pose proof (Z.div_mod y 400). pose proof (Z.mod_pos_bound y 400).
  pose proof (Z.div_mod (y - 1) 4). pose proof (Z.mod_pos_bound (y - 1) 4).
  pose proof (Z.div_mod (y - 1) 100). pose proof (Z.mod_pos_bound (y - 1) 100).
  pose proof (Z.div_mod (y - 1) 400). pose proof (Z.mod_pos_bound (y - 1) 400).
  destruct (y mod 4 =? 0) eqn:E4; destruct (y mod 100 =? 0) eqn:E100; destruct (y mod 400 =? 0) eqn:E400;
    cbn [andb orb negb]; lia.
Qed.

Lemma days_before_year_mono y y' : 1 <= y -> y < y' ->
  days_before_year y + 365 + (if is_leap y then 1 else 0) <= days_before_year y'.
Proof.
  intros Hy Hlt.
  assert (G : forall k : nat, days_before_year y + 365 + (if is_leap y then 1 else 0) <= days_before_year (y + 1 + Z.of_nat k)).
  { induction k as [|k IH].
    - replace (y + 1 + Z.of_nat 0) with (y + 1) by lia. rewrite leap_div by lia. lia.
    - replace (y + 1 + Z.of_nat (S k)) with ((y + 1 + Z.of_nat k) + 1) by lia.
      rewrite leap_div by lia. destruct (is_leap (y + 1 + Z.of_nat k)); lia. }
  specialize (G (Z.to_nat (y' - y - 1))). replace (y + 1 + Z.of_nat (Z.to_nat (y' - y - 1))) with y' in G by lia.
  exact G.
Qed.

Lemma day_of_year_bound y m d : 1 <= m <= 12 -> 1 <= d <= days_in_month y m ->
  1 <= days_before_month y m + d <= 365 + (if is_leap y then 1 else 0).
Proof.
  intros Hm Hd. unfold days_before_month, days_in_month in *.
  assert (M : m = 1 \/ m = 2 \/ m = 3 \/ m = 4 \/ m = 5 \/ m = 6 \/ m = 7 \/ m = 8 \/ m = 9 \/ m = 10 \/ m = 11 \/ m = 12) by lia.
  destruct (is_leap y); repeat (destruct M as [->|M]; [cbn [dbm_common Z.eqb Z.ltb Z.compare Pos.compare Pos.compare_cont Pos.eqb andb orb] in *; lia|]);
    subst; cbn [dbm_common Z.eqb Z.ltb Z.compare Pos.compare Pos.compare_cont Pos.eqb andb orb] in *; lia.
Qed.

Lemma month_mono y m m' d d' : 1 <= m -> m < m' -> m' <= 12 -> 1 <= d <= days_in_month y m -> 1 <= d' ->
  days_before_month y m + d < days_before_month y m' + d'.
Proof.
  intros H1 H2 H3 Hd Hd'. unfold days_before_month, days_in_month in *.
  assert (M : m = 1 \/ m = 2 \/ m = 3 \/ m = 4 \/ m = 5 \/ m = 6 \/ m = 7 \/ m = 8 \/ m = 9 \/ m = 10 \/ m = 11) by lia.
  assert (M' : m' = 2 \/ m' = 3 \/ m' = 4 \/ m' = 5 \/ m' = 6 \/ m' = 7 \/ m' = 8 \/ m' = 9 \/ m' = 10 \/ m' = 11 \/ m' = 12) by lia.
  destruct (is_leap y);
    repeat (destruct M as [->|M]); subst;
    repeat (destruct M' as [->|M']); subst;
    cbn [dbm_common Z.eqb Z.ltb Z.compare Pos.compare Pos.compare_cont Pos.eqb andb orb] in *; lia.
Qed.

Definition ymd_lt (a b : Z * Z * Z) : Prop :=
  let '(y, m, d) := a in let '(y', m', d') := b in
  y < y' \/ (y = y' /\ (m < m' \/ (m = m' /\ d < d'))).

(* calendar order = ordinal order, for calendar dates *)
Theorem ordinal_of_ymd_mono y m d y' m' d' :
  1 <= y -> 1 <= m <= 12 -> 1 <= d <= days_in_month y m ->
  1 <= m' <= 12 -> 1 <= d' <= days_in_month y' m' ->
  ymd_lt (y, m, d) (y', m', d') -> ordinal_of_ymd y m d < ordinal_of_ymd y' m' d'.
Proof.
  intros Hy Hm Hd Hm' Hd' Hlt. unfold ymd_lt in Hlt. unfold ordinal_of_ymd.
  destruct Hlt as [Hlt|[-> [Hlt|[-> Hlt]]]].
  - pose proof (days_before_year_mono y y' Hy Hlt).
    pose proof (day_of_year_bound y m d Hm Hd). pose proof (day_of_year_bound y' m' d' Hm' Hd'). lia.
  - pose proof (month_mono y' m m' d d'). lia.
  - lia.
Qed.

Corollary ordinal_of_ymd_inj y m d y' m' d' :
  1 <= y -> 1 <= m <= 12 -> 1 <= d <= days_in_month y m ->
  1 <= y' -> 1 <= m' <= 12 -> 1 <= d' <= days_in_month y' m' ->
  ordinal_of_ymd y m d = ordinal_of_ymd y' m' d' -> (y, m, d) = (y', m', d').
Proof.
  intros Hy Hm Hd Hy' Hm' Hd' E.
  destruct (Z_lt_le_dec y y') as [L|L].
  { pose proof (ordinal_of_ymd_mono y m d y' m' d' Hy Hm Hd Hm' Hd' (or_introl L)). lia. }
  destruct (Z_lt_le_dec y' y) as [L'|L'].
  { pose proof (ordinal_of_ymd_mono y' m' d' y m d Hy' Hm' Hd' Hm Hd (or_introl L')). lia. }
  assert (y = y') by lia. subst y'.
  destruct (Z_lt_le_dec m m') as [M|M].
  { pose proof (ordinal_of_ymd_mono y m d y m' d' Hy Hm Hd Hm' Hd' (or_intror (conj eq_refl (or_introl M)))). lia. }
  destruct (Z_lt_le_dec m' m) as [M'|M'].
  { pose proof (ordinal_of_ymd_mono y m' d' y m d Hy Hm' Hd' Hm Hd (or_intror (conj eq_refl (or_introl M')))). lia. }
  assert (m = m') by lia. subst m'. unfold ordinal_of_ymd in E. f_equal. lia.
Qed.

(* the calendar date of the ordinal of a calendar date is that date *)
Theorem ymd_of_ordinal_of_ymd y m d :
  1 <= y -> 1 <= m <= 12 -> 1 <= d <= days_in_month y m ->
  ymd_of_ordinal (ordinal_of_ymd y m d) = (y, m, d).
Proof.
  intros Hy Hm Hd.
  assert (Hn : 1 <= ordinal_of_ymd y m d).
  { unfold ordinal_of_ymd. pose proof (day_of_year_bound y m d Hm Hd).
    assert (0 <= days_before_year y).
    { unfold days_before_year. cbv zeta.
      pose proof (Z.div_mod (y - 1) 4). pose proof (Z.mod_pos_bound (y - 1) 4).
      pose proof (Z.div_mod (y - 1) 100). pose proof (Z.mod_pos_bound (y - 1) 100).
      pose proof (Z.div_mod (y - 1) 400). pose proof (Z.mod_pos_bound (y - 1) 400). lia. }
    lia. }
  pose proof (ymd_of_ordinal_sound _ Hn) as S.
  destruct (ymd_of_ordinal (ordinal_of_ymd y m d)) as [[y2 m2] d2].
  destruct S as [S1 [S2 [S3 S4]]].
  apply (ordinal_of_ymd_inj y2 m2 d2 y m d); assumption.
Qed.
