(* Expr/Funcs.v — value-level semantics used by tally's transaction evaluator: truthiness, Python
   equality / ordering / membership, the arithmetic operators with tally's zero-divisor rule, str(),
   the string methods and the TransactionContext._fn_* functions.  `PyErr k` marks the places where
   CPython raises a non-ExpressionError exception (the evaluator wraps those per node, see Eval.v).
   Floats are exact rationals; a float result that is not a binary64 value is `Unmodelled`. *)
From Coq Require Import String Ascii List Bool ZArith QArith Qround Qabs Lia.
From Tally Require Import Lib.Str Expr.StrOps Expr.Date Expr.Syntax.
Import ListNotations.
Open Scope string_scope.

(* ---------- floats ---------- *)
Fixpoint pos_tz (p : positive) : Z := match p with xO q => 1 + pos_tz q | _ => 0 end.
Fixpoint pos_is_pow2 (p : positive) : bool := match p with xH => true | xO q => pos_is_pow2 q | xI _ => false end.
(* q (in lowest terms) is a binary64 value: dyadic, <= 53 significant bits, comfortably inside the exponent range *)
Definition is_binary64 (q : Q) : bool :=
  match Qnum q with
  | Z0 => true
  | Zpos p | Zneg p =>
      pos_is_pow2 (Qden q)
      && (Z.log2 (Zpos p) - pos_tz p <? 53)%Z
      && (Z.abs (Z.log2 (Zpos p) - Z.log2 (Zpos (Qden q))) <? 1000)%Z
  end.
Definition mkfloat (q : Q) : outcome :=
  let r := Qred q in if is_binary64 r then Val (VFloat r) else Unmodelled "inexact-float".
Definition Qeqb (a b : Q) : bool := Qeq_bool a b.
Definition Qltb (a b : Q) : bool := negb (Qle_bool b a).

Inductive num := NInt (z : Z) | NFloat (q : Q).
Definition num_view (v : value) : option num :=
  match v with
  | VBool b => Some (NInt (if b then 1 else 0)%Z)
  | VInt z => Some (NInt z)
  | VFloat q => Some (NFloat q)
  | _ => None
  end.
Definition num_q (n : num) : Q := match n with NInt z => inject_Z z | NFloat q => q end.
Definition num_is_zero (n : num) : bool := match n with NInt z => (z =? 0)%Z | NFloat q => Qeqb q 0 end.
(* int operand of a float operation is converted to float first: must be exact *)
Definition num_exact (n : num) : bool := match n with NInt z => is_binary64 (inject_Z z) | NFloat _ => true end.

(* ---------- truthiness ---------- *)
Definition truthy (v : value) : bool :=
  match v with
  | VNone => false
  | VBool b => b
  | VInt z => negb (z =? 0)%Z
  | VFloat q => negb (Qeqb q 0)
  | VStr s => negb (String.eqb s "")
  | VDate _ => true
  | VTd d => negb (d =? 0)%Z
  | VList l => match l with [] => false | _ => true end
  | VDict d => match d with [] => false | _ => true end
  | VGen => true
  end.

Fixpoint has_gen (v : value) : bool :=
  match v with
  | VGen => true
  | VList l => (fix go (l : list value) := match l with [] => false | x :: r => has_gen x || go r end) l
  | VDict d => (fix go (d : list (string * value)) := match d with [] => false | (_, x) :: r => has_gen x || go r end) d
  | _ => false
  end.

(* ---------- == ---------- *)
Definition num_eq (a b : num) : bool :=
  match a, b with NInt x, NInt y => (x =? y)%Z | _, _ => Qeqb (num_q a) (num_q b) end.

Fixpoint py_eq (a b : value) : bool :=
  match num_view a, num_view b with
  | Some x, Some y => num_eq x y
  | Some _, None | None, Some _ => false
  | None, None =>
      match a with
      | VNone => match b with VNone => true | _ => false end
      | VStr x => match b with VStr y => String.eqb x y | _ => false end
      | VDate x => match b with VDate y => (x =? y)%Z | _ => false end
      | VTd x => match b with VTd y => (x =? y)%Z | _ => false end
      | VList x =>
          match b with
          | VList y =>
              (fix go (x y : list value) : bool :=
                 match x, y with
                 | [], [] => true
                 | p :: x', q :: y' => py_eq p q && go x' y'
                 | _, _ => false
                 end) x y
          | _ => false
          end
      | VDict x =>
          match b with
          | VDict y =>
              Nat.eqb (length x) (length y) &&
              (fix all (x : list (string * value)) : bool :=
                 match x with
                 | [] => true
                 | (k, v) :: x' =>
                     (fix find (y : list (string * value)) : bool :=
                        match y with
                        | [] => false
                        | (k', v') :: y' => if String.eqb k k' then py_eq v v' else find y'
                        end) y && all x'
                 end) x
          | _ => false
          end
      | _ => false
      end
  end.

(* ---------- ordering: None = TypeError ---------- *)
Definition num_compare (a b : num) : comparison :=
  match a, b with NInt x, NInt y => (x ?= y)%Z | _, _ => Qcompare (num_q a) (num_q b) end.

Fixpoint py_order (a b : value) : option comparison :=
  match num_view a, num_view b with
  | Some x, Some y => Some (num_compare x y)
  | Some _, None | None, Some _ => None
  | None, None =>
      match a with
      | VStr x => match b with VStr y => Some (String.compare x y) | _ => None end
      | VDate x => match b with VDate y => Some (x ?= y)%Z | _ => None end
      | VTd x => match b with VTd y => Some (x ?= y)%Z | _ => None end
      | VList x =>
          match b with
          | VList y =>
              (fix go (x y : list value) : option comparison :=
                 match x, y with
                 | [], [] => Some Datatypes.Eq
                 | [], _ :: _ => Some Datatypes.Lt
                 | _ :: _, [] => Some Datatypes.Gt
                 | p :: x', q :: y' => if py_eq p q then go x' y' else py_order p q
                 end) x y
          | _ => None
          end
      | _ => None
      end
  end.

Definition vbool (b : bool) : outcome := Val (VBool b).

Definition order_test (op : cmpop) (c : comparison) : bool :=
  match op, c with
  | Lt, Datatypes.Lt => true | LtE, Datatypes.Lt => true | LtE, Datatypes.Eq => true
  | Gt, Datatypes.Gt => true | GtE, Datatypes.Gt => true | GtE, Datatypes.Eq => true
  | _, _ => false
  end.

Definition is_str (v : value) : bool := match v with VStr _ => true | _ => false end.
Definition is_date (v : value) : bool := match v with VDate _ => true | _ => false end.

(* `left in right` with tally's case-insensitive substring rule when right is a string *)
Definition py_in (l r : value) : outcome :=
  match r with
  | VStr rs => match l with VStr ls => vbool (is_infix (upper ls) (upper rs)) | _ => PyErr TypeError end
  | VList xs => vbool (existsb (fun x => py_eq x l) xs)
  | VDict d =>
      match l with
      | VStr k => vbool (existsb (fun kv => String.eqb (fst kv) k) d)
      | VList _ | VDict _ => PyErr TypeError           (* unhashable *)
      | _ => vbool false
      end
  | _ => PyErr TypeError                               (* argument of type ... is not iterable *)
  end.

Definition neg_outcome (o : outcome) : outcome :=
  match o with Val (VBool b) => Val (VBool (negb b)) | _ => o end.

(* one link of a comparison, operands already date-coerced *)
Definition cmp_apply (op : cmpop) (l r : value) : outcome :=
  if has_gen l || has_gen r then Unmodelled "compare-generator" else
  match op with
  | Eq => match l, r with VStr a, VStr b => vbool (String.eqb (lower a) (lower b)) | _, _ => vbool (py_eq l r) end
  | NotEq => match l, r with VStr a, VStr b => vbool (negb (String.eqb (lower a) (lower b))) | _, _ => vbool (negb (py_eq l r)) end
  | Lt | LtE | Gt | GtE => match py_order l r with Some c => vbool (order_test op c) | None => PyErr TypeError end
  | In => py_in l r
  | NotIn => neg_outcome (py_in l r)
  | CmpOther _ => ExprErr
  end.

(* the date coercion of TransactionEvaluator._eval_Compare: returns the (left, right) actually compared in
   this link; the next link of a chain starts from the right operand as written *)
Definition iso_outcome (s : string) : outcome :=
  match parse_iso s with IsoOk n => Val (VDate n) | IsoBad => ExprErr | IsoUnmodelled => Unmodelled "iso-week-date" end.
Definition coerce_dates (l r : value) : outcome * outcome :=
  match l, r with
  | VDate _, VStr s => (Val l, iso_outcome s)
  | VStr s, VDate _ => (iso_outcome s, Val r)
  | _, _ => (Val l, Val r)
  end.
Definition date_coerces (l r : value) : bool := is_date l && is_str r.

(* ---------- arithmetic ---------- *)
Definition float_op (f : Q -> Q -> Q) (a b : num) : outcome :=
  if num_exact a && num_exact b then mkfloat (f (num_q a) (num_q b)) else Unmodelled "inexact-float".

Definition date_in_range (n : Z) : outcome :=
  if ((1 <=? n) && (n <=? max_ordinal))%Z then Val (VDate n) else PyErr OverflowError.
Definition td_in_range (n : Z) : outcome :=
  if (Z.abs n <=? 999999999)%Z then Val (VTd n) else PyErr OverflowError.

Fixpoint repeat_list {A} (n : nat) (l : list A) : list A := match n with O => [] | S k => l ++ repeat_list k l end.
Fixpoint repeat_str (n : nat) (s : string) : string := match n with O => "" | S k => s ++ repeat_str k s end.
Definition small_count (z : Z) : option nat :=
  if (z <=? 0)%Z then Some O else if (z <=? 4096)%Z then Some (Z.to_nat z) else None.

Definition int_of (v : value) : option Z :=
  match v with VInt z => Some z | VBool b => Some (if b then 1 else 0)%Z | _ => None end.

Definition py_add (l r : value) : outcome :=
  match num_view l, num_view r with
  | Some (NInt x), Some (NInt y) => Val (VInt (x + y))
  | Some a, Some b => float_op Qplus a b
  | _, _ =>
      match l, r with
      | VStr a, VStr b => Val (VStr (a ++ b))
      | VList a, VList b => Val (VList (a ++ b))
      | VDate d, VTd t | VTd t, VDate d => date_in_range (d + t)
      | VTd a, VTd b => td_in_range (a + b)
      | _, _ => PyErr TypeError
      end
  end.

Definition py_sub (l r : value) : outcome :=
  match num_view l, num_view r with
  | Some (NInt x), Some (NInt y) => Val (VInt (x - y))
  | Some a, Some b => float_op Qminus a b
  | _, _ =>
      match l, r with
      | VDate a, VDate b => Val (VTd (a - b))
      | VDate d, VTd t => date_in_range (d - t)
      | VTd a, VTd b => td_in_range (a - b)
      | _, _ => PyErr TypeError
      end
  end.

Definition seq_times (s : value) (n : Z) : outcome :=
  match small_count n with
  | None => Unmodelled "huge-repeat"
  | Some k => match s with
              | VStr a => Val (VStr (repeat_str k a))
              | VList a => Val (VList (repeat_list k a))
              | _ => PyErr TypeError
              end
  end.

Definition py_mul (l r : value) : outcome :=
  match num_view l, num_view r with
  | Some (NInt x), Some (NInt y) => Val (VInt (x * y))
  | Some a, Some b => float_op Qmult a b
  | _, _ =>
      match l, r with
      | (VStr _ | VList _), _ => match int_of r with Some n => seq_times l n | None => PyErr TypeError end
      | _, (VStr _ | VList _) => match int_of l with Some n => seq_times r n | None => PyErr TypeError end
      | VTd a, _ => match r with
                    | VFloat _ => Unmodelled "timedelta-arith"
                    | _ => match int_of r with Some n => td_in_range (a * n) | None => PyErr TypeError end
                    end
      | _, VTd b => match l with
                    | VFloat _ => Unmodelled "timedelta-arith"
                    | _ => match int_of l with Some n => td_in_range (n * b) | None => PyErr TypeError end
                    end
      | _, _ => PyErr TypeError
      end
  end.

(* `right == 0` as the evaluator tests it before / and % *)
Definition eq_zero (r : value) : bool := match num_view r with Some n => num_is_zero n | None => false end.

Definition Qfloor_div (a b : Q) : Z := Qfloor (a / b)%Q.
Definition py_truediv (l r : value) : outcome :=
  match num_view l, num_view r with
  | Some (NInt x), Some (NInt y) => mkfloat (inject_Z x / inject_Z y)%Q      (* correctly rounded int / int *)
  | Some a, Some b => float_op Qdiv a b
  | _, _ =>
      match l, r with
      | VTd _, (VTd _ | VInt _ | VBool _ | VFloat _) => Unmodelled "timedelta-arith"
      | _, _ => PyErr TypeError
      end
  end.
Definition py_mod (l r : value) : outcome :=
  match num_view l, num_view r with
  | Some (NInt x), Some (NInt y) => Val (VInt (x mod y))                    (* sign of the divisor, as Z.modulo *)
  | Some a, Some b => float_op (fun p q => p - q * inject_Z (Qfloor_div p q))%Q a b
  | _, _ =>
      match l, r with
      | VStr _, _ => Unmodelled "str-percent-format"
      | VTd _, (VTd _ | VInt _ | VBool _) => Unmodelled "timedelta-arith"
      | _, _ => PyErr TypeError
      end
  end.

Definition binop_apply (op : binop) (l r : value) : outcome :=
  if has_gen l || has_gen r then
    (match op with Div | Mod => if eq_zero r then Val (VInt 0) else PyErr TypeError | BinOther _ => ExprErr | _ => PyErr TypeError end)
  else
  match op with
  | Add => py_add l r
  | Sub => py_sub l r
  | Mult => py_mul l r
  | Div => if eq_zero r then Val (VInt 0) else py_truediv l r
  | Mod => if eq_zero r then Val (VInt 0) else py_mod l r
  | BinOther _ => ExprErr
  end.

Definition py_neg (v : value) : outcome :=
  match v with
  | VBool b => Val (VInt (if b then -1 else 0))
  | VInt z => Val (VInt (- z))
  | VFloat q => Val (VFloat (Qred (- q)%Q))
  | VTd d => Val (VTd (- d))
  | _ => PyErr TypeError
  end.
Definition unop_apply (op : unop) (v : value) : outcome :=
  match op with Not => vbool (negb (truthy v)) | USub => py_neg v | UnOther _ => ExprErr end.

(* ---------- str(), iteration, len, subscript ---------- *)
Definition pystr (v : value) : option string :=
  match v with
  | VNone => Some "None"
  | VBool b => Some (if b then "True" else "False")
  | VInt z => Some (string_of_Z z)
  | VStr s => Some s
  | VDate n => Some (iso_of_ordinal n)
  | _ => None                     (* repr of floats, lists, dicts, timedeltas, generators: not modelled *)
  end.
Definition with_str (v : value) (k : string -> outcome) : outcome :=
  match pystr v with Some s => k s | None => Unmodelled "str-of-value" end.

Inductive iter_view := ItItems (l : list value) | ItGen | ItNot.
Definition iter_items (v : value) : iter_view :=
  match v with
  | VList l => ItItems l
  | VStr s => ItItems (map VStr (cps s))
  | VDict d => ItItems (map (fun kv => VStr (fst kv)) d)
  | VGen => ItGen
  | _ => ItNot
  end.

Definition py_len (v : value) : outcome :=
  match v with
  | VStr s => Val (VInt (Z.of_nat (cp_len s)))
  | VList l => Val (VInt (Z.of_nat (length l)))
  | VDict d => Val (VInt (Z.of_nat (length d)))
  | _ => PyErr TypeError
  end.

Fixpoint dict_get (d : list (string * value)) (k : string) : option value :=
  match d with [] => None | (k', v) :: r => if String.eqb k k' then Some v else dict_get r k end.

(* value[index]; IndexError / KeyError are turned into ExpressionError by _eval_Subscript itself *)
Definition py_subscript (v i : value) : outcome :=
  match v with
  | VList l => match int_of i with
               | Some n => match index_list l n with Some x => Val x | None => ExprErr end
               | None => PyErr TypeError
               end
  | VStr s => match int_of i with
              | Some n => match index_list (cps s) n with Some x => Val (VStr x) | None => ExprErr end
              | None => PyErr TypeError
              end
  | VDict d => match i with
               | VStr k => match dict_get d k with Some x => Val x | None => ExprErr end
               | VList _ | VDict _ => PyErr TypeError
               | _ => ExprErr                 (* hashable non-key: KeyError *)
               end
  | _ => PyErr TypeError
  end.

(* ---------- string methods: obj.method(args) on a str ---------- *)
Definition str_method (name : string) (obj : string) (args : list value) : outcome :=
  if String.eqb name "lower" then Val (VStr (lower obj))
  else if String.eqb name "upper" then Val (VStr (upper obj))
  else if String.eqb name "strip" then Val (VStr (strip obj))
  else if String.eqb name "startswith" then
    match args with [VStr p] => vbool (is_prefix p obj) | [_] => PyErr TypeError | _ => ExprErr end
  else if String.eqb name "endswith" then
    match args with [VStr p] => vbool (is_suffix p obj) | [_] => PyErr TypeError | _ => ExprErr end
  else if String.eqb name "replace" then
    match args with [VStr a; VStr b] => Val (VStr (replace a b obj)) | [_; _] => PyErr TypeError | _ => ExprErr end
  else ExprErr.
(* number of arguments the method evaluates: lower/upper/strip ignore theirs *)
Definition str_method_arity (name : string) : option nat :=
  if String.eqb name "startswith" || String.eqb name "endswith" then Some 1%nat
  else if String.eqb name "replace" then Some 2%nat
  else if String.eqb name "lower" || String.eqb name "upper" || String.eqb name "strip" then Some 0%nat
  else None.

(* ---------- TransactionContext._fn_* ---------- *)
Section Fns.
  Variable E : env.
  Definition desc : value := VStr (t_description (e_txn E)).

  (* text / pattern defaulting shared by contains, regex, normalized, startswith, extract *)
  Definition text_pattern (args : list value) : option (value * value) :=
    match args with [p] => Some (desc, p) | [t; p] => Some (t, p) | _ => None end.

  Definition fn_contains (args : list value) : outcome :=
    match text_pattern args with
    | None => ExprErr
    | Some (t, p) =>
        match p with
        | VStr ps => match t with VStr ts => vbool (is_infix (upper ps) (upper ts)) | _ => PyErr AttributeError end
        | _ => PyErr AttributeError
        end
    end.

  Definition fn_startswith (args : list value) : outcome :=
    match text_pattern args with
    | None => ExprErr
    | Some (t, p) =>
        match t with
        | VStr ts => match p with VStr ps => vbool (is_prefix (upper ps) (upper ts)) | _ => PyErr AttributeError end
        | _ => PyErr AttributeError
        end
    end.

  (* re.sub(r"[\s\-'.*]+", '', s.upper()): drop every blank code point, hyphen, apostrophe, period, asterisk *)
  Definition norm_drop (c : string) : bool :=
    is_space_cp c || String.eqb c "-" || String.eqb c "'" || String.eqb c "." || String.eqb c "*".
  Definition normalize (s : string) : string := sconcat (filter (fun c => negb (norm_drop c)) (cps (upper s))).
  Definition fn_normalized (args : list value) : outcome :=
    match text_pattern args with
    | None => ExprErr
    | Some (t, p) =>
        match p with
        | VStr ps => match t with VStr ts => vbool (is_infix (normalize ps) (normalize ts)) | _ => PyErr AttributeError end
        | _ => PyErr AttributeError
        end
    end.

  Fixpoint fn_anyof (patterns : list value) : outcome :=
    match patterns with
    | [] => vbool false
    | VStr p :: r => if is_infix (upper p) (upper (t_description (e_txn E))) then vbool true else fn_anyof r
    | _ :: _ => PyErr AttributeError
    end.

  Definition fn_regex (args : list value) : outcome :=
    match text_pattern args with
    | None => ExprErr
    | Some (t, p) =>
        match p with
        | VStr ps =>
            match t with
            | VStr ts =>
                match re_search E ps ts with
                | None => Unmodelled "regex-oracle-miss"
                | Some ReBad => ExprErr
                | Some ReNoMatch => vbool false
                | Some (ReMatch _ _) => vbool true
                end
            | _ =>  (* the pattern is compiled first: an invalid pattern is reported before the text is looked at *)
                match re_search E ps "" with
                | None => Unmodelled "regex-oracle-miss"
                | Some ReBad => ExprErr
                | Some _ => PyErr TypeError
                end
            end
        | _ => PyErr TypeError
        end
    end.

  Definition fn_extract (args : list value) : outcome :=
    match text_pattern args with
    | None => ExprErr
    | Some (t, p) =>
        match p with
        | VStr ps =>
            match t with
            | VStr ts =>
                match re_search E ps ts with
                | None => Unmodelled "regex-oracle-miss"
                | Some ReBad => ExprErr
                | Some ReNoMatch => Val (VStr "")
                | Some (ReMatch O _) => Val (VStr "")
                | Some (ReMatch (S _) (Some g)) => Val (VStr g)
                | Some (ReMatch (S _) None) => Val VNone
                end
            | _ =>
                match re_search E ps "" with
                | None => Unmodelled "regex-oracle-miss"
                | Some ReBad => ExprErr
                | Some _ => PyErr TypeError
                end
            end
        | _ => PyErr TypeError
        end
    end.

  (* fuzzy(): sliding window of the pattern's length over the text, SequenceMatcher ratio >= threshold *)
  Definition ratio_ge (a b : string) (thr : value) : outcome :=
    match fuzzy_ratio E a b with
    | None => Unmodelled "fuzzy-oracle-miss"
    | Some q => match num_view thr with
                | Some n => vbool (Qle_bool (num_q n) q)
                | None => PyErr TypeError
                end
    end.
  Fixpoint fuzzy_windows (n : nat) (k : nat) (tl : list string) (pu : string) (thr : value) : outcome :=
    match n with
    | O => vbool false
    | S n' =>
        match ratio_ge (sconcat (firstn k tl)) pu thr with
        | Val (VBool true) => vbool true
        | Val (VBool false) => fuzzy_windows n' k (List.tl tl) pu thr
        | o => o
        end
    end.
  Definition is_number (v : value) : bool := match num_view v with Some _ => true | None => false end.
  Definition fn_fuzzy (args : list value) : outcome :=
    let half := VFloat (4 # 5)%Q in
    let go (t p thr : value) : outcome :=
      match t with
      | VStr ts =>
          match p with
          | VStr ps =>
              let tu := upper ts in let pu := upper ps in
              let tl := cps tu in let k := length (cps pu) in
              if Nat.ltb (length tl) k then ratio_ge tu pu thr
              else fuzzy_windows (length tl - k + 1) k tl pu thr
          | _ => PyErr AttributeError
          end
      | _ => PyErr AttributeError
      end in
    match args with
    | [p] => go desc p half
    | [a; b] => if is_number b then go desc a b else go a b half
    | [t; p; thr] => go t p thr
    | _ => ExprErr
    end.

  Definition fn_split (args : list value) : outcome :=
    let go (t d i : value) : outcome :=
      match int_of i with
      | None => ExprErr
      | Some n =>
          match t with
          | VStr ts =>
              let parts := match d with
                           | VStr "" => inr (PyErr ValueError)
                           | VStr ds => inl (split_on ds ts)
                           | VNone => inl (split_ws ts)
                           | _ => inr (PyErr TypeError)
                           end in
              match parts with
              | inr o => o
              | inl ps => if ((0 <=? n) && (n <? Z.of_nat (length ps)))%Z
                          then Val (VStr (strip (nth (Z.to_nat n) ps ""))) else Val (VStr "")
              end
          | _ => PyErr AttributeError
          end
      end in
    match args with
    | [d; i] => go desc d i
    | [t; d; i] => go t d i
    | _ => ExprErr
    end.

  Definition fn_substring (args : list value) : outcome :=
    let go (t a b : value) : outcome :=
      match int_of a, int_of b with
      | Some x, Some y =>
          match t with
          | VStr s => Val (VStr (slice_str s x y))
          | VList l => Val (VList (slice_list l x y))
          | VDict _ => PyErr KeyError                 (* 3.12: slice objects are hashable *)
          | _ => PyErr TypeError
          end
      | _, _ => ExprErr
      end in
    match args with
    | [a; b] => go desc a b
    | [t; a; b] => go t a b
    | _ => ExprErr
    end.

  Definition fn_trim (args : list value) : outcome :=
    match args with
    | [] => Val (VStr (strip (t_description (e_txn E))))
    | [v] => with_str v (fun s => Val (VStr (strip s)))
    | _ => ExprErr
    end.

  Definition fn_regex_replace (args : list value) : outcome :=
    match args with
    | [t; p; r] =>
        with_str t (fun ts => with_str p (fun ps => with_str r (fun rs =>
          match re_sub E ps rs ts with
          | None => Unmodelled "regex-oracle-miss"
          | Some None => PyErr ReError
          | Some (Some s) => Val (VStr s)
          end)))
    | _ => ExprErr
    end.

  Definition fn_uppercase (args : list value) : outcome :=
    match args with [v] => with_str v (fun s => Val (VStr (upper s))) | _ => ExprErr end.
  Definition fn_lowercase (args : list value) : outcome :=
    match args with [v] => with_str v (fun s => Val (VStr (lower s))) | _ => ExprErr end.

  Definition strip_prefix_str (t p : string) : string :=
    if is_prefix (upper p) (upper t) then sconcat (skipn (cp_len p) (cps t)) else t.
  (* text[:len(text) - len(suffix)] *)
  Definition strip_suffix_str (t s : string) : string :=
    if is_suffix (upper s) (upper t) then slice_str t 0 (Z.of_nat (cp_len t) - Z.of_nat (cp_len s)) else t.
  Definition fn_strip_prefix (args : list value) : outcome :=
    match args with
    | [t; p] => with_str t (fun ts => with_str p (fun ps => Val (VStr (strip_prefix_str ts ps))))
    | _ => ExprErr
    end.
  Definition fn_strip_suffix (args : list value) : outcome :=
    match args with
    | [t; p] => with_str t (fun ts => with_str p (fun ps => Val (VStr (strip_suffix_str ts ps))))
    | _ => ExprErr
    end.

  (* builtins abs / round reached through get_function *)
  Definition fn_abs (args : list value) : outcome :=
    match args with
    | [v] => match v with
             | VBool b => Val (VInt (if b then 1 else 0))
             | VInt z => Val (VInt (Z.abs z))
             | VFloat q => Val (VFloat (Qred (Qabs q)))
             | VTd d => Val (VTd (Z.abs d))
             | _ => PyErr TypeError
             end
    | _ => PyErr TypeError
    end.
  (* round half to even *)
  Definition round_half_even (q : Q) : Z :=
    let f := Qfloor q in
    let r := (q - inject_Z f)%Q in
    match Qcompare r (1 # 2)%Q with
    | Datatypes.Lt => f
    | Datatypes.Gt => (f + 1)%Z
    | Datatypes.Eq => if Z.even f then f else (f + 1)%Z
    end.
  Definition round1 (v : value) : outcome :=
    match v with
    | VBool b => Val (VInt (if b then 1 else 0))
    | VInt z => Val (VInt z)
    | VFloat q => Val (VInt (round_half_even q))
    | _ => PyErr TypeError
    end.
  Definition fn_round (args : list value) : outcome :=
    match args with
    | [v] => round1 v
    | [v; VNone] => round1 v
    | [v; _] => match num_view v with Some _ => Unmodelled "round-ndigits" | None => PyErr TypeError end
    | _ => PyErr TypeError
    end.

  (* TransactionContext.get_function + call; None = unknown function *)
  Definition ctx_function (name : string) : option (list value -> outcome) :=
    if String.eqb name "abs" then Some fn_abs
    else if String.eqb name "round" then Some fn_round
    else if String.eqb name "contains" then Some fn_contains
    else if String.eqb name "regex" then Some fn_regex
    else if String.eqb name "normalized" then Some fn_normalized
    else if String.eqb name "anyof" then Some fn_anyof
    else if String.eqb name "startswith" then Some fn_startswith
    else if String.eqb name "fuzzy" then Some fn_fuzzy
    else if String.eqb name "extract" then Some fn_extract
    else if String.eqb name "split" then Some fn_split
    else if String.eqb name "substring" then Some fn_substring
    else if String.eqb name "trim" then Some fn_trim
    else if String.eqb name "regex_replace" then Some fn_regex_replace
    else if String.eqb name "uppercase" then Some fn_uppercase
    else if String.eqb name "lowercase" then Some fn_lowercase
    else if String.eqb name "strip_prefix" then Some fn_strip_prefix
    else if String.eqb name "strip_suffix" then Some fn_strip_suffix
    else None.
End Fns.

(* ---------- consumers of iterables: any / all / sum / min / max / next / list building ---------- *)
Inductive sres (A : Type) := SCont (a : A) | SStop (a : A) | SFail (o : outcome).
Arguments SCont {A}. Arguments SStop {A}. Arguments SFail {A}.

Definition step_list (acc : list value) (v : value) : sres (list value) := SCont (v :: acc).   (* reversed *)
Definition step_any (acc : bool) (v : value) : sres bool := if truthy v then SStop true else SCont false.
Definition step_all (acc : bool) (v : value) : sres bool := if truthy v then SCont true else SStop false.
Definition step_sum (acc : value) (v : value) : sres value :=
  match binop_apply Add acc v with Val r => SCont r | o => SFail o end.
Definition step_next (acc : option value) (v : value) : sres (option value) := SStop (Some v).
(* min keeps the first smallest (replace when item < current), max the first largest (item > current) *)
Definition step_minmax (is_max : bool) (acc : option value) (v : value) : sres (option value) :=
  match acc with
  | None => SCont (Some v)
  | Some c =>
      if has_gen v || has_gen c then SFail (Unmodelled "compare-generator") else
      match py_order v c with
      | None => SFail (PyErr TypeError)
      | Some o => if (if is_max then match o with Datatypes.Gt => true | _ => false end
                                else match o with Datatypes.Lt => true | _ => false end)
                  then SCont (Some v) else SCont (Some c)
      end
  end.

(* feed a finished list of items to a consumer *)
Fixpoint feed {A} (step : A -> value -> sres A) (acc : A) (items : list value) : sres A :=
  match items with
  | [] => SCont acc
  | x :: r => match step acc x with SCont a => feed step a r | o => o end
  end.
