(* Expr/Check.v — glue for generated cases files (harness/expr_common.py): decidable comparison of
   outcomes, oracle tables as association lists, environment constructor.  No tally semantics here. *)
From Coq Require Import String Ascii List Bool ZArith QArith NArith.
From Tally Require Import Lib.Str Expr.StrOps Expr.Date Expr.Syntax Expr.Funcs Expr.Eval.
Import ListNotations.
Open Scope string_scope.

Definition sbytes (l : list N) : string := fold_right (fun n s => String (ascii_of_N n) s) EmptyString l.

Fixpoint value_eqb (a b : value) : bool :=
  match a, b with
  | VNone, VNone => true
  | VBool x, VBool y => Bool.eqb x y
  | VInt x, VInt y => (x =? y)%Z
  | VFloat x, VFloat y => Qeq_bool x y
  | VStr x, VStr y => String.eqb x y
  | VDate x, VDate y => (x =? y)%Z
  | VTd x, VTd y => (x =? y)%Z
  | VList x, VList y =>
      (fix go (x y : list value) : bool :=
         match x, y with [], [] => true | p :: x', q :: y' => value_eqb p q && go x' y' | _, _ => false end) x y
  | VDict x, VDict y =>
      (fix go (x y : list (string * value)) : bool :=
         match x, y with
         | [], [] => true
         | (k, p) :: x', (k', q) :: y' => String.eqb k k' && value_eqb p q && go x' y'
         | _, _ => false
         end) x y
  | VGen, VGen => true
  | _, _ => false
  end.

Definition pyerr_eqb (a b : pyerr) : bool :=
  match a, b with
  | TypeError, TypeError | AttributeError, AttributeError | ValueError, ValueError | KeyError, KeyError
  | IndexError, IndexError | StopIteration, StopIteration | ZeroDivisionError, ZeroDivisionError
  | OverflowError, OverflowError | RuntimeError, RuntimeError | ReError, ReError | OtherError, OtherError => true
  | _, _ => false
  end.

(* 0 = agree, 1 = disagree, 2 = model says Unmodelled (not compared) *)
Definition outcome_cmp (model impl : outcome) : nat :=
  match model, impl with
  | Unmodelled _, _ => 2
  | Val a, Val b => if value_eqb a b then 0 else 1
  | ExprErr, ExprErr => 0
  | PyErr a, PyErr b => if pyerr_eqb a b then 0 else 1
  | _, _ => 1
  end%nat.

(* oracle tables *)
(* an entry whose result is ReBad (the pattern does not compile) answers for every text *)
Definition is_bad (r : re_result) : bool := match r with ReBad => true | _ => false end.
Definition tbl_search (t : list (string * string * re_result)) (p s : string) : option re_result :=
  match find (fun e => String.eqb (fst (fst e)) p && (is_bad (snd e) || String.eqb (snd (fst e)) s)) t with
  | Some e => Some (snd e) | None => None end.
Definition tbl_sub (t : list (string * string * string * option string)) (p r s : string) : option (option string) :=
  match find (fun e => String.eqb (fst (fst (fst e))) p && String.eqb (snd (fst (fst e))) r && String.eqb (snd (fst e)) s) t with
  | Some e => Some (snd e) | None => None end.
Definition tbl_ratio (t : list (string * string * Q)) (a b : string) : option Q :=
  match find (fun e => String.eqb (fst (fst e)) a && String.eqb (snd (fst e)) b) t with
  | Some e => Some (snd e) | None => None end.

Definition mk_txn desc amount date field source location : txn :=
  {| t_description := desc; t_amount := amount; t_date := date; t_field := field; t_source := source;
     t_location := location |}.
Definition mk_env t vars ds ts tsub tr : env :=
  {| e_txn := t; e_vars := vars; e_ds := ds; re_search := tbl_search ts; re_sub := tbl_sub tsub;
     fuzzy_ratio := tbl_ratio tr |}.

Definition case := (env * parsed * outcome)%type.
Definition run_case (c : case) : nat := let '(E, p, expected) := c in outcome_cmp (eval_top E p) expected.
Definition reason_of (c : case) : string :=
  let '(E, p, _) := c in match eval_top E p with Unmodelled r => r | _ => "" end.

Fixpoint failing (i : nat) (l : list case) : list nat :=
  match l with
  | [] => []
  | c :: r => if Nat.eqb (run_case c) 1 then i :: failing (S i) r else failing (S i) r
  end.
Fixpoint skipped (i : nat) (l : list case) : list (nat * string) :=
  match l with
  | [] => []
  | c :: r => if Nat.eqb (run_case c) 2 then (i, reason_of c) :: skipped (S i) r else skipped (S i) r
  end.
