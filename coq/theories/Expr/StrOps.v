(* Expr/StrOps.v — string operations of Python's str needed by tally's expression evaluator, over
   Coq [string] = UTF-8 bytes.  Length / slicing / indexing / iteration work on code points (a code
   point = one lead byte followed by its continuation bytes 10xxxxxx); substring, prefix, case and
   ordering work on bytes, which is the same thing for valid UTF-8.  Case mapping is ASCII (Lib/Str).
   Library model, not tally code. *)
From Coq Require Import String Ascii List Bool NArith ZArith Arith Lia.
From Tally Require Import Lib.Str.
Import ListNotations.
Open Scope string_scope.

(* ---------- basic ---------- *)
Fixpoint is_prefix (p s : string) : bool :=
  match p, s with
  | EmptyString, _ => true
  | String a p', String b s' => if Ascii.eqb a b then is_prefix p' s' else false
  | String _ _, EmptyString => false
  end.

Fixpoint is_infix (p s : string) : bool :=
  match s with
  | EmptyString => is_prefix p EmptyString
  | String _ r => is_prefix p s || is_infix p r
  end.

Fixpoint srev_acc (s acc : string) : string :=
  match s with EmptyString => acc | String c r => srev_acc r (String c acc) end.
Definition srev (s : string) : string := srev_acc s EmptyString.
Definition is_suffix (p s : string) : bool := is_prefix (srev p) (srev s).

Fixpoint sdrop (n : nat) (s : string) : string :=
  match n, s with O, _ => s | S k, String _ r => sdrop k r | S _, EmptyString => EmptyString end.
Fixpoint stake (n : nat) (s : string) : string :=
  match n, s with O, _ => EmptyString | S k, String c r => String c (stake k r) | S _, EmptyString => EmptyString end.

Definition sconcat (l : list string) : string := fold_right append EmptyString l.

Fixpoint sfilter (f : ascii -> bool) (s : string) : string :=
  match s with EmptyString => EmptyString | String c r => if f c then String c (sfilter f r) else sfilter f r end.

(* ---------- code points ---------- *)
Definition is_cont (c : ascii) : bool := let n := N_of_ascii c in (N.leb 128 n && N.leb n 191)%bool.
(* split into code points: a byte that is not a continuation byte starts a new one *)
Fixpoint cps (s : string) : list string :=
  match s with
  | EmptyString => []
  | String c r =>
      match cps r with
      | [] => [String c EmptyString]
      | x :: xs =>
          match r with
          | String c2 _ => if is_cont c2 then (String c x) :: xs else String c EmptyString :: x :: xs
          | EmptyString => [String c EmptyString]
          end
      end
  end.
Definition cp_len (s : string) : nat := length (cps s).

(* ---------- whitespace: the code points of str.isspace (= regex \s in str patterns), as UTF-8 bytes ----------
   CPython 3.12: 29 code points.  C04/Props.v proves this table equal to the one regenerated from the
   interpreter under test on every run (Gen/C04Whitespace.v). *)
Definition bytes (l : list N) : string := fold_right (fun n s => String (ascii_of_N n) s) EmptyString l.
Definition ws_bytes : list (list N) :=
  [[9]; [10]; [11]; [12]; [13]; [28]; [29]; [30]; [31]; [32]; [194; 133]; [194; 160]; [225; 154; 128];
   [226; 128; 128]; [226; 128; 129]; [226; 128; 130]; [226; 128; 131]; [226; 128; 132]; [226; 128; 133];
   [226; 128; 134]; [226; 128; 135]; [226; 128; 136]; [226; 128; 137]; [226; 128; 138]; [226; 128; 168];
   [226; 128; 169]; [226; 128; 175]; [226; 129; 159]; [227; 128; 128]]%N.
Definition ws_codepoints : list string := map bytes ws_bytes.
(* one code point (a chunk of [cps]) is a blank *)
Definition is_space_cp (c : string) : bool := mem c ws_codepoints.

Fixpoint dropwhile {A} (f : A -> bool) (l : list A) : list A :=
  match l with [] => [] | x :: r => if f x then dropwhile f r else l end.
(* str.strip(): leading and trailing blanks, by code point *)
Definition lstrip_cps (l : list string) : list string := dropwhile is_space_cp l.
Definition strip_cps (l : list string) : list string := rev (dropwhile is_space_cp (rev (dropwhile is_space_cp l))).
Definition lstrip (s : string) : string := sconcat (lstrip_cps (cps s)).
Definition strip (s : string) : string := sconcat (strip_cps (cps s)).

(* str.split() / split(None): runs of blanks separate, no empty pieces *)
Fixpoint split_ws_go (l : list string) (cur : list string) : list string :=
  match l with
  | [] => match cur with [] => [] | _ => [sconcat (rev cur)] end
  | c :: r => if is_space_cp c
              then match cur with [] => split_ws_go r [] | _ => sconcat (rev cur) :: split_ws_go r [] end
              else split_ws_go r (c :: cur)
  end.
Definition split_ws (s : string) : list string := split_ws_go (cps s) [].

(* ---------- Python slice [start:stop] (step 1) on lists ---------- *)
Definition clamp_index (len i : Z) : Z :=
  let j := if (i <? 0)%Z then (i + len)%Z else i in
  if (j <? 0)%Z then 0%Z else if (len <? j)%Z then len else j.
Definition slice_list {A} (l : list A) (start stop : Z) : list A :=
  let len := Z.of_nat (length l) in
  let a := clamp_index len start in
  let b := clamp_index len stop in
  if (b <=? a)%Z then [] else firstn (Z.to_nat (b - a)) (skipn (Z.to_nat a) l).
Definition slice_str (s : string) (start stop : Z) : string := sconcat (slice_list (cps s) start stop).
(* Python index: negative wraps once; None = IndexError *)
Definition index_list {A} (l : list A) (i : Z) : option A :=
  let len := Z.of_nat (length l) in
  let j := if (i <? 0)%Z then (i + len)%Z else i in
  if ((j <? 0) || (len <=? j))%Z then None else nth_error l (Z.to_nat j).

(* ---------- split / replace ---------- *)
(* str.split(sep), sep non-empty: leftmost non-overlapping occurrences *)
Fixpoint split_go (sep : string) (s : string) (skip : nat) (cur : string) : list string :=
  match s with
  | EmptyString => [srev cur]
  | String c r =>
      match skip with
      | S k => split_go sep r k cur
      | O => if is_prefix sep s then srev cur :: split_go sep r (String.length sep - 1) EmptyString
             else split_go sep r O (String c cur)
      end
  end.
Definition split_on (sep s : string) : list string := split_go sep s O EmptyString.

(* str.replace(old, new), old non-empty *)
Fixpoint replace_go (old new : string) (s : string) (skip : nat) : string :=
  match s with
  | EmptyString => EmptyString
  | String c r =>
      match skip with
      | S k => replace_go old new r k
      | O => if is_prefix old s then new ++ replace_go old new r (String.length old - 1)
             else String c (replace_go old new r O)
      end
  end.
(* old = "": new is inserted before every code point and at the end *)
Definition replace (old new s : string) : string :=
  match old with
  | EmptyString => sconcat (map (fun c => new ++ c) (cps s)) ++ new
  | _ => replace_go old new s O
  end.

(* ---------- decimal rendering of integers (str(int)) ---------- *)
Definition digit_char (d : Z) : ascii := ascii_of_N (Z.to_N (48 + d)).
Fixpoint pos_digits (fuel : nat) (z : Z) (acc : string) : string :=
  match fuel with
  | O => acc
  | S k => let acc' := String (digit_char (z mod 10)) acc in
           if (z / 10 =? 0)%Z then acc' else pos_digits k (z / 10)%Z acc'
  end.
Definition string_of_Z (z : Z) : string :=
  let a := Z.abs z in
  let body := pos_digits (S (Z.to_nat (Z.log2 a))) a EmptyString in
  if (z <? 0)%Z then String "-" body else body.
(* zero-padded to width w (for dates) *)
Fixpoint pad_digits (w : nat) (z : Z) (acc : string) : string :=
  match w with O => acc | S k => pad_digits k (z / 10)%Z (String (digit_char (z mod 10)) acc) end.

Definition is_digit (c : ascii) : bool := let n := N_of_ascii c in (N.leb 48 n && N.leb n 57)%bool.
Definition digit_val (c : ascii) : Z := Z.of_N (N_of_ascii c) - 48.
Fixpoint all_digits (s : string) : bool :=
  match s with EmptyString => true | String c r => is_digit c && all_digits r end.
Fixpoint digits_val (s : string) (acc : Z) : Z :=
  match s with EmptyString => acc | String c r => digits_val r (acc * 10 + digit_val c)%Z end.

(* ---------- lemmas ---------- *)
Lemma is_prefix_spec p s : is_prefix p s = true <-> exists r, s = p ++ r.
Proof.
  revert s. induction p as [|a p IH]; intros s; simpl.
  - split; [intros _; exists s; reflexivity|reflexivity].
  - destruct s as [|b s]; [split; [discriminate|intros [r H]; discriminate]|].
    destruct (Ascii.eqb_spec a b) as [->|Hne].
    + rewrite IH. split; intros [r H]; exists r; [now rewrite H|now inversion H].
    + split; [discriminate|intros [r H]; inversion H; congruence].
Qed.

Lemma is_infix_spec p s : is_infix p s = true <-> exists a b, s = a ++ p ++ b.
Proof.
  induction s as [|c s IH]; simpl.
  - rewrite is_prefix_spec. split.
    + intros [r H]. exists EmptyString, r. exact H.
    + intros [a [b H]]. destruct a; simpl in H; [exists b; exact H|discriminate].
  - rewrite orb_true_iff, IH, is_prefix_spec. split.
    + intros [[r H]|[a [b H]]]; [exists EmptyString, r; exact H|exists (String c a), b; simpl; now rewrite H].
    + intros [a [b H]]. destruct a as [|c' a]; simpl in H.
      * left. exists b. exact H.
      * right. inversion H. exists a, b. reflexivity.
Qed.

Lemma smap_length f s : String.length (smap f s) = String.length s.
Proof. induction s; simpl; congruence. Qed.

Lemma smap_app f a b : smap f (a ++ b) = smap f a ++ smap f b.
Proof. induction a; simpl; congruence. Qed.

Lemma upper_char_idem c : upper_char (upper_char c) = upper_char c.
Proof.
  unfold upper_char. destruct (is_lower_ascii c) eqn:E; [|now rewrite E].
  unfold is_lower_ascii in *. rewrite N_ascii_embedding.
  - destruct (N.leb_spec 97 (N_of_ascii c - 32)); simpl; [|reflexivity].
    apply andb_true_iff in E. destruct E as [E1 E2]. apply N.leb_le in E1, E2.
    destruct (N.leb_spec (N_of_ascii c - 32) 122); [lia|reflexivity].
  - apply andb_true_iff in E. destruct E as [E1 E2]. apply N.leb_le in E1, E2. lia.
Qed.

Lemma lower_char_idem c : lower_char (lower_char c) = lower_char c.
Proof.
  unfold lower_char. destruct (is_upper_ascii c) eqn:E; [|now rewrite E].
  unfold is_upper_ascii in *. apply andb_true_iff in E. destruct E as [E1 E2]. apply N.leb_le in E1, E2.
  rewrite N_ascii_embedding by lia.
  destruct (N.leb_spec 65 (N_of_ascii c + 32)); simpl; [|reflexivity].
  destruct (N.leb_spec (N_of_ascii c + 32) 90); [lia|reflexivity].
Qed.

(* upper(lower c) = upper c and lower(upper c) = lower c: case folding either way forgets the same thing *)
Lemma upper_lower_char c : upper_char (lower_char c) = upper_char c.
Proof.
  unfold lower_char. destruct (is_upper_ascii c) eqn:E; [|reflexivity].
  unfold is_upper_ascii in E. apply andb_true_iff in E. destruct E as [E1 E2]. apply N.leb_le in E1, E2.
  unfold upper_char, is_lower_ascii. rewrite N_ascii_embedding by lia.
  destruct (N.leb_spec 97 (N_of_ascii c + 32)); [|lia].
  destruct (N.leb_spec (N_of_ascii c + 32) 122); [|lia]. simpl.
  destruct (N.leb_spec 97 (N_of_ascii c)); simpl.
  - lia.
  - replace (N_of_ascii c + 32 - 32)%N with (N_of_ascii c) by lia. apply ascii_N_embedding.
Qed.

Lemma lower_upper_char c : lower_char (upper_char c) = lower_char c.
Proof.
  unfold upper_char. destruct (is_lower_ascii c) eqn:E; [|reflexivity].
  unfold is_lower_ascii in E. apply andb_true_iff in E. destruct E as [E1 E2]. apply N.leb_le in E1, E2.
  unfold lower_char, is_upper_ascii. rewrite N_ascii_embedding by lia.
  destruct (N.leb_spec 65 (N_of_ascii c - 32)); [|lia].
  destruct (N.leb_spec (N_of_ascii c - 32) 90); [|lia]. simpl.
  destruct (N.leb_spec 65 (N_of_ascii c)); simpl.
  - destruct (N.leb_spec (N_of_ascii c) 90); [lia|]. simpl.
    replace (N_of_ascii c - 32 + 32)%N with (N_of_ascii c) by lia. apply ascii_N_embedding.
  - lia.
Qed.

Lemma upper_idem s : upper (upper s) = upper s.
Proof. unfold upper. induction s; simpl; [reflexivity|now rewrite upper_char_idem, IHs]. Qed.
Lemma lower_idem s : lower (lower s) = lower s.
Proof. unfold lower. induction s; simpl; [reflexivity|now rewrite lower_char_idem, IHs]. Qed.
Lemma upper_lower s : upper (lower s) = upper s.
Proof. unfold upper, lower. induction s; simpl; [reflexivity|now rewrite upper_lower_char, IHs]. Qed.
Lemma lower_upper s : lower (upper s) = lower s.
Proof. unfold upper, lower. induction s; simpl; [reflexivity|now rewrite lower_upper_char, IHs]. Qed.
Lemma upper_app a b : upper (a ++ b) = upper a ++ upper b.
Proof. apply smap_app. Qed.

(* two strings have the same upper-casing iff they have the same lower-casing *)
Lemma upper_eq_iff_lower_eq a b : upper a = upper b <-> lower a = lower b.
Proof.
  split; intros H.
  - rewrite <- (lower_upper a), <- (lower_upper b). now rewrite H.
  - rewrite <- (upper_lower a), <- (upper_lower b). now rewrite H.
Qed.
