(* C16/Proofs.v *)
From Coq Require Import String List Bool Arith.
From Tally Require Import Lib.Str C11.Model C11.Proofs C16.Model.
Import ListNotations.
Open Scope nat_scope.
Open Scope list_scope.

(* ================================================================== Part 1: the pipelines *)
Section Pipelines.
  Variables Settings Content Row Txn Rules SuppRow D Info : Type.
  Variable parse_source : Settings -> Content -> option (list Row).
  Variable load_supp : Settings -> Content -> option (list SuppRow).
  Variable classify : Rules -> mode -> supp_data SuppRow -> string -> Row -> Txn.
  Variable is_unknown : Txn -> bool.
  Variable group : list Txn -> D.
  Variable summarize : string -> list Txn -> option Info.
  Notation source := (source Settings Content).

  Lemma inert_supp_entry (s : source) : supp_inert s = true -> supp_entry load_supp s = [].
  Proof.
    unfold supp_inert, supp_entry. destruct (s_supp s); cbn [negb orb]; [|reflexivity].
    destruct (String.eqb (s_name s) ""); [reflexivity|].
    destruct (s_state s); cbn [orb]; try reflexivity.
    destruct (s_generic s); cbn [negb]; [discriminate|reflexivity].
  Qed.

  Lemma inert_contribution R m supp (s : source) :
    supp_inert s = true ->
    contribution parse_source classify R m supp s = map (classify R m supp (s_name s)) (rows_any parse_source s).
  Proof.
    unfold supp_inert, contribution, rows_of, rows_any, read_source. intros H. f_equal.
    destruct (s_supp s); cbn [negb orb] in H; [|reflexivity].
    destruct (s_state s); cbn [orb] in H; try reflexivity.
    - destruct (s_generic s); cbn [negb] in H; [discriminate|reflexivity].
    - now destruct (s_generic s).
  Qed.

  Lemma inert_supp_of (ss : list source) : forallb supp_inert ss = true -> supp_of load_supp ss = [].
  Proof.
    induction ss as [|s ss IH]; [reflexivity|]. cbn [forallb]. intros H. apply andb_prop in H. destruct H as [H1 H2].
    unfold supp_of. cbn [flat_map]. rewrite (inert_supp_entry s H1). cbn [app]. apply IH, H2.
  Qed.

  Lemma same_txns (b : C11.Model.budget Settings Content Rules unit) :
    no_live_supp b = true -> cmd_txns parse_source classify b = up_txns parse_source load_supp classify b.
  Proof.
    unfold no_live_supp, cmd_txns, up_txns. intros H. rewrite (inert_supp_of _ H).
    induction (b_sources b) as [|s ss IH]; [reflexivity|].
    cbn [forallb] in H. apply andb_prop in H. destruct H as [H1 H2].
    cbn [flat_map]. rewrite (inert_contribution _ _ _ s H1), (IH H2). reflexivity.
  Qed.

  Lemma discover_partial (b : C11.Model.budget Settings Content Rules unit) :
    no_live_supp b = true ->
    discover parse_source classify is_unknown group b = up_unknowns parse_source load_supp classify is_unknown group b.
  Proof. intros H. unfold discover, up_unknowns. now rewrite (same_txns b H). Qed.

  Lemma explain_merchant_partial (b : C11.Model.budget Settings Content Rules unit) m :
    no_live_supp b = true ->
    explain_merchant parse_source classify summarize b m = up_merchant parse_source load_supp classify summarize b m.
  Proof. intros H. unfold explain_merchant, up_merchant. now rewrite (same_txns b H). Qed.
End Pipelines.

(* full-strength statements, over all stage functions *)
Definition discover_statement : Prop :=
  forall (Settings Content Row Txn Rules SuppRow D : Type)
         (parse_source : Settings -> Content -> option (list Row))
         (load_supp : Settings -> Content -> option (list SuppRow))
         (classify : Rules -> mode -> supp_data SuppRow -> string -> Row -> Txn)
         (is_unknown : Txn -> bool) (group : list Txn -> D)
         (b : C11.Model.budget Settings Content Rules unit),
    discover parse_source classify is_unknown group b = up_unknowns parse_source load_supp classify is_unknown group b.

Definition explain_merchant_statement : Prop :=
  forall (Settings Content Row Txn Rules SuppRow Info : Type)
         (parse_source : Settings -> Content -> option (list Row))
         (load_supp : Settings -> Content -> option (list SuppRow))
         (classify : Rules -> mode -> supp_data SuppRow -> string -> Row -> Txn)
         (summarize : string -> list Txn -> option Info)
         (b : C11.Model.budget Settings Content Rules unit) (m : string),
    up_merchant parse_source load_supp classify summarize b m <> None ->
    explain_merchant parse_source classify summarize b m = up_merchant parse_source load_supp classify summarize b m.

(* witness stages: a row is a number; settings say whether the transaction parser can read the file;
   a transaction is (source, row, categorised?) and a row is categorised iff the rule that queries the
   supplemental data finds it there *)
Definition w_parse (readable : bool) (c : list nat) : option (list nat) := if readable then Some c else None.
Definition w_supp (readable : bool) (c : list nat) : option (list nat) := Some c.
Definition w_classify (R : unit) (m : mode) (sd : supp_data nat) (n : string) (r : nat) : string * nat * bool :=
  (n, r, existsb (fun e => existsb (Nat.eqb r) (snd e)) sd).
Definition w_unknown (t : string * nat * bool) : bool := negb (snd t).
Definition w_src n sp readable c : source bool (list nat) := mkSource n sp true readable Present c.
(* F16a: the rows of a supplemental source are listed as unknown transactions *)
Definition w_budget_a : C11.Model.budget bool (list nat) unit unit :=
  mkBudget [w_src "Card" false true [5]; w_src "Orders" true true [7]] tt FirstMatch None.
(* F16b: no supplemental data is passed: a row that `up` categorises through a cross-source rule stays Unknown *)
Definition w_budget_b : C11.Model.budget bool (list nat) unit unit :=
  mkBudget [w_src "Card" false true [5; 6]; w_src "Orders" true false [5]] tt FirstMatch None.

Lemma witness_a :
  discover w_parse w_classify w_unknown (fun l => l) w_budget_a = [("Card", 5, false); ("Orders", 7, false)]%string /\
  up_unknowns w_parse w_supp w_classify w_unknown (fun l => l) w_budget_a = [("Card", 5, false)]%string.
Proof. vm_compute. split; reflexivity. Qed.
Lemma witness_b :
  discover w_parse w_classify w_unknown (fun l => l) w_budget_b = [("Card", 5, false); ("Card", 6, false)]%string /\
  up_unknowns w_parse w_supp w_classify w_unknown (fun l => l) w_budget_b = [("Card", 6, false)]%string.
Proof. vm_compute. split; reflexivity. Qed.

Lemma discover_refuted : ~ discover_statement.
Proof.
  intros H. specialize (H bool (list nat) nat _ unit nat _ w_parse w_supp w_classify w_unknown (fun l => l) w_budget_a).
  destruct witness_a as [A B]. rewrite A, B in H. discriminate.
Qed.

Definition w_summ (m : string) (l : list (string * nat * bool)) : option (nat * bool) :=
  match filter (fun t => String.eqb (fst (fst t)) m) l with
  | [] => None
  | t :: r => Some (length (t :: r), snd t)     (* count, categorised? *)
  end.
Lemma explain_merchant_refuted : ~ explain_merchant_statement.
Proof.
  intros H. specialize (H bool (list nat) nat _ unit nat _ w_parse w_supp w_classify w_summ w_budget_b "Card"%string).
  vm_compute in H. assert (E : Some (2, false) = Some (2, true)) by (apply H; discriminate). discriminate.
Qed.

(* ================================================================== Part 2: one description *)
Section Describe.
  Variables X Ctx : Type.
  Variable ev_engine ev_legacy ev_explain : rule X -> Ctx -> option bool.
  Variable extract_name : Ctx -> string.
  Notation rule := (rule X).

  Lemma find_none_filter (p q : rule -> bool) (rules : list rule) :
    (forall r, In r rules -> p r = q r) -> find p rules = None -> filter q rules = [].
  Proof.
    induction rules as [|x t IH]; [reflexivity|]. intros Hpq Hf. cbn [find] in Hf. cbn [filter].
    rewrite <- (Hpq x (or_introl eq_refl)). destruct (p x); [discriminate|].
    apply IH; auto. intros r Hr. apply Hpq. now right.
  Qed.

  Lemma find_some_filter (p q cat : rule -> bool) (rules : list rule) r :
    (forall r, In r rules -> p r = q r) -> find p rules = Some r -> cat r = true ->
    exists t, filter cat (filter q rules) = r :: t.
  Proof.
    induction rules as [|x t IH]; [discriminate|]. intros Hpq Hf Hc. cbn [find] in Hf. cbn [filter].
    rewrite <- (Hpq x (or_introl eq_refl)). destruct (p x) eqn:Hpx.
    - inversion Hf; subst. cbn [filter]. rewrite Hc. eexists. reflexivity.
    - apply IH; auto. intros r' Hr. apply Hpq. now right.
  Qed.

  Lemma find_some_find (p q cat : rule -> bool) (rules : list rule) r :
    (forall r, In r rules -> p r = q r) -> find p rules = Some r -> cat r = true ->
    find (fun r => q r && cat r) rules = Some r.
  Proof.
    induction rules as [|x t IH]; [discriminate|]. intros Hpq Hf Hc. cbn [find] in *.
    rewrite <- (Hpq x (or_introl eq_refl)). destruct (p x) eqn:Hpx.
    - inversion Hf; subst. now rewrite Hc.
    - cbn [andb]. apply IH; auto. intros r' Hr. apply Hpq. now right.
  Qed.

  Lemma find_none_find (p q cat : rule -> bool) (rules : list rule) :
    (forall r, In r rules -> p r = q r) -> find p rules = None -> find (fun r => q r && cat r) rules = None.
  Proof.
    induction rules as [|x t IH]; [reflexivity|]. intros Hpq Hf. cbn [find] in *.
    rewrite <- (Hpq x (or_introl eq_refl)). destruct (p x); [discriminate|]. cbn [andb].
    apply IH; auto. intros r' Hr. apply Hpq. now right.
  Qed.

  Theorem explain_desc_partial k m (rules : list rule) c :
    explain_guard ev_engine ev_legacy ev_explain k m rules c = true ->
    explain_desc ev_explain extract_name rules c
    = up_classify ev_engine ev_legacy extract_name k m rules c.
  Proof.
    unfold explain_guard. intros G. apply andb_prop in G. destruct G as [G G3]. apply andb_prop in G. destruct G as [G1 G2].
    assert (Hpq : forall r, In r rules ->
                            is_true (ev_explain r c) = is_true (ev_up ev_engine ev_legacy k r c)).
    { intros r Hr. rewrite forallb_forall in G2. specialize (G2 r Hr). now apply eqb_prop in G2. }
    unfold explain_desc, up_classify.
    destruct (find (fun r => is_true (ev_explain r c)) rules) as [r|] eqn:Hf.
    - apply andb_prop in G3. destruct G3 as [Hcat Hm].
      destruct k.
      + destruct m; [|discriminate]. unfold engine_match.
        destruct (find_some_filter (fun r => is_true (ev_explain r c)) (fun r => is_true (ev_engine r c))
                                   (fun r => nonempty (r_cat r)) rules r Hpq Hf Hcat) as [t Ht].
        rewrite Ht. apply String.eqb_eq in Hm. now rewrite Hm.
      + unfold legacy_match.
        now rewrite (find_some_find (fun r => is_true (ev_explain r c)) (fun r => is_true (ev_legacy r c))
                                    (fun r => nonempty (r_cat r)) rules r Hpq Hf Hcat).
    - destruct k.
      + destruct m; [|discriminate]. unfold engine_match.
        now rewrite (find_none_filter (fun r => is_true (ev_explain r c)) (fun r => is_true (ev_engine r c)) rules Hpq Hf).
      + unfold legacy_match.
        now rewrite (find_none_find (fun r => is_true (ev_explain r c)) (fun r => is_true (ev_legacy r c))
                                    (fun r => nonempty (r_cat r)) rules Hpq Hf).
  Qed.
End Describe.

Definition explain_desc_statement : Prop :=
  forall (X Ctx : Type) (ev_engine ev_legacy ev_explain : rule X -> Ctx -> option bool) (extract_name : Ctx -> string)
         (k : kind) (m : mode) (rules : list (rule X)) (c : Ctx),
    explain_desc ev_explain extract_name rules c = up_classify ev_engine ev_legacy extract_name k m rules c.

(* witness oracles: every rule carries its three verdicts (engine, legacy loop, explain) for the one description *)
Definition V := (option bool * option bool * option bool)%type.
Definition w_eng (r : rule V) (_ : unit) := fst (fst (r_x r)).
Definition w_leg (r : rule V) (_ : unit) := snd (fst (r_x r)).
Definition w_exp (r : rule V) (_ : unit) := snd (r_x r).
Definition w_name (_ : unit) : string := "Mystery Shop".
Definition T3 : V := (Some true, Some true, Some true).
Definition w_run k m rules :=
  (explain_desc w_exp w_name rules tt, up_classify w_eng w_leg w_name k m rules tt).

(* (1) a tag-only rule in front: explain reports it, with an empty category *)
Definition w_rules_tagonly : list (rule V) :=
  [mkRule "Large" "Large" "amount > 100" "" "" (50, 0, 1, 0) T3;
   mkRule "Shop" "Shop" "contains(""SHOP"")" "Shopping" "Misc" (50, 1, 0, 4) T3]%string.
(* (2) most_specific: the later, more specific rule wins in `up`; explain stops at the first *)
Definition w_rules_mode : list (rule V) :=
  [mkRule "Netflix" "Netflix" "contains(""NETFLIX"")" "Subscriptions" "Streaming" (50, 1, 0, 7) T3;
   mkRule "Netflix Premium" "Netflix Premium" "contains(""NETFLIX"") and contains(""PREMIUM"")" "Subscriptions" "Premium" (50, 2, 0, 14) T3]%string.
(* (3) a rule using a global variable / let binding / supplemental source: explain's bare evaluation fails, rule skipped *)
Definition w_rules_var : list (rule V) :=
  [mkRule "Big Box" "Big Box" "is_big and contains(""BOX"")" "Shopping" "Bigbox" (50, 1, 0, 3) (Some true, None, None)]%string.
(* (4) merchant: property — explain reports the rule name *)
Definition w_rules_merchant : list (rule V) :=
  [mkRule "Fuel" "Gas Station" "anyof(""SHELL"")" "Transport" "Fuel" (50, 1, 0, 5) T3]%string.
(* (5) legacy CSV: a row with an empty category in front *)
Definition w_rules_csv : list (rule V) :=
  [mkRule "Mystery" "Mystery" "MYSTERY" "" "" (0, 0, 0, 0) T3;
   mkRule "Shop" "Shop" "SHOP" "Shopping" "Misc" (0, 0, 0, 0) T3]%string.

Lemma witness_tagonly :
  w_run KRules FirstMatch w_rules_tagonly
  = (("Large", "", "", Some "amount > 100"), ("Shop", "Shopping", "Misc", Some "contains(""SHOP"")"))%string.
Proof. vm_compute. reflexivity. Qed.
Lemma witness_mode :
  w_run KRules MostSpecific w_rules_mode
  = (("Netflix", "Subscriptions", "Streaming", Some "contains(""NETFLIX"")"),
     ("Netflix Premium", "Subscriptions", "Premium", Some "contains(""NETFLIX"") and contains(""PREMIUM"")"))%string.
Proof. vm_compute. reflexivity. Qed.
Lemma witness_var :
  w_run KRules FirstMatch w_rules_var
  = (("Mystery Shop", "Unknown", "Unknown", None), ("Big Box", "Shopping", "Bigbox", Some "is_big and contains(""BOX"")"))%string.
Proof. vm_compute. reflexivity. Qed.
Lemma witness_merchant :
  w_run KRules FirstMatch w_rules_merchant
  = (("Fuel", "Transport", "Fuel", Some "anyof(""SHELL"")"), ("Gas Station", "Transport", "Fuel", Some "anyof(""SHELL"")"))%string.
Proof. vm_compute. reflexivity. Qed.
Lemma witness_csv :
  w_run KCsv FirstMatch w_rules_csv
  = (("Mystery", "", "", Some "MYSTERY"), ("Shop", "Shopping", "Misc", Some "SHOP"))%string.
Proof. vm_compute. reflexivity. Qed.

Lemma explain_desc_refuted : ~ explain_desc_statement.
Proof.
  intros H. specialize (H V unit w_eng w_leg w_exp w_name KRules FirstMatch w_rules_tagonly tt).
  pose proof witness_tagonly as W. unfold w_run in W. rewrite H in W.
  injection W as A1 A2 A3 A4. discriminate A2.
Qed.
