(* C16/Model.v — the three load-and-parse pipelines AS WRITTEN, and the two rule-matching loops.

   Part 1 (pipelines, parametric in the stages like C11/Model.v):
     up        commands/run.py:88-134       skips supplemental sources, passes supplemental data to the rules
     explain   commands/explain.py:66-96    does NOT skip supplemental sources, passes NO supplemental data
     discover  commands/discover.py:65-97   same copy as explain; then filters category == 'Unknown' and groups
   Part 2 (one description + amount):
     up        normalize_merchant → cached MerchantEngine.match (first_match / most_specific, category guard,
               global variables, let bindings, supplemental data) or, for legacy CSV rules, the tuple loop with guard
     explain   merchant_utils.explain_description:785-838: its own first-match loop over the rule tuples —
               no category guard, reports the rule NAME, no variables / let / supplemental data / date,
               expression-or-regex guess per pattern, rule mode ignored.
   The per-rule tests are oracles (section variables); C01/C02/C04/C09 are about them. *)
From Coq Require Import String List Bool Arith.
From Tally Require Import Lib.Str C11.Model.
Import ListNotations.
Open Scope nat_scope.
Open Scope list_scope.

Section Pipelines.
  Variables Settings Content Row Txn Rules SuppRow D Info : Type.
  Variable parse_source : Settings -> Content -> option (list Row).
  Variable load_supp : Settings -> Content -> option (list SuppRow).
  Variable classify : Rules -> mode -> supp_data SuppRow -> string -> Row -> Txn.
  Variable is_unknown : Txn -> bool.                          (* category == 'Unknown' *)
  Variable group : list Txn -> D.                             (* discover: by raw description -> count, total *)
  Variable summarize : string -> list Txn -> option Info.     (* by_merchant[m]: merchant, category, subcategory, matched rule *)

  Notation source := (source Settings Content).

  Definition up_txns (b : C11.Model.budget Settings Content Rules unit) : list Txn :=
    flat_map (contribution parse_source classify (b_rules b) (b_mode b) (supp_of load_supp (b_sources b))) (b_sources b).

  (* the loop of cmd_explain / cmd_discover: every source with a usable format is parsed, data_sources omitted *)
  Definition rows_any (s : source) : list Row :=
    match s_state s with
    | Missing => []
    | _ => if s_generic s then match read_source parse_source s with Some r => r | None => [] end else []
    end.
  Definition cmd_txns (b : C11.Model.budget Settings Content Rules unit) : list Txn :=
    flat_map (fun s => map (classify (b_rules b) (b_mode b) [] (s_name s)) (rows_any s)) (b_sources b).

  Definition discover b : D := group (filter is_unknown (cmd_txns b)).
  Definition up_unknowns b : D := group (filter is_unknown (up_txns b)).
  Definition explain_merchant b (m : string) : option Info := summarize m (cmd_txns b).
  Definition up_merchant b (m : string) : option Info := summarize m (up_txns b).

  (* computable guard of the partial theorems: no supplemental source that is actually there *)
  Definition supp_inert (s : source) : bool :=
    negb (s_supp s) || match s_state s with Present => false | _ => true end || negb (s_generic s).
  Definition no_live_supp (b : C11.Model.budget Settings Content Rules unit) : bool := forallb supp_inert (b_sources b).
End Pipelines.

Arguments up_txns {Settings Content Row Txn Rules SuppRow}.
Arguments rows_any {Settings Content Row}.
Arguments cmd_txns {Settings Content Row Txn Rules SuppRow}.
Arguments discover {Settings Content Row Txn Rules SuppRow D}.
Arguments up_unknowns {Settings Content Row Txn Rules SuppRow D}.
Arguments explain_merchant {Settings Content Row Txn Rules SuppRow Info}.
Arguments up_merchant {Settings Content Row Txn Rules SuppRow Info}.
Arguments supp_inert {Settings Content}.
Arguments no_live_supp {Settings Content Rules}.

(* ------------------------------------------------------------------------------------------------ *)
Inductive kind := KRules | KCsv.   (* .rules file (cached engine)  |  legacy CSV / no rules file (tuple loop) *)

Section Describe.
  Variables X Ctx : Type.
  Record rule := mkRule {
    r_name : string;       (* [Name] / CSV Merchant column *)
    r_merchant : string;   (* merchant: property, defaults to the name (MerchantRule.__post_init__) *)
    r_expr : string;       (* match expression / CSV pattern *)
    r_cat : string; r_sub : string;              (* "" = not set; category "" = tag-only rule *)
    r_spec : nat * nat * nat * nat;              (* calculate_specificity *)
    r_x : X }.                                   (* whatever the oracles need (let bindings, tags, modifiers ...) *)

  Variable ev_engine : rule -> Ctx -> option bool.   (* MerchantEngine.match's test of one rule *)
  Variable ev_legacy : rule -> Ctx -> option bool.   (* normalize_merchant's legacy tuple test *)
  Variable ev_explain : rule -> Ctx -> option bool.  (* explain_description's test *)
  Variable extract_name : Ctx -> string.             (* extract_merchant_name of the (transformed) description *)

  Definition answer := (string * string * string * option string)%type. (* merchant, category, subcategory, rule *)
  Definition unknown (c : Ctx) : answer := (extract_name c, "Unknown", "Unknown", None)%string.
  Definition is_true (o : option bool) : bool := match o with Some true => true | _ => false end.
  Definition nonempty (s : string) : bool := negb (String.eqb s "").
  Definition of_rule (merchant : string) (r : rule) : answer := (merchant, r_cat r, r_sub r, Some (r_expr r)).

  (* explain_description: first rule whose test is true, whatever it is *)
  Definition explain_desc (rules : list rule) (c : Ctx) : answer :=
    match find (fun r => is_true (ev_explain r c)) rules with
    | Some r => of_rule (r_name r) r
    | None => unknown c
    end.

  Definition spec_lt (a b : nat * nat * nat * nat) : bool :=
    let '(a1, a2, a3, a4) := a in let '(b1, b2, b3, b4) := b in
    (a1 <? b1) || ((a1 =? b1) && ((a2 <? b2) || ((a2 =? b2) && ((a3 <? b3) || ((a3 =? b3) && (a4 <? b4)))))).
  (* Python max(key=specificity): the FIRST maximal element *)
  Fixpoint argmax (l : list rule) : option rule :=
    match l with
    | [] => None
    | r :: t => match argmax t with
                | None => Some r
                | Some w => if spec_lt (r_spec r) (r_spec w) then Some w else Some r
                end
    end.

  (* MerchantEngine.match + normalize_merchant:546-574 *)
  Definition engine_match (m : mode) (rules : list rule) (c : Ctx) : answer :=
    let ms := filter (fun r => is_true (ev_engine r c)) rules in
    let cats := filter (fun r => nonempty (r_cat r)) ms in
    match m with
    | FirstMatch => match cats with r :: _ => of_rule (r_merchant r) r | [] => unknown c end
    | MostSpecific =>
        match argmax cats with
        | Some w =>
            (match argmax (filter (fun r => nonempty (r_merchant r)) ms) with Some mw => r_merchant mw | None => "" end,
             r_cat w,
             match argmax (filter (fun r => nonempty (r_sub r)) ms) with Some sw => r_sub sw | None => "" end,
             Some (r_expr w))%string
        | None => unknown c
        end
    end.

  (* normalize_merchant:592-668, the legacy loop (no cached engine) *)
  Definition legacy_match (rules : list rule) (c : Ctx) : answer :=
    match find (fun r => is_true (ev_legacy r c) && nonempty (r_cat r)) rules with
    | Some r => of_rule (r_name r) r
    | None => unknown c
    end.

  Definition up_classify (k : kind) (m : mode) (rules : list rule) (c : Ctx) : answer :=
    match k with KRules => engine_match m rules c | KCsv => legacy_match rules c end.

  (* computable guard of the partial theorem *)
  Definition ev_up (k : kind) (r : rule) (c : Ctx) : option bool :=
    match k with KRules => ev_engine r c | KCsv => ev_legacy r c end.
  Definition explain_guard (k : kind) (m : mode) (rules : list rule) (c : Ctx) : bool :=
    (* first_match mode (the legacy loop ignores the mode) *)
    match k, m with KRules, MostSpecific => false | _, _ => true end
    (* evaluated explain's way — expression-or-regex guess, no variables, no let bindings, no supplemental data,
       no date/source/field — every rule gives the verdict `up` gets *)
    && forallb (fun r => Bool.eqb (is_true (ev_explain r c)) (is_true (ev_up k r c))) rules
    (* the first matching rule is not tag-only, and its merchant: property is its name *)
    && match find (fun r => is_true (ev_explain r c)) rules with
       | Some r => nonempty (r_cat r) && match k with KRules => String.eqb (r_merchant r) (r_name r) | KCsv => true end
       | None => true
       end.
End Describe.

Arguments mkRule {X}.
Arguments r_name {X}. Arguments r_merchant {X}. Arguments r_expr {X}. Arguments r_cat {X}. Arguments r_sub {X}.
Arguments r_spec {X}. Arguments r_x {X}.
Arguments unknown {Ctx}.
Arguments explain_desc {X Ctx}.
Arguments argmax {X}.
Arguments engine_match {X Ctx}.
Arguments legacy_match {X Ctx}.
Arguments up_classify {X Ctx}.
Arguments explain_guard {X Ctx}.
Arguments ev_up {X Ctx}.
Arguments of_rule {X}.
