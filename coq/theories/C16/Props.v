(* C16 — explain and discover describe the same classification that up applies.
   Full-strength statements are kept as [..._statement : Prop]; on the faithful model (= the unchanged
   code: three separate copies of the load-and-parse loop, and explain_description's own matching loop)
   they are REFUTED, each by witnesses that harness/c16.py re-finds on the real CLI; the strongest
   versions that do hold are proved under explicit computable guards.  PARTIAL: pipelines and matching
   loops are hand models, the per-rule tests and the stages are oracles; the tie is the three-way
   whole-command correspondence of harness/c16.py. *)
From Coq Require Import String List Bool Arith.
From Tally Require Import Lib.Str C11.Model C16.Model C16.Proofs C16.Lookup C16.LookupProofs.
Import ListNotations.
Open Scope nat_scope.
Open Scope list_scope.

(* ---------------------------------------------------------------- discover vs up *)
Definition c16_discover_eq_up_unknowns_statement : Prop := discover_statement.

Theorem c16_discover_eq_up_unknowns_refuted : ~ c16_discover_eq_up_unknowns_statement.
Proof. exact discover_refuted. Qed.
Print Assumptions c16_discover_eq_up_unknowns_refuted.

Theorem c16_discover_eq_up_unknowns_partial :
  forall (Settings Content Row Txn Rules SuppRow D : Type)
         (parse_source : Settings -> Content -> option (list Row))
         (load_supp : Settings -> Content -> option (list SuppRow))
         (classify : Rules -> mode -> supp_data SuppRow -> string -> Row -> Txn)
         (is_unknown : Txn -> bool) (group : list Txn -> D)
         (b : C11.Model.budget Settings Content Rules unit),
    no_live_supp b = true ->      (* every supplemental source is absent / unreadable / has no usable format *)
    discover parse_source classify is_unknown group b = up_unknowns parse_source load_supp classify is_unknown group b.
Proof. exact discover_partial. Qed.
Print Assumptions c16_discover_eq_up_unknowns_partial.

(* ---------------------------------------------------------------- explain vs up *)
Definition c16_explain_eq_up_statement : Prop := explain_merchant_statement /\ explain_desc_statement.

Theorem c16_explain_eq_up_refuted : ~ explain_merchant_statement /\ ~ explain_desc_statement.
Proof. split; [exact explain_merchant_refuted | exact explain_desc_refuted]. Qed.
Print Assumptions c16_explain_eq_up_refuted.

Theorem c16_explain_eq_up_statement_refuted : ~ c16_explain_eq_up_statement.
Proof. intros [H _]. exact (explain_merchant_refuted H). Qed.
Print Assumptions c16_explain_eq_up_statement_refuted.

(* `tally explain <merchant>` *)
Theorem c16_explain_merchant_eq_up_partial :
  forall (Settings Content Row Txn Rules SuppRow Info : Type)
         (parse_source : Settings -> Content -> option (list Row))
         (load_supp : Settings -> Content -> option (list SuppRow))
         (classify : Rules -> mode -> supp_data SuppRow -> string -> Row -> Txn)
         (summarize : string -> list Txn -> option Info)
         (b : C11.Model.budget Settings Content Rules unit) (m : string),
    no_live_supp b = true ->
    explain_merchant parse_source classify summarize b m = up_merchant parse_source load_supp classify summarize b m.
Proof. exact explain_merchant_partial. Qed.
Print Assumptions c16_explain_merchant_eq_up_partial.

(* `tally explain "<raw description>" --amount a` *)
Theorem c16_explain_eq_up_partial :
  forall (X Ctx : Type) (ev_engine ev_legacy ev_explain : rule X -> Ctx -> option bool) (extract_name : Ctx -> string)
         (k : kind) (m : mode) (rules : list (rule X)) (c : Ctx),
    explain_guard ev_engine ev_legacy ev_explain k m rules c = true ->
      (* first_match mode; each rule evaluated explain's way (expression-or-regex guess, no variables, no let
         bindings, no supplemental data, no date/source/field) gives up's verdict; the first matching rule is
         not tag-only and its merchant: is its name *)
    explain_desc ev_explain extract_name rules c = up_classify ev_engine ev_legacy extract_name k m rules c.
Proof. exact explain_desc_partial. Qed.
Print Assumptions c16_explain_eq_up_partial.

(* ---------------------------------------------------------------- what the query of `tally explain <query>` names *)
(* C16/Lookup.v models the lookup cascade of cmd_explain.  For every list of merchant names and transactions: *)
Theorem c16_explain_lookup_exact_name :
  forall q keys descs, In q keys -> lookup q keys descs = Exact q.
    (* the exact name of a merchant that up reports is answered with THAT merchant, whatever other names (differing only
       in letter case, containing it) or descriptions exist *)
Proof. exact lookup_exact. Qed.
Print Assumptions c16_explain_lookup_exact_name.

Theorem c16_explain_lookup_routes :
  forall q keys descs,
    (forall m, lookup q keys descs = Exact m -> m = q /\ In q keys) /\
    (forall m, lookup q keys descs = CaseInsens m ->
       ~ In q keys /\ exists l1 l2, keys = l1 ++ m :: l2 /\ lower m = lower q /\ forall y, In y l1 -> lower y <> lower q) /\
    (lookup q keys descs = Describe <->
       (forall m, In m keys -> infixb (lower q) (lower m) = false) /\
       (forall d, In d descs -> infixb (lower q) (lower (fst d)) = false /\ infixb (lower q) (lower (snd d)) = false)).
Proof.
  intros q keys descs. split; [|split].
  - intros m. apply lookup_exact_only.
  - intros m. apply lookup_case_insensitive.
  - apply lookup_describe_iff.
Qed.
Print Assumptions c16_explain_lookup_routes.

Definition ex_keys : list string := "Zed Mart" :: "ZED MART" :: "Coffee" :: "Netflix Premium" :: nil.
Definition ex_descs : list (string * string) := ("Zed Mart", "ZED MART 12") :: ("Coffee", "SQ *COFFEE HUT") :: nil.
Example c16_lookup_example :
  lookup "ZED MART" ex_keys ex_descs = Exact "ZED MART" /\ lookup "zed mart" ex_keys ex_descs = CaseInsens "Zed Mart" /\
  lookup "netflix" ex_keys ex_descs = Partial ("Netflix Premium" :: nil) /\ lookup "coffee hut" ex_keys ex_descs = TxnSearch /\
  lookup "COFFEE HUT ZQ7" ex_keys ex_descs = Describe.
Proof. vm_compute. repeat split; reflexivity. Qed.

(* ---------------------------------------------------------------- the witnesses, as computed facts *)
Example c16_witness_discover_lists_supplemental_rows :
  discover w_parse w_classify w_unknown (fun l => l) w_budget_a = [("Card", 5, false); ("Orders", 7, false)]%string /\
  up_unknowns w_parse w_supp w_classify w_unknown (fun l => l) w_budget_a = [("Card", 5, false)]%string.
Proof. exact witness_a. Qed.
Example c16_witness_discover_gets_no_supplemental_data :
  discover w_parse w_classify w_unknown (fun l => l) w_budget_b = [("Card", 5, false); ("Card", 6, false)]%string /\
  up_unknowns w_parse w_supp w_classify w_unknown (fun l => l) w_budget_b = [("Card", 6, false)]%string.
Proof. exact witness_b. Qed.
Example c16_witness_explain_reports_tag_only_rule :
  w_run KRules FirstMatch w_rules_tagonly
  = (("Large", "", "", Some "amount > 100"), ("Shop", "Shopping", "Misc", Some "contains(""SHOP"")"))%string.
Proof. exact witness_tagonly. Qed.
Example c16_witness_explain_ignores_rule_mode :
  w_run KRules MostSpecific w_rules_mode
  = (("Netflix", "Subscriptions", "Streaming", Some "contains(""NETFLIX"")"),
     ("Netflix Premium", "Subscriptions", "Premium", Some "contains(""NETFLIX"") and contains(""PREMIUM"")"))%string.
Proof. exact witness_mode. Qed.
Example c16_witness_explain_ignores_variables :
  w_run KRules FirstMatch w_rules_var
  = (("Mystery Shop", "Unknown", "Unknown", None), ("Big Box", "Shopping", "Bigbox", Some "is_big and contains(""BOX"")"))%string.
Proof. exact witness_var. Qed.
Example c16_witness_explain_reports_rule_name :
  w_run KRules FirstMatch w_rules_merchant
  = (("Fuel", "Transport", "Fuel", Some "anyof(""SHELL"")"), ("Gas Station", "Transport", "Fuel", Some "anyof(""SHELL"")"))%string.
Proof. exact witness_merchant. Qed.
Example c16_witness_explain_csv_tag_only_row :
  w_run KCsv FirstMatch w_rules_csv
  = (("Mystery", "", "", Some "MYSTERY"), ("Shop", "Shopping", "Misc", Some "SHOP"))%string.
Proof. exact witness_csv. Qed.

(* ---------------------------------------------------------------- non-vacuity of the guards *)
(* a budget WITH a supplemental source entry (whose file is missing) satisfies no_live_supp, and two real sources contribute *)
Example c16_guard_pipelines_satisfiable :
  let b := mkBudget [w_src "Card" false true [5; 6]; mkSource "Orders" true true true Missing [5]; w_src "Bank" false true [9]]
                    tt MostSpecific None in
  no_live_supp b = true /\
  discover w_parse w_classify w_unknown (fun l => l) b = [("Card", 5, false); ("Card", 6, false); ("Bank", 9, false)]%string.
Proof. vm_compute. split; reflexivity. Qed.
(* three rules, the first does not match, the second (categorising, merchant = name) wins, a tag-only rule matches later *)
Example c16_guard_describe_satisfiable :
  let rules := [mkRule "Coffee" "Coffee" "contains(""COFFEE"")" "Food" "Cafe" (50, 1, 0, 6) (Some false, Some false, Some false);
                mkRule "Shop" "Shop" "contains(""SHOP"")" "Shopping" "Misc" (50, 1, 0, 4) T3;
                mkRule "Large" "Large" "amount > 100" "" "" (50, 0, 1, 0) T3]%string in
  explain_guard w_eng w_leg w_exp KRules FirstMatch rules tt = true /\
  explain_desc w_exp w_name rules tt = ("Shop", "Shopping", "Misc", Some "contains(""SHOP"")")%string.
Proof. vm_compute. split; reflexivity. Qed.
