(* C16/Lookup.v — how `tally explain <query>` decides what the query names (commands/explain.py:121-198):
   exact merchant name -> case-insensitive name -> substring of merchant names -> substring of a transaction's
   description -> the query is treated as a raw description (explain_description).  Executable model; letter case is
   ASCII (Lib.Str.lower). *)
From Coq Require Import String List Bool.
From Tally Require Import Lib.Str.
Import ListNotations.
Open Scope list_scope.

Fixpoint prefixb (p s : string) : bool :=
  match p, s with
  | EmptyString, _ => true
  | String a p', String b s' => (Ascii.eqb a b && prefixb p' s')%bool
  | _, EmptyString => false
  end.
Fixpoint infixb (p s : string) : bool :=            (* Python: p in s *)
  (prefixb p s || match s with EmptyString => false | String _ r => infixb p r end)%bool.

Inductive route :=
| Exact (m : string)            (* the merchant with exactly that name *)
| CaseInsens (m : string)       (* the first merchant whose name equals the query ignoring case *)
| Partial (ms : list string)    (* every merchant whose name contains the query (ignoring case) *)
| TxnSearch                     (* transactions whose description contains the query: listed by merchant *)
| Describe.                     (* explain_description(query, amount) *)

(* keys: by_merchant's names in insertion order; descs: (description, raw_description) of every parsed transaction *)
Definition lookup (q : string) (keys : list string) (descs : list (string * string)) : route :=
  if mem q keys then Exact q else
  match find (fun m => String.eqb (lower m) (lower q)) keys with
  | Some m => CaseInsens m
  | None =>
      match filter (fun m => infixb (lower q) (lower m)) keys with
      | x :: r => Partial (x :: r)
      | [] => if existsb (fun d => (infixb (lower q) (lower (fst d)) || infixb (lower q) (lower (snd d)))%bool) descs
              then TxnSearch else Describe
      end
  end.
