From Coq Require Import String List Bool.
From Tally Require Import Lib.Str C16.Lookup.
Import ListNotations.
Open Scope list_scope.

(* `explain <name>` with the exact name of a merchant answers THAT merchant, whatever other names exist
   (names that differ only in letter case, names that contain it, descriptions that contain it) *)
Lemma lookup_exact q keys descs : In q keys -> lookup q keys descs = Exact q.
Proof. intros H. unfold lookup. now rewrite (proj2 (mem_In q keys) H). Qed.

Lemma lookup_exact_only q keys descs m : lookup q keys descs = Exact m -> m = q /\ In q keys.
Proof.
  unfold lookup. destruct (mem q keys) eqn:E.
  - intros H. inversion H; subst. split; [reflexivity|]. now apply mem_In.
  - destruct (find _ keys); [discriminate|]. destruct (filter _ keys); [|discriminate]. now destruct (existsb _ descs).
Qed.

Lemma find_first {A} (p : A -> bool) l x :
  find p l = Some x -> exists l1 l2, l = l1 ++ x :: l2 /\ p x = true /\ forall y, In y l1 -> p y = false.
Proof.
  induction l as [|a l IH]; [discriminate|]. cbn. destruct (p a) eqn:E.
  - intros H. inversion H; subst. exists [], l. repeat split; auto. intros y [].
  - intros H. destruct (IH H) as [l1 [l2 [E1 [E2 E3]]]]. exists (a :: l1), l2. subst. repeat split; auto.
    intros y [<-|Hy]; auto.
Qed.

(* not an exact name: the FIRST merchant (in report order) whose name equals the query ignoring case *)
Lemma lookup_case_insensitive q keys descs m :
  lookup q keys descs = CaseInsens m ->
  ~ In q keys /\ exists l1 l2, keys = l1 ++ m :: l2 /\ lower m = lower q /\ forall y, In y l1 -> lower y <> lower q.
Proof.
  unfold lookup. destruct (mem q keys) eqn:E; [discriminate|].
  destruct (find _ keys) as [x|] eqn:F.
  - intros H. inversion H; subst. split.
    + intros Hin. apply mem_In in Hin. congruence.
    + destruct (find_first _ _ _ F) as [l1 [l2 [E1 [E2 E3]]]]. exists l1, l2. repeat split; auto.
      * now apply String.eqb_eq.
      * intros y Hy Heq. specialize (E3 y Hy). apply String.eqb_neq in E3. contradiction.
  - destruct (filter _ keys); [|discriminate]. now destruct (existsb _ descs).
Qed.

(* the query is handed to explain_description exactly when it names nothing: no merchant name contains it and no
   transaction description contains it (ignoring case) *)
Lemma lookup_describe_iff q keys descs :
  lookup q keys descs = Describe <->
  (forall m, In m keys -> infixb (lower q) (lower m) = false) /\
  (forall d, In d descs -> infixb (lower q) (lower (fst d)) = false /\ infixb (lower q) (lower (snd d)) = false).
Proof.
  assert (P : forall s, prefixb s s = true).
  { induction s as [|a s IH]; cbn; [reflexivity|]. now rewrite Ascii.eqb_refl, IH. }
  assert (I : forall s, infixb s s = true).
  { intros s. destruct s; cbn; [reflexivity|]. now rewrite Ascii.eqb_refl, P. }
  split.
  - unfold lookup. destruct (mem q keys) eqn:E; [discriminate|].
    destruct (find _ keys) eqn:F; [discriminate|].
    destruct (filter _ keys) eqn:G; [|discriminate].
    destruct (existsb _ descs) eqn:X; [discriminate|]. intros _. split.
    + intros m Hm. destruct (infixb (lower q) (lower m)) eqn:Y; [|reflexivity].
      assert (In m (filter (fun m => infixb (lower q) (lower m)) keys)) by (apply filter_In; auto).
      rewrite G in H. destruct H.
    + intros d Hd. destruct (infixb (lower q) (lower (fst d))) eqn:Y1, (infixb (lower q) (lower (snd d))) eqn:Y2; auto;
        exfalso; assert (existsb (fun d => (infixb (lower q) (lower (fst d)) || infixb (lower q) (lower (snd d)))%bool) descs = true)
          by (apply existsb_exists; exists d; rewrite Y1, Y2; auto); congruence.
  - intros [Hk Hd]. unfold lookup.
    destruct (mem q keys) eqn:E.
    { apply mem_In in E. specialize (Hk q E). rewrite I in Hk. discriminate. }
    destruct (find _ keys) as [x|] eqn:F.
    { apply find_some in F. destruct F as [F1 F2]. apply String.eqb_eq in F2. specialize (Hk x F1). rewrite F2, I in Hk. discriminate. }
    destruct (filter _ keys) as [|x l] eqn:G.
    + destruct (existsb _ descs) eqn:X; [|reflexivity].
      apply existsb_exists in X. destruct X as [d [D1 D2]]. destruct (Hd d D1) as [A B]. rewrite A, B in D2. discriminate.
    + assert (In x (filter (fun m => infixb (lower q) (lower m)) keys)) by (rewrite G; now left).
      apply filter_In in H. destruct H as [H1 H2]. rewrite (Hk x H1) in H2. discriminate.
Qed.
