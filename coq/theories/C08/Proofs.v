From Coq Require Import String List Bool.
From Tally Require Import Lib.Str Gen.C08CatchSites C08.Model.
Import ListNotations.
Open Scope string_scope.

Lemma sites_ok_b : forallb site_ok C08Sites.sites = true.
Proof. vm_compute. reflexivity. Qed.

Lemma wrappers_b : forallb (fun w => snd w) C08Sites.wrappers = true
                   /\ map fst C08Sites.wrappers = ["ExpressionEvaluator"; "TransactionEvaluator"].
Proof. vm_compute. split; reflexivity. Qed.

Lemma wrap_exception_is_expression_error {A} (c : string) :
  is_subclass c "Exception" = true ->
  exists c', wrap (@Raise A c) = Raise c' /\ is_subclass c' "ExpressionError" = true.
Proof.
  intros H. unfold wrap. destruct (is_subclass c "ExpressionError") eqn:E.
  - exists c. split; [reflexivity|exact E].
  - rewrite H. exists "ExpressionError". split; reflexivity.
Qed.

Lemma handled_mono caught c :
  handled caught "ExpressionError" = true -> is_subclass c "ExpressionError" = true -> handled caught c = true.
Proof.
  unfold handled. rewrite !existsb_exists. intros [d [Hin Hd]] Hc. exists d. split; [exact Hin|].
  unfold is_subclass in *.
  apply orb_true_iff in Hc. destruct Hc as [Hc|Hc].
  - apply orb_true_iff in Hc. destruct Hc as [Hc|Hc].
    + apply orb_true_iff in Hc. destruct Hc as [Hc|Hc].
      * apply String.eqb_eq in Hc. subst c. exact Hd.
      * discriminate.
    + discriminate.
  - apply andb_true_iff in Hc. destruct Hc as [_ Hc]. apply String.eqb_eq in Hc. subst c.
    (* c = UnsafeNodeError; d is a superclass of ExpressionError *)
    apply orb_true_iff in Hd. destruct Hd as [Hd|Hd].
    + apply orb_true_iff in Hd. destruct Hd as [Hd|Hd].
      * apply orb_true_iff in Hd. destruct Hd as [Hd|Hd].
        -- apply String.eqb_eq in Hd. subst d. reflexivity.
        -- rewrite Hd. now rewrite !orb_true_r.
      * apply andb_true_iff in Hd. destruct Hd as [Hd _]. rewrite Hd. cbn. now rewrite !orb_true_r.
    + apply andb_true_iff in Hd. destruct Hd as [_ Hd]. discriminate.
Qed.

(* no exception class below Exception, raised anywhere inside the evaluation of an expression, reaches
   beyond any of the extracted call sites *)
Lemma no_escape {A} s (o : outcome A) :
  In s C08Sites.sites ->
  (forall c, o = Raise c -> is_subclass c "Exception" = true) ->
  exists r, at_site s o = Ok r.
Proof.
  intros Hs Hexc. pose proof sites_ok_b as Hb. rewrite forallb_forall in Hb. specialize (Hb s Hs).
  unfold site_ok in Hb. apply andb_true_iff in Hb. destruct Hb as [Hh _].
  unfold at_site. destruct o as [a|c]; [eexists; reflexivity|].
  destruct (wrap_exception_is_expression_error (A:=A) c (Hexc c eq_refl)) as [c' [Hw Hc']].
  rewrite Hw. rewrite (handled_mono _ _ Hh Hc'). eexists; reflexivity.
Qed.

Lemma failure_is_local {A} s (o : outcome A) c :
  In s C08Sites.sites -> o = Raise c -> is_subclass c "Exception" = true -> at_site s o = Ok None.
Proof.
  intros Hs -> Hc. pose proof sites_ok_b as Hb. rewrite forallb_forall in Hb. specialize (Hb s Hs).
  unfold site_ok in Hb. apply andb_true_iff in Hb. destruct Hb as [Hh _].
  unfold at_site. destruct (wrap_exception_is_expression_error (A:=A) c Hc) as [c' [Hw Hc']].
  rewrite Hw, (handled_mono _ _ Hh Hc'). reflexivity.
Qed.
