(* C08 — a rule that fails to evaluate is skipped; it never aborts classification (exception-flow part).
   Gen/C08CatchSites.v is regenerated from /repo on every run: every call of an evaluation entry point
   outside expr_parser.py with the classes its innermost try catches, and whether each evaluator's
   evaluate() converts non-ExpressionError exceptions. *)
From Coq Require Import String List Bool.
From Tally Require Import Lib.Str Gen.C08CatchSites C08.Model C08.Proofs.
Import ListNotations.
Open Scope string_scope.

(* every evaluation call site catches ExpressionError (or a superclass) and its handler only skips locally *)
Theorem c08_sites_cover : forall s, In s C08Sites.sites -> site_ok s = true.
Proof. apply forallb_forall. exact sites_ok_b. Qed.
Print Assumptions c08_sites_cover.

(* both evaluators convert every Exception into ExpressionError at every node *)
Theorem c08_wrappers_convert :
  (forall w, In w C08Sites.wrappers -> snd w = true) /\
  map fst C08Sites.wrappers = ["ExpressionEvaluator"; "TransactionEvaluator"].
Proof. destruct wrappers_b as [A B]. split; [apply forallb_forall; exact A|exact B]. Qed.
Print Assumptions c08_wrappers_convert.

(* whatever class below Exception is raised while evaluating any node, no extracted call site lets it escape… *)
Theorem c08_no_escape :
  forall (A : Type) s (o : outcome A), In s C08Sites.sites ->
    (forall c, o = Raise c -> is_subclass c "Exception" = true) -> exists r, at_site s o = Ok r.
Proof. intros A. exact (@no_escape A). Qed.
Print Assumptions c08_no_escape.

(* … and the site sees exactly "this expression is not applicable" (None), nothing else *)
Theorem c08_failure_is_local :
  forall (A : Type) s (o : outcome A) c, In s C08Sites.sites -> o = Raise c ->
    is_subclass c "Exception" = true -> at_site s o = Ok None.
Proof. intros A. exact (@failure_is_local A). Qed.
Print Assumptions c08_failure_is_local.

Example c08_example :
  let s := ("merchant_engine.py", "MerchantEngine.match", "expr_parser.matches_transaction", ["ExpressionError"], ["continue"]) in
  In s C08Sites.sites /\ at_site s (@Raise bool "TypeError") = Ok None /\ at_site s (Ok true) = Ok (Some true)
  /\ site_ok ("x.py", "f", "expr_parser.evaluate", ["UnsafeNodeError"], ["continue"]) = false
  /\ site_ok ("x.py", "f", "expr_parser.evaluate", ["ExpressionError"], ["raise"]) = false
  /\ site_ok ("x.py", "f", "expr_parser.evaluate", [], []) = false.
Proof. vm_compute. repeat split; try reflexivity. tauto. Qed.
