(* C08/Model.v — why a failing expression can never abort classification: the exception flow from an
   evaluator node to the call sites, over the tables regenerated from the source (Gen/C08CatchSites.v). *)
From Coq Require Import String List Bool.
From Tally Require Import Lib.Str Gen.C08CatchSites.
Import ListNotations.
Open Scope string_scope.

(* outcome of running Python code: a value or a raised exception class *)
Inductive outcome (A : Type) := Ok (a : A) | Raise (cls : string).
Arguments Ok {A}. Arguments Raise {A}.

(* The class hierarchy that matters. Every class the evaluation of an expression can raise is a subclass of
   Exception (TypeError, AttributeError, ValueError, KeyError, IndexError, StopIteration, ZeroDivisionError,
   OverflowError, RecursionError, re.error, statistics.StatisticsError, RuntimeError, …); SystemExit /
   KeyboardInterrupt / GeneratorExit are not raised by evaluating an expression of the whitelisted language. *)
Definition tally_errors := ["ExpressionError"; "UnsafeNodeError"].
Definition is_subclass (c d : string) : bool :=
  (String.eqb c d
   || String.eqb d "BaseException"
   || (String.eqb d "Exception" && negb (mem c ["BaseException"; "SystemExit"; "KeyboardInterrupt"; "GeneratorExit"]))
   || (String.eqb d "ExpressionError" && String.eqb c "UnsafeNodeError"))%bool.

(* evaluate(): `except ExpressionError: raise` then `except Exception as e: raise ExpressionError(...)` *)
Definition wrap {A} (o : outcome A) : outcome A :=
  match o with
  | Ok a => Ok a
  | Raise c => if is_subclass c "ExpressionError" then Raise c
               else if is_subclass c "Exception" then Raise "ExpressionError" else Raise c
  end.

(* a try/except around a call: handled iff some caught class is a superclass of the raised one *)
Definition handled (caught : list string) (cls : string) : bool := existsb (is_subclass cls) caught.

Definition site_caught (s : string * string * string * list string * list string) : list string :=
  let '(_, _, _, caught, _) := s in caught.
Definition site_actions (s : string * string * string * list string * list string) : list string :=
  let '(_, _, _, _, acts) := s in acts.

(* handler bodies that keep the enclosing loop / function going *)
(* a failing filter must read as "not a member": `return False`; never `return True` *)
Definition local_actions := ["pass"; "continue"; "return"; "return:False"; "return:None"; "assign"].
Definition site_ok (s : string * string * string * list string * list string) : bool :=
  (handled (site_caught s) "ExpressionError" && forallb (fun a => mem a local_actions) (site_actions s))%bool.

(* what a call site observes when the evaluation of some node ran into outcome [o] *)
Definition at_site {A} (s : string * string * string * list string * list string) (o : outcome A) : outcome (option A) :=
  match wrap o with
  | Ok a => Ok (Some a)
  | Raise c => if handled (site_caught s) c then Ok None else Raise c
  end.
