(* C08/EvalProps.v — the value-level half of C08 over the evaluator model Expr/Eval.v (tied to
   evaluate_transaction by harness/c04.py): an evaluation can only fail with ExpressionError.
   Every node of TransactionEvaluator goes through evaluate(), which turns any other Exception raised by
   the node's handler into ExpressionError ([wrap] in the model), so at every call site of C08's catch
   table the transaction evaluator raises nothing but ExpressionError. *)
From Coq Require Import String Ascii List Bool ZArith QArith.
From Tally Require Import Lib.Str Expr.StrOps Expr.Date Expr.Syntax Expr.Funcs Expr.Eval.
Import ListNotations.
Open Scope string_scope.

Lemma wrap_never_pyerr o k : wrap o <> PyErr k.
Proof. destruct o; discriminate. Qed.

(* for all environments, expressions and scopes: no Python exception other than ExpressionError *)
Theorem c08_eval_never_pyerr : forall E e sc k, fst (eval E e sc) <> PyErr k.
Proof. intros E e sc k. destruct e; cbn [eval fst]; apply wrap_never_pyerr. Qed.
Print Assumptions c08_eval_never_pyerr.

(* ... hence evaluate_transaction raises ExpressionError or what CPython's parser itself raised
   (PRaises: e.g. ValueError for a NUL byte — outside the evaluator) *)
Theorem c08_eval_top_outcomes :
  forall E p k, eval_top E p = PyErr k -> p = PRaises k.
Proof.
  intros E p k H. destruct p as [|t|k']; cbn [eval_top] in H; try discriminate.
  - destruct (validate allowed_nodes t); [|discriminate]. now apply c08_eval_never_pyerr in H.
  - now inversion H.
Qed.
Print Assumptions c08_eval_top_outcomes.

Theorem c08_matches_top_outcomes :
  forall E t k, matches_top E (PTree t) <> PyErr k.
Proof.
  intros E t k H. unfold matches_top in H. destruct (eval_top E (PTree t)) eqn:Et; try discriminate.
  inversion H; subst. now apply c08_eval_top_outcomes in Et.
Qed.
Print Assumptions c08_matches_top_outcomes.

(* the raw handlers do raise other exceptions (contains(5): AttributeError, amount > "x": TypeError,
   next() on an empty generator: StopIteration); it is the per-node wrapper that converts them *)
Definition raw_outcomes_witness (E : env) : Prop :=
  fn_contains E [VInt 5] = PyErr AttributeError /\
  cmp_apply Gt (VFloat 1) (VStr "x") = PyErr TypeError /\
  fst (eval E (ECall (EName "contains") [EConst (CInt 5)] []) []) = ExprErr /\
  fst (eval E (ECompare (EConst (CFloat 1)) [(Gt, EConst (CStr "x"))]) []) = ExprErr /\
  fst (eval E (ECall (EName "next") [EComp GeneratorExp (EName "r") [(EName "r", EConst (CStr ""), [])]] []) []) = ExprErr.

(* exists(x): any failure of x is the value False (and what x bound before failing stays bound) *)
Theorem c08_failure_is_a_value_for_exists :
  forall E id x kws sc, lower id = "exists" ->
    eval E (ECall (EName id) [x] kws) sc =
    match eval E x sc with
    | (Val v, sc1) => (Val (VBool (exists_test v)), sc1)
    | (Unmodelled r, sc1) => (Unmodelled r, sc1)
    | (_, sc1) => (Val (VBool false), sc1)
    end.
Proof.
  intros E id x kws sc Hid. cbn [eval eval_call]. rewrite Hid. cbn [String.eqb Ascii.eqb Bool.eqb].
  pose proof (c08_eval_never_pyerr E x sc) as NP.
  destruct (eval E x sc) as [[v| |k|u] sc1]; cbn [fst snd wrap]; try reflexivity.
  exfalso. exact (NP k eq_refl).
Qed.
Print Assumptions c08_failure_is_a_value_for_exists.

(* non-vacuity *)
Definition ex_env8 : env :=
  {| e_txn := {| t_description := "UBER"; t_amount := VFloat 1; t_date := None; t_field := None; t_source := ""; t_location := "" |};
     e_vars := []; e_ds := []; re_search := fun _ _ => None; re_sub := fun _ _ _ => None; fuzzy_ratio := fun _ _ => None |}.
Example c08_example_raw_vs_wrapped : raw_outcomes_witness ex_env8.
Proof. vm_compute. repeat split; reflexivity. Qed.
Example c08_example_exists :
  fst (eval ex_env8 (ECall (EName "EXISTS") [EAttribute (EName "field") "memo"] []) []) = Val (VBool false) /\
  fst (eval ex_env8 (ECall (EName "exists") [ECall (EName "contains") [EConst (CInt 5)] []] []) []) = Val (VBool false) /\
  fst (eval ex_env8 (ECall (EName "exists") [EName "description"] []) []) = Val (VBool true).
Proof. vm_compute. repeat split; reflexivity. Qed.
