(* Engine/Loader.v — the part of MerchantEngine.parse/_add_rule/MerchantRule.__post_init__ that decides two fields the
   ranking and the result depend on:
     priority:  `priority: <text>` -> int(text) (a ValueError is a parse error); no priority line -> 50
                (merchant_engine.py: parse(), key == 'priority'; _add_rule(): rule_data.get('priority', 50))
     merchant:  no / empty `merchant:` line -> the rule name (__post_init__)
   Python's int() is modelled for ASCII text: optional sign, decimal digits, single underscores between digits
   (the value is already stripped by the parser). *)
From Coq Require Import String Ascii List Bool ZArith NArith Lia.
From Tally Require Import Lib.Str Engine.StrLib Engine.Model.
Import ListNotations.
Open Scope string_scope.

Definition digit_of (c : ascii) : option Z :=
  let n := N_of_ascii c in if (N.leb 48 n && N.leb n 57)%bool then Some (Z.of_N (n - 48)) else None.

(* digits with single underscores between digits; [acc] value so far, [last_digit] the previous character was a digit *)
Fixpoint digits_val (s : string) (acc : Z) (last_digit : bool) : option Z :=
  match s with
  | EmptyString => if last_digit then Some acc else None
  | String c r =>
      match digit_of c with
      | Some d => digits_val r (acc * 10 + d) true
      | None => if (Ascii.eqb c "_" && last_digit)%bool then
                  match r with
                  | EmptyString => None
                  | String c2 _ => match digit_of c2 with Some _ => digits_val r acc false | None => None end
                  end
                else None
      end
  end.

(* int(text) for stripped ASCII text; None = ValueError *)
Definition parse_int (s : string) : option Z :=
  match s with
  | String "-" r => option_map Z.opp (digits_val r 0 false)
  | String "+" r => digits_val r 0 false
  | _ => digits_val s 0 false
  end.

Inductive prio_text := PAbsent | PText (s : string).     (* no `priority:` line | the stripped text after `priority:` *)

Definition load_priority (p : prio_text) : option Z :=
  match p with PAbsent => Some 50%Z | PText s => parse_int s end.

(* a rule block as WRITTEN in the file *)
Record fblock := {
  f_name : string; f_match : string; f_category : string; f_subcategory : string;
  f_merchant : string;          (* "" when there is no merchant: line *)
  f_tags : list string; f_priority : prio_text; f_fields : list string
}.

(* None = MerchantParseError (invalid priority) *)
Definition load_block (id : nat) (b : fblock) : option rule :=
  match load_priority (f_priority b) with
  | None => None
  | Some p =>
      Some {| r_id := id; r_name := f_name b; r_match := f_match b; r_category := f_category b;
              r_subcategory := f_subcategory b;
              r_merchant := if is_empty (f_merchant b) then f_name b else f_merchant b;
              r_tags := f_tags b; r_priority := p; r_fields := f_fields b |}
  end.

Fixpoint load_blocks (id : nat) (bs : list fblock) : option (list rule) :=
  match bs with
  | [] => Some []
  | b :: rest => match load_block id b, load_blocks (S id) rest with
                 | Some r, Some rs => Some (r :: rs)
                 | _, _ => None
                 end
  end.

(* ---- the value int() denotes: sign and decimal digits ---- *)
Definition digit_char (d : nat) : ascii := ascii_of_nat (48 + d).
Fixpoint digits_string (ds : list nat) : string :=
  match ds with [] => EmptyString | d :: r => String (digit_char d) (digits_string r) end.
Definition digits_value (ds : list nat) : Z := fold_left (fun a d => (a * 10 + Z.of_nat d)%Z) ds 0%Z.

Lemma digit_of_char : forall d, (d < 10)%nat -> digit_of (digit_char d) = Some (Z.of_nat d).
Proof.
  intros d H. do 10 (destruct d as [|d]; [reflexivity|]). lia.
Qed.

Lemma digits_val_digits : forall ds acc b,
  Forall (fun d => (d < 10)%nat) ds -> (ds <> [] \/ b = true) ->
  digits_val (digits_string ds) acc b = Some (fold_left (fun a d => (a * 10 + Z.of_nat d)%Z) ds acc).
Proof.
  induction ds as [|d r IH]; intros acc b F H; cbn [digits_string digits_val fold_left].
  - destruct H as [H|H]; [congruence|]. rewrite H. reflexivity.
  - inversion F as [|? ? Hd Fr]; subst. rewrite (digit_of_char d Hd). apply IH; [exact Fr|right; reflexivity].
Qed.

Lemma parse_int_decimal : forall (neg : bool) ds,
  Forall (fun d => (d < 10)%nat) ds -> ds <> [] ->
  parse_int ((if neg then "-" else "") ++ digits_string ds) = Some (if neg then (- digits_value ds)%Z else digits_value ds).
Proof.
  intros neg ds F N. destruct neg; cbn [append].
  - unfold parse_int. rewrite digits_val_digits by auto. reflexivity.
  - destruct ds as [|d r]; [congruence|]. unfold parse_int.
    assert (E : digits_string (d :: r) = String (digit_char d) (digits_string r)) by reflexivity.
    rewrite E. inversion F as [|? ? Hd Fr]; subst.
    assert (K : forall rest, match String (digit_char d) rest with
                            | String "-" q => option_map Z.opp (digits_val q 0 false)
                            | String "+" q => digits_val q 0 false
                            | _ => digits_val (String (digit_char d) rest) 0 false
                            end = digits_val (String (digit_char d) rest) 0 false).
    { intros rest. do 10 (destruct d as [|d]; [reflexivity|]). lia. }
    rewrite K, <- E. rewrite digits_val_digits by auto. reflexivity.
Qed.

Lemma load_block_fields : forall id b r,
  load_block id b = Some r ->
  load_priority (f_priority b) = Some (r_priority r) /\
  r_match r = f_match b /\ r_category r = f_category b /\ r_subcategory r = f_subcategory b /\ r_name r = f_name b /\
  r_merchant r = (if is_empty (f_merchant b) then f_name b else f_merchant b) /\ has_merchant r = negb (is_empty (f_name b) && is_empty (f_merchant b)).
Proof.
  intros id b r H. unfold load_block in H. destruct (load_priority (f_priority b)) as [p|]; [|discriminate].
  injection H as <-. cbn. repeat split; try reflexivity.
  unfold has_merchant. cbn. destruct (is_empty (f_merchant b)) eqn:E; rewrite ?E, ?andb_true_r, ?andb_false_r; reflexivity.
Qed.

Lemma load_blocks_nth : forall bs id rs, load_blocks id bs = Some rs ->
  length rs = length bs /\ forall k b, nth_error bs k = Some b -> exists r, nth_error rs k = Some r /\ load_block (id + k) b = Some r.
Proof.
  induction bs as [|b rest IH]; intros id rs H; cbn in H.
  - injection H as <-. split; [reflexivity|]. intros [|k] b0 K; discriminate.
  - destruct (load_block id b) as [r|] eqn:E; [|discriminate].
    destruct (load_blocks (S id) rest) as [rs'|] eqn:E2; [|discriminate]. injection H as <-.
    destruct (IH _ _ E2) as [L N]. split; [cbn; congruence|].
    intros [|k] b0 K; cbn in K.
    + injection K as <-. exists r. rewrite Nat.add_0_r. auto.
    + destruct (N k b0 K) as (r0 & A & B). exists r0. split; [exact A|]. replace (id + S k)%nat with (S id + k)%nat by lia. exact B.
Qed.
