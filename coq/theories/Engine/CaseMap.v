(* Engine/CaseMap.v — Python's str.upper() on UTF-8 text.  ASCII letters by arithmetic; every other code point through
   the table Gen/EngineCaseTable.v, which is REGENERATED on every run from the interpreter that runs tally (all code points
   whose upper() differs from themselves, with their possibly multi-character images: sharp s -> SS, fi ligature -> FI ...).
   Library model (CPython's Unicode database), not tally code.  str.upper() is context-free, so a per-code-point table is exact. *)
From Coq Require Import String Ascii List Bool NArith.
From Tally Require Import Lib.Str Gen.EngineCaseTable.
Import ListNotations.
Open Scope N_scope.

Fixpoint bytes_of (s : string) : list N :=
  match s with EmptyString => [] | String c r => N_of_ascii c :: bytes_of r end.
Fixpoint string_of (l : list N) : string :=
  match l with [] => EmptyString | b :: r => String (ascii_of_N b) (string_of r) end.

(* UTF-8 -> code points; malformed input is passed through byte by byte *)
Fixpoint decode (l : list N) : list N :=
  match l with
  | [] => []
  | b :: r =>
      if b <? 128 then b :: decode r
      else if (192 <=? b) && (b <? 224) then
        match r with
        | b2 :: r2 => ((b - 192) * 64 + (b2 - 128)) :: decode r2
        | [] => [b]
        end
      else if (224 <=? b) && (b <? 240) then
        match r with
        | b2 :: b3 :: r3 => ((b - 224) * 4096 + (b2 - 128) * 64 + (b3 - 128)) :: decode r3
        | _ => b :: decode r
        end
      else if (240 <=? b) && (b <? 248) then
        match r with
        | b2 :: b3 :: b4 :: r4 => ((b - 240) * 262144 + (b2 - 128) * 4096 + (b3 - 128) * 64 + (b4 - 128)) :: decode r4
        | _ => b :: decode r
        end
      else b :: decode r
  end.

Definition encode (cp : N) : list N :=
  if cp <? 128 then [cp]
  else if cp <? 2048 then [192 + cp / 64; 128 + cp mod 64]
  else if cp <? 65536 then [224 + cp / 4096; 128 + (cp / 64) mod 64; 128 + cp mod 64]
  else [240 + cp / 262144; 128 + (cp / 4096) mod 64; 128 + (cp / 64) mod 64; 128 + cp mod 64].

Fixpoint lookup (cp : N) (t : list (N * list N)) : option (list N) :=
  match t with [] => None | (k, v) :: r => if N.eqb k cp then Some v else lookup cp r end.

Definition upper_cp (cp : N) : list N :=
  if cp <? 128 then [N_of_ascii (upper_char (ascii_of_N cp))]
  else match lookup cp upper_table with Some l => l | None => [cp] end.

Definition py_upper (s : string) : string :=
  string_of (flat_map encode (flat_map upper_cp (decode (bytes_of s)))).
