(* Engine/StrLib.v — byte-string helpers used by the rule-engine model (C01, C02, C09).
   Library model of the few Python str / re idioms the engine code uses; not tally code.
   Strings are Coq [string] = bytes (non-ASCII text is its UTF-8 encoding). *)
From Coq Require Import String Ascii List Bool NArith ZArith Arith Lia.
From Tally Require Import Lib.Str.
Import ListNotations.
Open Scope string_scope.

(* Python's str.strip() whitespace restricted to one-byte code points: \t \n \v \f \r, \x1c-\x1f, space.
   (U+0085, U+00A0 and the other non-ASCII spaces are outside the generated fragment.) *)
Definition is_space (c : ascii) : bool :=
  let n := N_of_ascii c in ((N.leb 9 n && N.leb n 13) || (N.leb 28 n && N.leb n 32))%bool.

Fixpoint lstrip (s : string) : string :=
  match s with
  | EmptyString => EmptyString
  | String c r => if is_space c then lstrip r else s
  end.

Fixpoint srev_acc (s acc : string) : string :=
  match s with EmptyString => acc | String c r => srev_acc r (String c acc) end.
Definition srev (s : string) : string := srev_acc s EmptyString.
Definition rstrip (s : string) : string := srev (lstrip (srev s)).
Definition strip (s : string) : string := rstrip (lstrip s).

Definition is_empty (s : string) : bool := match s with EmptyString => true | _ => false end.

Fixpoint sdrop (n : nat) (s : string) : string :=
  match n, s with O, _ => s | S k, String _ r => sdrop k r | S _, EmptyString => EmptyString end.

(* s[1:-1] *)
Definition drop_first (s : string) : string := match s with EmptyString => EmptyString | String _ r => r end.
Definition drop_last (s : string) : string := srev (drop_first (srev s)).
Definition inner (s : string) : string := drop_last (drop_first s).

Definition first_is (c : ascii) (s : string) : bool :=
  match s with String d _ => Ascii.eqb c d | EmptyString => false end.
Definition last_is (c : ascii) (s : string) : bool := first_is c (srev s).

(* needle is a prefix of s *)
Fixpoint sprefix (needle s : string) : bool :=
  match needle, s with
  | EmptyString, _ => true
  | String a n', String b s' => (Ascii.eqb a b && sprefix n' s')%bool
  | String _ _, EmptyString => false
  end.

(* `needle in s` *)
Fixpoint contains (s needle : string) : bool :=
  if sprefix needle s then true
  else match s with EmptyString => false | String _ r => contains r needle end.

(* Python str.count(needle) for a non-empty needle: non-overlapping occurrences, left to right.
   [skip] = bytes of the current occurrence still to be passed over. *)
Fixpoint count_from (skip : nat) (s needle : string) : Z :=
  match s with
  | EmptyString => 0%Z
  | String _ r =>
      match skip with
      | S k => count_from k r needle
      | O => if sprefix needle s then (1 + count_from (String.length needle - 1) r needle)%Z
             else count_from 0 r needle
      end
  end.
Definition count (s needle : string) : Z :=
  if is_empty needle then (Z.of_nat (String.length s) + 1)%Z else count_from 0 s needle.

(* re.findall of  q ( [^q]* ) q  over s: the text between the 1st and 2nd, 3rd and 4th, ... quote char q. *)
Fixpoint findall_q (q : ascii) (s : string) (cur : option string) : list string :=
  match s with
  | EmptyString => []
  | String c r =>
      match cur with
      | None => if Ascii.eqb c q then findall_q q r (Some EmptyString) else findall_q q r None
      | Some acc => if Ascii.eqb c q then srev acc :: findall_q q r None
                    else findall_q q r (Some (String c acc))
      end
  end.
Definition findall_quoted (q : ascii) (s : string) : list string := findall_q q s None.

(* len() of the text: number of code points = bytes that are not UTF-8 continuation bytes *)
Fixpoint ulen (s : string) : Z :=
  match s with
  | EmptyString => 0%Z
  | String c r => let n := N_of_ascii c in
                  ((if (N.leb 128 n && N.ltb n 192)%bool then 0 else 1) + ulen r)%Z
  end.

Fixpoint sumZ (l : list Z) : Z := match l with [] => 0%Z | x :: r => (x + sumZ r)%Z end.

(* extract_merchant_name: every byte outside [A-Za-z] is a separator (re.sub of [^A-Za-z\s] by a space, then
   .split(): both non-letters and white space end a word); at most 3 words, each str.title()d. *)
Definition is_alpha (c : ascii) : bool := (is_upper_ascii c || is_lower_ascii c)%bool.
Fixpoint words_alpha (s : string) (cur : string) : list string :=
  match s with
  | EmptyString => if is_empty cur then [] else [srev cur]
  | String c r => if is_alpha c then words_alpha r (String c cur)
                  else if is_empty cur then words_alpha r EmptyString
                  else srev cur :: words_alpha r EmptyString
  end.
Definition title_word (w : string) : string :=
  match w with EmptyString => EmptyString | String c r => String (upper_char c) (lower r) end.
Fixpoint join (sep : string) (l : list string) : string :=
  match l with [] => EmptyString | [x] => x | x :: r => x ++ sep ++ join sep r end.

(* ^(kw1|kw2|...)\s*TAIL where TAIL is one byte drawn from [tail]; no keyword is a prefix of another
   (checked by the translator), so ordered alternation = any alternative. *)
Fixpoint skip_spaces (s : string) : string :=
  match s with String c r => if is_space c then skip_spaces r else s | EmptyString => EmptyString end.
Definition char_in (tail : string) (s : string) : bool :=
  match s with String c _ => contains tail (String c EmptyString) | EmptyString => false end.
Definition kw_then (kws : list string) (tail : string) (s : string) : bool :=
  existsb (fun kw => (sprefix kw s && char_in tail (skip_spaces (sdrop (String.length kw) s)))%bool) kws.

Fixpoint string_list_eqb (a b : list string) : bool :=
  match a, b with
  | [], [] => true
  | x :: r, y :: s => (String.eqb x y && string_list_eqb r s)%bool
  | _, _ => false
  end.
