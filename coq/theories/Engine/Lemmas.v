(* Engine/Lemmas.v — facts about the rule loop of Engine/Model.v shared by C01, C02, C09.
   Everything is proved for an arbitrary oracle (Section variable): whatever the expression evaluator
   answers, the loop has these properties. *)
From Coq Require Import String Ascii List Bool ZArith Arith Lia Permutation.
From Tally Require Import Lib.Str Engine.StrLib Engine.Model.
Import ListNotations.
Open Scope string_scope.

(* ------------------------------------------------------------------------------------------------- *)
(* the ranking order *)

Definition spec_lt (a b : spec) : Prop := spec_ltb a b = true.
Definition spec_le (a b : spec) : Prop := spec_ltb b a = false.     (* not (b < a) *)

Lemma spec_ltb_lex : forall p1 n1 k1 l1 p2 n2 k2 l2,
  spec_ltb (p1, n1, k1, l1) (p2, n2, k2, l2) = true <->
  (p1 < p2 \/ (p1 = p2 /\ (n1 < n2 \/ (n1 = n2 /\ (k1 < k2 \/ (k1 = k2 /\ l1 < l2))))))%Z.
Proof.
  intros. unfold spec_ltb.
  destruct (Z.eqb_spec p1 p2); destruct (Z.eqb_spec n1 n2); destruct (Z.eqb_spec k1 k2);
    rewrite ?Z.ltb_lt; lia.
Qed.

Lemma spec_ltb_irrefl : forall a, spec_ltb a a = false.
Proof.
  intros [[[p n] k] l]. destruct (spec_ltb (p, n, k, l) (p, n, k, l)) eqn:E; [|reflexivity].
  apply spec_ltb_lex in E. lia.
Qed.

Lemma spec_ltb_trans : forall a b c, spec_ltb a b = true -> spec_ltb b c = true -> spec_ltb a c = true.
Proof.
  intros [[[p1 n1] k1] l1] [[[p2 n2] k2] l2] [[[p3 n3] k3] l3] H1 H2.
  apply spec_ltb_lex in H1. apply spec_ltb_lex in H2. apply spec_ltb_lex. lia.
Qed.

Lemma spec_ltb_asym : forall a b, spec_ltb a b = true -> spec_ltb b a = false.
Proof.
  intros a b H. destruct (spec_ltb b a) eqn:E; [|reflexivity].
  pose proof (spec_ltb_trans _ _ _ H E) as K. rewrite spec_ltb_irrefl in K. discriminate.
Qed.

Lemma spec_trichotomy : forall a b, spec_ltb a b = true \/ a = b \/ spec_ltb b a = true.
Proof.
  intros [[[p1 n1] k1] l1] [[[p2 n2] k2] l2].
  rewrite !spec_ltb_lex.
  destruct (Z.lt_trichotomy p1 p2) as [?|[?|?]]; [lia| |lia].
  destruct (Z.lt_trichotomy n1 n2) as [?|[?|?]]; [lia| |lia].
  destruct (Z.lt_trichotomy k1 k2) as [?|[?|?]]; [lia| |lia].
  destruct (Z.lt_trichotomy l1 l2) as [?|[?|?]]; [lia| |lia].
  right; left. subst. reflexivity.
Qed.

Lemma spec_le_iff : forall a b, spec_le a b <-> (spec_lt a b \/ a = b).
Proof.
  intros a b. unfold spec_le, spec_lt. split.
  - intros H. destruct (spec_trichotomy a b) as [?|[?|K]]; auto. congruence.
  - intros [H| ->]; [apply spec_ltb_asym; exact H | apply spec_ltb_irrefl].
Qed.

Lemma spec_le_lt_trans : forall a b c, spec_le a b -> spec_lt b c -> spec_lt a c.
Proof.
  intros a b c H1 H2. apply spec_le_iff in H1. destruct H1 as [H1| ->]; [|exact H2].
  eapply spec_ltb_trans; eassumption.
Qed.

Lemma spec_lt_le_trans : forall a b c, spec_lt a b -> spec_le b c -> spec_lt a c.
Proof.
  intros a b c H1 H2. apply spec_le_iff in H2. destruct H2 as [H2| <-]; [|exact H1].
  eapply spec_ltb_trans; eassumption.
Qed.

(* ------------------------------------------------------------------------------------------------- *)
(* Python max(key=...) = first maximum *)

Definition rlt (a b : rule) : Prop := spec_lt (spec_of a) (spec_of b).
Definition rle (a b : rule) : Prop := spec_le (spec_of a) (spec_of b).

(* [w] is the first maximum of [l]: everything before it ranks strictly lower, nothing after it ranks higher *)
Definition first_max (l : list rule) (w : rule) : Prop :=
  exists before after, l = (before ++ w :: after)%list /\ Forall (fun r => rlt r w) before /\ Forall (fun r => rle r w) after.

Lemma max_from_first_max : forall l best, first_max (best :: l) (max_from best l).
Proof.
  induction l as [|x rest IH]; intros best; cbn [max_from].
  - exists [], []. repeat split; constructor.
  - destruct (spec_ltb (spec_of best) (spec_of x)) eqn:E.
    + specialize (IH x). remember (max_from x rest) as w eqn:Hw. clear Hw.
      destruct IH as (b & a & Heq & Hb & Ha).
      exists (best :: b), a. split; [cbn; rewrite <- Heq; reflexivity|]. split; [|exact Ha].
      constructor; [|exact Hb].
      destruct b as [|y b'].
      * cbn in Heq. injection Heq as Hx _. rewrite <- Hx. exact E.
      * cbn in Heq. injection Heq as Hy _. subst y. inversion Hb as [|? ? Hxw _]; subst.
        unfold rlt, spec_lt in *. eapply spec_ltb_trans; eassumption.
    + specialize (IH best). remember (max_from best rest) as w eqn:Hw. clear Hw.
      destruct IH as (b & a & Heq & Hb & Ha).
      destruct b as [|y b'].
      * cbn in Heq. injection Heq as Hw Hr.
        exists [], (x :: a). split; [cbn; rewrite <- Hw, Hr; reflexivity|]. split; [constructor|].
        constructor; [|exact Ha]. unfold rle, spec_le. rewrite <- Hw. exact E.
      * cbn in Heq. injection Heq as Hy Hr. subst y.
        exists (best :: x :: b'), a. split; [cbn; rewrite Hr; reflexivity|]. split; [|exact Ha].
        inversion Hb as [|? ? Hbw Hb']; subst.
        constructor; [exact Hbw|]. constructor; [|exact Hb'].
        unfold rlt in *. eapply spec_le_lt_trans; [|exact Hbw]. exact E.
Qed.

Lemma py_max_none : forall l, py_max l = None <-> l = [].
Proof. intros [|x r]; cbn; split; intros H; congruence. Qed.

Lemma py_max_first_max : forall l w, py_max l = Some w -> first_max l w.
Proof.
  intros [|x r] w H; cbn in H; [discriminate|]. injection H as <-. apply max_from_first_max.
Qed.

Lemma first_max_in : forall l w, first_max l w -> In w l.
Proof. intros l w (b & a & -> & _). apply in_or_app. right. left. reflexivity. Qed.

Lemma first_max_ge : forall l w, first_max l w -> forall r, In r l -> rle r w.
Proof.
  intros l w (b & a & -> & Hb & Ha) r Hin. apply in_app_or in Hin. destruct Hin as [Hin|[<-|Hin]].
  - rewrite Forall_forall in Hb. apply spec_le_iff. left. apply Hb. exact Hin.
  - unfold rle, spec_le. apply spec_ltb_irrefl.
  - rewrite Forall_forall in Ha. apply Ha. exact Hin.
Qed.

(* the split is unique: the first maximum is determined by the list *)
Lemma first_max_unique : forall b1 l w1 w2 a1 b2 a2,
  l = (b1 ++ w1 :: a1)%list -> Forall (fun r => rlt r w1) b1 -> Forall (fun r => rle r w1) a1 ->
  l = (b2 ++ w2 :: a2)%list -> Forall (fun r => rlt r w2) b2 -> Forall (fun r => rle r w2) a2 ->
  b1 = b2 /\ w1 = w2 /\ a1 = a2.
Proof.
  induction b1 as [|x b1 IH]; intros l w1 w2 a1 b2 a2 E1 Hb1 Ha1 E2 Hb2 Ha2.
  - destruct b2 as [|y b2].
    + cbn in E1, E2. rewrite E1 in E2. injection E2 as Hw Ha. auto.
    + exfalso. cbn in E1, E2. rewrite E1 in E2. injection E2 as Hy Ha.
      apply Forall_inv in Hb2. rewrite <- Hy in Hb2.
      assert (Hin : In w2 a1) by (rewrite Ha; apply in_or_app; right; left; reflexivity).
      rewrite Forall_forall in Ha1. specialize (Ha1 _ Hin).
      unfold rlt, rle, spec_lt, spec_le in *. congruence.
  - destruct b2 as [|y b2].
    + exfalso. cbn in E1, E2. rewrite E1 in E2. injection E2 as Hx Ha.
      apply Forall_inv in Hb1. rewrite Hx in Hb1.
      assert (Hin : In w1 a2) by (rewrite <- Ha; apply in_or_app; right; left; reflexivity).
      rewrite Forall_forall in Ha2. specialize (Ha2 _ Hin).
      unfold rlt, rle, spec_lt, spec_le in *. congruence.
    + cbn in E1, E2. rewrite E1 in E2. injection E2 as Hx Hrest.
      apply Forall_inv_tail in Hb1. apply Forall_inv_tail in Hb2.
      destruct (IH (b1 ++ w1 :: a1)%list w1 w2 a1 b2 a2 eq_refl Hb1 Ha1 Hrest Hb2 Ha2) as (E & Ew & Ea).
      subst. auto.
Qed.

Lemma first_max_py_max : forall l w, first_max l w -> py_max l = Some w.
Proof.
  intros l w (b & a & E & Hb & Ha).
  destruct (py_max l) as [w'|] eqn:P.
  - destruct (py_max_first_max _ _ P) as (b' & a' & E' & Hb' & Ha').
    destruct (first_max_unique b l w w' a b' a' E Hb Ha E' Hb' Ha') as (_ & -> & _). reflexivity.
  - apply py_max_none in P. subst l. destruct b; discriminate.
Qed.

(* removing an element that ranks strictly below some other element does not change the first maximum *)
Lemma py_max_remove_dominated : forall l1 t l2,
  (exists x, In x (l1 ++ l2)%list /\ rlt t x) -> py_max (l1 ++ t :: l2)%list = py_max (l1 ++ l2)%list.
Proof.
  intros l1 t l2 (x & Hx & Htx).
  destruct (py_max (l1 ++ t :: l2)%list) as [w|] eqn:P.
  2:{ apply py_max_none in P. destruct l1; discriminate. }
  symmetry. apply first_max_py_max.
  pose proof (py_max_first_max _ _ P) as FM.
  assert (Hxw : rle x w).
  { apply (first_max_ge _ _ FM). apply in_app_or in Hx. apply in_or_app. destruct Hx; [left|right; right]; assumption. }
  assert (Htw : rlt t w) by (unfold rlt, rle in *; eapply spec_lt_le_trans; eassumption).
  destruct FM as (b & a & E & Hb & Ha).
  apply app_eq_app in E. destruct E as (m & [[E1 E2]|[E1 E2]]).
  - (* l1 = b ++ m, w :: a = m ++ t :: l2 *)
    destruct m as [|y m].
    + cbn in E2. injection E2 as Hw _. exfalso. subst. unfold rlt, spec_lt in Htw. rewrite spec_ltb_irrefl in Htw. discriminate.
    + cbn in E2. injection E2 as Hy Ea. subst y.
      exists b, (m ++ l2)%list. split; [rewrite E1, <- app_assoc; reflexivity|]. split; [exact Hb|].
      rewrite Ea in Ha. rewrite Forall_app in Ha. destruct Ha as [Ha1 Ha2]. inversion Ha2; subst.
      apply Forall_app. split; assumption.
  - (* b = l1 ++ m, t :: l2 = m ++ w :: a *)
    destruct m as [|y m].
    + cbn in E2. injection E2 as Hw _. exfalso. subst. unfold rlt, spec_lt in Htw. rewrite spec_ltb_irrefl in Htw. discriminate.
    + cbn in E2. injection E2 as Hy El. subst y.
      exists (l1 ++ m)%list, a. split; [rewrite El, <- app_assoc; reflexivity|]. split; [|exact Ha].
      rewrite E1 in Hb. rewrite Forall_app in Hb. destruct Hb as [Hb1 Hb2]. inversion Hb2; subst.
      apply Forall_app. split; assumption.
Qed.

(* order independence when keys are pairwise different *)
Lemma NoDup_map_inj : forall (A B : Type) (f : A -> B) l a b, NoDup (map f l) -> In a l -> In b l -> f a = f b -> a = b.
Proof.
  intros A B f l. induction l as [|x r IH]; intros a b ND Ha Hb E; [contradiction|].
  cbn in ND. inversion ND as [|? ? Hnin ND']; subst.
  destruct Ha as [<-|Ha]; destruct Hb as [<-|Hb]; auto.
  - exfalso. apply Hnin. rewrite E. apply in_map. exact Hb.
  - exfalso. apply Hnin. rewrite <- E. apply in_map. exact Ha.
Qed.

Lemma py_max_perm : forall l l', Permutation l l' -> NoDup (map spec_of l) -> py_max l = py_max l'.
Proof.
  intros l l' P ND.
  destruct (py_max l) as [w|] eqn:E; destruct (py_max l') as [w'|] eqn:E'.
  - f_equal.
    pose proof (py_max_first_max _ _ E) as F. pose proof (py_max_first_max _ _ E') as F'.
    assert (Hw' : In w' l) by (eapply Permutation_in; [apply Permutation_sym; exact P | apply first_max_in; exact F']).
    assert (Hw : In w l') by (eapply Permutation_in; [exact P | apply first_max_in; exact F]).
    pose proof (first_max_ge _ _ F _ Hw') as G1. pose proof (first_max_ge _ _ F' _ Hw) as G2.
    unfold rle, spec_le in *.
    destruct (spec_trichotomy (spec_of w) (spec_of w')) as [K|[K|K]]; try congruence.
    eapply NoDup_map_inj; eauto. apply first_max_in; exact F.
  - apply py_max_none in E'. subst l'. apply Permutation_sym, Permutation_nil in P. subst l. discriminate.
  - apply py_max_none in E. subst l. apply Permutation_nil in P. subst l'. discriminate.
  - reflexivity.
Qed.

Lemma Permutation_filter' : forall (A : Type) (f : A -> bool) l l', Permutation l l' -> Permutation (filter f l) (filter f l').
Proof.
  intros A f l l' P. induction P; cbn.
  - constructor.
  - destruct (f x); [constructor|]; assumption.
  - destruct (f x); destruct (f y); try apply perm_swap; try apply Permutation_refl.
  - eapply Permutation_trans; eassumption.
Qed.

(* ------------------------------------------------------------------------------------------------- *)
(* generic list facts *)

Lemma find_filter : forall (A : Type) (f g : A -> bool) l, find f (filter g l) = find (fun x => (g x && f x)%bool) l.
Proof.
  intros A f g l. induction l as [|x r IH]; cbn; [reflexivity|].
  destruct (g x); cbn; [destruct (f x); auto|auto].
Qed.

Lemma find_app : forall (A : Type) (f : A -> bool) l1 l2,
  find f (l1 ++ l2)%list = match find f l1 with Some x => Some x | None => find f l2 end.
Proof. intros A f l1 l2. induction l1 as [|x r IH]; cbn; [reflexivity|]. destruct (f x); auto. Qed.

Lemma filter_app' : forall (A : Type) (f : A -> bool) l1 l2, filter f (l1 ++ l2)%list = (filter f l1 ++ filter f l2)%list.
Proof. intros A f l1 l2. induction l1 as [|x r IH]; cbn; [reflexivity|]. destruct (f x); cbn; rewrite IH; reflexivity. Qed.

(* ------------------------------------------------------------------------------------------------- *)
(* the rule loop *)

Section Run.
  Variable o : oracle.

  Definition is_match (r : rule) : bool := match o_cond o r with RTrue => true | _ => false end.
  (* tags a matching rule contributes *)
  Definition rtags (r : rule) : list string := match resolve_tags o r (r_tags r) with Some l => l | None => [] end.
  (* no exception escapes while this rule is processed *)
  Definition rule_ok (r : rule) : bool :=
    match o_cond o r with
    | RCrash => false
    | RTrue => match resolve_tags o r (r_tags r) with Some _ => true | None => false end
    | _ => true
    end.

  Lemma step_nomatch : forall s r, o_cond o r = RFalse \/ o_cond o r = RSkip -> step o s r = Some s.
  Proof. intros s r [H|H]; unfold step; rewrite H; reflexivity. Qed.

  Lemma run_app : forall l1 l2 s,
    run o s (l1 ++ l2)%list = match run o s l1 with None => None | Some s' => run o s' l2 end.
  Proof.
    induction l1 as [|x r IH]; intros l2 s; cbn; [reflexivity|].
    destruct (step o s x); [apply IH|reflexivity].
  Qed.

  Definition fold_tags (acc : list tagged) (l : list rule) : list tagged :=
    fold_left (fun a r => add_tags a (rtags r) r) l acc.

  Definition state_after (s : st) (rules : list rule) : st :=
    {| s_matching := (s_matching s ++ filter is_match rules)%list;
       s_first := match s_first s with Some f => Some f | None => find is_cat (filter is_match rules) end;
       s_tags := fold_tags (s_tags s) (filter is_match rules) |}.

  Lemma run_spec : forall rules s,
    run o s rules = if forallb rule_ok rules then Some (state_after s rules) else None.
  Proof.
    induction rules as [|r rest IH]; intros s.
    - cbn. unfold state_after. cbn. rewrite app_nil_r. destruct s as [m f t]; cbn. destruct f; reflexivity.
    - cbn [run forallb]. unfold step, rule_ok at 1.
      destruct (o_cond o r) eqn:C.
      + assert (Hm : is_match r = true) by (unfold is_match; rewrite C; reflexivity).
        destruct (resolve_tags o r (r_tags r)) as [ts|] eqn:T; cbn [andb]; [|reflexivity].
        assert (Ht : rtags r = ts) by (unfold rtags; rewrite T; reflexivity).
        rewrite IH. destruct (forallb rule_ok rest); [|reflexivity]. f_equal.
        unfold state_after. cbn [s_matching s_first s_tags filter]. rewrite Hm.
        cbn [find]. unfold fold_tags. cbn [fold_left]. rewrite Ht.
        rewrite <- app_assoc. cbn [app].
        f_equal. destruct (s_first s); [reflexivity|]. destruct (is_cat r); reflexivity.
      + assert (Hm : is_match r = false) by (unfold is_match; rewrite C; reflexivity).
        cbn [andb]. rewrite IH. destruct (forallb rule_ok rest); [|reflexivity]. f_equal.
        unfold state_after. cbn [filter]. rewrite Hm. reflexivity.
      + assert (Hm : is_match r = false) by (unfold is_match; rewrite C; reflexivity).
        cbn [andb]. rewrite IH. destruct (forallb rule_ok rest); [|reflexivity]. f_equal.
        unfold state_after. cbn [filter]. rewrite Hm. reflexivity.
      + reflexivity.
  Qed.

  (* the state at the end of the loop *)
  Definition final_state (rules : list rule) : st :=
    {| s_matching := filter is_match rules;
       s_first := find is_cat (filter is_match rules);
       s_tags := fold_tags [] (filter is_match rules) |}.

  Lemma run_st0 : forall rules, run o st0 rules = if forallb rule_ok rules then Some (final_state rules) else None.
  Proof. intros rules. rewrite run_spec. reflexivity. Qed.

  Lemma engine_match_res : forall m rules res,
    engine_match m rules o = Res res ->
    o_gv_crash o = false /\ forallb rule_ok rules = true /\ finish o m (final_state rules) = Res res.
  Proof.
    intros m rules res H. unfold engine_match in H.
    destruct (o_gv_crash o); [discriminate|]. rewrite run_st0 in H.
    destruct (forallb rule_ok rules); [|discriminate]. auto.
  Qed.

  Lemma engine_match_intro : forall m rules,
    o_gv_crash o = false -> forallb rule_ok rules = true ->
    engine_match m rules o = finish o m (final_state rules).
  Proof. intros m rules G K. unfold engine_match. rewrite G, run_st0, K. reflexivity. Qed.

  (* ---- tags ---- *)
  Lemma has_tag_in : forall t acc, has_tag t acc = true <-> In t (map fst acc).
  Proof.
    intros t acc. induction acc as [|[t' r] rest IH]; cbn; [split; [discriminate|tauto]|].
    destruct (String.eqb_spec t t') as [->|N]; [tauto|]. rewrite IH. split; [tauto|]. intros [H|H]; [congruence|exact H].
  Qed.

  Lemma add_tags_in : forall ts acc r t, In t (map fst (add_tags acc ts r)) <-> In t (map fst acc) \/ In t ts.
  Proof.
    induction ts as [|x ts IH]; intros acc r t; cbn [add_tags]; [cbn; tauto|].
    rewrite IH. destruct (has_tag x acc) eqn:H.
    - apply has_tag_in in H. cbn. split; [tauto|]. intros [K|[<-|K]]; tauto.
    - rewrite map_app, in_app_iff. cbn. split; [tauto|tauto].
  Qed.

  Lemma fold_tags_in : forall l acc t,
    In t (map fst (fold_tags acc l)) <-> In t (map fst acc) \/ exists r, In r l /\ In t (rtags r).
  Proof.
    induction l as [|x l IH]; intros acc t; cbn [fold_tags fold_left].
    - split; [tauto|]. intros [H|(r & [] & _)]. exact H.
    - fold (fold_tags (add_tags acc (rtags x) x) l). rewrite IH, add_tags_in. split.
      + intros [[H|H]|(r & Hr & Ht)]; [tauto| right; exists x; cbn; tauto | right; exists r; cbn; tauto].
      + intros [H|(r & [<-|Hr] & Ht)]; [tauto|tauto|right; exists r; tauto].
  Qed.

  Lemma final_tags_in : forall rules t,
    In t (map fst (s_tags (final_state rules))) <-> exists r, In r rules /\ o_cond o r = RTrue /\ In t (rtags r).
  Proof.
    intros rules t. cbn [final_state s_tags]. rewrite fold_tags_in. cbn. split.
    - intros [[]|(r & Hr & Ht)]. apply filter_In in Hr. destruct Hr as [Hr Hm]. exists r. repeat split; auto.
      unfold is_match in Hm. destruct (o_cond o r); congruence.
    - intros (r & Hr & Hc & Ht). right. exists r. split; [|exact Ht]. apply filter_In. split; [exact Hr|].
      unfold is_match. rewrite Hc. reflexivity.
  Qed.

  Lemma finish_tags : forall m s res, finish o m s = Res res -> tag_list res = s_tags s.
  Proof.
    intros m s res H. unfold finish in H. destruct m.
    - destruct (s_first s) as [w|]; [destruct (eval_fields o w (r_fields w)); [|discriminate]|]; injection H as <-; reflexivity.
    - destruct (match py_max (filter is_cat (s_matching s)) with Some w => eval_fields o w (r_fields w) | None => Some [] end);
        [|discriminate]. injection H as <-. reflexivity.
  Qed.

  Lemma finish_matching : forall m s res, finish o m s = Res res -> all_matching res = s_matching s.
  Proof.
    intros m s res H. unfold finish in H. destruct m.
    - destruct (s_first s) as [w|]; [destruct (eval_fields o w (r_fields w)); [|discriminate]|]; injection H as <-; reflexivity.
    - destruct (match py_max (filter is_cat (s_matching s)) with Some w => eval_fields o w (r_fields w) | None => Some [] end);
        [|discriminate]. injection H as <-. reflexivity.
  Qed.
End Run.

(* is_match of a non-matching rule, for filter rewriting *)
Lemma is_match_false : forall o r, o_cond o r <> RTrue -> is_match o r = false.
Proof. intros o r H. unfold is_match. destruct (o_cond o r); congruence. Qed.

(* ------------------------------------------------------------------------------------------------- *)
(* the legacy tuple loop *)

Section Legacy.
  Variable lo : loracle.
  Variable du : string.
  Variables amount date : option Z.

  Definition lout_of (r : lrule) : lout := l_outcome lo du amount date r.
  Definition lmatch (r : lrule) : bool := match lout_of r with LMatch _ => true | _ => false end.
  Definition ltags (r : lrule) : list string := match lout_of r with LMatch ts => ts | _ => [] end.
  Definition lok (r : lrule) : bool := match lout_of r with LBoom => false | _ => true end.
  Definition l_is_cat (r : lrule) : bool := negb (is_empty (l_category r)).

  Definition lfold_tags (acc : list ltagged) (l : list lrule) : list ltagged :=
    fold_left (fun a r => ladd_tags a (ltags r) r) l acc.

  Definition lstate_after (s : lst) (rules : list lrule) : lst :=
    {| ls_first := match ls_first s with Some f => Some f | None => find l_is_cat (filter lmatch rules) end;
       ls_tags := lfold_tags (ls_tags s) (filter lmatch rules) |}.

  Lemma lstep_no : forall s r, lout_of r = LNo -> lstep lo du amount date s r = Some s.
  Proof. intros s r H. unfold lstep. unfold lout_of in H. rewrite H. reflexivity. Qed.

  Lemma lrun_app : forall l1 l2 s,
    lrun lo du amount date s (l1 ++ l2)%list =
    match lrun lo du amount date s l1 with None => None | Some s' => lrun lo du amount date s' l2 end.
  Proof.
    induction l1 as [|x r IH]; intros l2 s; cbn; [reflexivity|].
    destruct (lstep lo du amount date s x); [apply IH|reflexivity].
  Qed.

  Lemma lrun_spec : forall rules s,
    lrun lo du amount date s rules = if forallb lok rules then Some (lstate_after s rules) else None.
  Proof.
    induction rules as [|r rest IH]; intros s.
    - cbn. unfold lstate_after. cbn. destruct s as [f t]; cbn. destruct f; reflexivity.
    - cbn [lrun forallb]. unfold lstep, lok at 1. fold (lout_of r).
      destruct (lout_of r) as [ts| |] eqn:C.
      + assert (Hm : lmatch r = true) by (unfold lmatch; rewrite C; reflexivity).
        assert (Ht : ltags r = ts) by (unfold ltags; rewrite C; reflexivity).
        cbn [andb]. rewrite IH. destruct (forallb lok rest); [|reflexivity]. f_equal.
        unfold lstate_after. cbn [ls_first ls_tags filter]. rewrite Hm. cbn [find]. unfold lfold_tags. cbn [fold_left].
        rewrite Ht. f_equal. destruct (ls_first s); [reflexivity|]. unfold l_is_cat.
        destruct (is_empty (l_category r)); reflexivity.
      + assert (Hm : lmatch r = false) by (unfold lmatch; rewrite C; reflexivity).
        cbn [andb]. rewrite IH. destruct (forallb lok rest); [|reflexivity]. f_equal.
        unfold lstate_after. cbn [filter]. rewrite Hm. reflexivity.
      + reflexivity.
  Qed.

  Definition lfinal (rules : list lrule) : lst :=
    {| ls_first := find l_is_cat (filter lmatch rules); ls_tags := lfold_tags [] (filter lmatch rules) |}.

  Lemma lrun_lst0 : forall rules,
    lrun lo du amount date lst0 rules = if forallb lok rules then Some (lfinal rules) else None.
  Proof. intros rules. rewrite lrun_spec. reflexivity. Qed.

  Lemma lhas_tag_in : forall t acc, lhas_tag t acc = true <-> In t (map fst acc).
  Proof.
    intros t acc. induction acc as [|[t' r] rest IH]; cbn; [split; [discriminate|tauto]|].
    destruct (String.eqb_spec t t') as [->|N]; [tauto|]. rewrite IH. split; [tauto|]. intros [H|H]; [congruence|exact H].
  Qed.

  Lemma ladd_tags_in : forall ts acc r t, In t (map fst (ladd_tags acc ts r)) <-> In t (map fst acc) \/ In t ts.
  Proof.
    induction ts as [|x ts IH]; intros acc r t; cbn [ladd_tags]; [cbn; tauto|].
    rewrite IH. destruct (lhas_tag x acc) eqn:H.
    - apply lhas_tag_in in H. cbn. split; [tauto|]. intros [K|[<-|K]]; tauto.
    - rewrite map_app, in_app_iff. cbn. split; [tauto|tauto].
  Qed.

  Lemma lfold_tags_in : forall l acc t,
    In t (map fst (lfold_tags acc l)) <-> In t (map fst acc) \/ exists r, In r l /\ In t (ltags r).
  Proof.
    induction l as [|x l IH]; intros acc t; cbn [lfold_tags fold_left].
    - split; [tauto|]. intros [H|(r & [] & _)]. exact H.
    - fold (lfold_tags (ladd_tags acc (ltags x) x) l). rewrite IH, ladd_tags_in. split.
      + intros [[H|H]|(r & Hr & Ht)]; [tauto| right; exists x; cbn; tauto | right; exists r; cbn; tauto].
      + intros [H|(r & [<-|Hr] & Ht)]; [tauto|tauto|right; exists r; tauto].
  Qed.

  Lemma lfinal_tags_in : forall rules t,
    In t (map fst (ls_tags (lfinal rules))) <-> exists r, In r rules /\ lmatch r = true /\ In t (ltags r).
  Proof.
    intros rules t. cbn [lfinal ls_tags]. rewrite lfold_tags_in. cbn. split.
    - intros [[]|(r & Hr & Ht)]. apply filter_In in Hr. destruct Hr as [Hr Hm]. exists r. auto.
    - intros (r & Hr & Hc & Ht). right. exists r. split; [|exact Ht]. apply filter_In. auto.
  Qed.
End Legacy.

(* tags of a result = union over the rules whose condition is true of the tags they resolve to (either mode) *)
Lemma tags_union : forall o m rules res t,
  engine_match m rules o = Res res ->
  (In t (tags res) <-> exists r, In r rules /\ o_cond o r = RTrue /\ In t (rtags o r)).
Proof.
  intros o m rules res t H. apply engine_match_res in H. destruct H as (_ & _ & H).
  unfold tags. rewrite (finish_tags o m _ res H). apply final_tags_in.
Qed.

Lemma all_matching_spec : forall o m rules res,
  engine_match m rules o = Res res -> all_matching res = filter (is_match o) rules.
Proof.
  intros o m rules res H. apply engine_match_res in H. destruct H as (_ & _ & H).
  rewrite (finish_matching o m _ res H). reflexivity.
Qed.
