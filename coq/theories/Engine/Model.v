(* Engine/Model.v — executable model of tally's rule matching, shared by C01, C02 and C09:
     MerchantEngine.match            (merchant_engine.py 483-599)   engine_match
     MerchantEngine._resolve_tags    (merchant_engine.py 424-481)   resolve_tag / resolve_tags
     apply_transforms                (merchant_utils.py 297-346)    apply_transforms
     normalize_merchant              (merchant_utils.py 491-668)    normalize (cached-engine path and legacy tuple loop)
     _resolve_dynamic_tags           (merchant_utils.py 688-740)    lresolve_tag
     extract_merchant_name           (merchant_utils.py 463-488)    extract_name
     check_all_conditions & co.      (modifier_parser.py 221-306)   check_all_conditions
   calculate_specificity and _is_expression_pattern are NOT written here: they are translated from the
   source on every run (Gen/C09Specificity.v, Gen/C01IsExpr.v).

   The expression evaluator is not modelled.  Everything that depends on evaluating an expression for a
   transaction is a field of an ORACLE record; the theorems quantify over all oracles, and the
   correspondence check fills the oracle tables from the implementation's own evaluator, rule by rule.
   A rule carries an identity [r_id] (its line number / position) so that an oracle is a function of the
   rule and not of its position in the list that is being matched. *)
From Coq Require Import String Ascii List Bool ZArith Arith.
From Tally Require Import Lib.Str Engine.StrLib Gen.C09Specificity Gen.C01IsExpr Engine.CaseMap.
Import ListNotations.
Open Scope string_scope.

(* ------------------------------------------------------------------------------------------------- *)
(* Oracle outcomes *)

Inductive outcome :=
| RTrue    (* bool(match expression) is True *)
| RFalse   (* ... is False *)
| RSkip    (* an ExpressionError was raised (let binding errors are swallowed before): rule skipped *)
| RCrash.  (* any other exception: it escapes MerchantEngine.match *)

Inductive dynres :=            (* value of the expression inside a {...} tag *)
| DScalar (truthy : bool) (s : string)        (* not a list: bool(v), str(v) *)
| DList (items : list (bool * string))        (* a list: (bool(item), str(item)) per item *)
| DErr                                        (* ExpressionError: tag dropped *)
| DCrash.                                     (* another exception escapes *)

Inductive fres := FVal (v : string) | FErr | FCrash.     (* a `field:` expression; v = repr(value) *)

Inductive mode := FirstMatch | MostSpecific.

Definition spec := (Z * Z * Z * Z)%type.

Record rule := {
  r_id : nat;               (* identity: line number of the [header] *)
  r_name : string;
  r_match : string;         (* match_expr text (specificity is computed from it) *)
  r_category : string;
  r_subcategory : string;
  r_merchant : string;      (* after __post_init__: the rule name when no merchant: line was given *)
  r_tags : list string;     (* raw tag texts *)
  r_priority : Z;
  r_fields : list string    (* names of `field:` directives, dict order *)
}.

Definition is_cat (r : rule) : bool := negb (is_empty (r_category r)).        (* is_categorization_rule *)
Definition has_merchant (r : rule) : bool := negb (is_empty (r_merchant r)).
Definition has_sub (r : rule) : bool := negb (is_empty (r_subcategory r)).
Definition spec_of (r : rule) : spec := calculate_specificity (r_match r) (r_priority r).

(* Python tuple comparison a < b on 4-tuples of ints *)
Definition spec_ltb (a b : spec) : bool :=
  let '(a1, a2, a3, a4) := a in
  let '(b1, b2, b3, b4) := b in
  if Z.eqb a1 b1 then
    if Z.eqb a2 b2 then
      if Z.eqb a3 b3 then Z.ltb a4 b4 else Z.ltb a3 b3
    else Z.ltb a2 b2
  else Z.ltb a1 b1.

Record oracle := {
  o_gv_crash : bool;                      (* _evaluate_variables lets a non-ExpressionError escape *)
  o_cond : rule -> outcome;               (* let bindings + matches_transaction *)
  o_dyn : rule -> string -> dynres;       (* {expr} tag of a matching rule, expr stripped *)
  o_field : rule -> string -> fres        (* field: expression of the winning rule *)
}.

(* ------------------------------------------------------------------------------------------------- *)
(* _resolve_tags *)

Definition is_dynamic (t : string) : bool := (first_is "{"%char t && last_is "}"%char t)%bool.

Definition low_strip (s : string) : string := lower (strip s).

(* None = an exception other than ExpressionError escapes *)
Definition resolve_tag (o : oracle) (r : rule) (raw : string) : option (list string) :=
  let t := strip raw in
  if is_empty t then Some []
  else if is_dynamic t then
    let e := strip (inner t) in
    if is_empty e then Some []
    else match o_dyn o r e with
         | DScalar truthy s =>
             if truthy then (if is_empty (strip s) then Some [] else Some [low_strip s]) else Some []
         | DList items =>        (* one tag per truthy item whose text is not blank *)
             Some (map (fun it => low_strip (snd it))
                       (filter (fun it => (fst it && negb (is_empty (strip (snd it))))%bool) items))
         | DErr => Some []
         | DCrash => None
         end
  else Some [lower t].

Fixpoint resolve_tags (o : oracle) (r : rule) (raws : list string) : option (list string) :=
  match raws with
  | [] => Some []
  | t :: rest =>
      match resolve_tag o r t, resolve_tags o r rest with
      | Some a, Some b => Some (a ++ b)%list
      | _, _ => None
      end
  end.

(* ------------------------------------------------------------------------------------------------- *)
(* the rule loop of MerchantEngine.match *)

Definition tagged := (string * rule)%type.      (* a tag and the rule that first contributed it (tag_sources) *)

Fixpoint has_tag (t : string) (acc : list tagged) : bool :=
  match acc with [] => false | (t', _) :: rest => if String.eqb t t' then true else has_tag t rest end.

Fixpoint add_tags (acc : list tagged) (ts : list string) (r : rule) : list tagged :=
  match ts with
  | [] => acc
  | t :: rest => add_tags (if has_tag t acc then acc else (acc ++ [(t, r)])%list) rest r
  end.

Record st := {
  s_matching : list rule;            (* matching_rules, file order *)
  s_first : option rule;             (* first_category_rule *)
  s_tags : list tagged               (* all_tags + tag_sources *)
}.

Definition st0 : st := {| s_matching := []; s_first := None; s_tags := [] |}.

(* one iteration of `for rule in self.rules`; None = an exception escapes *)
Definition step (o : oracle) (s : st) (r : rule) : option st :=
  match o_cond o r with
  | RCrash => None
  | RSkip => Some s
  | RFalse => Some s
  | RTrue =>
      match resolve_tags o r (r_tags r) with
      | None => None
      | Some ts =>
          Some {| s_matching := (s_matching s ++ [r])%list;
                  s_first := match s_first s with
                             | None => if is_cat r then Some r else None
                             | Some f => Some f
                             end;
                  s_tags := add_tags (s_tags s) ts r |}
      end
  end.

Fixpoint run (o : oracle) (s : st) (rules : list rule) : option st :=
  match rules with
  | [] => Some s
  | r :: rest => match step o s r with None => None | Some s' => run o s' rest end
  end.

(* Python max(l, key=spec): the FIRST element whose key is maximal *)
Fixpoint max_from (best : rule) (l : list rule) : rule :=
  match l with
  | [] => best
  | x :: rest => max_from (if spec_ltb (spec_of best) (spec_of x) then x else best) rest
  end.
Definition py_max (l : list rule) : option rule :=
  match l with [] => None | x :: rest => Some (max_from x rest) end.

(* _evaluate_fields; None = crash *)
Fixpoint eval_fields (o : oracle) (r : rule) (names : list string) : option (list (string * string)) :=
  match names with
  | [] => Some []
  | n :: rest =>
      match o_field o r n, eval_fields o r rest with
      | FCrash, _ => None
      | _, None => None
      | FVal v, Some l => Some ((n, v) :: l)
      | FErr, Some l => Some l
      end
  end.

Record result := {
  matched : bool;
  merchant : string;
  category : string;
  subcategory : string;
  matched_rule : option rule;        (* rule that set the category *)
  merchant_rule : option rule;
  subcategory_rule : option rule;
  tag_list : list tagged;            (* tags with their sources, first-insertion order *)
  extra_fields : list (string * string);
  all_matching : list rule
}.

Definition tags (r : result) : list string := map fst (tag_list r).

Inductive mres := Crash | Res (r : result).

Definition opt_str (f : rule -> string) (o : option rule) : string :=
  match o with Some r => f r | None => "" end.

Definition finish (o : oracle) (m : mode) (s : st) : mres :=
  match m with
  | FirstMatch =>
      match s_first s with
      | Some w =>
          match eval_fields o w (r_fields w) with
          | None => Crash
          | Some ef =>
              Res {| matched := true; merchant := r_merchant w; category := r_category w;
                     subcategory := r_subcategory w;      (* "" unless rule.subcategory *)
                     matched_rule := Some w; merchant_rule := Some w;
                     subcategory_rule := if has_sub w then Some w else None;
                     tag_list := s_tags s; extra_fields := ef; all_matching := s_matching s |}
          end
      | None =>
          Res {| matched := false; merchant := ""; category := ""; subcategory := "";
                 matched_rule := None; merchant_rule := None; subcategory_rule := None;
                 tag_list := s_tags s; extra_fields := []; all_matching := s_matching s |}
      end
  | MostSpecific =>
      let mw := py_max (filter has_merchant (s_matching s)) in
      let cw := py_max (filter is_cat (s_matching s)) in
      let sw := py_max (filter has_sub (s_matching s)) in
      match (match cw with Some w => eval_fields o w (r_fields w) | None => Some [] end) with
      | None => Crash
      | Some ef =>
          Res {| matched := match cw with Some _ => true | None => false end;
                 merchant := opt_str r_merchant mw; category := opt_str r_category cw;
                 subcategory := opt_str r_subcategory sw;
                 matched_rule := cw; merchant_rule := mw; subcategory_rule := sw;
                 tag_list := s_tags s; extra_fields := ef; all_matching := s_matching s |}
      end
  end.

Definition engine_match (m : mode) (rules : list rule) (o : oracle) : mres :=
  if o_gv_crash o then Crash
  else match run o st0 rules with
       | None => Crash
       | Some s => finish o m s
       end.

(* ------------------------------------------------------------------------------------------------- *)
(* apply_transforms: sequential field.* assignments; every exception is swallowed (transform skipped) *)

Record txn := {
  t_desc : string;
  t_fields : option (list (string * string));    (* None: the `field` argument is None *)
  t_raws : list (string * string)                (* _raw_<name> keys, insertion order *)
}.

Fixpoint has_key (k : string) (l : list (string * string)) : bool :=
  match l with [] => false | (k', _) :: r => if String.eqb k k' then true else has_key k r end.

Definition add_raw (k v : string) (l : list (string * string)) : list (string * string) :=
  if has_key k l then l else (l ++ [(k, v)])%list.

(* oracle: value (already str()-ed) of a transform expression on the current transaction state;
   None = any exception (all are swallowed) *)
Definition tf_oracle := string -> option (list (string * string)) -> string -> option string.

Definition tf_step (tf : tf_oracle) (t : txn) (a : string * string) : txn :=
  let '(path, expr) := a in
  match tf (t_desc t) (t_fields t) expr with
  | None => t
  | Some v =>
      let name := sdrop 6 path in                      (* field_path[6:] *)
      if String.eqb name "description" then
        {| t_desc := v; t_fields := t_fields t; t_raws := add_raw ("_raw_" ++ name) (t_desc t) (t_raws t) |}
      else
        match t_fields t with
        | None => t                                    (* None[...] raises, swallowed *)
        | Some fs =>
            {| t_desc := t_desc t; t_fields := Some (dset fs name v);
               t_raws := add_raw ("_raw_" ++ name) (dget fs name "") (t_raws t) |}
        end
  end.

Definition apply_transforms (tf : tf_oracle) (tfs : list (string * string)) (t : txn) : txn :=
  fold_left (tf_step tf) tfs t.

(* ------------------------------------------------------------------------------------------------- *)
(* extract_merchant_name *)

Definition extract_name (d : string) : string :=
  match firstn 3 (words_alpha d EmptyString) with
  | [] => "Unknown"
  | ws => join " " (map title_word ws)
  end.

(* ------------------------------------------------------------------------------------------------- *)
(* legacy modifiers (modifier_parser.py); amounts in exact ticks of 1/512, dates as y*10000+m*100+d *)

Inductive acond := AGt (v : Z) | AGe (v : Z) | ALt (v : Z) | ALe (v : Z) | AEq (v : Z) | ARange (lo hi : Z).
Inductive dcond := DEq (d : Z) | DRange (lo hi : Z) | DMonth (m : Z) | DRelative (passes : bool).
   (* DRelative: date.today() is outside the model; its verdict is supplied (never generated) *)

Definition eval_acond (a : Z) (c : acond) : bool :=
  match c with
  | AGt v => Z.ltb v a | AGe v => Z.leb v a | ALt v => Z.ltb a v | ALe v => Z.leb a v
  | AEq v => Z.ltb (Z.abs (a - v) * 100) 512     (* abs(a - v) < 0.01: the difference of two ticked amounts is exact, and
                                                    no multiple of 1/512 lies between 1/100 and the double 0.01 *)
  | ARange lo hi => (Z.leb lo a && Z.leb a hi)%bool
  end.

Definition eval_dcond (d : Z) (c : dcond) : bool :=
  match c with
  | DEq v => Z.eqb d v
  | DRange lo hi => (Z.leb lo d && Z.leb d hi)%bool
  | DMonth m => Z.eqb (Z.modulo (Z.div d 100) 100) m
  | DRelative b => b
  end.

Definition check_all_conditions (acs : list acond) (dcs : list dcond) (amount date : option Z) : bool :=
  ((match acs with [] => true | _ => match amount with None => false | Some a => forallb (eval_acond a) acs end end)
   && (match dcs with [] => true | _ => match date with None => false | Some d => forallb (eval_dcond d) dcs end end))%bool.

(* ------------------------------------------------------------------------------------------------- *)
(* the legacy tuple loop of normalize_merchant *)

Record lrule := {
  l_id : nat;
  l_pattern : string;
  l_merchant : string;
  l_category : string;
  l_subcategory : string;
  l_parsed : bool;              (* the tuple carries a ParsedPattern *)
  l_aconds : list acond;
  l_dconds : list dcond;
  l_source : string;
  l_tags : list string
}.

Inductive rsres := RSYes | RSNo | RSErr.        (* re.search(pattern, DESC, IGNORECASE): match / None / re.error *)

Inductive ldyn :=                                (* _resolve_dynamic_tags on one {expr} tag *)
| LScalar (truthy : bool) (s : string)
| LErr                                           (* ExpressionError: dropped inside the helper *)
| LReErr                                         (* re.error escapes the helper, the loop's except skips the RULE *)
| LCrash.

Record loracle := {
  lo_search : string -> string -> rsres;         (* pattern, upper-cased description *)
  lo_expr : lrule -> outcome;                    (* matches_transaction(pattern, txn) for expression patterns;
                                                    RSkip = ExpressionError or re.error *)
  lo_dyn : lrule -> string -> ldyn
}.

Inductive tagres := TOk (l : list string) | TSkipRule | TCrash.

Definition lresolve_tag (lo : loracle) (r : lrule) (raw : string) : tagres :=
  let t := strip raw in
  if is_empty t then TOk []
  else if is_dynamic t then
    let e := strip (inner t) in
    if is_empty e then TOk []
    else match lo_dyn lo r e with
         | LScalar truthy s => if truthy then (if is_empty (strip s) then TOk [] else TOk [low_strip s]) else TOk []
         | LErr => TOk []
         | LReErr => TSkipRule
         | LCrash => TCrash
         end
  else TOk [lower t].

Fixpoint lresolve_tags (lo : loracle) (r : lrule) (raws : list string) : tagres :=
  match raws with
  | [] => TOk []
  | t :: rest =>
      match lresolve_tag lo r t with
      | TOk a => match lresolve_tags lo r rest with TOk b => TOk (a ++ b)%list | x => x end
      | x => x
      end
  end.

Inductive lout := LMatch (ts : list string) | LNo | LBoom.

(* the condition the loop evaluates for one tuple, including tag resolution (which sits inside the try) *)
Definition l_outcome (lo : loracle) (desc_upper : string) (amount date : option Z) (r : lrule) : lout :=
  let cond :=
    if is_expression_pattern (l_pattern r) then lo_expr lo r
    else match lo_search lo (l_pattern r) desc_upper with
         | RSErr => RSkip
         | RSNo => RFalse
         | RSYes =>
             if (l_parsed r && negb (match l_aconds r, l_dconds r with [], [] => true | _, _ => false end))%bool
             then (if check_all_conditions (l_aconds r) (l_dconds r) amount date then RTrue else RFalse)
             else RTrue
         end in
  match cond with
  | RCrash => LBoom
  | RSkip => LNo
  | RFalse => LNo
  | RTrue =>
      match lresolve_tags lo r (l_tags r) with
      | TOk ts => LMatch ts
      | TSkipRule => LNo
      | TCrash => LBoom
      end
  end.

Definition ltagged := (string * lrule)%type.
Fixpoint lhas_tag (t : string) (acc : list ltagged) : bool :=
  match acc with [] => false | (t', _) :: rest => if String.eqb t t' then true else lhas_tag t rest end.
Fixpoint ladd_tags (acc : list ltagged) (ts : list string) (r : lrule) : list ltagged :=
  match ts with
  | [] => acc
  | t :: rest => ladd_tags (if lhas_tag t acc then acc else (acc ++ [(t, r)])%list) rest r
  end.

Record lst := { ls_first : option lrule; ls_tags : list ltagged }.
Definition lst0 : lst := {| ls_first := None; ls_tags := [] |}.

Definition lstep (lo : loracle) (du : string) (amount date : option Z) (s : lst) (r : lrule) : option lst :=
  match l_outcome lo du amount date r with
  | LBoom => None
  | LNo => Some s
  | LMatch ts =>
      Some {| ls_first := match ls_first s with
                          | None => if is_empty (l_category r) then None else Some r
                          | Some f => Some f
                          end;
              ls_tags := ladd_tags (ls_tags s) ts r |}
  end.

Fixpoint lrun (lo : loracle) (du : string) (amount date : option Z) (s : lst) (rules : list lrule) : option lst :=
  match rules with
  | [] => Some s
  | r :: rest => match lstep lo du amount date s r with None => None | Some s' => lrun lo du amount date s' rest end
  end.

(* ------------------------------------------------------------------------------------------------- *)
(* normalize_merchant *)

Record ninfo := {
  i_pattern : option string;
  i_source : string;
  i_tags : list string;
  i_raws : list (string * string);
  i_extra : list (string * string)
}.

Inductive nres := NCrash | NRes (m c s : string) (info : option ninfo).

Definition unknown_result (t : txn) (tgs : list string) : nres :=
  let name := extract_name (t_desc t) in
  match tgs, t_raws t with
  | [], [] => NRes name "Unknown" "Unknown" None
  | _, _ => NRes name "Unknown" "Unknown"
              (Some {| i_pattern := None; i_source := "auto"; i_tags := tgs; i_raws := t_raws t; i_extra := [] |})
  end.

(* cached-engine path.  [o_at] = the engine oracle for a given transformed transaction state *)
Definition normalize_engine (tf : tf_oracle) (o_at : string -> option (list (string * string)) -> oracle)
           (m : mode) (rules : list rule) (tfs : list (string * string)) (t0 : txn) : nres :=
  let t := apply_transforms tf tfs t0 in
  match engine_match m rules (o_at (t_desc t) (t_fields t)) with
  | Crash => NCrash
  | Res r =>
      if matched r then
        NRes (merchant r) (category r) (subcategory r)
             (Some {| i_pattern := option_map r_match (matched_rule r); i_source := "user"; i_tags := tags r;
                      i_raws := t_raws t; i_extra := extra_fields r |})
      else unknown_result t (tags r)
  end.

(* legacy path: patterns are searched in description.upper() — Python's full upper-casing (Engine/CaseMap.v), which is
   not 1:1 (sharp s -> SS), so searching the raw text case-insensitively would be a different condition *)
Definition normalize_legacy (tf : tf_oracle) (lo_at : string -> option (list (string * string)) -> loracle)
           (rules : list lrule) (amount date : option Z) (tfs : list (string * string)) (t0 : txn) : nres :=
  let t := apply_transforms tf tfs t0 in
  match lrun (lo_at (t_desc t) (t_fields t)) (py_upper (t_desc t)) amount date lst0 rules with
  | None => NCrash
  | Some s =>
      let tgs := map fst (ls_tags s) in
      match ls_first s with
      | Some w =>
          NRes (l_merchant w) (l_category w) (l_subcategory w)
               (Some {| i_pattern := Some (l_pattern w); i_source := l_source w; i_tags := tgs;
                        i_raws := t_raws t; i_extra := [] |})
      | None => unknown_result t tgs
      end
  end.
