(* C07 — classification depends only on the current rules and the transaction, not on history.

   Model: C07/Model.v.  The process state is (cached engine, rules handed to the caller, one re-parsed
   engine object, expression cache, regex cache); the parser, `re`, the engine's match loop, the legacy
   tuple loop and the file readers are ORACLES (fields of [world]; every theorem is for all worlds).
   [fx = true] is /repo as it is (since e98b1f7: get_all_rules resets _cached_engine on entry), [fx = false]
   the tree before that commit (kept as history, see the end of the file).
   The facts about the source that the cache model rests on are regenerated on every run
   (Gen/C07CacheKeys.v, tools/c07_cache_keys.py) and compared below. *)
From Coq Require Import String List Bool.
From Tally Require Import C07.Model Gen.C07CacheKeys C07.Proofs C07.Args.
Import ListNotations.

(* ---- the source still has the shape the model assumes ------------------------------------------ *)
(* cache dict names; the key is the unmodified argument (`expr` parameter / `pattern` = args[i]);
   what is stored is parse+validate of the key / re.compile(key, constant flags); every other use of the
   dicts is a lookup by that key; MerchantEngine.parse resets all state __init__ creates; who reads
   _cached_engine *)
Theorem c07_cache_facts_as_modelled : C07CacheKeys.facts = expected_cache_facts.
Proof. reflexivity. Qed.
Print Assumptions c07_cache_facts_as_modelled.

(* every writer of _cached_engine is one the model has ([new_cached]), for the variant the source is *)
Theorem c07_cached_engine_writes_as_modelled :
  C07CacheKeys.cached_engine_writes
  = expected_cached_engine_writes C07CacheKeys.get_all_rules_resets_cached_engine.
Proof. reflexivity. Qed.
Print Assumptions c07_cached_engine_writes_as_modelled.

(* the show-once stderr report of load errors (if the tree has it) has the only shape in which it cannot reach
   a classification result; its once-per-process de-duplication is outside this property (Model.v, end) *)
Theorem c07_load_error_report_as_modelled :
  C07CacheKeys.load_error_report = expected_load_error_report C07CacheKeys.reports_load_errors.
Proof. reflexivity. Qed.
Print Assumptions c07_load_error_report_as_modelled.

(* the process-level state of expr_parser / merchant_engine / merchant_utils / modifier_parser is exactly what the model
   has (a new module-level dict or any other cross-call storage breaks this) *)
Theorem c07_process_state_as_modelled :
  C07CacheKeys.process_level_state = expected_process_state C07CacheKeys.reports_load_errors.
Proof. reflexivity. Qed.
Print Assumptions c07_process_state_as_modelled.

(* ---- caches ------------------------------------------------------------------------------------ *)
(* invariant: every cache entry equals recomputation from its key — in every reachable state *)
Theorem c07_cache_invariant :
  forall (W : world) (fx : bool) (h : list (op W)), cache_ok W (cs W (exec W fx (init W) h)).
Proof. exact invariant_reachable. Qed.
Print Assumptions c07_cache_invariant.

(* no output of any continuation h (any number of operations, any order) depends on the contents of the
   expression cache: replace it by ANY other contents satisfying the invariant (e.g. empty it) *)
Theorem c07_expr_cache_transparent :
  forall (W : world) (fx : bool) (st : state W) (e' : list (string * parsed W)) (h : list (op W)),
    cache_ok W (cs W st) -> ecache_ok W e' ->
    outs W fx st h =
    outs W fx {| cached := cached W st; cur := cur W st; eng := eng W st;
                 cs := {| ecache := e'; rcache := rcache (cs W st) |} |} h.
Proof. exact expr_cache_transparent. Qed.
Print Assumptions c07_expr_cache_transparent.

Theorem c07_regex_cache_transparent :
  forall (W : world) (fx : bool) (st : state W) (r' : list (string * compiled W)) (h : list (op W)),
    cache_ok W (cs W st) -> rcache_ok W r' ->
    outs W fx st h =
    outs W fx {| cached := cached W st; cur := cur W st; eng := eng W st;
                 cs := {| ecache := ecache (cs W st); rcache := r' |} |} h.
Proof. exact regex_cache_transparent. Qed.
Print Assumptions c07_regex_cache_transparent.

(* hence: the outputs along any history are those of the semantics that has no caches at all *)
Theorem c07_outputs_cache_free :
  forall (W : world) (fx : bool) (h : list (op W)),
    outs W fx (init W) h = pouts W fx (ess_of W (init W)) h.
Proof. exact outs_cache_free. Qed.
Print Assumptions c07_outputs_cache_free.

(* ---- history independence ---------------------------------------------------------------------- *)
(* THE CLAIM, at full strength: for every world (parser, regex library, readers, engine), every history h
   and every operation o, the output of o after h is its output in a fresh process that replayed only the
   last load (and the last engine.parse) of h.  [history_independent true] is the model of the tree since
   commit e98b1f7 (get_all_rules resets _cached_engine on entry). *)
Theorem c07_history_independent_fixed : history_independent true.
Proof. exact history_independent_fixed. Qed.
Print Assumptions c07_history_independent_fixed.

(* ... and the source under test IS that variant: the extractor's flag (Gen/C07CacheKeys.v, re-read from
   merchant_utils.py on every run) must be [true] for this to type-check.  A tree that loses the reset
   breaks this obligation (and the writer list above). *)
Theorem c07_history_independent_of_source :
  history_independent C07CacheKeys.get_all_rules_resets_cached_engine.
Proof. exact (history_independent_of_flag _ eq_refl). Qed.
Print Assumptions c07_history_independent_of_source.

(* sharper: an operation depends on the history only through [relevant_prefix] — a load, an engine.parse and an
   expression evaluation on nothing at all, a classification on the last load only, engine.match on the last
   engine.parse only.  This is the comparison the harness makes (fresh interpreter = relevant prefix + operation). *)
Theorem c07_depends_only_on_relevant_prefix :
  forall (W : world) (h : list (op W)) (o : op W),
    out_after W true h o = out_after W true (relevant_prefix W h o) o.
Proof. exact out_after_relevant. Qed.
Print Assumptions c07_depends_only_on_relevant_prefix.

(* what holds for BOTH variants (with or without the reset): the last load of h is a successful .rules load
   or no load of h is one; or o is not a classification through normalize_merchant *)
Theorem c07_history_independent_partial :
  forall (W : world) (fx : bool) (h : list (op W)) (o : op W),
    stale_free W h = true \/ is_classify W o = false ->
    out_after W fx h o = fresh W fx o h.
Proof. exact history_independent_partial_guard. Qed.
Print Assumptions c07_history_independent_partial.

(* the two guards of the property text are instances *)
Theorem c07_history_independent_partial_all_rules :
  forall (W : world) (fx : bool) (h : list (op W)) (o : op W),
    all_loads_rules W h = true -> out_after W fx h o = fresh W fx o h.
Proof. exact history_independent_all_rules. Qed.
Print Assumptions c07_history_independent_partial_all_rules.

Theorem c07_history_independent_partial_no_rules_before_other :
  forall (W : world) (fx : bool) (h : list (op W)) (o : op W),
    no_rules_before_other W h = true -> out_after W fx h o = fresh W fx o h.
Proof. exact history_independent_no_rules_before_other. Qed.
Print Assumptions c07_history_independent_partial_no_rules_before_other.

(* ---- HISTORY (the tree before commit e98b1f7; kept as the regression's description) -------------- *)
(* Without the reset ([fx = false]) the full statement is false: [load a .rules file; load a CSV file;
   classify] is answered by the old engine.  Finding C07/stale-cached-engine-after-non-rules-load, fixed by
   proposed_fixes/C07-reset-cached-engine.diff = e98b1f7.  These are theorems about the OLD variant of the
   model only; nothing here is claimed of the current tree. *)
Definition c07_history_independent_before_e98b1f7 : Prop := history_independent false.

Theorem c07_before_e98b1f7_refuted : ~ c07_history_independent_before_e98b1f7.
Proof. exact not_history_independent. Qed.
Print Assumptions c07_before_e98b1f7_refuted.

(* ... in every world in which the engine of a .rules file f and the tuples of a later non-.rules load g
   (CSV / unparsable / none) classify some transaction differently *)
Theorem c07_before_e98b1f7_refuted_generally :
  forall (W : world) (f : file W) (g : option (file W)) (t : txn W) (rs : ruleset W),
    engine_of W (Some f) = Some rs -> engine_of W g = None ->
    pure W (classify_with W rs (returned_of W g) t) <> pure W (classify_legacy W (returned_of W g) t) ->
    out_after W false [Load (Some f); Load g] (Classify t)
    <> fresh W false (Classify t) [Load (Some f); Load g].
Proof. exact refuted_whenever_paths_differ. Qed.
Print Assumptions c07_before_e98b1f7_refuted_generally.

(* ---- per-call arguments and per-object state (C07/Args.v) ---------------------------------------------- *)
(* the write discipline read from the source is the one Args.good_design stands for *)
Theorem c07_write_discipline_as_modelled :
  C07CacheKeys.engine_state_writers = expected_engine_state_writers /\
  C07CacheKeys.add_rule_callers = expected_add_rule_callers /\
  C07CacheKeys.engine_param_mutations = [] /\
  C07CacheKeys.evaluator_attrs = expected_evaluator_attrs /\
  C07CacheKeys.scope_init = "{}"%string /\
  C07CacheKeys.scope_writers = expected_scope_writers /\
  C07CacheKeys.context_writers = ["__init__"%string] /\
  C07CacheKeys.evaluator_sites = expected_evaluator_sites.
Proof. repeat split; reflexivity. Qed.
Print Assumptions c07_write_discipline_as_modelled.

(* supplemental rows, thresholds, variables are ARGUMENTS and the evaluator's scope lives for one evaluation: for
   every matcher and evaluator, every history of engine.parse / engine.match (with rows, without, with other rows) /
   evaluate_transaction and every operation, the result is that of the operation after the last parse alone *)
Theorem c07_args_independent : args_independent good_design.
Proof. exact args_independent_good. Qed.
Print Assumptions c07_args_independent.

(* ... stated for the design the source under test has (type-checks only while match() writes nothing on the
   engine and the scope is created per evaluation) *)
Theorem c07_args_independent_of_source :
  args_independent {| remembers_rows := negb C07CacheKeys.engine_match_write_free;
                      shares_scope := negb C07CacheKeys.scope_per_evaluation |}.
Proof. exact args_independent_good. Qed.
Print Assumptions c07_args_independent_of_source.

(* the statement is not vacuous: it is FALSE of the two neighbouring designs, and true of no other *)
Definition c07_args_independent_statement (D : design) : Prop := args_independent D.
Theorem c07_args_remembering_rows_refuted :
  forall b, ~ c07_args_independent_statement {| remembers_rows := true; shares_scope := b |}.
Proof. exact remembering_rows_refuted. Qed.
Print Assumptions c07_args_remembering_rows_refuted.
Theorem c07_args_sharing_scope_refuted :
  forall b, ~ c07_args_independent_statement {| remembers_rows := b; shares_scope := true |}.
Proof. exact sharing_scope_refuted. Qed.
Print Assumptions c07_args_sharing_scope_refuted.
Theorem c07_args_independent_iff_good_design :
  forall D, c07_args_independent_statement D <-> D = good_design.
Proof. exact args_independent_iff. Qed.
Print Assumptions c07_args_independent_iff_good_design.

(* ---- frame -------------------------------------------------------------------------------------- *)
(* only loads change the cached engine and the rules the caller holds; only engine.parse changes the
   engine object: classifying / evaluating / matching return them unchanged *)
Theorem c07_classify_frame :
  forall (W : world) (fx : bool) (st : state W) (o : op W),
    (is_load W o = false ->
       cached W (fst (step W fx st o)) = cached W st /\ cur W (fst (step W fx st o)) = cur W st) /\
    (is_parse W o = false -> eng W (fst (step W fx st o)) = eng W st).
Proof. exact frame. Qed.
Print Assumptions c07_classify_frame.

(* ---- non-vacuity -------------------------------------------------------------------------------- *)
(* the regression witness: after [load rules; load csv] the model WITHOUT the reset answers with the engine
   (1 = Transport), a fresh process with the CSV tuples (2 = Travel); the model of the current tree agrees
   with the fresh process *)
Example c07_witness :
  out_after toy false witness_history witness_op = @OResult toy 1 /\
  fresh toy false witness_op witness_history = @OResult toy 2 /\
  out_after toy true witness_history witness_op = @OResult toy 2 /\
  stale_free toy witness_history = false.
Proof. vm_compute. repeat split; reflexivity. Qed.

(* the guards are satisfiable by histories with several loads of different files *)
Example c07_guards_nonvacuous :
  stale_free toy [@Load toy (Some false); @Classify toy tt; @Load toy (Some true); @EvalExpr toy "amount > 5" tt] = true /\
  all_loads_rules toy [@Load toy (Some true); @Classify toy tt; @Load toy (Some true)] = true /\
  no_rules_before_other toy [@Load toy (Some false); @Load toy None; @Load toy (Some true)] = true /\
  no_rules_before_other toy witness_history = false.
Proof. vm_compute. repeat split; reflexivity. Qed.

(* caches do fill, and a second request for the same key is a hit (one entry, not two) *)
Example c07_caches_used :
  let h := [@Load toy (Some true); @Classify toy tt; @Load toy (Some false); @Classify toy tt] in
  let st := exec toy false (init toy) h in
  let st' := exec toy true (init toy) h in
  map fst (ecache (cs toy st)) = ["contains(""UBER"")"%string] /\ map fst (rcache (cs toy st)) = [] /\
  map fst (ecache (cs toy st')) = ["contains(""UBER"")"%string] /\ map fst (rcache (cs toy st')) = ["UBER"%string].
Proof. vm_compute. repeat split; reflexivity. Qed.

(* Args: with rows, then without — the good design answers 0 (no rows reach the matcher), a remembering one 1 *)
Example c07_args_witness :
  aout_after rows_toy good_design [@AParse rows_toy tt; @AMatch rows_toy tt (Some tt)] (@AMatch rows_toy tt None) = @ARes rows_toy 0 /\
  aout_after rows_toy {| remembers_rows := true; shares_scope := false |}
             [@AParse rows_toy tt; @AMatch rows_toy tt (Some tt)] (@AMatch rows_toy tt None) = @ARes rows_toy 1 /\
  aout_after scope_toy good_design [@AEval scope_toy "(k := 5) > 0" tt None] (@AEval scope_toy "k > 0" tt None) = @AVal scope_toy 0 /\
  aout_after scope_toy {| remembers_rows := false; shares_scope := true |}
             [@AEval scope_toy "(k := 5) > 0" tt None] (@AEval scope_toy "k > 0" tt None) = @AVal scope_toy 1.
Proof. vm_compute. repeat split; reflexivity. Qed.
