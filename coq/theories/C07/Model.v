(* C07/Model.v — the process state behind classification, and the cache/state logic exactly as
   /repo has it.  No proofs here.

   State of one Python process, as far as classification can see it:
     cached   merchant_utils._cached_engine      (engine of a .rules file, or None)
     cur      what the last get_all_rules (+ get_transforms) call handed back to the caller; it is
              the `rules` / `transforms` argument of every later normalize_merchant call
     eng      one long-lived MerchantEngine object that is re-parsed (MerchantEngine.parse)
     ecache   expr_parser._expression_cache      source string  -> validated AST
     rcache   expr_parser._regex_cache           pattern string -> compiled pattern

   Everything *underneath* the state logic is an ORACLE: a field of [world].  Theorems quantify over
   all worlds, so they hold whatever CPython's parser, `re`, the engine's match loop, the legacy
   tuple loop, the .rules/CSV readers … compute.  Oracles that may touch the two caches are
   *programs* ([prog]): arbitrary, data-dependent sequences of cache requests; the only thing fixed
   is HOW a request is served ([cached_get]: look the exact key up, else compute and store), which
   is what expr_parser.py:126-141 and 254-256 do (facts re-read from source: Gen/C07CacheKeys.v). *)
From Coq Require Import String List Bool.
Import ListNotations.
Open Scope string_scope.

(* ---- programs over the two caches ------------------------------------------------------------ *)
Inductive prog (P C A : Type) : Type :=
| Ret (a : A)
| AskExpr (s : string) (k : option P -> prog P C A)   (* parse_expression(s): None = it raised *)
| AskRe (p : string) (k : option C -> prog P C A).    (* regex(.., p): None = re.error *)
Arguments Ret {P C A} a.
Arguments AskExpr {P C A} s k.
Arguments AskRe {P C A} p k.

Fixpoint pmap {P C A B} (f : A -> B) (p : prog P C A) : prog P C B :=
  match p with
  | Ret a => Ret (f a)
  | AskExpr s k => AskExpr s (fun r => pmap f (k r))
  | AskRe s k => AskRe s (fun r => pmap f (k r))
  end.

(* Python dict with str keys: association list, newest first; key equality is exact string equality *)
Fixpoint lookup {V} (k : string) (m : list (string * V)) : option V :=
  match m with [] => None | (k', v) :: r => if String.eqb k k' then Some v else lookup k r end.

(*   if key in cache: return cache[key]
     value = compute(key)          # raises on failure: nothing is stored
     cache[key] = value; return value                                                             *)
Definition cached_get {V} (compute : string -> option V) (k : string) (m : list (string * V))
  : option V * list (string * V) :=
  match lookup k m with
  | Some v => (Some v, m)
  | None => match compute k with Some v => (Some v, (k, v) :: m) | None => (None, m) end
  end.

Record caches (P C : Type) := { ecache : list (string * P); rcache : list (string * C) }.
Arguments ecache {P C} c.
Arguments rcache {P C} c.

(* what one call of get_all_rules(path) does: the engine it built (Some only for a .rules file that
   parsed) and what it returned *)
Inductive loaded (R T : Type) := Loaded (engine : option R) (returned : T).
Arguments Loaded {R T} engine returned.

(* ---- the oracles ----------------------------------------------------------------------------- *)
Record world := {
  parsed : Type;  compiled : Type;
  file : Type;                      (* a rule file = its path suffix and content *)
  txn : Type;                       (* a transaction together with the supplemental rows *)
  ruleset : Type;                   (* contents of a MerchantEngine *)
  tups : Type;                      (* rule tuples + transforms handed back to the caller *)
  result : Type;  mresult : Type;  value : Type;
  parse_expr : string -> option parsed;          (* ast.parse + validate_ast *)
  compile_re : string -> option compiled;        (* re.compile(p, <constant flags>) *)
  load : file -> prog parsed compiled (loaded ruleset tups);   (* get_all_rules(path) *)
  no_rules : tups;                               (* get_all_rules(None) *)
  empty_engine : ruleset;                        (* MerchantEngine() *)
  eng_parse : file -> prog parsed compiled (ruleset * bool);   (* engine.parse(text): new contents, raised? *)
  classify_with : ruleset -> tups -> txn -> prog parsed compiled result;  (* normalize_merchant, engine path *)
  classify_legacy : tups -> txn -> prog parsed compiled result;           (* normalize_merchant, tuple path *)
  eng_match : ruleset -> txn -> prog parsed compiled mresult;             (* MerchantEngine.match *)
  eval_parsed : parsed -> txn -> prog parsed compiled value               (* TransactionEvaluator(ctx).evaluate(tree) *)
}.

Section Model.
  Variable W : world.
  (* [fx = true]: /repo since commit e98b1f7 (get_all_rules starts by resetting _cached_engine).
     [fx = false]: the tree before it (the reset missing) — kept to describe the regression. *)
  Variable fx : bool.

  Notation P := (parsed W).
  Notation C := (compiled W).
  Notation prg := (prog (parsed W) (compiled W)).
  Notation cch := (caches (parsed W) (compiled W)).

  (* run a program against the caches / against no cache at all *)
  Fixpoint run {A} (p : prg A) (c : cch) : A * cch :=
    match p with
    | Ret a => (a, c)
    | AskExpr s k =>
        let '(r, e') := cached_get (parse_expr W) s (ecache c) in
        run (k r) {| ecache := e'; rcache := rcache c |}
    | AskRe s k =>
        let '(r, r') := cached_get (compile_re W) s (rcache c) in
        run (k r) {| ecache := ecache c; rcache := r' |}
    end.

  Fixpoint pure {A} (p : prg A) : A :=
    match p with
    | Ret a => a
    | AskExpr s k => pure (k (parse_expr W s))
    | AskRe s k => pure (k (compile_re W s))
    end.

  Inductive op :=
  | Load (f : option (file W))        (* rules = get_all_rules(path or None); transforms = get_transforms(path) *)
  | Classify (t : txn W)              (* normalize_merchant(t…, rules, transforms=transforms, data_sources=…) *)
  | EvalExpr (s : string) (t : txn W) (* evaluate_transaction(s, t) / matches_transaction / evaluate_filter *)
  | EngParse (f : file W)             (* engine.parse(text of f) on the long-lived engine object *)
  | EngMatch (t : txn W).             (* engine.match(t, data_sources) *)

  Inductive out :=
  | OLoaded (t : tups W)
  | OResult (r : result W)
  | OEval (v : option (value W))      (* None: parse_expression raised *)
  | OParsed (raised : bool)
  | OMatch (m : mresult W).

  Record state := { cached : option (ruleset W); cur : tups W; eng : ruleset W; cs : cch }.

  Definition init : state :=
    {| cached := None; cur := no_rules W; eng := empty_engine W; cs := {| ecache := []; rcache := [] |} |}.

  (* evaluate_transaction: tree = parse_expression(expr); TransactionEvaluator(ctx).evaluate(tree) *)
  Definition eval_prog (s : string) (t : txn W) : prg (option (value W)) :=
    AskExpr s (fun r => match r with None => Ret None | Some a => pmap Some (eval_parsed W a t) end).

  (* normalize_merchant: `if _cached_engine is not None:` comes BEFORE any look at `rules` *)
  Definition classify_prog (c : option (ruleset W)) (r : tups W) (t : txn W) : prg (result W) :=
    match c with Some rs => classify_with W rs r t | None => classify_legacy W r t end.

  (* get_all_rules: `_cached_engine = engine` only on the successful .rules branch; every other
     outcome (CSV file, .rules that failed to parse, no path) left the variable alone before e98b1f7; since then
     the function resets it on entry, so the variable is exactly the engine of THIS call *)
  Definition new_cached (old e : option (ruleset W)) : option (ruleset W) :=
    if fx then e else match e with Some _ => e | None => old end.

  Definition step (st : state) (o : op) : state * out :=
    match o with
    | Load None =>
        ({| cached := new_cached (cached st) None; cur := no_rules W; eng := eng st; cs := cs st |},
         OLoaded (no_rules W))
    | Load (Some f) =>
        let '(Loaded e t, c') := run (load W f) (cs st) in
        ({| cached := new_cached (cached st) e; cur := t; eng := eng st; cs := c' |}, OLoaded t)
    | Classify t =>
        let '(r, c') := run (classify_prog (cached st) (cur st) t) (cs st) in
        ({| cached := cached st; cur := cur st; eng := eng st; cs := c' |}, OResult r)
    | EvalExpr s t =>
        let '(v, c') := run (eval_prog s t) (cs st) in
        ({| cached := cached st; cur := cur st; eng := eng st; cs := c' |}, OEval v)
    | EngParse f =>
        let '((e, raised), c') := run (eng_parse W f) (cs st) in
        ({| cached := cached st; cur := cur st; eng := e; cs := c' |}, OParsed raised)
    | EngMatch t =>
        let '(m, c') := run (eng_match W (eng st) t) (cs st) in
        ({| cached := cached st; cur := cur st; eng := eng st; cs := c' |}, OMatch m)
    end.

  Fixpoint exec (st : state) (h : list op) : state :=
    match h with [] => st | o :: r => exec (fst (step st o)) r end.

  Fixpoint outs (st : state) (h : list op) : list out :=
    match h with [] => [] | o :: r => snd (step st o) :: outs (fst (step st o)) r end.

  (* ---- "the same operation in a fresh process" ---------------------------------------------- *)
  Fixpoint last_load (h : list op) : option (option (file W)) :=
    match h with
    | [] => None
    | o :: r => match last_load r with
                | Some x => Some x
                | None => match o with Load f => Some f | _ => None end
                end
    end.

  Fixpoint last_parse (h : list op) : option (file W) :=
    match h with
    | [] => None
    | o :: r => match last_parse r with
                | Some x => Some x
                | None => match o with EngParse f => Some f | _ => None end
                end
    end.

  (* a fresh process replays ONLY the last get_all_rules call and the last engine.parse call of h *)
  Definition replay_prefix (h : list op) : list op :=
    (match last_load h with Some f => [Load f] | None => [] end) ++
    (match last_parse h with Some f => [EngParse f] | None => [] end).

  Definition out_after (h : list op) (o : op) : out := snd (step (exec init h) o).
  Definition fresh (o : op) (h : list op) : out := snd (step (exec init (replay_prefix h)) o).

  (* ---- computable guards --------------------------------------------------------------------- *)
  Definition engine_of (f : option (file W)) : option (ruleset W) :=
    match f with None => None | Some f => let 'Loaded e _ := pure (load W f) in e end.

  Definition is_some {A} (x : option A) : bool := match x with Some _ => true | None => false end.

  (* does any load of h build an engine (= is a .rules file that parses)? *)
  Fixpoint any_engine (h : list op) : bool :=
    match h with
    | [] => false
    | Load f :: r => is_some (engine_of f) || any_engine r
    | _ :: r => any_engine r
    end.

  (* the weakest guard under which the unfixed code is history independent: the last load of h is a
     successful .rules load, or no load of h is *)
  Definition stale_free (h : list op) : bool :=
    match last_load h with
    | Some f => is_some (engine_of f) || negb (any_engine h)
    | None => true
    end.

  (* the two special cases of the task statement *)
  Fixpoint all_loads_rules (h : list op) : bool :=
    match h with
    | [] => true
    | Load f :: r => is_some (engine_of f) && all_loads_rules r
    | _ :: r => all_loads_rules r
    end.

  (* no successful .rules load precedes a CSV / failed / empty load *)
  Fixpoint no_rules_before_other (h : list op) : bool :=
    match h with
    | [] => true
    | Load f :: r => (if is_some (engine_of f) then all_loads_rules r else true) && no_rules_before_other r
    | _ :: r => no_rules_before_other r
    end.

  Definition is_classify (o : op) : bool := match o with Classify _ => true | _ => false end.
  Definition is_load (o : op) : bool := match o with Load _ => true | _ => false end.
  Definition is_parse (o : op) : bool := match o with EngParse _ => true | _ => false end.
End Model.

Arguments Load {W} f.
Arguments Classify {W} t.
Arguments EvalExpr {W} s t.
Arguments EngParse {W} f.
Arguments EngMatch {W} t.
Arguments OLoaded {W} t.
Arguments OResult {W} r.
Arguments OEval {W} v.
Arguments OParsed {W} raised.
Arguments OMatch {W} m.

(* ---- the property at full strength ------------------------------------------------------------- *)
(* For every world (every parser, regex library, engine, reader), every history h and operation o:
   the output of o after h is the output of o in a fresh process that replayed only the last load. *)
Definition history_independent (fx : bool) : Prop :=
  forall (W : world) (h : list (op W)) (o : op W), out_after W fx h o = fresh W fx o h.

(* ---- a two-file toy world: file true = a .rules file, file false = a CSV file ------------------ *)
Definition toy : world := {|
  parsed := unit; compiled := unit; file := bool; txn := unit; ruleset := unit; tups := bool;
  result := nat; mresult := nat; value := nat;
  parse_expr := fun _ => Some tt; compile_re := fun _ => Some tt;
  load := fun f => AskExpr "contains(""UBER"")" (fun _ => Ret (Loaded (if f then Some tt else None) f));
  no_rules := false; empty_engine := tt;
  eng_parse := fun _ => Ret (tt, false);
  classify_with := fun _ _ _ => AskExpr "contains(""UBER"")" (fun _ => Ret 1);   (* engine: Transport *)
  classify_legacy := fun _ _ => AskRe "UBER" (fun _ => Ret 2);                    (* CSV tuples: Travel *)
  eng_match := fun _ _ => Ret 0;
  eval_parsed := fun _ _ => Ret 0 |}.

(* ---- facts the cache model rests on, as re-read from the source (compare Gen/C07CacheKeys.v) --- *)
Record cache_facts := {
  expr_cache_name : string;  expr_cache_fn : string;  expr_key : string;  expr_key_is_parameter : bool;
  expr_compute : string;     expr_cache_uses : list string;
  regex_cache_name : string; regex_cache_fn : string; regex_key : string; regex_key_sources : list string;
  regex_compute : string;    regex_flags : list string; regex_cache_uses : list string;
  engine_parse_resets : list string;  engine_init_attrs : list string;
  cached_engine_reads : list string }.

Definition expected_cache_facts : cache_facts := {|
  expr_cache_name := "_expression_cache"; expr_cache_fn := "parse_expression"; expr_key := "expr";
  expr_key_is_parameter := true;
  expr_compute := "ast.parse(expr, mode='eval'); validate_ast(tree)";
  expr_cache_uses := ["contains[expr]"; "load[expr]"; "store[expr]=tree"];
  regex_cache_name := "_regex_cache"; regex_cache_fn := "_fn_regex"; regex_key := "pattern";
  regex_key_sources := ["args[0]"; "args[1]"];
  regex_compute := "re.compile(pattern, <flags>)"; regex_flags := ["re.IGNORECASE"];
  regex_cache_uses := ["not-contains[pattern]"; "store[pattern]=compile"; "load[pattern]"];
  engine_parse_resets := ["rules"; "variables"; "transforms"; "_compiled_exprs"];
  engine_init_attrs := ["rules"; "variables"; "transforms"; "_compiled_exprs"; "match_mode"];
  cached_engine_reads := ["get_cached_engine:return"; "normalize_merchant:is-not-None-then-match"] |}.

(* every assignment to merchant_utils._cached_engine, by whether get_all_rules resets it at entry *)
Definition expected_cached_engine_writes (resets_at_entry : bool) : list string :=
  if resets_at_entry
  then ["<module>:None"; "clear_engine_cache:None@entry"; "get_all_rules:None@entry";
        "get_all_rules:engine@try@if-endswith-rules"]
  else ["<module>:None"; "clear_engine_cache:None@entry"; "get_all_rules:engine@try@if-endswith-rules"].

(* The show-once report of .rules load errors (merchant_utils._reported_load_errors, optional): process-level
   state WITH history — the line `Error loading rules from <path>: …` is printed on stderr only the first time a
   (path, message) pair occurs in a process.  It is NOT part of the model's state or outputs: the stderr line is
   not a classification result, and the only shape the extractor accepts is one in which the set can influence
   nothing else (tested and added to only inside a function that returns nothing and prints to sys.stderr;
   called only as an expression statement inside except handlers; cleared by clear_engine_cache). *)
Definition expected_load_error_report (present : bool) : list string :=
  if present
  then ["set:_reported_load_errors"; "test-add-print(file=sys.stderr)"; "returns-nothing";
        "cleared-by:clear_engine_cache"; "called-in-except:get_all_rules"; "called-in-except:get_tag_only_rules";
        "called-in-except:get_transforms"]
  else [].

(* The part of a history an operation may depend on at all: a load, an engine.parse and an expression evaluation
   on nothing; a classification on the last load; engine.match on the last engine.parse.  (Sharper than
   [replay_prefix]: the harness compares every operation with a fresh process that replayed only this.) *)
Definition relevant_prefix (W : world) (h : list (op W)) (o : op W) : list (op W) :=
  match o with
  | Classify _ => match last_load W h with Some f => [Load f] | None => [] end
  | EngMatch _ => match last_parse W h with Some f => [EngParse f] | None => [] end
  | _ => []
  end.

(* All process-level state of the classification modules that the model accounts for: the two caches and the
   cached engine (+ its path, written only), and — when the tree has it — the show-once error set (stderr only).
   Anything else the extractor finds (a new module-level dict, a global declaration, a class-level container, a
   mutable default, a caching decorator, a function attribute) is state this model does not know. *)
Definition expected_process_state (reports : bool) : list string :=
  ["expr_parser:_expression_cache"; "expr_parser:_regex_cache";
   "merchant_utils:_cached_engine"; "merchant_utils:_cached_engine_path"] ++
  (if reports then ["merchant_utils:_reported_load_errors"] else []) ++
  ["merchant_utils:global@clear_engine_cache:_cached_engine,_cached_engine_path";
   "merchant_utils:global@get_all_rules:_cached_engine,_cached_engine_path"].

(* Write discipline of the objects a classification goes through (what C07/Args.v's good design means in the
   source): engine state is written only while constructing / parsing; match and its helpers write nothing through
   their parameters; the evaluator is built per evaluation with a new empty scope and writes only to that scope;
   a TransactionContext is written only by its constructor. *)
Definition expected_engine_state_writers : list string := ["__init__"; "_add_rule"; "parse"].
Definition expected_add_rule_callers : list string := ["parse"].
Definition expected_evaluator_attrs : list string := ["_scope"; "ctx"].
Definition expected_scope_writers : list string := ["_eval_NamedExpr"; "_eval_comprehension_loop"; "_generator_helper"].
Definition expected_evaluator_sites : list string :=
  ["expr_parser:evaluate_transaction"; "expr_parser:evaluate_transaction_ast";
   "merchant_utils:_resolve_dynamic_tags"; "merchant_utils:apply_transforms"].
