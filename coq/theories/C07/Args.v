(* C07/Args.v — per-call arguments and per-object state of MerchantEngine.match / evaluate_transaction.

   Model.v treats "the transaction together with its supplemental rows" as one argument and the engine's
   contents as a value.  This file looks inside that: the supplemental rows and the evaluator's scope
   (walrus bindings, loop variables) are explicit, the engine object and the evaluator have explicit slots in
   which a call COULD leave something behind, and a [design] says whether the code uses those slots:
     remembers_rows   match() stores the rows it was given and falls back to them when called without
     shares_scope     the evaluator's scope outlives the evaluation that made it
   The design of the tree under test is read from the source on every run (Gen/C07CacheKeys.v:
   engine_match_write_free, scope_per_evaluation — the write discipline of MerchantEngine /
   TransactionEvaluator / TransactionContext).  By C07/Props.c07_outputs_cache_free the two module caches are
   transparent, so the matcher and the evaluator are plain functions here (oracles, fields of [aworld]). *)
From Coq Require Import String List Bool.
Import ListNotations.
Open Scope string_scope.

Record aworld := {
  afile : Type; arules : Type;          (* what engine.parse leaves: rules, variables, transforms, mode *)
  atxn : Type; arows : Type; ascope : Type; ares : Type; aval : Type;
  aparse : afile -> arules;
  aempty : arules;                      (* MerchantEngine() *)
  empty_scope : ascope;                 (* TransactionEvaluator.__init__: self._scope = {} *)
  (* engine.match(t, rows): all its rule / let / field / tag evaluations, from a scope to a scope *)
  amatch : arules -> atxn -> option arows -> ascope -> ares * ascope;
  (* evaluate_transaction(src, t, data_sources=rows) *)
  aeval : string -> atxn -> option arows -> ascope -> aval * ascope }.

Record design := { remembers_rows : bool; shares_scope : bool }.

Section Args.
  Variable W : aworld.
  Variable D : design.

  Inductive aop :=
  | AParse (f : afile W)
  | AMatch (t : atxn W) (d : option (arows W))       (* d = None: the caller passes no data_sources *)
  | AEval (s : string) (t : atxn W) (d : option (arows W)).

  Inductive aout := AParsed | ARes (r : ares W) | AVal (v : aval W).

  (* the engine object, the slot in which rows could be kept, the slot in which a scope could survive *)
  Record astate := { a_eng : arules W; a_rows : option (arows W); a_scope : ascope W }.

  Definition ainit : astate := {| a_eng := aempty W; a_rows := None; a_scope := empty_scope W |}.

  Definition rows_used (st : astate) (d : option (arows W)) : option (arows W) :=
    match d with Some _ => d | None => if remembers_rows D then a_rows st else None end.
  Definition rows_kept (st : astate) (d : option (arows W)) : option (arows W) :=
    if remembers_rows D then (match d with Some _ => d | None => a_rows st end) else a_rows st.
  Definition scope_in (st : astate) : ascope W := if shares_scope D then a_scope st else empty_scope W.
  Definition scope_out (st : astate) (s' : ascope W) : ascope W := if shares_scope D then s' else a_scope st.

  Definition astep (st : astate) (o : aop) : astate * aout :=
    match o with
    | AParse f => ({| a_eng := aparse W f; a_rows := a_rows st; a_scope := a_scope st |}, AParsed)
    | AMatch t d =>
        let '(r, s') := amatch W (a_eng st) t (rows_used st d) (scope_in st) in
        ({| a_eng := a_eng st; a_rows := rows_kept st d; a_scope := scope_out st s' |}, ARes r)
    | AEval s t d =>
        let '(v, s') := aeval W s t d (scope_in st) in
        ({| a_eng := a_eng st; a_rows := a_rows st; a_scope := scope_out st s' |}, AVal v)
    end.

  Fixpoint aexec (st : astate) (h : list aop) : astate :=
    match h with [] => st | o :: r => aexec (fst (astep st o)) r end.

  Fixpoint alast_parse (h : list aop) : option (afile W) :=
    match h with
    | [] => None
    | o :: r => match alast_parse r with
                | Some x => Some x
                | None => match o with AParse f => Some f | _ => None end
                end
    end.

  (* all an operation may depend on: engine.match on the last parse; everything else on nothing *)
  Definition arelevant (h : list aop) (o : aop) : list aop :=
    match o with
    | AMatch _ _ => match alast_parse h with Some f => [AParse f] | None => [] end
    | _ => []
    end.

  Definition aout_after (h : list aop) (o : aop) : aout := snd (astep (aexec ainit h) o).
End Args.

Arguments AParse {W} f.
Arguments AMatch {W} t d.
Arguments AEval {W} s t d.
Arguments AParsed {W}.
Arguments ARes {W} r.
Arguments AVal {W} v.

(* full strength: for every matcher and evaluator, every history of parses, matches (with or without rows) and
   evaluations, and every operation: the result is that of the operation after the last parse alone *)
Definition args_independent (D : design) : Prop :=
  forall (W : aworld) (h : list (aop W)) (o : aop W),
    aout_after W D h o = aout_after W D (arelevant W h o) o.

Definition good_design : design := {| remembers_rows := false; shares_scope := false |}.

(* ---- proofs ------------------------------------------------------------------------------------------ *)
Section ArgsProofs.
  Variable W : aworld.

  Lemma good_engine_after h : forall st,
    a_eng W (aexec W good_design st h) =
    match alast_parse W h with Some f => aparse W f | None => a_eng W st end.
  Proof.
    induction h as [|o r IH]; intros st; cbn [aexec alast_parse]; [reflexivity|].
    rewrite IH. destruct (alast_parse W r); [reflexivity|].
    destruct o as [f | t d | s t d]; cbn [astep fst a_eng]; try reflexivity;
      unfold scope_in, rows_used; cbn [good_design remembers_rows shares_scope].
    - destruct (amatch W (a_eng W st) t _ (empty_scope W)); reflexivity.
    - destruct (aeval W s t d (empty_scope W)); reflexivity.
  Qed.

  Lemma good_out_only_engine st1 st2 o :
    a_eng W st1 = a_eng W st2 -> snd (astep W good_design st1 o) = snd (astep W good_design st2 o).
  Proof.
    intros He. destruct o as [f | t d | s t d]; cbn [astep snd]; [reflexivity| |];
      unfold scope_in, rows_used; cbn [good_design remembers_rows shares_scope].
    - rewrite He. destruct d; destruct (amatch W (a_eng W st2) t _ (empty_scope W)); reflexivity.
    - destruct (aeval W s t d (empty_scope W)); reflexivity.
  Qed.

  Lemma good_independent h o :
    aout_after W good_design h o = aout_after W good_design (arelevant W h o) o.
  Proof.
    unfold aout_after.
    destruct o as [f | t d | s t d]; cbn [arelevant aexec].
    - reflexivity.
    - apply good_out_only_engine. rewrite good_engine_after.
      destruct (alast_parse W h) as [f|]; cbn [aexec astep fst a_eng]; reflexivity.
    - unfold astep, scope_in. cbn [good_design shares_scope].
      destruct (aeval W s t d (empty_scope W)); reflexivity.
  Qed.
End ArgsProofs.

Lemma args_independent_good : args_independent good_design.
Proof. intros W h o. apply good_independent. Qed.

(* ---- the other designs are refuted: toy worlds = seeds C07-9 and C07-10 in miniature ------------------- *)
(* a rule that reads a supplemental source matches (1) iff rows reach the matcher *)
Definition rows_toy : aworld := {|
  afile := unit; arules := unit; atxn := unit; arows := unit; ascope := unit; ares := nat; aval := nat;
  aparse := fun _ => tt; aempty := tt; empty_scope := tt;
  amatch := fun _ _ d s => (match d with Some _ => 1 | None => 0 end, s);
  aeval := fun _ _ _ s => (0, s) |}.

(* "(k := 5) > 0" binds k (scope true, value 1); "k > 0" is 1 iff k is bound, else the error value 0 *)
Definition scope_toy : aworld := {|
  afile := unit; arules := unit; atxn := unit; arows := unit; ascope := bool; ares := nat; aval := nat;
  aparse := fun _ => tt; aempty := tt; empty_scope := false;
  amatch := fun _ _ _ s => (if s then 1 else 0, s);
  aeval := fun src _ _ s => if String.eqb src "(k := 5) > 0" then (1, true) else (if s then 1 else 0, s) |}.

Lemma remembering_rows_refuted : forall b, ~ args_independent {| remembers_rows := true; shares_scope := b |}.
Proof.
  intros b H.
  specialize (H rows_toy [@AParse rows_toy tt; @AMatch rows_toy tt (Some tt)] (@AMatch rows_toy tt None)).
  destruct b; vm_compute in H; discriminate H.
Qed.

Lemma sharing_scope_refuted : forall b, ~ args_independent {| remembers_rows := b; shares_scope := true |}.
Proof.
  intros b H.
  specialize (H scope_toy [@AEval scope_toy "(k := 5) > 0" tt None] (@AEval scope_toy "k > 0" tt None)).
  destruct b; vm_compute in H; discriminate H.
Qed.

(* exactly the good design is independent *)
Lemma args_independent_iff D : args_independent D <-> D = good_design.
Proof.
  split.
  - intros H. destruct D as [r s]. destruct r.
    + exfalso. exact (remembering_rows_refuted s H).
    + destruct s; [exfalso; exact (sharing_scope_refuted false H) | reflexivity].
  - intros ->. exact args_independent_good.
Qed.
