(* C07/Proofs.v — lemmas about C07/Model.v. *)
From Coq Require Import String List Bool.
From Tally Require Import C07.Model.
Import ListNotations.

(* ---- the cache invariant: every entry equals recomputation from its key ----------------------- *)
Definition entries_ok {V} (compute : string -> option V) (m : list (string * V)) : Prop :=
  Forall (fun kv => compute (fst kv) = Some (snd kv)) m.

Lemma lookup_ok {V} (compute : string -> option V) k m v :
  entries_ok compute m -> lookup k m = Some v -> compute k = Some v.
Proof.
  intros Hok. induction Hok as [|[k' v'] r Hkv Hr IH]; cbn [lookup]; [discriminate|].
  destruct (String.eqb_spec k k') as [->|Hne].
  - intros Heq. injection Heq as ->. exact Hkv.
  - exact IH.
Qed.

Lemma cached_get_ok {V} (compute : string -> option V) k m :
  entries_ok compute m ->
  fst (cached_get compute k m) = compute k /\ entries_ok compute (snd (cached_get compute k m)).
Proof.
  intros Hok. unfold cached_get.
  destruct (lookup k m) as [v|] eqn:Hl.
  - cbn [fst snd]. split; [symmetry; eapply lookup_ok; eassumption | exact Hok].
  - destruct (compute k) as [v|] eqn:Hc; cbn [fst snd]; split; auto.
    constructor; [exact Hc | exact Hok].
Qed.

Section Proofs.
  Variable W : world.

  Definition ecache_ok (m : list (string * parsed W)) : Prop := entries_ok (parse_expr W) m.
  Definition rcache_ok (m : list (string * compiled W)) : Prop := entries_ok (compile_re W) m.
  Definition cache_ok (c : caches (parsed W) (compiled W)) : Prop :=
    ecache_ok (ecache c) /\ rcache_ok (rcache c).

  (* running a program against caches that satisfy the invariant = running it with no cache *)
  Lemma run_pure {A} (p : prog (parsed W) (compiled W) A) :
    forall c, cache_ok c -> fst (run W p c) = pure W p /\ cache_ok (snd (run W p c)).
  Proof.
    induction p as [a | s k IH | s k IH]; intros c [He Hr]; cbn [run pure].
    - cbn [fst snd]. split; [reflexivity | split; assumption].
    - destruct (cached_get_ok (parse_expr W) s (ecache c) He) as [Hv Hm].
      destruct (cached_get (parse_expr W) s (ecache c)) as [r e'] eqn:Hg. cbn [fst snd] in Hv, Hm.
      subst r. apply IH. split; assumption.
    - destruct (cached_get_ok (compile_re W) s (rcache c) Hr) as [Hv Hm].
      destruct (cached_get (compile_re W) s (rcache c)) as [r e'] eqn:Hg. cbn [fst snd] in Hv, Hm.
      subst r. apply IH. split; assumption.
  Qed.

  Lemma pure_pmap {A B} (f : A -> B) (p : prog (parsed W) (compiled W) A) :
    pure W (pmap f p) = f (pure W p).
  Proof. induction p as [a | s k IH | s k IH]; cbn [pmap pure]; auto. Qed.

  (* ---- the cache-free semantics: essential state and pure step -------------------------------- *)
  Variable fx : bool.

  Record ess := { e_cached : option (ruleset W); e_cur : tups W; e_eng : ruleset W }.

  Definition ess_of (st : state W) : ess :=
    {| e_cached := cached W st; e_cur := cur W st; e_eng := eng W st |}.

  Definition returned_of (f : option (file W)) : tups W :=
    match f with None => no_rules W | Some f => let 'Loaded _ t := pure W (load W f) in t end.

  Definition parsed_engine (f : file W) : ruleset W := fst (pure W (eng_parse W f)).

  Definition pstep (e : ess) (o : op W) : ess * out W :=
    match o with
    | Load f =>
        ({| e_cached := new_cached W fx (e_cached e) (engine_of W f); e_cur := returned_of f; e_eng := e_eng e |},
         OLoaded (returned_of f))
    | Classify t => (e, OResult (pure W (classify_prog W (e_cached e) (e_cur e) t)))
    | EvalExpr s t => (e, OEval (pure W (eval_prog W s t)))
    | EngParse f =>
        ({| e_cached := e_cached e; e_cur := e_cur e; e_eng := parsed_engine f |},
         OParsed (snd (pure W (eng_parse W f))))
    | EngMatch t => (e, OMatch (pure W (eng_match W (e_eng e) t)))
    end.

  Fixpoint pexec (e : ess) (h : list (op W)) : ess :=
    match h with [] => e | o :: r => pexec (fst (pstep e o)) r end.
  Fixpoint pouts (e : ess) (h : list (op W)) : list (out W) :=
    match h with [] => [] | o :: r => snd (pstep e o) :: pouts (fst (pstep e o)) r end.

  Lemma step_pstep st o :
    cache_ok (cs W st) ->
    ess_of (fst (step W fx st o)) = fst (pstep (ess_of st) o) /\
    snd (step W fx st o) = snd (pstep (ess_of st) o) /\
    cache_ok (cs W (fst (step W fx st o))).
  Proof.
    intros Hc. destruct st as [ca cu en c]. cbn [cs] in Hc.
    destruct o as [[f|] | t | s t | f | t]; cbn [step pstep ess_of cached cur eng cs e_cached e_cur e_eng fst snd].
    - destruct (run_pure (load W f) c Hc) as [Hv Hc'].
      destruct (run W (load W f) c) as [[e t] c'] eqn:Hr. cbn [fst snd] in Hv, Hc'.
      cbn [fst snd ess_of cached cur eng cs]. unfold engine_of, returned_of. rewrite <- Hv.
      repeat split; try reflexivity; apply Hc'.
    - cbn [engine_of returned_of]. repeat split; try reflexivity; apply Hc.
    - destruct (run_pure (classify_prog W ca cu t) c Hc) as [Hv Hc'].
      destruct (run W (classify_prog W ca cu t) c) as [r c'] eqn:Hr. cbn [fst snd] in Hv, Hc'.
      cbn [fst snd ess_of cached cur eng cs]. rewrite <- Hv. repeat split; try reflexivity; apply Hc'.
    - destruct (run_pure (eval_prog W s t) c Hc) as [Hv Hc'].
      destruct (run W (eval_prog W s t) c) as [r c'] eqn:Hr. cbn [fst snd] in Hv, Hc'.
      cbn [fst snd ess_of cached cur eng cs]. rewrite <- Hv. repeat split; try reflexivity; apply Hc'.
    - destruct (run_pure (eng_parse W f) c Hc) as [Hv Hc'].
      destruct (run W (eng_parse W f) c) as [[e raised] c'] eqn:Hr. cbn [fst snd] in Hv, Hc'.
      cbn [fst snd ess_of cached cur eng cs]. unfold parsed_engine. rewrite <- Hv.
      repeat split; try reflexivity; apply Hc'.
    - destruct (run_pure (eng_match W en t) c Hc) as [Hv Hc'].
      destruct (run W (eng_match W en t) c) as [r c'] eqn:Hr. cbn [fst snd] in Hv, Hc'.
      cbn [fst snd ess_of cached cur eng cs]. rewrite <- Hv. repeat split; try reflexivity; apply Hc'.
  Qed.

  Lemma exec_pexec h : forall st,
    cache_ok (cs W st) ->
    ess_of (exec W fx st h) = pexec (ess_of st) h /\ outs W fx st h = pouts (ess_of st) h /\
    cache_ok (cs W (exec W fx st h)).
  Proof.
    induction h as [|o r IH]; intros st Hc; cbn [exec outs pexec pouts].
    - repeat split; try reflexivity; apply Hc.
    - destruct (step_pstep st o Hc) as (He & Ho & Hc').
      destruct (IH _ Hc') as (He2 & Ho2 & Hc2).
      rewrite He2, Ho2, He, Ho. repeat split; try reflexivity; apply Hc2.
  Qed.

  Lemma init_cache_ok : cache_ok (cs W (init W)).
  Proof. split; constructor. Qed.

  (* the invariant holds in every reachable state *)
  Lemma invariant_reachable h : cache_ok (cs W (exec W fx (init W) h)).
  Proof. apply (exec_pexec h (init W) init_cache_ok). Qed.

  (* outputs (of a whole continuation h, hence of any operation at any later position) do not depend
     on what the caches contain, as long as the contents satisfy the invariant *)
  Lemma caches_transparent st c' h :
    cache_ok (cs W st) -> cache_ok c' ->
    outs W fx st h = outs W fx {| cached := cached W st; cur := cur W st; eng := eng W st; cs := c' |} h.
  Proof.
    intros H1 H2.
    destruct (exec_pexec h st H1) as (_ & -> & _).
    destruct (exec_pexec h {| cached := cached W st; cur := cur W st; eng := eng W st; cs := c' |} H2) as (_ & -> & _).
    reflexivity.
  Qed.

  Lemma expr_cache_transparent st e' h :
    cache_ok (cs W st) -> ecache_ok e' ->
    outs W fx st h =
    outs W fx {| cached := cached W st; cur := cur W st; eng := eng W st;
                 cs := {| ecache := e'; rcache := rcache (cs W st) |} |} h.
  Proof. intros H1 H2. apply caches_transparent; [exact H1 | split; [exact H2 | apply H1]]. Qed.

  Lemma regex_cache_transparent st r' h :
    cache_ok (cs W st) -> rcache_ok r' ->
    outs W fx st h =
    outs W fx {| cached := cached W st; cur := cur W st; eng := eng W st;
                 cs := {| ecache := ecache (cs W st); rcache := r' |} |} h.
  Proof. intros H1 H2. apply caches_transparent; [exact H1 | split; [apply H1 | exact H2]]. Qed.

  (* ... in particular the outputs after ANY history are those of the cache-free semantics *)
  Lemma outs_cache_free h : outs W fx (init W) h = pouts (ess_of (init W)) h.
  Proof. apply (exec_pexec h (init W) init_cache_ok). Qed.

  Lemma out_after_pure h o :
    out_after W fx h o = snd (pstep (pexec (ess_of (init W)) h) o).
  Proof.
    unfold out_after.
    destruct (exec_pexec h (init W) init_cache_ok) as (He & _ & Hc).
    destruct (step_pstep (exec W fx (init W) h) o Hc) as (_ & -> & _). now rewrite He.
  Qed.

  Lemma fresh_pure h o :
    fresh W fx o h = snd (pstep (pexec (ess_of (init W)) (replay_prefix W h)) o).
  Proof. unfold fresh. apply out_after_pure. Qed.

  (* ---- frame: only loads touch the cached rule set / the caller's rules, only parse the engine -- *)
  Lemma frame st o :
    (is_load W o = false ->
       cached W (fst (step W fx st o)) = cached W st /\ cur W (fst (step W fx st o)) = cur W st) /\
    (is_parse W o = false -> eng W (fst (step W fx st o)) = eng W st).
  Proof.
    destruct st as [ca cu en c].
    destruct o as [[f|] | t | s t | f | t]; cbn [is_load is_parse step cached cur eng cs]; split; intros Hk;
      try discriminate;
      repeat match goal with |- context [run W ?p ?c] => destruct (run W p c) as [? ?] end;
      repeat match goal with x : loaded _ _ |- _ => destruct x end;
      repeat match goal with x : (_ * _)%type |- _ => destruct x end;
      cbn [fst snd cached cur eng]; auto.
  Qed.

  (* ---- what the essential state is after a history --------------------------------------------- *)
  (* the engine left behind by the loads of h, when started with engine c0 *)
  Fixpoint engine_after (c0 : option (ruleset W)) (h : list (op W)) : option (ruleset W) :=
    match h with
    | [] => c0
    | Load f :: r => engine_after (new_cached W fx c0 (engine_of W f)) r
    | _ :: r => engine_after c0 r
    end.

  Lemma pexec_shape h : forall e,
    e_cached (pexec e h) = engine_after (e_cached e) h /\
    e_cur (pexec e h) = match last_load W h with Some f => returned_of f | None => e_cur e end /\
    e_eng (pexec e h) = match last_parse W h with Some f => parsed_engine f | None => e_eng e end.
  Proof.
    induction h as [|o r IH]; intros e; cbn [pexec engine_after last_load last_parse].
    - auto.
    - destruct (IH (fst (pstep e o))) as (H1 & H2 & H3). rewrite H1, H2, H3. clear IH H1 H2 H3.
      destruct o as [f | t | s t | f | t]; cbn [pstep fst e_cached e_cur e_eng];
        destruct (last_load W r), (last_parse W r); auto.
  Qed.

  (* with the fix, the engine after h is the engine of the last load *)
  Lemma engine_after_fixed h : fx = true -> forall c0,
    engine_after c0 h = match last_load W h with Some f => engine_of W f | None => c0 end.
  Proof.
    intros Hf. induction h as [|o r IH]; intros c0; cbn [engine_after last_load]; [reflexivity|].
    destruct o as [f | t | s t | f | t]; rewrite IH; destruct (last_load W r); auto.
    unfold new_cached. rewrite Hf. reflexivity.
  Qed.

  (* without it: the engine of the last load that built one *)
  Lemma engine_after_no_engine h : forall c0, any_engine W h = false -> fx = false -> engine_after c0 h = c0.
  Proof.
    induction h as [|o r IH]; intros c0 Hn Hf; cbn [engine_after]; [reflexivity|].
    destruct o as [f | t | s t | f | t]; cbn [any_engine] in Hn; try (apply IH; assumption).
    apply orb_false_iff in Hn as [Hn1 Hn2]. rewrite IH by assumption.
    unfold new_cached. rewrite Hf. destruct (engine_of W f); [discriminate | reflexivity].
  Qed.

  Lemma engine_after_last_some h : forall c0 f rs,
    last_load W h = Some f -> engine_of W f = Some rs -> engine_after c0 h = Some rs.
  Proof.
    induction h as [|o r IH]; intros c0 f rs Hl He; cbn [last_load] in Hl; [discriminate|].
    cbn [engine_after].
    destruct (last_load W r) as [g|] eqn:Hlr.
    - injection Hl as ->. destruct o; eapply IH; eauto.
    - destruct o as [g | t | s t | g | t]; try discriminate. injection Hl as ->.
      (* r contains no load: engine_after is the identity on r *)
      assert (Hid : forall c, engine_after c r = c).
      { clear -Hlr. induction r as [|o r IH]; intros c; cbn [engine_after]; [reflexivity|].
        cbn [last_load] in Hlr. destruct (last_load W r) eqn:E; [discriminate|].
        destruct o; try discriminate; apply IH; reflexivity. }
      rewrite Hid. unfold new_cached. rewrite He. destruct fx; reflexivity.
  Qed.

  Lemma last_load_replay h : last_load W (replay_prefix W h) = last_load W h.
  Proof.
    unfold replay_prefix. destruct (last_load W h) as [f|], (last_parse W h) as [g|]; reflexivity.
  Qed.

  Lemma last_parse_replay h : last_parse W (replay_prefix W h) = last_parse W h.
  Proof.
    unfold replay_prefix. destruct (last_load W h) as [f|], (last_parse W h) as [g|]; reflexivity.
  Qed.

  Lemma engine_after_replay h :
    engine_after None (replay_prefix W h) = match last_load W h with Some f => engine_of W f | None => None end.
  Proof.
    unfold replay_prefix.
    destruct (last_load W h) as [f|], (last_parse W h) as [g|]; cbn [app engine_after]; try reflexivity;
      unfold new_cached; destruct fx; destruct (engine_of W f); reflexivity.
  Qed.

  (* the essential states after h and after the replayed prefix agree as soon as the engines do *)
  Lemma ess_agree h :
    engine_after None h = match last_load W h with Some f => engine_of W f | None => None end ->
    pexec (ess_of (init W)) h = pexec (ess_of (init W)) (replay_prefix W h).
  Proof.
    intros He.
    destruct (pexec_shape h (ess_of (init W))) as (A1 & A2 & A3).
    destruct (pexec_shape (replay_prefix W h) (ess_of (init W))) as (B1 & B2 & B3).
    rewrite last_load_replay in B2. rewrite last_parse_replay in B3.
    cbn [ess_of init cached e_cached] in A1, B1. rewrite engine_after_replay in B1. rewrite He in A1.
    destruct (pexec (ess_of (init W)) h), (pexec (ess_of (init W)) (replay_prefix W h)).
    cbn [e_cached e_cur e_eng] in *. congruence.
  Qed.

  Lemma history_independent_when h o :
    engine_after None h = match last_load W h with Some f => engine_of W f | None => None end ->
    out_after W fx h o = fresh W fx o h.
  Proof. intros He. rewrite out_after_pure, fresh_pure, (ess_agree h He). reflexivity. Qed.

  (* operations other than Classify never look at the cached engine *)
  Lemma history_independent_non_classify h o :
    is_classify W o = false -> out_after W fx h o = fresh W fx o h.
  Proof.
    intros Hk. rewrite out_after_pure, fresh_pure.
    destruct (pexec_shape h (ess_of (init W))) as (_ & A2 & A3).
    destruct (pexec_shape (replay_prefix W h) (ess_of (init W))) as (_ & B2 & B3).
    rewrite last_load_replay in B2. rewrite last_parse_replay in B3.
    destruct o as [f | t | s t | f | t]; try discriminate; cbn [pstep snd]; try reflexivity.
    now rewrite A3, B3.
  Qed.

  Lemma stale_free_engine h :
    fx = false -> stale_free W h = true ->
    engine_after None h = match last_load W h with Some f => engine_of W f | None => None end.
  Proof.
    intros Hf. unfold stale_free. destruct (last_load W h) as [f|] eqn:Hl.
    - destruct (engine_of W f) as [rs|] eqn:He; cbn [is_some orb].
      + intros _. eapply engine_after_last_some; eauto.
      + intros Hn. apply negb_true_iff in Hn. now apply engine_after_no_engine.
    - intros _. clear Hf.
      assert (Hid : forall c, engine_after c h = c).
      { induction h as [|o r IH]; intros c; cbn [engine_after]; [reflexivity|].
        cbn [last_load] in Hl. destruct (last_load W r) eqn:E; [discriminate|].
        destruct o; try discriminate; apply IH; reflexivity. }
      apply Hid.
  Qed.

  (* the two guards of the task statement imply the weakest one *)
  Lemma all_rules_last h f : all_loads_rules W h = true -> last_load W h = Some f -> is_some (engine_of W f) = true.
  Proof.
    induction h as [|o r IH]; cbn [all_loads_rules last_load]; [discriminate|].
    intros Ha Hl. destruct (last_load W r) as [g|] eqn:Hlr.
    - injection Hl as ->. destruct o; try (apply IH; auto; fail).
      apply andb_true_iff in Ha as [_ Ha]. apply IH; auto.
    - destruct o as [g | t | s t | g | t]; try discriminate. injection Hl as ->.
      apply andb_true_iff in Ha as [Ha _]. exact Ha.
  Qed.

  Lemma all_rules_stale_free h : all_loads_rules W h = true -> stale_free W h = true.
  Proof.
    intros Ha. unfold stale_free. destruct (last_load W h) as [f|] eqn:Hl; [|reflexivity].
    rewrite (all_rules_last h f Ha Hl). reflexivity.
  Qed.

  Lemma no_rules_before_other_stale_free h : no_rules_before_other W h = true -> stale_free W h = true.
  Proof.
    unfold stale_free. induction h as [|o r IH]; cbn [no_rules_before_other last_load any_engine]; [reflexivity|].
    intros Hn. destruct o as [f | t | s t | f | t]; try (specialize (IH Hn); destruct (last_load W r); exact IH).
    apply andb_true_iff in Hn as [Hn1 Hn2]. specialize (IH Hn2).
    destruct (last_load W r) as [g|] eqn:Hlr.
    - destruct (engine_of W f) as [rs|] eqn:He; cbn [is_some] in *.
      + rewrite (all_rules_last r g Hn1 Hlr). reflexivity.
      + cbn [orb]. exact IH.
    - destruct (engine_of W f) as [rs|] eqn:He; cbn [is_some orb]; [reflexivity|].
      cbn [negb].
      assert (Hno : any_engine W r = false).
      { clear -Hlr. induction r as [|o r IH]; [reflexivity|]. cbn [last_load] in Hlr.
        destruct (last_load W r) eqn:E; [discriminate|]. destruct o; try discriminate; cbn [any_engine]; apply IH; reflexivity. }
      rewrite Hno. reflexivity.
  Qed.
End Proofs.

(* ---- refutation of the full statement on the unfixed model ------------------------------------- *)
Definition witness_history : list (op toy) := [@Load toy (Some true); @Load toy (Some false)].
Definition witness_op : op toy := @Classify toy tt.

Lemma witness_differs :
  out_after toy false witness_history witness_op = @OResult toy 1 /\
  fresh toy false witness_op witness_history = @OResult toy 2.
Proof. split; vm_compute; reflexivity. Qed.

Lemma not_history_independent : ~ history_independent false.
Proof.
  intros H. specialize (H toy witness_history witness_op).
  destruct witness_differs as [H1 H2]. rewrite H1, H2 in H. discriminate H.
Qed.

(* ... and in EVERY world in which some transaction is classified differently by the engine of a
   .rules file f and by the tuples of a later non-.rules load g *)
Lemma refuted_whenever_paths_differ (W : world) (f : file W) (g : option (file W)) (t : txn W) rs :
  engine_of W (Some f) = Some rs -> engine_of W g = None ->
  pure W (classify_with W rs (returned_of W g) t) <> pure W (classify_legacy W (returned_of W g) t) ->
  out_after W false [Load (Some f); Load g] (Classify t) <> fresh W false (Classify t) [Load (Some f); Load g].
Proof.
  intros Hf Hg Hd. rewrite out_after_pure, fresh_pure.
  unfold replay_prefix. cbn [last_load last_parse app pexec pstep fst snd ess_of init cached cur eng e_cached e_cur e_eng].
  rewrite Hf, Hg. cbn [new_cached classify_prog]. intros Heq. injection Heq as Heq. contradiction.
Qed.

(* one statement for both variants: whatever the variant, history independence holds under the guard,
   and unconditionally for the fixed variant *)
Lemma history_independent_partial (W : world) (fx : bool) (h : list (op W)) (o : op W) :
  fx = true \/ stale_free W h = true \/ is_classify W o = false ->
  out_after W fx h o = fresh W fx o h.
Proof.
  intros [Hf | [Hg | Hk]].
  - apply history_independent_when. rewrite (engine_after_fixed W fx h Hf). reflexivity.
  - destruct fx eqn:Hf.
    + apply history_independent_when. rewrite (engine_after_fixed W true h eq_refl). reflexivity.
    + apply history_independent_when. apply stale_free_engine; auto.
  - apply history_independent_non_classify; assumption.
Qed.

Lemma history_independent_fixed : history_independent true.
Proof. intros W h o. apply history_independent_partial. left. reflexivity. Qed.

Lemma history_independent_partial_guard (W : world) (fx : bool) (h : list (op W)) (o : op W) :
  stale_free W h = true \/ is_classify W o = false -> out_after W fx h o = fresh W fx o h.
Proof. intros H. apply history_independent_partial. right. exact H. Qed.

Lemma history_independent_all_rules (W : world) (fx : bool) (h : list (op W)) (o : op W) :
  all_loads_rules W h = true -> out_after W fx h o = fresh W fx o h.
Proof. intros H. apply history_independent_partial. right. left. apply all_rules_stale_free. exact H. Qed.

Lemma history_independent_no_rules_before_other (W : world) (fx : bool) (h : list (op W)) (o : op W) :
  no_rules_before_other W h = true -> out_after W fx h o = fresh W fx o h.
Proof.
  intros H. apply history_independent_partial. right. left. apply no_rules_before_other_stale_free. exact H.
Qed.

Lemma history_independent_of_flag (fx : bool) : fx = true -> history_independent fx.
Proof. intros ->. exact history_independent_fixed. Qed.

(* with the reset, every operation depends on the history only through [relevant_prefix] *)
Lemma out_after_relevant (W : world) (h : list (op W)) (o : op W) :
  out_after W true h o = out_after W true (relevant_prefix W h o) o.
Proof.
  rewrite !out_after_pure.
  destruct (pexec_shape W true h (ess_of W (init W))) as (A1 & A2 & A3).
  rewrite (engine_after_fixed W true h eq_refl) in A1.
  destruct o as [f | t | s t | f | t]; cbn [relevant_prefix pexec pstep snd]; try reflexivity.
  - destruct (last_load W h) as [g|] eqn:Hl; cbn [pexec pstep fst snd e_cached e_cur];
      rewrite A1, A2; cbn [ess_of init cached cur e_cached e_cur new_cached]; reflexivity.
  - destruct (last_parse W h) as [g|] eqn:Hp; cbn [pexec pstep fst snd e_eng]; rewrite A3; reflexivity.
Qed.
