(* C01/Proofs.v — first matching categorizing rule decides; proofs over Engine/Model.v for all oracles. *)
From Coq Require Import String Ascii List Bool ZArith Arith Lia.
From Tally Require Import Lib.Str Engine.StrLib Gen.C01IsExpr Engine.CaseMap Engine.Model Engine.Lemmas.
Import ListNotations.
Open Scope string_scope.

(* the categorizing rules whose condition is true *)
Definition cat_match (o : oracle) (r : rule) : bool := (is_match o r && is_cat r)%bool.

Lemma find_none_filter_nil : forall (A : Type) (f : A -> bool) l, find f l = None <-> filter f l = [].
Proof.
  intros A f l. induction l as [|x r IH]; cbn; [tauto|]. destruct (f x); [split; discriminate|exact IH].
Qed.

Lemma filter_filter : forall (A : Type) (f g : A -> bool) l, filter f (filter g l) = filter (fun x => (g x && f x)%bool) l.
Proof.
  intros A f g l. induction l as [|x r IH]; cbn; [reflexivity|].
  destruct (g x); cbn; [destruct (f x); rewrite IH; reflexivity|exact IH].
Qed.

Section C01.
  Variable o : oracle.

  Lemma first_match_decides : forall rules res,
    engine_match FirstMatch rules o = Res res ->
    match find (cat_match o) rules with
    | Some w => matched res = true /\ merchant res = r_merchant w /\ category res = r_category w /\
                subcategory res = r_subcategory w /\ matched_rule res = Some w
    | None => matched res = false /\ merchant res = "" /\ category res = "" /\ subcategory res = "" /\
              matched_rule res = None
    end.
  Proof.
    intros rules res H. apply engine_match_res in H. destruct H as (_ & _ & H).
    unfold finish in H. cbn [final_state s_first] in H. rewrite find_filter in H. fold (cat_match o) in H.
    destruct (find (cat_match o) rules) as [w|].
    - destruct (eval_fields o w (r_fields w)); [|discriminate]. injection H as <-. cbn. auto.
    - injection H as <-. cbn. auto.
  Qed.

  (* Crash never originates in the loop: only from the evaluator (oracle) *)
  Lemma crash_only_from_evaluator : forall m rules,
    engine_match m rules o = Crash ->
    o_gv_crash o = true \/ (exists r, In r rules /\ rule_ok o r = false) \/
    (exists w, In w rules /\ o_cond o w = RTrue /\ is_cat w = true /\ eval_fields o w (r_fields w) = None).
  Proof.
    intros m rules H. unfold engine_match in H.
    destruct (o_gv_crash o) eqn:G; [left; reflexivity|]. right. rewrite run_st0 in H.
    destruct (forallb (rule_ok o) rules) eqn:K.
    - right. unfold finish in H. destruct m.
      + cbn [final_state s_first] in H. destruct (find is_cat (filter (is_match o) rules)) as [w|] eqn:F; [|discriminate].
        apply find_some in F. destruct F as [Fin Fc]. apply filter_In in Fin. destruct Fin as [Fin Fm].
        destruct (eval_fields o w (r_fields w)) eqn:E; [discriminate|]. exists w. repeat split; auto.
        unfold is_match in Fm. destruct (o_cond o w); congruence.
      + cbn [final_state s_matching] in H.
        destruct (py_max (filter is_cat (filter (is_match o) rules))) as [w|] eqn:P; [|discriminate].
        apply py_max_first_max, first_max_in in P. apply filter_In in P. destruct P as [Pin Pc].
        apply filter_In in Pin. destruct Pin as [Pin Pm].
        destruct (eval_fields o w (r_fields w)) eqn:E; [discriminate|]. exists w. repeat split; auto.
        unfold is_match in Pm. destruct (o_cond o w); congruence.
    - left. apply Bool.not_true_iff_false in K. rewrite forallb_forall in K.
      destruct (existsb (fun r => negb (rule_ok o r)) rules) eqn:X.
      + apply existsb_exists in X. destruct X as (r & Hr & Hn). exists r. split; [exact Hr|].
        destruct (rule_ok o r); [discriminate|reflexivity].
      + exfalso. apply K. intros r Hr. destruct (rule_ok o r) eqn:Y; [reflexivity|].
        assert (existsb (fun r => negb (rule_ok o r)) rules = true) by (apply existsb_exists; exists r; rewrite Y; auto).
        congruence.
  Qed.

  (* a rule whose condition is false (or cannot be evaluated) has no influence on ANY part of the result, in both modes *)
  Lemma false_rules_have_no_influence : forall m pre r post,
    o_cond o r = RFalse \/ o_cond o r = RSkip ->
    engine_match m (pre ++ r :: post)%list o = engine_match m (pre ++ post)%list o.
  Proof.
    intros m pre r post H. unfold engine_match. destruct (o_gv_crash o); [reflexivity|].
    rewrite !run_app. destruct (run o st0 pre) as [s|]; [|reflexivity].
    cbn [run]. rewrite (step_nomatch o s r H). reflexivity.
  Qed.

  (* once a list of rules has a categorizing match, appending rules cannot change merchant/category/subcategory *)
  Lemma later_rules_cannot_change_mcs : forall rules post res1 res2,
    engine_match FirstMatch rules o = Res res1 -> matched res1 = true ->
    engine_match FirstMatch (rules ++ post)%list o = Res res2 ->
    matched res2 = true /\ merchant res2 = merchant res1 /\ category res2 = category res1 /\
    subcategory res2 = subcategory res1 /\ matched_rule res2 = matched_rule res1.
  Proof.
    intros rules post res1 res2 H1 M H2.
    apply first_match_decides in H1. apply first_match_decides in H2.
    rewrite find_app in H2. destruct (find (cat_match o) rules) as [w|].
    - destruct H1 as (? & ? & ? & ? & ?). destruct H2 as (? & ? & ? & ? & ?). repeat split; congruence.
    - destruct H1 as (H1 & _). congruence.
  Qed.
End C01.

(* ------------------------------------------------------------------------------------------------- *)
(* normalize_merchant: transforms first, Unknown fallback *)

Lemma apply_transforms_app : forall tf a b t,
  apply_transforms tf (a ++ b)%list t = apply_transforms tf b (apply_transforms tf a t).
Proof. intros. unfold apply_transforms. apply fold_left_app. Qed.

Lemma transforms_first_engine : forall tf o_at m rules tfs t0,
  normalize_engine tf o_at m rules tfs t0 = normalize_engine tf o_at m rules [] (apply_transforms tf tfs t0).
Proof. reflexivity. Qed.

Lemma transforms_first_legacy : forall tf lo_at rules amount date tfs t0,
  normalize_legacy tf lo_at rules amount date tfs t0 = normalize_legacy tf lo_at rules amount date [] (apply_transforms tf tfs t0).
Proof. reflexivity. Qed.

Lemma unknown_result_mcs : forall t tgs m c s i,
  unknown_result t tgs = NRes m c s i -> m = extract_name (t_desc t) /\ c = "Unknown" /\ s = "Unknown".
Proof.
  intros t tgs m c s i H. unfold unknown_result in H.
  destruct tgs; destruct (t_raws t); injection H as <- <- <- _; auto.
Qed.

(* the cached-engine path: result of normalize_merchant in terms of the first categorizing match on the
   TRANSFORMED transaction (first_match mode), Unknown fallback otherwise (both modes) *)
Lemma normalize_engine_first_match : forall tf o_at rules tfs t0 m c s i,
  normalize_engine tf o_at FirstMatch rules tfs t0 = NRes m c s i ->
  let t := apply_transforms tf tfs t0 in
  let o := o_at (t_desc t) (t_fields t) in
  match find (cat_match o) rules with
  | Some w => m = r_merchant w /\ c = r_category w /\ s = r_subcategory w
  | None => m = extract_name (t_desc t) /\ c = "Unknown" /\ s = "Unknown"
  end.
Proof.
  intros tf o_at rules tfs t0 m c s i H t o. unfold normalize_engine in H. fold t in H. fold o in H.
  destruct (engine_match FirstMatch rules o) as [|res] eqn:E; [discriminate|].
  pose proof (first_match_decides o rules res E) as D.
  destruct (find (cat_match o) rules) as [w|].
  - destruct D as (Dm & D1 & D2 & D3 & _). rewrite Dm in H. injection H as <- <- <- _. auto.
  - destruct D as (Dm & _). rewrite Dm in H. apply unknown_result_mcs in H. exact H.
Qed.

Lemma unknown_fallback_engine : forall tf o_at md rules tfs t0 m c s i,
  normalize_engine tf o_at md rules tfs t0 = NRes m c s i ->
  let t := apply_transforms tf tfs t0 in
  let o := o_at (t_desc t) (t_fields t) in
  find (cat_match o) rules = None ->
  m = extract_name (t_desc t) /\ c = "Unknown" /\ s = "Unknown".
Proof.
  intros tf o_at md rules tfs t0 m c s i H t o F. unfold normalize_engine in H. fold t in H. fold o in H.
  destruct (engine_match md rules o) as [|res] eqn:E; [discriminate|].
  assert (Dm : matched res = false).
  { destruct md.
    - pose proof (first_match_decides o rules res E) as D. rewrite F in D. tauto.
    - apply engine_match_res in E. destruct E as (_ & _ & E). unfold finish in E. cbn [final_state s_matching] in E.
      rewrite filter_filter in E. fold (cat_match o) in E.
      apply find_none_filter_nil in F. rewrite F in E. cbn in E. injection E as <-. reflexivity. }
  rewrite Dm in H. apply unknown_result_mcs in H. exact H.
Qed.

Lemma transforms_first_all :
  (forall tf o_at m rules tfs t0,
     normalize_engine tf o_at m rules tfs t0 = normalize_engine tf o_at m rules [] (apply_transforms tf tfs t0)) /\
  (forall tf lo_at rules amount date tfs t0,
     normalize_legacy tf lo_at rules amount date tfs t0 =
     normalize_legacy tf lo_at rules amount date [] (apply_transforms tf tfs t0)) /\
  (forall tf a b t, apply_transforms tf (a ++ b)%list t = apply_transforms tf b (apply_transforms tf a t)).
Proof. split; [exact transforms_first_engine|split; [exact transforms_first_legacy|exact apply_transforms_app]]. Qed.

Lemma unknown_fallback_both :
  (forall tf o_at md rules tfs t0 m c s i,
     normalize_engine tf o_at md rules tfs t0 = NRes m c s i ->
     let t := apply_transforms tf tfs t0 in
     find (cat_match (o_at (t_desc t) (t_fields t))) rules = None ->
     m = extract_name (t_desc t) /\ c = "Unknown" /\ s = "Unknown") /\
  (forall tf1 o_at1 md1 rules1 tfs1 t1 tf2 o_at2 md2 rules2 tfs2 t2 m1 c1 s1 i1 m2 c2 s2 i2,
     normalize_engine tf1 o_at1 md1 rules1 tfs1 t1 = NRes m1 c1 s1 i1 ->
     normalize_engine tf2 o_at2 md2 rules2 tfs2 t2 = NRes m2 c2 s2 i2 ->
     (let t := apply_transforms tf1 tfs1 t1 in find (cat_match (o_at1 (t_desc t) (t_fields t))) rules1 = None) ->
     (let t := apply_transforms tf2 tfs2 t2 in find (cat_match (o_at2 (t_desc t) (t_fields t))) rules2 = None) ->
     t_desc (apply_transforms tf1 tfs1 t1) = t_desc (apply_transforms tf2 tfs2 t2) ->
     m1 = m2).
Proof.
  split; [exact unknown_fallback_engine|].
  intros until i2. intros H1 H2 F1 F2 E.
  destruct (unknown_fallback_engine _ _ _ _ _ _ _ _ _ _ H1 F1) as (-> & _).
  destruct (unknown_fallback_engine _ _ _ _ _ _ _ _ _ _ H2 F2) as (-> & _).
  rewrite E. reflexivity.
Qed.

(* ------------------------------------------------------------------------------------------------- *)
(* the legacy tuple loop *)

Section LegacyC01.
  Variable lo : loracle.
  Variable du : string.
  Variables amount date : option Z.

  Definition lcat_match (r : lrule) : bool := (lmatch lo du amount date r && l_is_cat r)%bool.

  Lemma legacy_first_match : forall rules s,
    lrun lo du amount date lst0 rules = Some s ->
    ls_first s = find lcat_match rules.
  Proof.
    intros rules s H. rewrite lrun_lst0 in H. destruct (forallb (lok lo du amount date) rules); [|discriminate].
    injection H as <-. cbn [lfinal ls_first]. rewrite find_filter. reflexivity.
  Qed.

  Lemma legacy_irrelevance : forall pre r post,
    lout_of lo du amount date r = LNo ->
    lrun lo du amount date lst0 (pre ++ r :: post)%list = lrun lo du amount date lst0 (pre ++ post)%list.
  Proof.
    intros pre r post H. rewrite !lrun_app. destruct (lrun lo du amount date lst0 pre) as [s|]; [|reflexivity].
    cbn [lrun]. rewrite (lstep_no lo du amount date s r H). reflexivity.
  Qed.

  (* the condition the property speaks of: regex search on the upper-cased description and the modifiers *)
  Definition regex_cond (r : lrule) : bool :=
    match lo_search lo (l_pattern r) du with
    | RSYes =>
        if (l_parsed r && negb (match l_aconds r, l_dconds r with [], [] => true | _, _ => false end))%bool
        then check_all_conditions (l_aconds r) (l_dconds r) amount date else true
    | _ => false
    end.

  Lemma legacy_condition_partial : forall r ts,
    is_expression_pattern (l_pattern r) = false ->
    lresolve_tags lo r (l_tags r) = TOk ts ->
    lmatch lo du amount date r = regex_cond r /\ (regex_cond r = true -> lout_of lo du amount date r = LMatch ts).
  Proof.
    intros r ts HE HT. unfold lmatch, lout_of, l_outcome, regex_cond. rewrite HE, HT.
    destruct (lo_search lo (l_pattern r) du); [|split; [reflexivity|discriminate]|split; [reflexivity|discriminate]].
    destruct (l_parsed r && negb (match l_aconds r, l_dconds r with [], [] => true | _, _ => false end))%bool.
    - destruct (check_all_conditions (l_aconds r) (l_dconds r) amount date); split; auto; discriminate.
    - split; auto.
  Qed.
End LegacyC01.

Lemma normalize_legacy_first_match : forall tf lo_at rules amount date tfs t0 m c s i,
  normalize_legacy tf lo_at rules amount date tfs t0 = NRes m c s i ->
  let t := apply_transforms tf tfs t0 in
  let lo := lo_at (t_desc t) (t_fields t) in
  match find (lcat_match lo (py_upper (t_desc t)) amount date) rules with
  | Some w => m = l_merchant w /\ c = l_category w /\ s = l_subcategory w
  | None => m = extract_name (t_desc t) /\ c = "Unknown" /\ s = "Unknown"
  end.
Proof.
  intros tf lo_at rules amount date tfs t0 m c s i H t lo. unfold normalize_legacy in H. fold t in H. fold lo in H.
  destruct (lrun lo (py_upper (t_desc t)) amount date lst0 rules) as [st|] eqn:E; [|discriminate].
  rewrite <- (legacy_first_match lo (py_upper (t_desc t)) amount date rules st E).
  destruct (ls_first st) as [w|].
  - injection H as <- <- <- _. auto.
  - apply unknown_result_mcs in H. exact H.
Qed.

Lemma normalize_legacy_irrelevance : forall tf lo_at pre r post amount date tfs t0,
  (let t := apply_transforms tf tfs t0 in
   lout_of (lo_at (t_desc t) (t_fields t)) (py_upper (t_desc t)) amount date r = LNo) ->
  normalize_legacy tf lo_at (pre ++ r :: post)%list amount date tfs t0 =
  normalize_legacy tf lo_at (pre ++ post)%list amount date tfs t0.
Proof.
  intros tf lo_at pre r post amount date tfs t0 H. unfold normalize_legacy. cbv zeta in H.
  rewrite (legacy_irrelevance _ _ amount date pre r post H). reflexivity.
Qed.

Lemma normalize_legacy_later_rules : forall tf lo_at rules post amount date tfs t0 m c s i m' c' s' i',
  normalize_legacy tf lo_at rules amount date tfs t0 = NRes m c s i ->
  (let t := apply_transforms tf tfs t0 in
   find (lcat_match (lo_at (t_desc t) (t_fields t)) (py_upper (t_desc t)) amount date) rules <> None) ->
  normalize_legacy tf lo_at (rules ++ post)%list amount date tfs t0 = NRes m' c' s' i' ->
  m' = m /\ c' = c /\ s' = s.
Proof.
  intros tf lo_at rules post amount date tfs t0 m c s i m' c' s' i' H1 F H2. cbv zeta in F.
  apply normalize_legacy_first_match in H1. apply normalize_legacy_first_match in H2. cbv zeta in H1, H2.
  rewrite find_app in H2.
  destruct (find _ rules) as [w|]; [|congruence].
  destruct H1 as (-> & -> & ->). destruct H2 as (-> & -> & ->). auto.
Qed.

(* ---- the reading "a CSV pattern is a regular expression": refuted by the _is_expression_pattern guess ---- *)
Definition legacy_condition_is_regex_statement : Prop :=
  forall lo du amount date r ts,
    lresolve_tags lo r (l_tags r) = TOk ts ->
    lmatch lo du amount date r = regex_cond lo du amount date r.

Definition f1_rule : lrule :=
  {| l_id := 0; l_pattern := "(UBER|LYFT)"; l_merchant := "Rides"; l_category := "Transport"; l_subcategory := "";
     l_parsed := true; l_aconds := []; l_dconds := []; l_source := "user"; l_tags := [] |}.
(* CPython: re.search("(UBER|LYFT)", "UBER TRIP") matches; evaluating "(UBER|LYFT)" as an expression raises
   ExpressionError (unknown variable) *)
Definition f1_oracle : loracle :=
  {| lo_search := fun _ _ => RSYes; lo_expr := fun _ => RSkip; lo_dyn := fun _ _ => LErr |}.

Lemma legacy_condition_is_regex_refuted : ~ legacy_condition_is_regex_statement.
Proof.
  intros H. specialize (H f1_oracle "UBER TRIP" None None f1_rule [] eq_refl). vm_compute in H. discriminate.
Qed.

(* ------------------------------------------------------------------------------------------------- *)
(* the legacy loop consults the regex oracle ONLY at the upper-cased (Python str.upper) transformed description *)
Lemma lresolve_tags_ext : forall lo1 lo2 r raws,
  (forall e, lo_dyn lo1 r e = lo_dyn lo2 r e) -> lresolve_tags lo1 r raws = lresolve_tags lo2 r raws.
Proof.
  intros lo1 lo2 r raws H. induction raws as [|x rest IH]; [reflexivity|].
  cbn [lresolve_tags]. unfold lresolve_tag. rewrite H, IH. reflexivity.
Qed.

Lemma l_outcome_ext : forall lo1 lo2 du amount date r,
  (forall p, lo_search lo1 p du = lo_search lo2 p du) -> lo_expr lo1 r = lo_expr lo2 r ->
  (forall e, lo_dyn lo1 r e = lo_dyn lo2 r e) ->
  l_outcome lo1 du amount date r = l_outcome lo2 du amount date r.
Proof.
  intros lo1 lo2 du amount date r Hs He Hd. unfold l_outcome.
  rewrite Hs, He, (lresolve_tags_ext lo1 lo2 r (l_tags r) Hd). reflexivity.
Qed.

Lemma lrun_ext : forall lo1 lo2 du amount date rules s,
  (forall p, lo_search lo1 p du = lo_search lo2 p du) -> (forall r, lo_expr lo1 r = lo_expr lo2 r) ->
  (forall r e, lo_dyn lo1 r e = lo_dyn lo2 r e) ->
  lrun lo1 du amount date s rules = lrun lo2 du amount date s rules.
Proof.
  intros lo1 lo2 du amount date rules. induction rules as [|r rest IH]; intros s Hs He Hd; [reflexivity|].
  cbn [lrun]. unfold lstep. rewrite (l_outcome_ext lo1 lo2 du amount date r Hs (He r) (Hd r)).
  destruct (l_outcome lo2 du amount date r); auto.
Qed.

Lemma legacy_subject_is_upper_cased_description : forall tf lo_at1 lo_at2 rules amount date tfs t0,
  (let t := apply_transforms tf tfs t0 in
   let lo1 := lo_at1 (t_desc t) (t_fields t) in let lo2 := lo_at2 (t_desc t) (t_fields t) in
   (forall p, lo_search lo1 p (py_upper (t_desc t)) = lo_search lo2 p (py_upper (t_desc t))) /\
   (forall r, lo_expr lo1 r = lo_expr lo2 r) /\ (forall r e, lo_dyn lo1 r e = lo_dyn lo2 r e)) ->
  normalize_legacy tf lo_at1 rules amount date tfs t0 = normalize_legacy tf lo_at2 rules amount date tfs t0.
Proof.
  intros tf lo_at1 lo_at2 rules amount date tfs t0 H. cbv zeta in H. destruct H as (Hs & He & Hd).
  unfold normalize_legacy. rewrite (lrun_ext _ _ _ amount date rules lst0 Hs He Hd). reflexivity.
Qed.
