(* C01 — the first matching categorizing rule decides merchant, category and subcategory.
   Model: Engine/Model.v (MerchantEngine.match, apply_transforms, normalize_merchant with its cached-engine path
   and its legacy tuple loop, extract_merchant_name, the legacy modifiers), with _is_expression_pattern
   regenerated from merchant_utils.py on every run (Gen/C01IsExpr.v).  The expression evaluator, re.search and
   transform evaluation are ORACLES: every theorem below is universally quantified over them ([o], [lo], [tf],
   [o_at], [lo_at]), so it holds whatever the evaluator answers.  The model is tied to the code by the
   correspondence check of harness/c01.py, which fills the oracle tables from the implementation's own evaluator. *)
From Coq Require Import String Ascii List Bool ZArith Arith.
From Tally Require Import Lib.Str Engine.StrLib Gen.C01IsExpr Engine.CaseMap Engine.Model Engine.Lemmas C01.Proofs.
Import ListNotations.
Open Scope string_scope.

(* [cat_match o r]: r carries a category and its condition is true.  If match() returns at all, merchant,
   category, subcategory and matched_rule are those of the FIRST such rule in file order; none: unmatched, empty. *)
Theorem c01_first_match_decides :
  forall (o : oracle) (rules : list rule) (res : result),
    engine_match FirstMatch rules o = Res res ->
    match find (cat_match o) rules with
    | Some w => matched res = true /\ merchant res = r_merchant w /\ category res = r_category w /\
                subcategory res = r_subcategory w /\ matched_rule res = Some w
    | None => matched res = false /\ merchant res = "" /\ category res = "" /\ subcategory res = "" /\
              matched_rule res = None
    end.
Proof. exact first_match_decides. Qed.
Print Assumptions c01_first_match_decides.

(* match() fails only when the evaluator lets a non-ExpressionError escape (that is C08's subject): the loop
   itself never fails *)
Theorem c01_crash_only_from_evaluator :
  forall (o : oracle) (m : mode) (rules : list rule),
    engine_match m rules o = Crash ->
    o_gv_crash o = true \/ (exists r, In r rules /\ rule_ok o r = false) \/
    (exists w, In w rules /\ o_cond o w = RTrue /\ is_cat w = true /\ eval_fields o w (r_fields w) = None).
Proof. exact crash_only_from_evaluator. Qed.
Print Assumptions c01_crash_only_from_evaluator.

(* a rule whose condition is false, or raises ExpressionError, can be deleted without changing ANY part of the
   result (m/c/s, tags, tag sources, extra fields, list of matching rules, failure) — in both modes *)
Theorem c01_false_rules_have_no_influence :
  forall (o : oracle) (m : mode) (pre : list rule) (r : rule) (post : list rule),
    o_cond o r = RFalse \/ o_cond o r = RSkip ->
    engine_match m (pre ++ r :: post) o = engine_match m (pre ++ post) o.
Proof. exact false_rules_have_no_influence. Qed.
Print Assumptions c01_false_rules_have_no_influence.

(* rules placed after a list that already has its winner cannot change merchant/category/subcategory *)
Theorem c01_later_rules_cannot_change_mcs :
  forall (o : oracle) (rules post : list rule) (res1 res2 : result),
    engine_match FirstMatch rules o = Res res1 -> matched res1 = true ->
    engine_match FirstMatch (rules ++ post) o = Res res2 ->
    matched res2 = true /\ merchant res2 = merchant res1 /\ category res2 = category res1 /\
    subcategory res2 = subcategory res1 /\ matched_rule res2 = matched_rule res1.
Proof. exact later_rules_cannot_change_mcs. Qed.
Print Assumptions c01_later_rules_cannot_change_mcs.

(* normalize_merchant matches the TRANSFORMED transaction: transforms are applied first, in order *)
Theorem c01_transforms_first :
  (forall tf o_at m rules tfs t0,
     normalize_engine tf o_at m rules tfs t0 = normalize_engine tf o_at m rules [] (apply_transforms tf tfs t0)) /\
  (forall tf lo_at rules amount date tfs t0,
     normalize_legacy tf lo_at rules amount date tfs t0 =
     normalize_legacy tf lo_at rules amount date [] (apply_transforms tf tfs t0)) /\
  (forall tf a b t, apply_transforms tf (a ++ b) t = apply_transforms tf b (apply_transforms tf a t)).
Proof. exact transforms_first_all. Qed.
Print Assumptions c01_transforms_first.

(* normalize_merchant with a cached engine, first_match mode: m/c/s of the first categorizing rule whose condition is
   true of the transformed transaction; otherwise Unknown/Unknown under extract_name(transformed description) *)
Theorem c01_normalize_first_match :
  forall tf o_at rules tfs t0 m c s i,
    normalize_engine tf o_at FirstMatch rules tfs t0 = NRes m c s i ->
    let t := apply_transforms tf tfs t0 in
    let o := o_at (t_desc t) (t_fields t) in
    match find (cat_match o) rules with
    | Some w => m = r_merchant w /\ c = r_category w /\ s = r_subcategory w
    | None => m = extract_name (t_desc t) /\ c = "Unknown" /\ s = "Unknown"
    end.
Proof. exact normalize_engine_first_match. Qed.
Print Assumptions c01_normalize_first_match.

(* Unknown fallback (either mode): no categorizing rule matches => Unknown/Unknown, and the merchant name is a
   function of the (transformed) description alone — two runs with any rules, oracles, amounts, dates, fields,
   sources but equal descriptions report the same name *)
Theorem c01_unknown_fallback :
  (forall tf o_at md rules tfs t0 m c s i,
     normalize_engine tf o_at md rules tfs t0 = NRes m c s i ->
     let t := apply_transforms tf tfs t0 in
     find (cat_match (o_at (t_desc t) (t_fields t))) rules = None ->
     m = extract_name (t_desc t) /\ c = "Unknown" /\ s = "Unknown") /\
  (forall tf1 o_at1 md1 rules1 tfs1 t1 tf2 o_at2 md2 rules2 tfs2 t2 m1 c1 s1 i1 m2 c2 s2 i2,
     normalize_engine tf1 o_at1 md1 rules1 tfs1 t1 = NRes m1 c1 s1 i1 ->
     normalize_engine tf2 o_at2 md2 rules2 tfs2 t2 = NRes m2 c2 s2 i2 ->
     (let t := apply_transforms tf1 tfs1 t1 in find (cat_match (o_at1 (t_desc t) (t_fields t))) rules1 = None) ->
     (let t := apply_transforms tf2 tfs2 t2 in find (cat_match (o_at2 (t_desc t) (t_fields t))) rules2 = None) ->
     t_desc (apply_transforms tf1 tfs1 t1) = t_desc (apply_transforms tf2 tfs2 t2) ->
     m1 = m2).
Proof. exact unknown_fallback_both. Qed.
Print Assumptions c01_unknown_fallback.

(* ---- legacy CSV rules ---- *)
(* [lcat_match]: the tuple has a category and the condition THE LOOP EVALUATES is true *)
Theorem c01_legacy_first_match :
  forall tf lo_at rules amount date tfs t0 m c s i,
    normalize_legacy tf lo_at rules amount date tfs t0 = NRes m c s i ->
    let t := apply_transforms tf tfs t0 in
    let lo := lo_at (t_desc t) (t_fields t) in
    match find (lcat_match lo (py_upper (t_desc t)) amount date) rules with
    | Some w => m = l_merchant w /\ c = l_category w /\ s = l_subcategory w
    | None => m = extract_name (t_desc t) /\ c = "Unknown" /\ s = "Unknown"
    end.
Proof. exact normalize_legacy_first_match. Qed.
Print Assumptions c01_legacy_first_match.

Theorem c01_legacy_irrelevance :
  (forall tf lo_at pre r post amount date tfs t0,
     (let t := apply_transforms tf tfs t0 in
      lout_of (lo_at (t_desc t) (t_fields t)) (py_upper (t_desc t)) amount date r = LNo) ->
     normalize_legacy tf lo_at (pre ++ r :: post) amount date tfs t0 =
     normalize_legacy tf lo_at (pre ++ post) amount date tfs t0) /\
  (forall tf lo_at rules post amount date tfs t0 m c s i m' c' s' i',
     normalize_legacy tf lo_at rules amount date tfs t0 = NRes m c s i ->
     (let t := apply_transforms tf tfs t0 in
      find (lcat_match (lo_at (t_desc t) (t_fields t)) (py_upper (t_desc t)) amount date) rules <> None) ->
     normalize_legacy tf lo_at (rules ++ post) amount date tfs t0 = NRes m' c' s' i' ->
     m' = m /\ c' = c /\ s' = s).
Proof. exact (conj normalize_legacy_irrelevance normalize_legacy_later_rules). Qed.
Print Assumptions c01_legacy_irrelevance.

(* the legacy loop looks at the regex oracle only at ONE subject: Python's description.upper() of the transformed
   description (Engine/CaseMap.v, table regenerated from CPython each run) — two regex semantics that agree there give
   the same result.  upper() is not 1:1 (sharp s -> SS, fi ligature -> FI): a case-insensitive search of the raw text is a
   different condition. *)
Theorem c01_legacy_subject_is_upper_cased_description :
  forall tf lo_at1 lo_at2 rules amount date tfs t0,
    (let t := apply_transforms tf tfs t0 in
     let lo1 := lo_at1 (t_desc t) (t_fields t) in let lo2 := lo_at2 (t_desc t) (t_fields t) in
     (forall p, lo_search lo1 p (py_upper (t_desc t)) = lo_search lo2 p (py_upper (t_desc t))) /\
     (forall r, lo_expr lo1 r = lo_expr lo2 r) /\ (forall r e, lo_dyn lo1 r e = lo_dyn lo2 r e)) ->
    normalize_legacy tf lo_at1 rules amount date tfs t0 = normalize_legacy tf lo_at2 rules amount date tfs t0.
Proof. exact legacy_subject_is_upper_cased_description. Qed.
Print Assumptions c01_legacy_subject_is_upper_cased_description.

(* The property reads a legacy pattern as a regular expression (condition = re.search on the description, and the
   [amount..][date..][month=] modifiers).  The loop first GUESSES whether the pattern "is an expression"
   (_is_expression_pattern, translated in Gen/C01IsExpr.v); a pattern such as (UBER|LYFT) is then handed to the
   expression evaluator, fails there and never matches.  Full statement, its refutation, and what does hold: *)
Definition c01_legacy_condition_is_regex_statement : Prop := legacy_condition_is_regex_statement.

Theorem c01_legacy_condition_is_regex_refuted : ~ c01_legacy_condition_is_regex_statement.
Proof. exact legacy_condition_is_regex_refuted. Qed.
Print Assumptions c01_legacy_condition_is_regex_refuted.

Theorem c01_legacy_condition_is_regex_partial :
  forall lo du amount date r ts,
    is_expression_pattern (l_pattern r) = false ->        (* computable guard *)
    lresolve_tags lo r (l_tags r) = TOk ts ->
    lmatch lo du amount date r = regex_cond lo du amount date r /\
    (regex_cond lo du amount date r = true -> lout_of lo du amount date r = LMatch ts).
Proof. exact legacy_condition_partial. Qed.
Print Assumptions c01_legacy_condition_is_regex_partial.

(* ------------------------------------------------------------------------------------------------- *)
(* non-vacuity: a 4-rule file with a tag-only rule first, a rule that is skipped (ExpressionError), a
   categorizing rule that wins in third position, a later categorizing match, and a transform *)
Definition ex_rule id name cat sub tgs : rule :=
  {| r_id := id; r_name := name; r_match := "contains(""UBER"")"; r_category := cat; r_subcategory := sub;
     r_merchant := name; r_tags := tgs; r_priority := 50; r_fields := if Nat.eqb id 2 then ["note"] else [] |}.
Definition ex_rules := [ex_rule 0 "Tagger" "" "" ["Ride"; "{source}"]; ex_rule 1 "Broken" "Food" "" [];
                        ex_rule 2 "Uber" "Transport" "Rides" ["biz"]; ex_rule 3 "Late" "Shopping" "" ["late"]].
Definition ex_oracle (d : string) : oracle :=
  {| o_gv_crash := false;
     o_cond := fun r => if String.eqb d "UBER TRIP" then (if Nat.eqb (r_id r) 1 then RSkip else RTrue) else RFalse;
     o_dyn := fun _ _ => DScalar true " Amex ";
     o_field := fun _ _ => FVal "'x'" |}.
Definition ex_tf : tf_oracle := fun d _ e => if String.eqb e "strip_prefix" then Some (sdrop 7 d) else None.

Example c01_example_engine :
  match engine_match FirstMatch ex_rules (ex_oracle "UBER TRIP") with
  | Res r => (matched r, merchant r, category r, subcategory r, option_map r_id (matched_rule r), tags r, extra_fields r,
              map r_id (all_matching r)) =
             (true, "Uber", "Transport", "Rides", Some 2%nat, ["ride"; "amex"; "biz"; "late"], [("note", "'x'")], [0; 2; 3]%nat)
  | Crash => False
  end.
Proof. vm_compute. reflexivity. Qed.

Example c01_example_hypotheses :
  find (cat_match (ex_oracle "UBER TRIP")) ex_rules = Some (ex_rule 2 "Uber" "Transport" "Rides" ["biz"]) /\
  o_cond (ex_oracle "UBER TRIP") (ex_rule 1 "Broken" "Food" "" []) = RSkip /\
  engine_match FirstMatch ex_rules (ex_oracle "UBER TRIP") =
  engine_match FirstMatch [ex_rule 0 "Tagger" "" "" ["Ride"; "{source}"]; ex_rule 2 "Uber" "Transport" "Rides" ["biz"];
                           ex_rule 3 "Late" "Shopping" "" ["late"]] (ex_oracle "UBER TRIP").
Proof. vm_compute. repeat split; reflexivity. Qed.

Example c01_example_normalize :
  normalize_engine ex_tf (fun d _ => ex_oracle d) FirstMatch ex_rules [("field.description", "strip_prefix")]
                   {| t_desc := "APLPAY UBER TRIP"; t_fields := None; t_raws := [] |} =
  NRes "Uber" "Transport" "Rides"
       (Some {| i_pattern := Some "contains(""UBER"")"; i_source := "user"; i_tags := ["ride"; "amex"; "biz"; "late"];
                i_raws := [("_raw_description", "APLPAY UBER TRIP")]; i_extra := [("note", "'x'")] |}) /\
  normalize_engine ex_tf (fun d _ => ex_oracle d) MostSpecific ex_rules [] {| t_desc := "shell oil 42 #x"; t_fields := None; t_raws := [] |} =
  NRes "Shell Oil X" "Unknown" "Unknown" None.
Proof. vm_compute. split; reflexivity. Qed.

(* legacy: modifiers decide, second tuple wins; and the refutation witness really is a regex hit that is lost *)
Definition ex_lrule id p cat ac : lrule :=
  {| l_id := id; l_pattern := p; l_merchant := p; l_category := cat; l_subcategory := "Sub"; l_parsed := true;
     l_aconds := ac; l_dconds := []; l_source := "user"; l_tags := ["T"] |}.
Definition ex_lo : loracle := {| lo_search := fun p _ => if String.eqb p "NOPE" then RSNo else RSYes;
                                 lo_expr := fun _ => RSkip; lo_dyn := fun _ _ => LErr |}.
Example c01_example_legacy :
  normalize_legacy ex_tf (fun _ _ => ex_lo) [ex_lrule 0 "COSTCO" "Big" [AGt 12800]; ex_lrule 1 "COSTCO" "Small" [ALe 12800];
                                             ex_lrule 2 "NOPE" "Never" []]
                   (Some 6400%Z) None [] {| t_desc := "Costco #12"; t_fields := None; t_raws := [] |} =
  NRes "COSTCO" "Small" "Sub" (Some {| i_pattern := Some "COSTCO"; i_source := "user"; i_tags := ["t"]; i_raws := []; i_extra := [] |}) /\
  regex_cond f1_oracle "UBER TRIP" None None f1_rule = true /\ lmatch f1_oracle "UBER TRIP" None None f1_rule = false /\
  is_expression_pattern "(UBER|LYFT)" = true /\ is_expression_pattern "UBER|LYFT" = false.
Proof. vm_compute. repeat split; reflexivity. Qed.

(* upper-casing that is not 1:1, and a row that matches only the upper-cased text *)
Definition sb (l : list N) : string := string_of l.
Definition strasse_oracle : loracle :=
  {| lo_search := fun p subj => if (String.eqb p "STRASSE" && String.eqb subj "CAFE STRASSE 12")%bool then RSYes else RSNo;
     lo_expr := fun _ => RSkip; lo_dyn := fun _ _ => LErr |}.
Example c01_example_upper :
  py_upper (sb [67; 97; 102; 101; 32; 83; 116; 114; 97; 195; 159; 101; 32; 49; 50]%N) = "CAFE STRASSE 12" /\     (* "Cafe Stra\u00dfe 12" *)
  py_upper (sb [85; 110; 105; 32; 239; 172; 129; 110; 97; 110; 122]%N) = "UNI FINANZ" /\                      (* "Uni \ufb01nanz" *)
  py_upper "Costco #12 abc" = "COSTCO #12 ABC" /\
  normalize_legacy ex_tf (fun _ _ => strasse_oracle) [ex_lrule 0 "STRASSE" "Dining" []] None None []
                   {| t_desc := sb [67; 97; 102; 101; 32; 83; 116; 114; 97; 195; 159; 101; 32; 49; 50]%N; t_fields := None; t_raws := [] |} =
  NRes "STRASSE" "Dining" "Sub" (Some {| i_pattern := Some "STRASSE"; i_source := "user"; i_tags := ["t"]; i_raws := []; i_extra := [] |}).
Proof. vm_compute. repeat split; reflexivity. Qed.
